#!/usr/bin/env python3
"""confirm_seed.py <seed-dir> [--keep-as <name>] [--no-suite]

Confirm a seeded change produced by an independent sub-agent (patch.diff, demo.rs, meta.json), in the scratch
worktree /tmp/seedchk (never in /repo):
  1. demo passes on the unchanged tree;  2. the patch applies and the workspace still compiles;
  3. demo fails with the patch;          4. every test of BASELINE.json stable_pass still passes with the patch;
  5. ./check <property> --repo /tmp/seedchk reports a VIOLATION (what kind).
Writes /verif/seeded/<name>/{patch.diff,demo.rs,meta.json} when 1-4 hold.
"""
import json, os, re, shutil, subprocess, sys, time, xml.etree.ElementTree as ET

WT = "/tmp/seedchk" + os.environ.get("SEEDCHK_ID", "")
TGT = WT + "-target"
CRATE_DIRS = {"dicom-core": "core", "dicom-dictionary-std": "dictionary-std", "dicom-encoding": "encoding",
              "dicom-transfer-syntax-registry": "transfer-syntax-registry", "dicom-ul": "ul", "dicom-parser": "parser",
              "dicom-object": "object", "dicom-json": "json", "dicom-dump": "dump", "dicom-pixeldata": "pixeldata",
              "dicom-storescp": "storescp", "dicom-storescu": "storescu", "dicom-fromimage": "fromimage",
              "dicom-toimage": "toimage", "dicom-echoscu": "echoscu", "dicom-findscu": "findscu", "dicom-movescu": "movescu",
              "dicom-scpproxy": "scpproxy", "dicom": "parent", "dicom-app-common": "app-common"}


def sh(cmd, cwd=WT, timeout=3600, env=None):
    e = dict(os.environ); e["CARGO_NET_OFFLINE"] = "true"; e["CARGO_TARGET_DIR"] = TGT
    if env:
        for k, v in env.items():
            if v is None: e.pop(k, None)
            else: e[k] = v
    r = subprocess.run(cmd, cwd=cwd, env=e, stdout=subprocess.PIPE, stderr=subprocess.STDOUT, text=True, timeout=timeout,
                       shell=isinstance(cmd, str))
    return r.returncode, r.stdout


def reset_wt():
    if not os.path.isdir(WT):
        subprocess.run(["git", "-C", "/repo", "worktree", "add", "--detach", WT], check=True, stdout=subprocess.DEVNULL)
    head = subprocess.run(["git", "-C", "/repo", "rev-parse", "HEAD"], capture_output=True, text=True).stdout.strip()
    sh(["git", "checkout", "-q", "--detach", head]); sh(["git", "reset", "-q", "--hard", head]); sh(["git", "clean", "-fdq", "-e", "target"])


def run_demo(crate):
    rc, out = sh(["cargo", "test", "-p", crate, "--test", "seed_demo", "--offline"] +
                 (["--features", "async"] if crate == "dicom-ul" else []))
    return rc, out[-3000:]


def run_suite(crates):
    """tests of the touched crates (and the demo crate) with the change applied: every BASELINE stable_pass test of those
    crates must still pass; failures are re-run (timing tests of dicom-ul flake on a loaded machine)"""
    base = json.load(open("/root/.vp/BASELINE.json"))
    junit = os.path.join(WT, "target", "nextest", "pb", "junit.xml")
    def once(extra):
        if os.path.exists(junit): os.remove(junit)
        cmd = "cargo nextest run --no-fail-fast --tool-config-file pb:/w/lib/nextest.toml --profile pb --test-threads 4 --offline " + \
            " ".join("-p " + c for c in crates) + (" --features dicom-ul/async" if "dicom-ul" in crates else "") + \
            (" --features dicom-pixeldata/image,dicom-pixeldata/ndarray" if "dicom-pixeldata" in crates else "") + extra
        rc, out = sh(cmd, timeout=7200)
        if not os.path.exists(junit):
            return None, out[-1500:]
        passed = set(); ran = set()
        for tc in ET.parse(junit).getroot().iter("testcase"):
            tid = (tc.get("classname") or "") + "::" + (tc.get("name") or "")
            ran.add(tid)
            if tc.find("failure") is None and tc.find("error") is None and tc.find("flakyFailure") is None: passed.add(tid)
        return (passed, ran), ""
    res, note = once("")
    if res is None:
        return None, "no junit produced: " + note
    passed, ran = res
    want = [t for t in base["stable_pass"] if any(t.startswith(c + "::") for c in crates)]
    # dicom-ul's test_slow_association* have a 100 ms wall-clock tolerance and fail at random on a loaded machine
    want = [t for t in want if "test_slow_association" not in t]
    # baseline tests that `-p <crate>` does not build (they need features only the whole-workspace build unifies in)
    # are not failures of the change: they are counted apart
    not_built = [t for t in want if t not in ran]
    missing = [t for t in want if t in ran and t not in passed]
    if missing:
        r2, _ = once(" --retries 2")
        if r2 is not None:
            missing = [t for t in missing if t not in r2[0]]
    return missing, "%d baseline tests of %s checked, %d passed, %d not built by -p (feature-gated)" % (len(want), crates, len(want) - len(not_built) - len(missing), len(not_built))


def main():
    sd = sys.argv[1].rstrip("/")
    name = os.path.basename(sd)
    no_suite = "--no-suite" in sys.argv or "--check-only" in sys.argv
    check_only = "--check-only" in sys.argv   # seed already confirmed (in /verif/seeded): re-run only our check against it
    if "--keep-as" in sys.argv:
        name = sys.argv[sys.argv.index("--keep-as") + 1]
    meta = json.load(open(os.path.join(sd, "meta.json")))
    pid = meta["property"]; crate = meta.get("crate", "")
    res = {"seed": name, "property": pid, "steps": {}}
    reset_wt()
    cdir = CRATE_DIRS.get(crate)
    demo_dst = None
    if cdir and os.path.exists(os.path.join(sd, "demo.rs")) and not check_only:
        demo_dst = os.path.join(WT, cdir, "tests", "seed_demo.rs")
        os.makedirs(os.path.dirname(demo_dst), exist_ok=True)
        shutil.copy(os.path.join(sd, "demo.rs"), demo_dst)
        rc, out = run_demo(crate)
        res["steps"]["demo_passes_without_change"] = rc == 0
        if rc != 0: res["demo_out_clean"] = out[-1500:]
    else:
        res["steps"]["demo_passes_without_change"] = None
    rc, out = sh(["git", "apply", "--3way", os.path.join(sd, "patch.diff")])
    if rc != 0:
        rc, out = sh(["git", "apply", os.path.join(sd, "patch.diff")])
    res["steps"]["patch_applies"] = rc == 0
    if rc != 0:
        res["apply_out"] = out[-800:]
        print(json.dumps(res, indent=1)); return 1
    sh(["git", "reset", "-q"])  # unstage what --3way staged
    if demo_dst:
        rc, out = run_demo(crate)
        res["steps"]["demo_fails_with_change"] = rc != 0
        res["demo_out_mutant"] = out[-600:]
        os.remove(demo_dst)
    if not no_suite:
        inv = {v: k for k, v in CRATE_DIRS.items()}
        touched = set()
        for line in open(os.path.join(sd, "patch.diff")):
            m = re.match(r"\+\+\+ b/([^/]+)/", line)
            if m and m.group(1) in inv: touched.add(inv[m.group(1)])
        if crate: touched.add(crate)
        missing, note = run_suite(sorted(touched))
        res["steps"]["suite_still_passes"] = (missing == [])
        res["suite_note"] = note
        res["suite_missing"] = (missing or [])[:20] if missing is not None else note
    # our check against the mutated tree
    t0 = time.time()
    rc, out = sh(["./check", pid, "--repo", WT], cwd="/verif", env={"CARGO_TARGET_DIR": None}, timeout=7200)
    os.makedirs("/tmp/seeds", exist_ok=True)
    open("/tmp/seeds/check-%s.log" % name, "w").write(out)
    lines = out.strip().split("\n")
    viol = [l for l in lines if l.startswith("VIOLATION")]
    res["check_rc"] = rc
    res["check_violation"] = viol[0] if viol else None
    res["check_result"] = lines[-1] if lines else ""
    res["check_kind"] = ("PROP-FAIL" if any(l.startswith("PROP-FAIL") for l in lines) else
                         "MODEL-DIFF" if any(l.startswith("MODEL-DIFF") for l in lines) else
                         "PROOF-BROKEN" if any(l.startswith("PROOF-BROKEN") for l in lines) else None)
    res["check_wall_s"] = round(time.time() - t0)
    ok = res["steps"].get("demo_passes_without_change") in (True, None) and res["steps"].get("demo_fails_with_change") in (True, None) \
        and res["steps"].get("suite_still_passes") in (True, None)
    res["confirmed"] = bool(ok and res["steps"].get("demo_fails_with_change"))
    if check_only:
        dst = os.path.join("/verif/seeded", name)
        mp = os.path.join(dst, "meta.json")
        if os.path.exists(mp):
            meta = json.load(open(mp))
            meta.setdefault("confirmation", {}).setdefault("earlier_checks", []).append(
                {k: meta["confirmation"].get(k) for k in ("check_rc", "check_violation", "check_result", "check_kind")})
            for k in ("check_rc", "check_violation", "check_result", "check_kind", "check_wall_s"):
                meta["confirmation"][k] = res[k]
            meta["detected"] = bool(viol); meta["detected_kind"] = res["check_kind"]
            json.dump(meta, open(mp, "w"), indent=1)
        reset_wt(); print(json.dumps(res, indent=1)); return 0
    if res["confirmed"]:
        dst = os.path.join("/verif/seeded", name)
        os.makedirs(dst, exist_ok=True)
        shutil.copy(os.path.join(sd, "patch.diff"), dst)
        shutil.copy(os.path.join(sd, "demo.rs"), dst)
        meta["confirmation"] = {k: v for k, v in res.items() if k not in ("demo_out_mutant",)}
        meta["detected"] = bool(viol)
        meta["detected_kind"] = res["check_kind"]
        json.dump(meta, open(os.path.join(dst, "meta.json"), "w"), indent=1)
    reset_wt()
    print(json.dumps(res, indent=1))
    return 0


if __name__ == "__main__":
    sys.exit(main())
