#!/bin/sh
# run every property's quick check one after the other on /repo; one RESULT line per property
cd "$(dirname "$0")/.."
for p in $(ls props | sed 's/\.json$//' | sort); do
  ./check $p 2>&1 | grep -E "^(RESULT|VIOLATION)" 
done
