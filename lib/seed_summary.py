import json,glob,os,re
for f in sorted(glob.glob('/tmp/seeds/confirm-*.json')):
    t=open(f).read()
    i=t.find('{')
    name=os.path.basename(f)[8:-5]
    if i<0: print(name,'(running or error)', t[-100:].replace('\n',' ')); continue
    try: d=json.loads(t[i:])
    except Exception as e: print(name,'unparseable'); continue
    st=d.get('steps',{})
    print(name, 'demo_ok=%s demo_fails=%s suite=%s confirmed=%s | check=%s %s' % (st.get('demo_passes_without_change'), st.get('demo_fails_with_change'), st.get('suite_still_passes'), d.get('confirmed'), d.get('check_kind'), (d.get('check_result') or '')[-75:]))
    if st.get('suite_still_passes') is False: print('    suite_missing:', str(d.get('suite_missing'))[:300].replace('\n',' '))
