"""Orchestration of one property check (see ../check and DESIGN.md §2.1)."""
import fcntl, glob, hashlib, json, os, re, subprocess, sys, time

VERIF = os.path.dirname(os.path.dirname(os.path.abspath(__file__)))
LEAN = os.path.join(VERIF, "lean")
HARNESS = os.path.join(VERIF, "harness")
TARGET = os.environ.get("VERIF_TARGET_DIR", os.path.join(VERIF, ".target"))
REPO = os.environ.get("VERIF_REPO", "/repo")
ALLOWED_AXIOMS = {"propext", "Classical.choice", "Quot.sound"}
FORBIDDEN = re.compile(r"\bsorry\b|\badmit\b|^\s*axiom\s|native_decide|bv_decide|implemented_by|\bunsafe\s|maxHeartbeats\s+0\b")
THEOREM_RE = re.compile(r"^\s*(?:@\[[^\]]*\]\s*)?(?:private\s+|protected\s+)?theorem\s+([^\s:({\[]+)", re.M)


def log(*a):
    print(*a, flush=True)


def sh(cmd, cwd=None, env=None, stdin=None, stdout=None, timeout=None):
    e = dict(os.environ)
    e["CARGO_NET_OFFLINE"] = "true"
    if env:
        e.update(env)
    return subprocess.run(cmd, cwd=cwd, env=e, stdin=stdin, stdout=stdout if stdout else subprocess.PIPE,
                          stderr=subprocess.STDOUT if stdout is None else subprocess.PIPE, timeout=timeout, text=stdout is None)


class LakeLock:
    """serialise lake builds (several checks may run at once) per Lean directory"""
    def __enter__(self):
        self.f = open(os.path.join(VERIF, ".lake.lock" if LEAN == os.path.join(VERIF, "lean") else ".lake.lock-" + os.path.basename(LEAN)), "w")
        fcntl.flock(self.f, fcntl.LOCK_EX)
    def __exit__(self, *a):
        fcntl.flock(self.f, fcntl.LOCK_UN)
        self.f.close()


def load_cfg(pid):
    p = os.path.join(VERIF, "props", pid + ".json")
    cfg = json.load(open(p)) if os.path.exists(p) else {}
    low = pid.lower()
    cfg.setdefault("props_modules", ["DicomModel.Props." + pid])
    cfg.setdefault("driver", "drv_" + low)
    cfg.setdefault("harness", low)
    cfg.setdefault("stages", [["harness", "run"], ["driver"]])
    cfg.setdefault("count", {"quick": 2000, "thorough": 100000})
    cfg.setdefault("translators", [])
    cfg.setdefault("rule", "cases generated from (seed, index); distinct = distinct driver signature; trivial signatures excluded")
    cfg.setdefault("trusted_base", [])
    cfg.setdefault("assumptions", [])
    cfg.setdefault("pre_build", [])
    cfg.setdefault("stage_timeout_s", {"quick": 900, "thorough": 4 * 3600})
    return cfg


def strip_comments(src):
    # remove /- … -/ (nested) and -- … comments
    out, i, depth = [], 0, 0
    while i < len(src):
        if src.startswith("/-", i):
            depth += 1; i += 2; continue
        if depth and src.startswith("-/", i):
            depth -= 1; i += 2; continue
        if depth:
            if src[i] == "\n": out.append("\n")
            i += 1; continue
        if src.startswith("--", i):
            j = src.find("\n", i)
            i = len(src) if j < 0 else j
            continue
        out.append(src[i]); i += 1
    return "".join(out)


def module_path(mod):
    return os.path.join(LEAN, *mod.split(".")) + ".lean"


def grep_forbidden():
    hits = []
    for f in glob.glob(os.path.join(LEAN, "DicomModel", "**", "*.lean"), recursive=True) + glob.glob(os.path.join(LEAN, "Driver", "*.lean")):
        if f.endswith("AuditTool.lean"):
            continue
        for n, line in enumerate(strip_comments(open(f).read()).split("\n"), 1):
            if FORBIDDEN.search(line):
                hits.append("%s:%d: %s" % (os.path.relpath(f, VERIF), n, line.strip()[:120]))
    return hits


def run_translators(cfg):
    msgs = []
    for t in cfg["translators"]:
        r = sh([sys.executable, os.path.join(VERIF, "translators", t + ".py")], cwd=VERIF, env={"VERIF_REPO": REPO, "VERIF_LEAN_DIR": LEAN})
        if r.returncode != 0:
            msgs.append("translator %s failed: %s" % (t, r.stdout[-2000:]))
    return msgs


def write_if_changed(path, content):
    if os.path.exists(path) and open(path).read() == content:
        return
    os.makedirs(os.path.dirname(path), exist_ok=True)
    open(path, "w").write(content)


def prove(pid, cfg, tier):
    """returns dict(theorems=[...], broken=[(what, message)], axioms={thm: [..]}, driver_ok=bool, cmd=str)"""
    res = {"theorems": [], "broken": [], "axioms": {}, "driver_ok": True}
    src_thms = []
    for m in cfg["props_modules"]:
        p = module_path(m)
        if not os.path.exists(p):
            res["broken"].append((m, "missing " + p)); continue
        src_thms += [(m, t) for t in THEOREM_RE.findall(strip_comments(open(p).read()))]
    res["theorems"] = [t for _, t in src_thms]
    audit_mod = "DicomModel.Audit." + pid
    audit_src = "import DicomModel.AuditTool\n" + "".join("import %s\n" % m for m in cfg["props_modules"]) + \
        "".join("#audit_module %s\n" % m for m in cfg["props_modules"])
    write_if_changed(module_path(audit_mod), audit_src)
    cmd_drv = ["lake", "build", cfg["driver"]]
    cmd_prf = ["lake", "build"] + cfg["props_modules"] + ["DicomModel.AuditTool"]
    res["cmd"] = "cd lean && " + " ".join(cmd_prf) + " && lake env lean " + os.path.relpath(module_path(audit_mod), LEAN)
    with LakeLock():
        r = sh(cmd_drv, cwd=LEAN)
        if r.returncode != 0:
            res["driver_ok"] = False
            res["broken"].append(("model/driver " + cfg["driver"], tail_errors(r.stdout)))
        r = sh(cmd_prf, cwd=LEAN)
        if r.returncode != 0:
            res["broken"].append(("proof", tail_errors(r.stdout)))
            res["broken_theorems"] = locate_theorems(r.stdout)
            return res
    r = sh(["lake", "env", "lean", module_path(audit_mod)], cwd=LEAN)
    if r.returncode != 0:
        res["broken"].append(("audit", r.stdout[-1500:])); return res
    audited = {}
    for line in r.stdout.split("\n"):
        m = re.match(r"(?:.*info: )?AUDIT (\S+) :: ?(.*)$", line.strip())
        if m:
            audited[m.group(1)] = m.group(2).split()
    for _, t in src_thms:
        cands = [n for n in audited if n == t or n.endswith("." + t)]
        if not cands:
            res["broken"].append(("audit", "theorem %s not found in compiled module" % t)); continue
        axs = audited[cands[0]]
        res["axioms"][t] = axs
        bad = [a for a in axs if a not in ALLOWED_AXIOMS]
        if bad:
            res["broken"].append(("axioms", "theorem %s depends on %s" % (t, bad)))
    hits = grep_forbidden()
    if hits:
        res["broken"].append(("forbidden-token", "; ".join(hits[:5])))
    if tier == "thorough" and not res["broken"]:
        for m in cfg["props_modules"]:
            r = sh(["lake", "env", "leanchecker", m], cwd=LEAN)
            if r.returncode != 0:
                res["broken"].append(("leanchecker " + m, r.stdout[-800:]))
        res["cmd"] += " && lake env leanchecker " + " ".join(cfg["props_modules"])
    return res


def tail_errors(out):
    lines = [l for l in out.split("\n") if "error" in l.lower()]
    return "\n".join(lines[:12]) if lines else out[-1200:]


def locate_theorems(out):
    """map `file:line:col: error` to the nearest preceding theorem name in that file"""
    names = []
    for m in re.finditer(r"error: (\S+\.lean):(\d+):\d+", out):
        f, ln = os.path.join(LEAN, m.group(1)) if not os.path.isabs(m.group(1)) else m.group(1), int(m.group(2))
        if not os.path.exists(f):
            continue
        best = None
        for n, line in enumerate(open(f).read().split("\n"), 1):
            mm = THEOREM_RE.match(line)
            if mm and n <= ln:
                best = mm.group(1)
        if best and best not in names:
            names.append("%s (%s:%d)" % (best, os.path.relpath(f, LEAN), ln))
    return names


def build_harness(cfg):
    bins = [cfg["harness"]] if cfg["harness"] else []
    msgs = []
    if bins:
        r = sh(["cargo", "build", "--release", "--offline"] + sum((["--bin", b] for b in bins), []), cwd=HARNESS,
               env={"CARGO_TARGET_DIR": TARGET})
        if r.returncode != 0:
            msgs.append("harness build failed:\n" + r.stdout[-3000:])
    for pb in cfg["pre_build"]:
        # "cargo:<package>[:features]" builds a tool binary of /repo from its working tree
        _, pkg, *feat = pb.split(":")
        cmd = ["cargo", "build", "--release", "--offline", "-p", pkg]
        if feat and feat[0]:
            cmd += ["--features", feat[0]]
        r = sh(cmd, cwd=REPO, env={"CARGO_TARGET_DIR": os.path.join(TARGET, "repo-tools"), "RUSTFLAGS": "--cfg enet4_dicom_rs_verif"})
        if r.returncode != 0:
            msgs.append("tool build failed (%s):\n%s" % (pkg, r.stdout[-3000:]))
    return msgs


def run_stages(pid, cfg, tier, seed, only=None, count=None):
    work = os.path.join(VERIF, ".work", "%s-%s%s" % (pid, tier, "-" + ALT if ALT else ""))
    os.makedirs(work, exist_ok=True)
    n = count if count is not None else cfg["count"][tier]
    prev = None
    tmo = cfg["stage_timeout_s"][tier]
    for k, st in enumerate(cfg["stages"]):
        outp = os.path.join(work, "stage%d.out" % k)
        if st[0] == "harness":
            cmd = [os.path.join(TARGET, "release", cfg["harness"])] + st[1:] + ["--seed", str(seed), "--count", str(n), "--tier", tier]
            if only is not None:
                cmd += ["--only", str(only)]
        elif st[0] == "driver":
            cmd = [os.path.join(LEAN, ".lake", "build", "bin", cfg["driver"])] + st[1:]
        else:
            cmd = st[1:]
        env = {"VERIF_SEED": str(seed), "VERIF_TIER": tier, "VERIF_TOOLS": os.path.join(TARGET, "repo-tools", "release"),
               "VERIF_WORK": work}
        with open(outp, "wb") as fo:
            fi = open(prev, "rb") if prev else subprocess.DEVNULL
            try:
                r = sh(cmd, cwd=VERIF, env=env, stdin=fi, stdout=fo, timeout=tmo)
            except subprocess.TimeoutExpired:
                return None, "stage %d (%s) timed out after %ds" % (k, " ".join(st), tmo), outp
            finally:
                if prev: fi.close()
        if r.returncode != 0:
            err = (r.stderr or b"").decode(errors="replace")[-1500:]
            if st[0] == "harness" and only is None and k == max(i for i, s2 in enumerate(cfg["stages"]) if s2[0] == "harness"):
                # the implementation side died (panic outside catch_unwind, abort, stack overflow): keep the complete
                # case lines it wrote, find the case it died on, and go on with the cases before it
                CRASH.clear()
                CRASH.update(find_crash(cmd, outp, env, prev, r.returncode, err))
            else:
                return None, "stage %d (%s) exited %d: %s" % (k, " ".join(st), r.returncode, err), outp
        prev = outp
    # the case lines are the output of the last harness stage; verdicts are the last stage
    cases_file = None
    for k, st in enumerate(cfg["stages"]):
        if st[0] == "harness":
            cases_file = os.path.join(work, "stage%d.out" % k)
    return (cases_file, prev), None, prev


CRASH = {}


def find_crash(cmd, outp, env, stdin_file, rc, err):
    """after a harness stage exited non-zero: truncate its output to complete lines, locate the crashing case"""
    data = open(outp, "rb").read()
    cut = data.rfind(b"\n") + 1
    open(outp, "wb").write(data[:cut])
    last = -1
    for line in data[:cut].split(b"\n"):
        m = re.match(rb"#(\d+) ", line)
        if m:
            last = max(last, int(m.group(1)))
    idx = last + 1
    confirmed = False
    try:
        fi = open(stdin_file, "rb") if stdin_file else subprocess.DEVNULL
        r = sh(cmd + ["--only", str(idx)], cwd=VERIF, env=env, stdin=fi, stdout=subprocess.DEVNULL, timeout=600)
        confirmed = r.returncode != 0
    except Exception:
        pass
    return {"index": idx, "rc": rc, "stderr": err, "confirmed": confirmed,
            "replay": " ".join(cmd[:1] + [os.path.basename(cmd[0])] [:0] + cmd[1:]) + " --only %d" % idx}


def use_alt_repo(path):
    """run against a scratch worktree of /repo (mutation testing): a copy of the harness whose path
    dependencies point at the worktree, its own cargo target dir, evidence/replays kept out of /verif's"""
    global REPO, HARNESS, TARGET, ALT, LEAN
    tag = re.sub(r"[^A-Za-z0-9]+", "-", path).strip("-")
    REPO = path
    ALT = tag
    h2 = os.path.join(VERIF, ".work", "harness-" + tag)
    subprocess.run(["rsync", "-a", "--delete", "--exclude", "target", HARNESS + "/", h2 + "/"], check=True)
    ct = os.path.join(h2, "Cargo.toml")
    for f in [ct] + glob.glob(os.path.join(h2, "shims", "*", "Cargo.toml")):
        txt = open(f).read().replace('"/repo/', '"%s/' % path)
        open(f, "w").write(txt)
    HARNESS = h2
    TARGET = os.path.join(VERIF, ".target-" + tag)
    # own copy of the Lean project (with its build output), so that tables regenerated from the scratch
    # worktree never touch /verif/lean and several --repo runs can go on at once
    l2 = os.path.join(VERIF, ".work", "lean-" + tag)
    with LakeLock():
        subprocess.run(["rsync", "-a", "--delete", LEAN + "/", l2 + "/"], check=True)
    LEAN = l2


ALT = None


def known_findings():
    known = {}
    p = os.path.join(VERIF, "KNOWN_FINDINGS.txt")
    if os.path.exists(p):
        for line in open(p):
            m = re.match(r"known:\s+property=(\S+)\s+classifier=(\S+)\s*(.*)", line.strip())
            if m:
                known.setdefault(m.group(1), {})[m.group(2)] = m.group(3)
    return known


def parse_verdicts(cases_file, verdict_file):
    cases = {}
    if cases_file and os.path.exists(cases_file):
        with open(cases_file, errors="replace") as f:
            for line in f:
                if line.startswith("#"):
                    cid = line.split(" ", 1)[0]
                    cases[cid] = line.rstrip("\n")
    total = 0; sigs = {}; diffs = []; fails = []; bad = []
    with open(verdict_file, errors="replace") as f:
        for line in f:
            line = line.rstrip("\n")
            if not line:
                continue
            cid, _, body = line.partition(" ") if line.startswith("#") else ("", "", line)
            total += 1
            if body.startswith("ok"):
                s = body[2:].strip() or "-"
                sigs[s] = sigs.get(s, 0) + 1
            elif body.startswith("MODEL-DIFF"):
                diffs.append((cid, body))
            elif body.startswith("PROP-FAIL"):
                fails.append((cid, body))
            else:
                bad.append((cid, body))
    return dict(total=total, sigs=sigs, diffs=diffs, fails=fails, bad=bad, cases=cases)


def trunc(s, n=600):
    return s if len(s) <= n else s[:n] + "…(%d chars)" % len(s)


def main(argv):
    if not argv:
        log(__doc__); return 3
    pid = argv[0]
    tier = os.environ.get("VERIF_TIER", "quick")
    seed = int(os.environ.get("VERIF_SEED", "1"))
    replay = None
    alt_repo = None
    i = 1
    while i < len(argv):
        if argv[i] == "--tier": tier = argv[i + 1]; i += 1
        elif argv[i] == "--seed": seed = int(argv[i + 1]); i += 1
        elif argv[i] == "--replay": replay = argv[i + 1]; i += 1
        elif argv[i] == "--repo": alt_repo = os.path.abspath(argv[i + 1]); i += 1
        i += 1
    if tier not in ("quick", "thorough"):
        tier = "quick"
    cfg = load_cfg(pid)
    t0 = time.time()
    if alt_repo:
        use_alt_repo(alt_repo)
    only = None
    if replay:
        rp = json.load(open(replay))
        seed = rp.get("seed", seed); tier = rp.get("tier", tier)
        cid = rp.get("case_id")
        only = int(cid[1:]) if cid and cid[1:].isdigit() else None
        log("replaying %s: seed=%s tier=%s case=%s kind=%s" % (replay, seed, tier, cid, rp.get("kind")))

    # 1. regenerate tables from the working tree
    tmsgs = run_translators(cfg)
    # 2. theorems
    pr = prove(pid, cfg, tier)
    for what, msg in pr["broken"]:
        log("PROOF-BROKEN [%s] %s" % (what, trunc(msg, 1500)))
    for m in tmsgs:
        log("TRANSLATOR-BROKEN " + trunc(m, 1500))
    # 3. implementation side
    bmsgs = build_harness(cfg)
    for m in bmsgs:
        log("BUILD-FAILED " + m)
    if bmsgs:
        log("RESULT property=%s infrastructure failure (harness does not build against %s)" % (pid, REPO))
        return 3
    # 4. correspondence
    pv = None; stage_err = None
    if pr["driver_ok"]:
        files, stage_err, _ = run_stages(pid, cfg, tier, seed, only=only)
        if files:
            pv = parse_verdicts(*files)
    else:
        stage_err = "model/driver does not build; correspondence not run"
    if stage_err:
        log("CORRESPONDENCE-BROKEN " + stage_err)

    known = known_findings().get(pid, {})
    violations = []   # (kind, case_id, detail, found_input)
    known_hits = {}
    if pv:
        for cid, body in pv["fails"]:
            m = re.search(r"class=(\S+)", body)
            cls = m.group(1) if m else "unclassified"
            if cls in known:
                known_hits.setdefault(cls, (cid, body))
            else:
                violations.append(("PROP-FAIL", cid, body, True))
        for cid, body in pv["diffs"]:
            violations.append(("MODEL-DIFF", cid, body, False))
        for cid, body in pv["bad"]:
            violations.append(("MODEL-DIFF", cid, "unparseable verdict: " + body, False))
        if pv["total"] == 0 and only is None:
            violations.append(("CORRESPONDENCE-BROKEN", "", "no cases were evaluated", False))
    if stage_err:
        violations.append(("CORRESPONDENCE-BROKEN", "", stage_err, False))
    if CRASH:
        cid = "#%d" % CRASH["index"]
        violations.append(("PROP-FAIL", cid, "PROP-FAIL class=implementation-crash the implementation side exited with status %s on case %s "
                           "(panic outside catch_unwind / abort / stack overflow)%s; replay: %s :: %s" % (
                               CRASH["rc"], cid, "" if CRASH["confirmed"] else " [not reproduced in isolation]", CRASH["replay"],
                               CRASH["stderr"][-300:].replace("\n", " ")), CRASH["confirmed"]))
    for what, msg in pr["broken"]:
        violations.append(("PROOF-BROKEN", "", "%s: %s" % (what, msg), False))
    for m in tmsgs:
        violations.append(("PROOF-BROKEN", "", m, False))

    for cls, (cid, body) in sorted(known_hits.items()):
        log("KNOWN-FINDING: property=%s %s [%s] e.g. case %s: %s" % (pid, known[cls], cls, cid, trunc(body, 300)))

    # 5. verdict + replay file
    rc = 0
    replay_path = None
    if violations:
        rc = 1
        # prefer a violation with a concrete failing input
        # … and among those the shortest case line (cheap minimisation: generators emit many sizes)
        def vkey(v):
            line = pv["cases"].get(v[1], "") if pv else ""
            return (not v[3], {"PROP-FAIL": 0, "MODEL-DIFF": 1}.get(v[0], 2), len(line) if line else 1 << 30)
        violations.sort(key=vkey)
        kind, cid, detail, found = violations[0]
        os.makedirs(os.path.join(VERIF, "replays"), exist_ok=True)
        replay_path = os.path.join(VERIF, "replays", "%s%s-%s-%d.json" % (pid, ("-" + ALT) if ALT else "", tier, seed))
        rp = {
            "property": pid, "kind": kind, "seed": seed, "tier": tier, "case_id": cid,
            "case_line": pv["cases"].get(cid) if pv else None,
            "verdict": detail,
            "failing_input_found": found,
            "broken_theorems": pr.get("broken_theorems", []),
            "broken": [{"what": w, "message": m} for w, m in pr["broken"]],
            "all": [{"kind": k, "case_id": c, "detail": trunc(d, 2000)} for k, c, d, _ in violations[:50]],
            "counts": {"PROP-FAIL": sum(1 for v in violations if v[0] == "PROP-FAIL"),
                       "MODEL-DIFF": sum(1 for v in violations if v[0] == "MODEL-DIFF"),
                       "PROOF-BROKEN": sum(1 for v in violations if v[0] == "PROOF-BROKEN")},
            "how_to_replay": "./check %s --replay %s" % (pid, os.path.relpath(replay_path, VERIF)),
        }
        if not replay:
            json.dump(rp, open(replay_path, "w"), indent=1)
        for k, c, d, _ in violations[:8]:
            log("%s %s %s" % (k, c, trunc(d, 700)))
            if pv and c in pv["cases"]:
                log("   case: " + trunc(pv["cases"][c], 700))
        if len(violations) > 8:
            log("… %d more" % (len(violations) - 8))
        log("VIOLATION property=%s replay=%s%s" % (pid, replay_path, "" if found else " no-failing-input-found"))

    # 6. evidence
    wall = time.time() - t0
    if not replay:
        nthm = len(pr["theorems"])
        discharged = 0 if any(w in ("proof", "audit") or w.startswith("model/driver") for w, _ in pr["broken"]) else \
            sum(1 for t in pr["theorems"] if t in pr["axioms"] and all(a in ALLOWED_AXIOMS for a in pr["axioms"][t]))
        sigs = pv["sigs"] if pv else {}
        nontrivial = [s for s in sigs if not s.startswith("trivial")]
        samples = []
        if pv:
            for cid in list(pv["cases"])[:3]:
                samples.append(trunc(pv["cases"][cid], 500))
        samples += ["theorem " + t for t in pr["theorems"][:40]]
        ev = {
            "property_id": pid, "tier": tier, "seed": seed, "level": "proof",
            "coverage": {
                "obligations": nthm, "discharged": discharged,
                "checker_cmd": pr.get("cmd", ""),
                "trusted_base": ["Lean 4.33 kernel", "axioms allowed: propext, Classical.choice, Quot.sound (per-theorem list under 'axioms')",
                                 "correspondence harness /verif/harness (generators, canonicalisation) and line-protocol driver",
                                 ] + cfg["trusted_base"],
                "theorems": pr["theorems"], "axioms": pr["axioms"],
                "evaluations": pv["total"] if pv else 0,
                "distinct_nontrivial": len(nontrivial),
                "rule": cfg["rule"],
                "samples": samples or ["(none)"],
                "signature_histogram": dict(sorted(sigs.items(), key=lambda kv: -kv[1])[:60]),
                "model_diffs": len(pv["diffs"]) if pv else 0,
                "prop_fails": len(pv["fails"]) if pv else 0,
                "known_findings_hit": sorted(known_hits),
                "exhaustive": bool(cfg.get("exhaustive", False)),
            },
            "assumptions": cfg["assumptions"],
            "wall_s": round(wall, 2),
            "violations": len(violations),
        }
        evdir = os.path.join(VERIF, ".work", "evidence-" + ALT) if ALT else os.path.join(VERIF, "evidence")
        os.makedirs(evdir, exist_ok=True)
        json.dump(ev, open(os.path.join(evdir, pid + ".json"), "w"), indent=1)
    log("RESULT property=%s tier=%s seed=%d theorems=%d cases=%s model_diff=%s prop_fail=%s known=%d wall=%.1fs rc=%d" % (
        pid, tier, seed, len(pr["theorems"]), pv["total"] if pv else "-", len(pv["diffs"]) if pv else "-",
        len(pv["fails"]) if pv else "-", len(known_hits), wall, rc))
    return rc
