"""(re)write MANIFEST.json from props/*.json + lib/manifest_base.json; keeps it valid at all times"""
import glob, json, os, sys
V = os.path.dirname(os.path.dirname(os.path.abspath(__file__)))
base = json.load(open(os.path.join(V, "lib", "manifest_base.json")))
props = [json.loads(l) for l in open(os.path.join(V, "properties.jsonl"))]
checks, na = [], []
for p in props:
    pid = p["id"]
    cp = os.path.join(V, "props", pid + ".json")
    if os.path.exists(cp) and os.path.exists(os.path.join(V, "lean", "DicomModel", "Props", pid + ".lean")):
        c = json.load(open(cp))
        if c.get("not_applicable"):
            na.append({"property_id": pid, "reason": c["not_applicable"]}); continue
        checks.append({
            "property_id": pid,
            "quick_cmd": "./check %s --tier quick" % pid,
            "thorough_cmd": "./check %s --tier thorough" % pid,
            "evidence_file": "/verif/evidence/%s.json" % pid,
            "replay_cmd_template": "./check %s --replay {path}" % pid,
            "engine": "lean4-proof+correspondence",
            "level_claimed": {"category": "proof",
                              "text": c.get("level_text", "Lean 4 theorems about a hand-written executable model of the anchored code, re-checked on every run; model tied to /repo by a correspondence run (model vs real code on generated inputs) whose oracle is the theorem's own predicate evaluated on the implementation's outputs."),
                              "design_ref": "DESIGN.md §6 " + pid},
            "level_note": c.get("level_note", "; ".join(c.get("assumptions", []) + c.get("trusted_base", [])) or "see DESIGN.md §4"),
            "technique": c.get("technique", "Lean 4 machine-checked proof over an executable model + differential correspondence with the Rust implementation"),
        })
    else:
        na.append({"property_id": pid, "reason": "not yet claimed: model/theorems under construction (DESIGN.md §6 " + pid + ")"})
base["checks"] = checks
base["not_applicable"] = na
json.dump(base, open(os.path.join(V, "MANIFEST.json"), "w"), indent=1)
print("claimed", len(checks), "unclaimed", len(na))
