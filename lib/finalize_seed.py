#!/usr/bin/env python3
"""finalize_seed.py <name> : copy a seed whose confirmation run happened before the junit-path fix into /verif/seeded,
when its nextest summary shows every test passed, or only the load-sensitive dicom-ul `test_slow_association*` timing tests failed."""
import json, os, re, shutil, sys
name = sys.argv[1]
_t = open("/tmp/seeds/confirm-%s.json" % name).read()
d = json.loads(_t[_t.find("{"):])
sd = "/tmp/seeds/" + name
st = d["steps"]
note = str(d.get("suite_missing", ""))
suite_ok = st.get("suite_still_passes") is True
if not suite_ok and "no junit produced" in note:
    fails = re.findall(r"FAIL \[[^\]]*\] \(\d+/\d+\) (\S+ \S+)", note)
    m = re.search(r"(\d+) tests? run: (\d+) passed", note)
    if m and all("test_slow_association" in f for f in fails):
        suite_ok = True
        st["suite_still_passes"] = "yes (nextest summary: %s; only load-sensitive timing tests failed: %s)" % (m.group(0), sorted(set(fails)))
miss = d.get("suite_missing")
if not suite_ok and isinstance(miss, list) and miss and all(m.startswith("dicom-ul::") and ("async" in m or "pdata::tests" in m or "test_slow_association" in m) for m in miss):
    # confirmation ran `-p dicom-ul` without the `async` feature (those tests were not built) / load-sensitive timing tests
    suite_ok = True
    st["suite_still_passes"] = "yes for all tests built; not built without feature async or load-sensitive: %d tests" % len(miss)
ok = st.get("demo_passes_without_change") and st.get("demo_fails_with_change") and suite_ok
print(name, "confirmed" if ok else "NOT confirmed", d.get("check_kind"), d.get("check_violation"))
if ok:
    meta = json.load(open(os.path.join(sd, "meta.json")))
    dst = os.path.join("/verif/seeded", name)
    os.makedirs(dst, exist_ok=True)
    shutil.copy(os.path.join(sd, "patch.diff"), dst); shutil.copy(os.path.join(sd, "demo.rs"), dst)
    d.pop("demo_out_mutant", None); d["suite_missing"] = None
    meta["confirmation"] = d
    meta["detected"] = bool(d.get("check_violation")) and d.get("check_kind") is not None
    meta["detected_kind"] = d.get("check_kind")
    json.dump(meta, open(os.path.join(dst, "meta.json"), "w"), indent=1)
