#!/bin/sh
# confirm_many.sh <worker-id> <seed-dir>[:check-only]...   : confirm seeds one after the other in scratch worktree /tmp/seedchk<id>
ID=$1; shift
mkdir -p /tmp/seeds
for spec in "$@"; do
  sd=${spec%%:*}
  n=$(basename "$sd")
  if [ "$spec" != "$sd" ]; then
    SEEDCHK_ID=$ID python3 /verif/lib/confirm_seed.py "$sd" --check-only > /tmp/seeds/confirm-${n}b.json 2>&1
  else
    SEEDCHK_ID=$ID python3 /verif/lib/confirm_seed.py "$sd" > /tmp/seeds/confirm-$n.json 2>&1
  fi
done
