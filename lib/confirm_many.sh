#!/bin/sh
# confirm_many.sh <worker-id> <seed-dir>...   : confirm seeds one after the other in scratch worktree /tmp/seedchk<id>
ID=$1; shift
mkdir -p /tmp/seeds
for sd in "$@"; do
  n=$(basename "$sd")
  SEEDCHK_ID=$ID python3 /verif/lib/confirm_seed.py "$sd" > /tmp/seeds/confirm-$n.json 2>&1
done
