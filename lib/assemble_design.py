"""assemble DESIGN.md = design/00_head.md + DESIGN_6_asbuilt.md + generated §7 + design/80_tail.md + generated §9"""
import glob, json, os, re, subprocess
V = os.path.dirname(os.path.dirname(os.path.abspath(__file__)))

WHY_KNOWN = {
 "deflate-file-final-block-in-drop": "flate2's `DeflateEncoder` writes its final block in `Drop`, where an error cannot be reported. A repair changes the adapter contract (`DataRWAdapter::adapt_writer` returns a plain `Box<dyn Write>` with no `finish`): the tested patch (findings/C34-deflate-finish-on-flush.patch) makes `flush` terminate the stream, which is a semantic change a maintainer has to decide on — not small and safe.",
 "deflate-dataset-finished-in-drop": "same mechanism as above on the data-set API (`write_dataset_with_ts`): the adapter is never flushed, the whole stream is emitted in `Drop`.",
 "read-eofkind-taken-as-end": "the data set reader treats an I/O *error* of kind `UnexpectedEof` from the source as the graceful end of the data set. Only a source that itself returns that error kind is affected (`Ok(0)` end of stream is handled correctly). The tested patch wraps every source in a re-labelling adapter — a workaround rather than a repair of the EOF logic in the token reader.",
 "yen-overline-substituted": "behaviour of the third-party `encoding` crate's Shift_JIS/ISO-2022-JP encoders (U+00A5 → 0x5C, U+203E → 0x7E); a repair inside dicom-rs would have to special-case the characters.",
 "iso2022-esc-char": "third-party `encoding` crate accepts a bare ESC in ISO-2022-JP; same reason.",
 "gb18030-pua-substituted": "third-party `encoding` crate maps U+E5E5 to the bytes of U+F5F9 (GB18030-2005 table quirk); same reason.",
 "iso2022-pad-after-double-byte": "values encoded with ISO 2022 IR 87 end in double-byte state, so the padding blank is read as part of the text; a repair needs escape-sequence state handling per value in the text codec layer (design change).",
 "backslash-byte-in-multibyte": "the value reader splits multi-valued text at byte 0x5C *before* decoding, which cuts GBK / GB18030 / Shift_JIS / ISO-2022-JP characters whose second byte is 0x5C; a repair has to move splitting after decoding for the affected character sets (design change in `read_value_strs`, patch in findings/ hard-codes character-set names).",
 "negative-zero-unsigned": "`\"-0\"` to an unsigned target is refused by Rust's `str::parse::<uN>`; never a wrong number. A repair would special-case a sign on zero.",
 "value-type-incompatible-with-vr": "`Push*` on a missing attribute creates a value of the pushed kind under the dictionary VR (e.g. `I16` under FD), which does not re-read equal. The tested repair touches a helper plus seven `apply_push_*` functions — too large for a small-and-safe commit. The repaired variant is modelled and proved separately (`push_refines_spec_repaired`).",
 "explicit-first-vr-disagrees-dict": "by-design heuristic of `adaptive_le.rs`: explicit data whose first element carries a valid VR code other than the dictionary's is locked to implicit. The two halves of the statement overlap on identical header bytes, so no local patch satisfies both; the trade-off patch (follow the declared syntax) adds API.",
 "abort-alloc-dataset-reader": "a declared value length beyond available memory makes `Vec` allocation abort the process (observed under a 512 MiB address-space limit). The tested patch probes allocations with `try_reserve` in every value reader — environment-dependent and not a maintainers' idiom; left for upstream to decide.",
 "abort-stack-dataset-reader": "10 000+ nested undefined-length sequences overflow the stack in the mutually recursive `build_object`/`build_sequence`; a repair needs a depth limit option or an iterative builder.",
 "item-value-truncated-position": "`read_to`/`skip_bytes` add the declared length to `position` even when the source ends early (truncated last fragment). The tested patch turns this into an `UnexpectedEof` error, which changes the lenient reading of truncated files that the eager and lazy readers (and the models of C01/C06) currently share — a behaviour change for upstream to decide.",
}


def section7():
    known, fixed = [], []
    for line in open(os.path.join(V, "KNOWN_FINDINGS.txt")):
        m = re.match(r"known: property=(\S+) classifier=(\S+) (.*)", line.strip())
        if m: known.append(m.groups()); continue
        m = re.match(r"fixed: property=(\S+) (\S+) (.*)", line.strip())
        if m: fixed.append(m.groups())
    log = subprocess.run(["git", "-C", "/repo", "log", "--format=%h %s"], capture_output=True, text=True).stdout
    subj = {l.split(" ", 1)[0]: l.split(" ", 1)[1] for l in log.strip().split("\n") if " " in l}
    out = ["## 7. Defects of dicom-rs found by this work, and what was done about each", "",
           "Every entry was first shown against the real code (a concrete input, replayable through the property's runner; the",
           "documents under `findings/` give input, observed, expected, location and the tested patch). The pinned tree",
           "violated 26 of the 36 properties as stated (counting each property once). Disposition: **fixed** = one minimal unguarded `fix:` commit in `/repo`",
           "(the existing test suite, unedited, still passes; the model describes the repaired code; the driver keeps the",
           "classifier, so a regression is reported again); **known** = recorded finding, not repaired, with the reason.",
           "", "### 7.1 Repaired (`fix:` commits in /repo, %d entries)" % len(fixed), "",
           "| property | commit | subject of the commit | what failed (concrete input → observed) |", "|---|---|---|---|"]
    for pid, h, what in fixed:
        out.append("| %s | `%s` | %s | %s |" % (pid, h, subj.get(h, "").replace("|", "/"), what.replace("|", "/")))
    out += ["", "### 7.2 Known findings (not repaired, %d entries)" % len(known), "",
            "The check prints `KNOWN-FINDING: property=<id> …` for each and exits 0; any *other* classifier still fails the check.", ""]
    for pid, cls, what in known:
        out += ["* **%s `%s`** — %s" % (pid, cls, what), "  *Why not repaired:* " + WHY_KNOWN.get(cls, "see findings/"), ""]
    return "\n".join(out) + "\n"


def section9():
    st = open(os.path.join(V, "STATUS.md")).read()
    i = st.find("## Seeded changes")
    tbl = st[i:].replace("## Seeded changes", "### 9.2 Table of seeded changes") if i >= 0 else ""
    head = open(os.path.join(V, "design", "90_seeded_head.md")).read()
    return head + "\n" + tbl + "\n"


parts = [open(os.path.join(V, "design", "00_head.md")).read()]
p6 = os.path.join(V, "DESIGN_6_asbuilt.md")
parts.append(open(p6).read() if os.path.exists(p6) else "## 6. (pending)\n")
parts.append("\n---------------------------------------------------------------------------------------------------\n\n" + section7())
parts.append("\n---------------------------------------------------------------------------------------------------\n\n" + open(os.path.join(V, "design", "80_tail.md")).read())
parts.append("\n---------------------------------------------------------------------------------------------------\n\n" + section9())
parts.append("\n---------------------------------------------------------------------------------------------------\n\n" + open(os.path.join(V, "design", "95_limits.md")).read())
open(os.path.join(V, "DESIGN.md"), "w").write("\n".join(parts))
print("DESIGN.md written,", sum(p.count("\n") for p in parts), "lines")
