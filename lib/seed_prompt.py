"""print the prompt for an independent 'seeded change' sub-agent for one property (no /verif access)"""
import json, sys
pid = sys.argv[1]
wt = sys.argv[2]
out = sys.argv[3]
p = [json.loads(l) for l in open('/verif/properties.jsonl') if json.loads(l)['id'] == pid][0]
print(f"""You are testing a verification effort from the outside. Work ONLY inside the git worktree {wt} (a checkout of the Rust project Enet4/dicom-rs) and the output directory {out}. Do NOT read or touch /verif, /repo or any other directory. No network: always pass --offline to cargo; use CARGO_TARGET_DIR={wt}-target for every cargo command and delete that directory when you are done.

Here is a semantic property of dicom-rs that is supposed to hold:

  Title: {p['title']}
  Statement: {p['statement']}
  Quantifier: {p['quantifier']['text']}
  Relevant source files: {', '.join(p['anchors']['files'])}

Your job: produce TWO DIFFERENT small source changes (mutations / plausible bugs a developer could introduce in a refactor or "optimisation") to the library/tool source in the worktree, each of which
  (1) BREAKS the property above,
  (2) still compiles (the whole workspace), and
  (3) still passes the existing test suite — at least all tests of the crates you touched and their dependents that passed before (tests needing downloaded DICOM test files fail offline already; ignore those): check with `cargo test -p <crate> --offline` before and after,
  (4) needs something SPECIFIC to manifest — a particular multi-step sequence of operations, an unusual but legal input (boundary size, odd length, rare VR / variant / option, nesting, particular chunking or interleaving, a fault at a particular point), or two cooperating sites that each look fine alone — NOT something ordinary use would expose at once. Avoid blatant breakage (e.g. always returning an error, dropping all data).
The two changes must be independent of each other (different mechanisms, preferably different functions/files), each given as a separate patch against the ORIGINAL worktree state.

For each change i in (1, 2) write into {out}/{pid}-i/ :
  - patch.diff : `git diff` of the change alone (apply your change, run `git diff > …/patch.diff`, then `git checkout -- .` before the next one),
  - demo.rs : a self-contained Rust integration test (one or more #[test] fns using only the public API of the dicom-rs crates and std) that PASSES on the original code and FAILS with the change; say in meta.json into which crate's `tests/` directory it must be copied so that `cargo test -p <crate> --test seed_demo --offline` runs it (it will be copied there as `tests/seed_demo.rs`; it may only use that crate's existing dependencies and dev-dependencies). If a hook is unavoidable because the broken code is not reachable through public API, explain in meta.json instead and make the demo a unit-test snippet with instructions.
  - meta.json : {{"property": "{pid}", "crate": "<cargo package name for the demo, e.g. dicom-ul>", "files_changed": [...], "what_breaks": "...", "needs_to_manifest": "...", "ran": ["commands you ran and their outcome"]}}
Verify yourself: demo passes without the change and fails with it; touched crates' tests still pass with the change. Leave the worktree clean (git checkout -- . ; remove any test file you added) at the end. Final answer: 5 lines per change, no more.""")
