#!/bin/sh
# usage: seed_launch.sh Cxx  -> creates worktree /tmp/seedwt-Cxx and prints the prompt
set -e
P=$1
git -C /repo worktree add --detach /tmp/seedwt-$P >/dev/null 2>&1 || true
mkdir -p /tmp/seeds
python3 /verif/lib/seed_prompt.py $P /tmp/seedwt-$P /tmp/seeds
