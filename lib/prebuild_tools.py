"""build the tool binaries of /repo that some checks drive over loopback (props/*.json: pre_build)"""
import glob, json, os, sys
sys.path.insert(0, os.path.dirname(os.path.abspath(__file__)))
import runner
seen = set()
for p in sorted(glob.glob(os.path.join(runner.VERIF, "props", "*.json"))):
    cfg = json.load(open(p))
    pbs = [x for x in cfg.get("pre_build", []) if x not in seen]
    seen.update(pbs)
    if pbs:
        msgs = runner.build_harness({"harness": None, "pre_build": pbs})
        for m in msgs:
            print(m); sys.exit(1)
