//! C16 runner for the default feature set of dicom-transfer-syntax-registry (odd case indices).
#[path = "../../../src/util.rs"]
#[allow(dead_code)]
mod util;
#[path = "../../../src/bin/c16/cases.rs"]
mod cases;

fn main() {
    cases::main_for("default", 1);
}
