//! C31 — Command Group Length. Builds command sets with the real
//! `InMemDicomObject::command_from_element_iter`, writes them in Implicit VR Little Endian with the
//! real data set writer and prints elements, bytes and the (0000,0000) value.
use dicom_core::value::{PrimitiveValue, C};
use dicom_core::{Tag, VR};
use dicom_object::mem::InMemElement;
use dicom_object::InMemDicomObject;
use dicom_transfer_syntax_registry::entries::IMPLICIT_VR_LITTLE_ENDIAN;
use verif_harness::util::*;

const UI_CH: &[u8] = b"0123456789.";
const TXT_CH: &[u8] = b"ABCDEFGHIJKLMNOPQRSTUVWXYZabcdefghijklmnopqrstuvwxyz0123456789 _-.,:;()/'\"!#$%&*+<=>?@[]^`{|}~";

/// (element number, VR) of the standard command fields (PS3.7 Annex E), group 0000
const STD: &[(u16, VR)] = &[
    (0x0002, VR::UI), (0x0003, VR::UI), (0x0100, VR::US), (0x0110, VR::US), (0x0120, VR::US),
    (0x0600, VR::AE), (0x0700, VR::US), (0x0800, VR::US), (0x0900, VR::US), (0x0901, VR::AT),
    (0x0902, VR::LO), (0x0903, VR::US), (0x1000, VR::UI), (0x1001, VR::UI), (0x1002, VR::US),
    (0x1005, VR::AT), (0x1008, VR::US), (0x1020, VR::US), (0x1021, VR::US), (0x1022, VR::US),
    (0x1023, VR::US), (0x1030, VR::AE), (0x1031, VR::US), (0x0001, VR::UL), (0x0010, VR::SH),
];
const VRS: &[VR] = &[VR::UI, VR::US, VR::UL, VR::AE, VR::LO, VR::AT];

fn len_of(r: &mut Rng) -> usize {
    match r.below(16) {
        0 => 0,
        1 => 1,
        2 => 2,
        3 => 15,
        4 => 16,
        5 => 63,
        6 => 64,
        7 => r.usize(65, 300),
        8 => r.usize(1000, 5000),
        _ => r.usize(1, 40),
    }
}

fn mult_of(r: &mut Rng) -> usize {
    match r.below(10) {
        0 => 0,
        1 | 2 | 3 | 4 => 1,
        5 | 6 => 2,
        7 => 3,
        8 => r.usize(4, 9),
        _ => r.usize(10, 70),
    }
}

fn gen_value(r: &mut Rng, vr: VR) -> (PrimitiveValue, String) {
    if r.chance(1, 25) {
        return (PrimitiveValue::Empty, "e".into());
    }
    match vr {
        VR::US => {
            let v: C<u16> = (0..mult_of(r)).map(|_| r.edgy(16) as u16).collect();
            let s = format!("u16 {}{}", v.len(), v.iter().map(|x| format!(" {x}")).collect::<String>());
            (PrimitiveValue::U16(v), s)
        }
        VR::UL => {
            let v: C<u32> = (0..mult_of(r)).map(|_| r.edgy(32) as u32).collect();
            let s = format!("u32 {}{}", v.len(), v.iter().map(|x| format!(" {x}")).collect::<String>());
            (PrimitiveValue::U32(v), s)
        }
        VR::AT => {
            let v: C<Tag> = (0..mult_of(r)).map(|_| Tag(r.edgy(16) as u16, r.edgy(16) as u16)).collect();
            let s = format!(
                "at {}{}",
                v.len(),
                v.iter().map(|t| format!(" {}", ((t.0 as u32) << 16) | t.1 as u32)).collect::<String>()
            );
            (PrimitiveValue::Tags(v), s)
        }
        _ => {
            let alphabet = if vr == VR::UI { UI_CH } else { TXT_CH };
            if r.chance(1, 2) {
                let n = len_of(r);
                let t = r.ascii_from(alphabet, n);
                let s = format!("s {}", hexs(&t));
                (PrimitiveValue::Str(t), s)
            } else {
                let k = mult_of(r);
                let v: C<String> = (0..k)
                    .map(|_| {
                        let n = if r.chance(1, 6) { len_of(r) } else { r.usize(0, 18) };
                        r.ascii_from(alphabet, n)
                    })
                    .collect();
                let s = format!("ss {}{}", v.len(), v.iter().map(|t| format!(" {}", hexs(t))).collect::<String>());
                (PrimitiveValue::Strs(v), s)
            }
        }
    }
}

fn main() {
    let a = parse_args();
    quiet_panics();
    let mut out = Out::new();
    for i in case_indices(&a) {
        let mut r = Rng::for_case(a.seed, i);
        let n = match r.below(40) {
            0 => 0,
            1 | 2 | 3 => 1,
            4 => r.usize(13, 30),
            _ => r.usize(2, 12),
        };
        let mut elems: Vec<InMemElement> = Vec::new();
        let mut desc = String::new();
        let mut used: Vec<(Tag, VR)> = Vec::new();
        // one case in six may repeat tags (the map keeps the last one)
        let allow_dup = r.chance(1, 6);
        for _ in 0..n {
            let mut pickd = match r.below(24) {
                0..=5 if allow_dup && !used.is_empty() => {
                    let (t, v) = *r.pick(&used);
                    (t, if r.chance(1, 2) { v } else { *r.pick(VRS) })
                }
                // element outside the command group
                2 => (Tag(*r.pick(&[0x0008u16, 0x0010, 0x0009, 0x0002, 0xFFFF]), r.edgy(16) as u16), *r.pick(VRS)),
                // a caller-supplied group length
                3 => (Tag(0, 0), VR::UL),
                4 | 5 | 6 | 7 => (Tag(0, r.edgy(16) as u16), *r.pick(VRS)),
                _ => {
                    let (e, v) = *r.pick(STD);
                    (Tag(0, e), if v == VR::SH { VR::LO } else { v })
                }
            };
            // without `allow_dup` tags are distinct: move to the next free element number
            while !allow_dup && used.iter().any(|(t, _)| *t == pickd.0) {
                pickd.0 = Tag(pickd.0 .0, pickd.0 .1.wrapping_add(1));
            }
            let (tag, vr) = pickd;
            used.push((tag, vr));
            let (val, vs) = gen_value(&mut r, vr);
            desc.push_str(&format!(" {} {} {}", ((tag.0 as u32) << 16) | tag.1 as u32, vr.to_string(), vs));
            elems.push(InMemElement::new(tag, vr, val));
        }
        let res = catch(move || {
            let obj = InMemDicomObject::command_from_element_iter(elems);
            let mut buf = Vec::new();
            let w = obj.write_dataset_with_ts(&mut buf, &IMPLICIT_VR_LITTLE_ENDIAN.erased());
            let gl = obj.element(Tag(0, 0)).ok().and_then(|e| e.to_int::<u32>().ok());
            (w.is_ok(), buf, gl)
        });
        let tail = match res {
            Ok((true, buf, Some(gl))) => format!("W {} GL {}", hex(&buf), gl),
            Ok((false, _, _)) => "W err:write GL 0".into(),
            Ok((_, _, None)) => "W err:nogl GL 0".into(),
            Err(_) => "W panic GL 0".into(),
        };
        out.line(&format!("#{} cmd {}{} {}", i, n, desc, tail));
    }
}
