//! C03 — element / item headers. Calls the real encoders and decoders of `dicom-encoding`
//! and `VR::from_binary` / `VR::to_bytes` of `dicom-core`.
//!
//! Case index space: a fixed enumeration first (exhaustive 34 VRs x 3 syntaxes x boundary tags x
//! boundary lengths, all 65 536 VR codes as 256 rows, VR table dump, short-form table dump per codec,
//! item headers), then random / malformed cases up to `--count`.
use dicom_core::dictionary::{DataDictionary, DataDictionaryEntry};
use dicom_core::header::{DataElementHeader, Length, SequenceItemHeader, SequenceItemHeaderError};
use dicom_core::{Tag, VR};
use dicom_dictionary_std::StandardDataDictionary;
use dicom_encoding::decode::adaptive_le::AdaptiveVRLittleEndianDecoder;
use dicom_encoding::decode::explicit_be::ExplicitVRBigEndianDecoder;
use dicom_encoding::decode::explicit_le::ExplicitVRLittleEndianDecoder;
use dicom_encoding::decode::implicit_le::ImplicitVRLittleEndianDecoder;
use dicom_encoding::decode::{Decode, Error as DecError};
use dicom_encoding::encode::explicit_be::ExplicitVRBigEndianEncoder;
use dicom_encoding::encode::explicit_le::ExplicitVRLittleEndianEncoder;
use dicom_encoding::encode::implicit_le::ImplicitVRLittleEndianEncoder;
use dicom_encoding::encode::{Encode, Error as EncError};
use std::io::Cursor;
use std::str::FromStr;
use verif_harness::util::*;

pub const VRS: [VR; 34] = [
    VR::AE, VR::AS, VR::AT, VR::CS, VR::DA, VR::DS, VR::DT, VR::FL, VR::FD, VR::IS, VR::LO, VR::LT,
    VR::OB, VR::OD, VR::OF, VR::OL, VR::OV, VR::OW, VR::PN, VR::SH, VR::SL, VR::SQ, VR::SS, VR::ST,
    VR::SV, VR::TM, VR::UC, VR::UI, VR::UL, VR::UN, VR::UR, VR::US, VR::UT, VR::UV,
];

const TAGS: [(u16, u16); 9] = [
    (0x0000, 0x0000),
    (0x0008, 0x0018),
    (0x0010, 0x0010),
    (0x0009, 0x0010),
    (0x0028, 0x0010),
    (0x6002, 0x3000),
    (0x7FE0, 0x0010),
    (0xFFFF, 0xFFFF),
    (0xFFFE, 0xE000),
];
const LENS: [u32; 10] = [0, 1, 2, 0xFFFE, 0xFFFF, 0x10000, 0x10001, 0x7FFF_FFFF, 0xFFFF_FFFE, 0xFFFF_FFFF];
const TRAILER: [u8; 6] = [0xa1, 0xb2, 0xc3, 0xd4, 0xe5, 0xf6];

/// VR names come from the Debug impl (the variant name), not from `to_string` (which is under test)
fn vrn(v: VR) -> String {
    format!("{:?}", v)
}

fn dict_vr(tag: Tag) -> String {
    match StandardDataDictionary.by_tag(tag) {
        Some(e) => vrn(e.vr().relaxed()),
        None => "none".into(),
    }
}

fn enc_header(ts: u8, h: DataElementHeader) -> String {
    let mut buf: Vec<u8> = Vec::new();
    let r = catch(std::panic::AssertUnwindSafe(|| match ts {
        0 => ImplicitVRLittleEndianEncoder::default().encode_element_header(&mut buf, h),
        1 => ExplicitVRLittleEndianEncoder::default().encode_element_header(&mut buf, h),
        _ => ExplicitVRBigEndianEncoder::default().encode_element_header(&mut buf, h),
    }));
    match r {
        Err(_) => "panic".into(),
        Ok(Ok(n)) => format!("ok {} {}", hex(&buf), n),
        Ok(Err(EncError::WriteHeaderTooLong { .. })) => "err:toolong".into(),
        Ok(Err(_)) => "err:other".into(),
    }
}

fn io_kind(e: &(dyn std::error::Error + 'static)) -> &'static str {
    let mut cur: Option<&(dyn std::error::Error + 'static)> = Some(e);
    while let Some(x) = cur {
        if let Some(io) = x.downcast_ref::<std::io::Error>() {
            return if io.kind() == std::io::ErrorKind::UnexpectedEof { "err:eof" } else { "err:other" };
        }
        cur = x.source();
    }
    "err:other"
}

fn dec_err(e: &DecError) -> &'static str {
    match e {
        DecError::BadSequenceHeader { source } => match source {
            SequenceItemHeaderError::UnexpectedTag { .. } => "err:tag",
            SequenceItemHeaderError::UnexpectedDelimiterLength { .. } => "err:dlen",
            _ => "err:other",
        },
        other => io_kind(other),
    }
}

/// the explicit-locked adaptive decoder: one explicit header of a private tag read first
fn adaptive_locked() -> AdaptiveVRLittleEndianDecoder<StandardDataDictionary> {
    let d = AdaptiveVRLittleEndianDecoder::with_std_dict();
    let probe = [0x09u8, 0x00, 0x10, 0x00, b'L', b'O', 0x00, 0x00];
    let mut c = Cursor::new(&probe[..]);
    let _ = d.decode_header(&mut c);
    d
}

fn dec_header(ts: u8, data: &[u8]) -> String {
    let mut c = Cursor::new(data);
    let r = catch(std::panic::AssertUnwindSafe(|| match ts {
        0 => ImplicitVRLittleEndianDecoder::with_std_dict().decode_header(&mut c),
        1 => ExplicitVRLittleEndianDecoder::default().decode_header(&mut c),
        2 => ExplicitVRBigEndianDecoder::default().decode_header(&mut c),
        _ => adaptive_locked().decode_header(&mut c),
    }));
    match r {
        Err(_) => "panic".into(),
        Ok(Ok((h, n))) => {
            format!("ok {} {} {} {} {} {}", h.tag.0, h.tag.1, vrn(h.vr), h.len.0, n, c.position())
        }
        Ok(Err(e)) => dec_err(&e).into(),
    }
}

fn dec_item(ts: u8, data: &[u8]) -> String {
    let mut c = Cursor::new(data);
    let r = catch(std::panic::AssertUnwindSafe(|| match ts {
        0 => ImplicitVRLittleEndianDecoder::with_std_dict().decode_item_header(&mut c),
        1 => ExplicitVRLittleEndianDecoder::default().decode_item_header(&mut c),
        2 => ExplicitVRBigEndianDecoder::default().decode_item_header(&mut c),
        _ => adaptive_locked().decode_item_header(&mut c),
    }));
    match r {
        Err(_) => "panic".into(),
        Ok(Ok(SequenceItemHeader::Item { len })) => format!("ok item {} {}", len.0, c.position()),
        Ok(Ok(SequenceItemHeader::ItemDelimiter)) => format!("ok idelim 0 {}", c.position()),
        Ok(Ok(SequenceItemHeader::SequenceDelimiter)) => format!("ok sdelim 0 {}", c.position()),
        Ok(Err(e)) => dec_err(&e).into(),
    }
}

fn hdr_line(ts: u8, tag: (u16, u16), vr: VR, len: u32) -> String {
    let h = DataElementHeader::new(Tag(tag.0, tag.1), vr, Length(len));
    let e = enc_header(ts, h);
    let dec = if let Some(rest) = e.strip_prefix("ok ") {
        let hx = rest.split(' ').next().unwrap();
        let mut data = unhex(hx);
        data.extend_from_slice(&TRAILER);
        dec_header(ts, &data)
    } else {
        "-".into()
    };
    format!("hdr {} {} {} {} {} {} {} | {}", ts, tag.0, tag.1, vrn(vr), len, dict_vr(Tag(tag.0, tag.1)), e, dec)
}

fn raw_line(ts: u8, data: &[u8]) -> String {
    let dv = if data.len() >= 4 {
        let (g, e) = if ts == 2 {
            (u16::from_be_bytes([data[0], data[1]]), u16::from_be_bytes([data[2], data[3]]))
        } else {
            (u16::from_le_bytes([data[0], data[1]]), u16::from_le_bytes([data[2], data[3]]))
        };
        dict_vr(Tag(g, e))
    } else {
        "none".into()
    };
    format!("raw {} {} {} {}", ts, hex(data), dv, dec_header(ts, data))
}

fn item_bytes(ts: u8, which: u8, len: u32) -> Vec<u8> {
    let mut buf = Vec::new();
    macro_rules! go {
        ($e:expr) => {
            match which {
                0 => $e.encode_item_header(&mut buf, len).unwrap(),
                1 => $e.encode_item_delimiter(&mut buf).unwrap(),
                _ => $e.encode_sequence_delimiter(&mut buf).unwrap(),
            }
        };
    }
    match ts {
        0 => go!(ImplicitVRLittleEndianEncoder::default()),
        1 => go!(ExplicitVRLittleEndianEncoder::default()),
        _ => go!(ExplicitVRBigEndianEncoder::default()),
    }
    buf
}

fn ienc_line(ts: u8, len: u32) -> String {
    let a = item_bytes(ts, 0, len);
    let b = item_bytes(ts, 1, len);
    let c = item_bytes(ts, 2, len);
    let mut a2 = a.clone();
    a2.extend_from_slice(&TRAILER);
    let mut b2 = b.clone();
    b2.extend_from_slice(&TRAILER);
    let mut c2 = c.clone();
    c2.extend_from_slice(&TRAILER);
    format!(
        "ienc {} {} {} {} {} | {} | {} | {}",
        ts,
        len,
        hex(&a),
        hex(&b),
        hex(&c),
        dec_item(ts, &a2),
        dec_item(ts, &b2),
        dec_item(ts, &c2)
    )
}

fn idec_line(ts: u8, data: &[u8]) -> String {
    format!("idec {} {} {}", ts, hex(data), dec_item(ts, data))
}

/// is `vr` encoded / decoded with the 16-bit form by codec `k` (as observed on the compiled crate)?
fn short_observed(k: u8, vr: VR) -> String {
    let b = vr.to_bytes();
    match k {
        0 | 1 => {
            let h = DataElementHeader::new(Tag(0x0009, 0x0010), vr, Length(0));
            let e = enc_header(if k == 0 { 1 } else { 2 }, h);
            if e.ends_with(" 8") {
                "1".into()
            } else if e.ends_with(" 12") {
                "0".into()
            } else {
                "?".into()
            }
        }
        _ => {
            let le = [0x09u8, 0x00, 0x10, 0x00, b[0], b[1], 0, 0, 0, 0, 0, 0];
            let be = [0x00u8, 0x09, 0x00, 0x10, b[0], b[1], 0, 0, 0, 0, 0, 0];
            let r = match k {
                2 => dec_header(1, &le),
                3 => dec_header(2, &be),
                _ => dec_header(3, &le),
            };
            let t: Vec<&str> = r.split(' ').collect();
            if t.len() == 7 && t[5] == "8" {
                "1".into()
            } else if t.len() == 7 && t[5] == "12" {
                "0".into()
            } else {
                "?".into()
            }
        }
    }
}

fn vr_code(a: u8, b: u8) -> String {
    match catch(|| VR::from_binary([a, b])) {
        Err(_) => "panic".into(),
        Ok(Some(v)) => vrn(v),
        Ok(None) => "-".into(),
    }
}

const N_HDR: u64 = 3 * 34 * 9 * 10;
const N_ROW: u64 = 256;
const N_INFO: u64 = 34;
const N_SHORT: u64 = 5 * 34;
const N_IENC: u64 = 3 * 10;
const N_ENUM: u64 = N_HDR + N_ROW + N_INFO + N_SHORT + N_IENC;

fn enumerated(mut i: u64) -> String {
    if i < N_HDR {
        let len = LENS[(i % 10) as usize];
        i /= 10;
        let tag = TAGS[(i % 9) as usize];
        i /= 9;
        let vr = VRS[(i % 34) as usize];
        i /= 34;
        return hdr_line(i as u8, tag, vr, len);
    }
    i -= N_HDR;
    if i < N_ROW {
        let a = i as u8;
        let row: Vec<String> = (0..=255u8).map(|b| vr_code(a, b)).collect();
        return format!("vrrow {} {}", a, row.join(" "));
    }
    i -= N_ROW;
    if i < N_INFO {
        let v = VRS[i as usize];
        let s = v.to_string();
        let b = catch(|| v.to_bytes());
        let bb = match b {
            Ok(b) => format!("{} {}", b[0], b[1]),
            Err(_) => "panic panic".into(),
        };
        let back = match VR::from_str(s) {
            Ok(w) => vrn(w),
            Err(_) => "-".into(),
        };
        return format!("vrinfo {} {} {} {} {}", vrn(v), hexs(s), bb, hexs(&format!("{}", v)), back);
    }
    i -= N_INFO;
    if i < N_SHORT {
        let v = VRS[(i % 34) as usize];
        let k = (i / 34) as u8;
        return format!("short {} {} {}", k, vrn(v), short_observed(k, v));
    }
    i -= N_SHORT;
    let len = LENS[(i % 10) as usize];
    ienc_line((i / 10) as u8, len)
}

fn random_case(r: &mut Rng) -> String {
    match r.below(10) {
        0..=3 => {
            let ts = r.below(3) as u8;
            let vr = *r.pick(&VRS);
            let tag = match r.below(4) {
                0 => *r.pick(&TAGS),
                1 => (r.edgy(16) as u16, r.edgy(16) as u16),
                _ => (r.next_u32() as u16, r.next_u32() as u16),
            };
            let len = match r.below(3) {
                0 => *r.pick(&LENS),
                1 => r.edgy(16) as u32,
                _ => r.edgy(32) as u32,
            };
            hdr_line(ts, tag, vr, len)
        }
        4..=7 => {
            // malformed / arbitrary stream for the header decoders (incl. adaptive = 3)
            let ts = r.below(4) as u8;
            let mut data: Vec<u8> = match r.below(4) {
                0 => {
                    let n = r.usize(0, 16);
                    r.bytes(n)
                }
                _ => {
                    // a plausible explicit header with arbitrary VR bytes
                    let mut d = Vec::new();
                    let (g, e) = if r.chance(1, 6) { (0xFFFEu16, *r.pick(&[0xE000u16, 0xE00D, 0xE0DD, 0x1234])) } else { (r.edgy(16) as u16, r.edgy(16) as u16) };
                    if ts == 2 {
                        d.extend_from_slice(&g.to_be_bytes());
                        d.extend_from_slice(&e.to_be_bytes());
                    } else {
                        d.extend_from_slice(&g.to_le_bytes());
                        d.extend_from_slice(&e.to_le_bytes());
                    }
                    match r.below(4) {
                        0 => d.extend_from_slice(&r.bytes(2)),
                        1 => {
                            let b = r.pick(&VRS).to_bytes();
                            d.extend_from_slice(&[b[0] | 0x20, b[1]])
                        }
                        _ => d.extend_from_slice(&r.pick(&VRS).to_bytes()),
                    }
                    d.extend_from_slice(&r.bytes(8));
                    d
                }
            };
            if r.chance(1, 2) {
                let k = r.usize(0, data.len());
                data.truncate(k);
            }
            raw_line(ts, &data)
        }
        _ => {
            let ts = r.below(4) as u8;
            let mut d = Vec::new();
            let (g, e) = match r.below(6) {
                0 => (0xFFFEu16, 0xE000u16),
                1 => (0xFFFE, 0xE00D),
                2 => (0xFFFE, 0xE0DD),
                3 => (0xFFFE, r.edgy(16) as u16),
                4 => (0xE000, 0xFFFE),
                _ => (r.edgy(16) as u16, r.edgy(16) as u16),
            };
            let len = if r.chance(1, 2) { 0 } else { r.edgy(32) as u32 };
            if ts == 2 {
                d.extend_from_slice(&g.to_be_bytes());
                d.extend_from_slice(&e.to_be_bytes());
                d.extend_from_slice(&len.to_be_bytes());
            } else {
                d.extend_from_slice(&g.to_le_bytes());
                d.extend_from_slice(&e.to_le_bytes());
                d.extend_from_slice(&len.to_le_bytes());
            }
            let n = r.usize(0, 3);
            d.extend_from_slice(&r.bytes(n));
            if r.chance(1, 4) {
                let k = r.usize(0, d.len());
                d.truncate(k);
            }
            idec_line(ts, &d)
        }
    }
}

fn main() {
    let a = parse_args();
    quiet_panics();
    let mut out = Out::new();
    for i in case_indices(&a) {
        let line = if i < N_ENUM {
            enumerated(i)
        } else {
            let mut r = Rng::for_case(a.seed, i);
            random_case(&mut r)
        };
        out.line(&format!("#{} {}", i, line));
    }
}
