//! C36 — AE addresses print and parse back. Calls the real `dicom_ul::address` types.
use dicom_ul::address::{AeAddr, FullAeAddr};
use std::net::{Ipv4Addr, Ipv6Addr, SocketAddr, SocketAddrV4, SocketAddrV6};
use verif_harness::util::*;

const TITLE_CH: &[u8] = b"ABCXYZabc019_- .\\";

fn gen_title(r: &mut Rng) -> String {
    let n = match r.below(10) {
        0 => 0,
        1 => 1,
        2 => 16,
        _ => r.usize(1, 16),
    };
    let mut t = r.ascii_from(TITLE_CH, n);
    match r.below(12) {
        0 => t.push('@'),
        1 => t.insert(0, '@'),
        2 => {
            let k = r.usize(0, t.chars().count());
            let mut cs: Vec<char> = t.chars().collect();
            cs.insert(k, '@');
            t = cs.into_iter().collect()
        }
        3 => t.push('é'),
        4 => t.push('\u{1F600}'),
        _ => {}
    }
    t
}

fn gen_sock(r: &mut Rng) -> SocketAddr {
    let port = r.edgy(16) as u16;
    if r.chance(1, 2) {
        SocketAddr::V4(SocketAddrV4::new(Ipv4Addr::from(r.edgy(32) as u32), port))
    } else {
        let hi = r.edgy(64) as u128;
        let lo = r.edgy(64) as u128;
        SocketAddr::V6(SocketAddrV6::new(Ipv6Addr::from((hi << 64) | lo), port, 0, 0))
    }
}

fn gen_host(r: &mut Rng) -> String {
    let n = r.usize(0, 12);
    let mut h = r.ascii_from(b"abcpacs.example-0189", n);
    match r.below(8) {
        0 => {}
        1 => h = format!("DICOM@{h}:{}", r.below(65536)),
        2 => h.insert(0, '@'),
        _ => h = format!("{h}:{}", r.below(65536)),
    }
    h
}

fn main() {
    let a = parse_args();
    quiet_panics();
    let mut out = Out::new();
    for i in case_indices(&a) {
        let mut r = Rng::for_case(a.seed, i);
        let full = r.chance(1, 3);
        let sock = r.chance(1, 2);
        let title = if !full && r.chance(1, 4) { None } else { Some(gen_title(&mut r)) };
        let line = if sock {
            let s = gen_sock(&mut r);
            let addr = s.to_string();
            if full {
                let v = FullAeAddr::new(title.clone().unwrap(), s);
                let p = v.to_string();
                let res = match p.parse::<FullAeAddr<SocketAddr>>() {
                    Ok(b) => format!("ok {} {}", hexs(b.ae_title()), hexs(&b.socket_addr().to_string())),
                    Err(_) => "err".into(),
                };
                format!("full sock {} {} {} {}", hexs(&title.unwrap()), hexs(&addr), hexs(&p), res)
            } else {
                let v = match &title {
                    Some(t) => AeAddr::new(t.clone(), s),
                    None => AeAddr::new_socket_addr(s),
                };
                let p = v.to_string();
                let res = match p.parse::<AeAddr<SocketAddr>>() {
                    Ok(b) => format!(
                        "ok {} {}",
                        b.ae_title().map(|t| format!("some:{}", hexs(t))).unwrap_or("none".into()),
                        hexs(&b.socket_addr().to_string())
                    ),
                    Err(_) => "err".into(),
                };
                format!(
                    "ae sock {} {} {} {}",
                    title.map(|t| format!("some:{}", hexs(&t))).unwrap_or("none".into()),
                    hexs(&addr),
                    hexs(&p),
                    res
                )
            }
        } else {
            let addr = gen_host(&mut r);
            if full {
                let v = FullAeAddr::new(title.clone().unwrap(), addr.clone());
                let p = v.to_string();
                let res = match p.parse::<FullAeAddr<String>>() {
                    Ok(b) => format!("ok {} {}", hexs(b.ae_title()), hexs(b.socket_addr())),
                    Err(_) => "err".into(),
                };
                format!("full str {} {} {} {}", hexs(&title.unwrap()), hexs(&addr), hexs(&p), res)
            } else {
                let v = match &title {
                    Some(t) => AeAddr::new(t.clone(), addr.clone()),
                    None => AeAddr::new_socket_addr(addr.clone()),
                };
                let p = v.to_string();
                let res = match p.parse::<AeAddr<String>>() {
                    Ok(b) => format!(
                        "ok {} {}",
                        b.ae_title().map(|t| format!("some:{}", hexs(t))).unwrap_or("none".into()),
                        hexs(b.socket_addr())
                    ),
                    Err(_) => "err".into(),
                };
                format!(
                    "ae str {} {} {} {}",
                    title.map(|t| format!("some:{}", hexs(&t))).unwrap_or("none".into()),
                    hexs(&addr),
                    hexs(&p),
                    res
                )
            }
        };
        out.line(&format!("#{} {}", i, line));
    }
}
