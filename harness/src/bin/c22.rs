//! C22 — Modality / VOI LUT outputs. Calls the real `dicom_pixeldata::Lut` constructors and `get`
//! for *every* table index, and `DecodedPixelData::to_vec_with_options` for sample extraction.
//!
//! Lines (all `f64` parameters as 16-hex-digit bit patterns):
//! `lut <kind> <bits> <signed> <T> <fn> <slope> <intercept> <width> <center> <probes hex(u32 LE)> R <res>`
//!     res = `err` | `panic` | `ok:<table: every get(i), i = 0..2^bits, T little-endian> <get of each probe>`
//! `vec <bitsalloc> <bitsstored> <signed> <T> <mod> <voi> <fn> <slope> <intercept> <width> <center> <via> <pixel data hex> R <res>`
//!     res = `err` | `panic` | `ok:<values, T little-endian>`
use dicom_core::{DataElement, PrimitiveValue, VR};
use dicom_dictionary_std::{tags, uids};
use dicom_object::{FileMetaTableBuilder, InMemDicomObject};
use dicom_pixeldata::{
    ConvertOptions, Lut, ModalityLutOption, PixelDecoder, Rescale, VoiLutFunction, VoiLutOption, WindowLevel,
    WindowLevelTransform,
};
use verif_harness::util::*;

trait Le: Copy {
    fn put_le(&self, out: &mut Vec<u8>);
}
macro_rules! le_impl {
    ($($t:ty),*) => {$(impl Le for $t { fn put_le(&self, out: &mut Vec<u8>) { out.extend_from_slice(&self.to_le_bytes()) } })*};
}
le_impl!(u8, u16, i16, i32, f32, f64);

fn fbits(v: f64) -> String {
    format!("{:016x}", v.to_bits())
}

fn vfn(name: &str) -> VoiLutFunction {
    match name {
        "linear" => VoiLutFunction::Linear,
        "exact" => VoiLutFunction::LinearExact,
        _ => VoiLutFunction::Sigmoid,
    }
}

struct P {
    slope: f64,
    intercept: f64,
    width: f64,
    center: f64,
}

fn gen_params(r: &mut Rng, bits: u32, signed: bool) -> P {
    let slope = match r.below(14) {
        0..=3 => 1.0,
        4 => 2.0,
        5 => 0.5,
        6 => 2.5,
        7 => -1.0,
        8 => 0.0,
        9 => 0.1,
        10 => 1.0000001,
        11 => (r.below(4000) as f64) / 1000.0,
        12 => (r.below(4000) as f64) / 1000.0 - 2.0,
        _ => 1e-3,
    };
    let intercept = match r.below(10) {
        0..=2 => 0.0,
        3 => -1024.0,
        4 => 1024.0,
        5 => -0.5,
        6 => 100.25,
        7 => (r.below(400_000) as f64) / 100.0 - 2000.0,
        8 => -(r.below(70000) as f64),
        _ => 0.3,
    };
    let size = (1u64 << bits) as f64;
    let (xmin, xmax) = if signed { (-size / 2.0, size / 2.0 - 1.0) } else { (0.0, size - 1.0) };
    let (a, b) = (slope * xmin + intercept, slope * xmax + intercept);
    let (rmin, rmax) = if a <= b { (a, b) } else { (b, a) };
    let span = (rmax - rmin).max(1.0);
    let center = match r.below(8) {
        0 => 0.0,
        1 => 0.5,
        2 => rmin,
        3 => rmax,
        4 => (rmin + rmax) / 2.0,
        5 => 40.0,
        _ => rmin + span * ((r.below(1400) as f64) / 1000.0 - 0.2),
    };
    let width = match r.below(14) {
        0 => 0.0,
        1 => 0.5,
        2 => 1.0,
        3 => 1.0000001,
        4 => 2.0,
        5 => -5.0,
        6 => 1e9,
        7 => span,
        8 => span + 1.0,
        9 => 300.0,
        10 => 4096.0,
        _ => span * (r.below(2000) as f64 + 1.0) / 1000.0,
    };
    P { slope, intercept, width, center }
}

macro_rules! lut_case {
    ($t:ty, $kind:expr, $bits:expr, $signed:expr, $f:expr, $p:expr, $probes:expr) => {{
        let res = catch(std::panic::AssertUnwindSafe(|| {
            let rescale = Rescale::new($p.slope, $p.intercept);
            let voi = WindowLevelTransform::new(vfn($f), WindowLevel { width: $p.width, center: $p.center });
            let lut: Result<Lut<$t>, _> = match $kind {
                "rescale" => Lut::new_rescale($bits, $signed, rescale),
                "rescale-window" => Lut::new_rescale_and_window($bits, $signed, rescale, voi),
                _ => Lut::new_window($bits, $signed, voi),
            };
            lut.ok().map(|lut| {
                let mut tab = Vec::new();
                for i in 0..(1u32 << $bits) {
                    lut.get(i).put_le(&mut tab);
                }
                let mut pr = Vec::new();
                for s in $probes.iter() {
                    lut.get(*s).put_le(&mut pr);
                }
                (tab, pr)
            })
        }));
        match res {
            Ok(Some((tab, pr))) => format!("ok:{} {}", hex(&tab), hex(&pr)),
            Ok(None) => "err".to_string(),
            Err(_) => "panic".to_string(),
        }
    }};
}

fn lut8_case(kind: &str, bits: u16, signed: bool, f: &str, p: &P, probes: &[u32]) -> String {
    let res = catch(std::panic::AssertUnwindSafe(|| {
        let rescale = Rescale::new(p.slope, p.intercept);
        let voi = WindowLevelTransform::new(vfn(f), WindowLevel { width: p.width, center: p.center });
        let lut: Result<Lut<u8>, _> = match kind {
            "rescale-window8" => Lut::new_rescale_and_window_8bit(bits, signed, rescale, voi),
            _ => Lut::new_window_8bit(bits, signed, voi),
        };
        lut.ok().map(|lut| {
            let tab: Vec<u8> = (0..(1u32 << bits)).map(|i| lut.get(i)).collect();
            let pr: Vec<u8> = probes.iter().map(|s| lut.get(*s)).collect();
            (tab, pr)
        })
    }));
    match res {
        Ok(Some((tab, pr))) => format!("ok:{} {}", hex(&tab), hex(&pr)),
        Ok(None) => "err".to_string(),
        Err(_) => "panic".to_string(),
    }
}

macro_rules! vec_case {
    ($t:ty, $obj:expr, $opts:expr) => {{
        let res = catch(std::panic::AssertUnwindSafe(|| {
            let px = match $obj.decode_pixel_data() {
                Ok(px) => px,
                Err(_) => return None,
            };
            px.to_vec_with_options::<$t>(&$opts).ok().map(|v| {
                let mut out = Vec::new();
                for x in v.iter() {
                    x.put_le(&mut out);
                }
                out
            })
        }));
        match res {
            Ok(Some(v)) => format!("ok:{}", hex(&v)),
            Ok(None) => "err".to_string(),
            Err(_) => "panic".to_string(),
        }
    }};
}

fn main() {
    let a = parse_args();
    quiet_panics();
    let mut out = Out::new();
    for i in case_indices(&a) {
        let mut r = Rng::for_case(a.seed, i);
        let signed = r.chance(1, 2);
        let f = *r.pick(&["linear", "linear", "exact", "sigmoid"]);
        if i % 4 != 3 {
            // ---- table of a Lut, every index ----
            // bits stored cycles through 1..=16; the big tables are visited less often in the quick tier
            let k = i / 4 * 3 + i % 4;
            let bits: u16 = if a.thorough {
                (k % 16) as u16 + 1
            } else {
                let b = (k % 16) as u16 + 1;
                if b > 12 && r.chance(2, 3) {
                    r.range(1, 12) as u16
                } else {
                    b
                }
            };
            let p = gen_params(&mut r, bits as u32, signed);
            let kind = *r.pick(&["rescale", "rescale", "rescale-window", "rescale-window", "window", "rescale-window8", "window8"]);
            let t = if kind.ends_with('8') {
                "u8"
            } else {
                *r.pick(&["u8", "u16", "u16", "i16", "i32", "f32", "f64", "f64", "f64"])
            };
            let mut probes: Vec<u32> = Vec::new();
            for _ in 0..8 {
                let low = r.next_u32() & ((1u32 << bits) - 1);
                let high = match r.below(4) {
                    0 => 1u32 << bits,
                    1 => 0xffff_ffffu32 << bits,
                    2 => (r.next_u32() << bits) & 0xffff,
                    _ => r.next_u32() << bits,
                };
                probes.push(low | high);
            }
            let mut pb = Vec::new();
            for s in &probes {
                pb.extend_from_slice(&s.to_le_bytes());
            }
            let res = match (kind, t) {
                ("rescale-window8", _) | ("window8", _) => lut8_case(kind, bits, signed, f, &p, &probes),
                (_, "u8") => lut_case!(u8, kind, bits, signed, f, p, probes),
                (_, "u16") => lut_case!(u16, kind, bits, signed, f, p, probes),
                (_, "i16") => lut_case!(i16, kind, bits, signed, f, p, probes),
                (_, "i32") => lut_case!(i32, kind, bits, signed, f, p, probes),
                (_, "f32") => lut_case!(f32, kind, bits, signed, f, p, probes),
                _ => lut_case!(f64, kind, bits, signed, f, p, probes),
            };
            out.line(&format!(
                "#{} lut {} {} {} {} {} {} {} {} {} {} R {}",
                i,
                kind,
                bits,
                signed as u8,
                t,
                f,
                fbits(p.slope),
                fbits(p.intercept),
                fbits(p.width),
                fbits(p.center),
                hex(&pb),
                res
            ));
        } else {
            // ---- sample extraction: a monochrome image through to_vec_with_options ----
            let alloc: u16 = if r.chance(1, 2) { 8 } else { 16 };
            let stored: u16 = if r.chance(1, 3) { alloc } else { r.range(1, alloc as u64) as u16 };
            let p = gen_params(&mut r, stored as u32, signed);
            let modality = *r.pick(&["default", "default", "override", "override", "none"]);
            let voi = *r.pick(&["default", "default", "identity", "first", "custom", "customfn", "customfn"]);
            let t = *r.pick(&["u8", "u16", "i16", "i32", "f32", "f64", "f64"]);
            // pixel data: every value of the low `stored` bits (capped), with varying bits above
            let n: usize = if alloc == 8 { 256 } else { 2048 };
            let mut data: Vec<u8> = Vec::with_capacity(n * 2);
            let mask: u32 = (1u32 << stored) - 1;
            for k in 0..n as u32 {
                let low = if (1u32 << stored) <= n as u32 { k & mask } else if k % 4 == 0 { r.next_u32() & mask } else {
                    // boundaries
                    [0, 1, mask, mask - 1, mask / 2, mask / 2 + 1, k & mask][(k % 7) as usize] & mask
                };
                let high = match (k / (mask + 1).max(1)) % 3 {
                    0 => 0,
                    1 => !mask,
                    _ => r.next_u32() & !mask,
                };
                let v = low | high;
                if alloc == 8 {
                    data.push(v as u8);
                } else {
                    data.extend_from_slice(&(v as u16).to_le_bytes());
                }
            }
            // the attribute route needs decimal strings that parse back to the same f64
            let via = if r.chance(1, 2) { "attr" } else { "opt" };
            let mut obj = InMemDicomObject::new_empty();
            obj.put(DataElement::new(tags::SOP_CLASS_UID, VR::UI, uids::SECONDARY_CAPTURE_IMAGE_STORAGE));
            obj.put(DataElement::new(tags::SOP_INSTANCE_UID, VR::UI, "1.2.3.4"));
            obj.put(DataElement::new(tags::SAMPLES_PER_PIXEL, VR::US, PrimitiveValue::from(1u16)));
            obj.put(DataElement::new(tags::PHOTOMETRIC_INTERPRETATION, VR::CS, "MONOCHROME2"));
            obj.put(DataElement::new(tags::ROWS, VR::US, PrimitiveValue::from(1u16)));
            obj.put(DataElement::new(tags::COLUMNS, VR::US, PrimitiveValue::from(n as u16)));
            obj.put(DataElement::new(tags::BITS_ALLOCATED, VR::US, PrimitiveValue::from(alloc)));
            obj.put(DataElement::new(tags::BITS_STORED, VR::US, PrimitiveValue::from(stored)));
            obj.put(DataElement::new(tags::HIGH_BIT, VR::US, PrimitiveValue::from(stored - 1)));
            obj.put(DataElement::new(tags::PIXEL_REPRESENTATION, VR::US, PrimitiveValue::from(signed as u16)));
            if via == "attr" {
                obj.put(DataElement::new(tags::RESCALE_SLOPE, VR::DS, format!("{}", p.slope)));
                obj.put(DataElement::new(tags::RESCALE_INTERCEPT, VR::DS, format!("{}", p.intercept)));
                obj.put(DataElement::new(tags::WINDOW_CENTER, VR::DS, format!("{}", p.center)));
                obj.put(DataElement::new(tags::WINDOW_WIDTH, VR::DS, format!("{}", p.width)));
                obj.put(DataElement::new(
                    tags::VOILUT_FUNCTION,
                    VR::CS,
                    match f {
                        "linear" => "LINEAR",
                        "exact" => "LINEAR_EXACT",
                        _ => "SIGMOID",
                    },
                ));
            }
            obj.put(DataElement::new(tags::PIXEL_DATA, VR::OB, PrimitiveValue::U8(data.clone().into())));
            let obj = obj
                .with_meta(
                    FileMetaTableBuilder::new()
                        .transfer_syntax(uids::EXPLICIT_VR_LITTLE_ENDIAN)
                        .media_storage_sop_class_uid(uids::SECONDARY_CAPTURE_IMAGE_STORAGE)
                        .media_storage_sop_instance_uid("1.2.3.4"),
                )
                .unwrap();
            // effective options
            let (modality, voi) = if via == "attr" {
                // parameters come from the attributes
                (if modality == "override" { "default" } else { modality }, if voi == "custom" || voi == "customfn" { "first" } else { voi })
            } else {
                (if modality == "default" { "override" } else { modality }, if voi == "first" || voi == "custom" { "customfn" } else { voi })
            };
            let mut opts = ConvertOptions::new();
            opts = opts.with_modality_lut(match modality {
                "default" => ModalityLutOption::Default,
                "override" => ModalityLutOption::Override(Rescale::new(p.slope, p.intercept)),
                _ => ModalityLutOption::None,
            });
            opts = opts.with_voi_lut(match voi {
                "default" => VoiLutOption::Default,
                "identity" => VoiLutOption::Identity,
                "first" => VoiLutOption::First,
                "custom" => VoiLutOption::Custom(WindowLevel { width: p.width, center: p.center }),
                _ => VoiLutOption::CustomWithFunction(WindowLevel { width: p.width, center: p.center }, vfn(f)),
            });
            let res = match t {
                "u8" => vec_case!(u8, obj, opts),
                "u16" => vec_case!(u16, obj, opts),
                "i16" => vec_case!(i16, obj, opts),
                "i32" => vec_case!(i32, obj, opts),
                "f32" => vec_case!(f32, obj, opts),
                _ => vec_case!(f64, obj, opts),
            };
            out.line(&format!(
                "#{} vec {} {} {} {} {} {} {} {} {} {} {} {} {} R {}",
                i,
                alloc,
                stored,
                signed as u8,
                t,
                modality,
                voi,
                f,
                fbits(p.slope),
                fbits(p.intercept),
                fbits(p.width),
                fbits(p.center),
                via,
                hex(&data),
                res
            ));
        }
    }
}
