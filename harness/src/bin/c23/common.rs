//! Shared by the C23 and C24 runners: data-set generator, token printers for data sets and JSON
//! trees (see `lean/DicomModel/Model/JsonWire.lean` for the token grammar), calls into the real
//! `dicom_json` crate.
#![allow(dead_code)]
use dicom_core::value::{
    DataSetSequence, DicomDate, DicomDateTime, DicomTime, PixelFragmentSequence, Value, C,
};
use dicom_core::{DataElement, Length, PrimitiveValue, Tag, VR};
use dicom_object::InMemDicomObject;
use verif_harness::util::*;

pub type Obj = InMemDicomObject;

pub const ALL_VRS: [VR; 34] = [
    VR::AE, VR::AS, VR::AT, VR::CS, VR::DA, VR::DS, VR::DT, VR::FL, VR::FD, VR::IS, VR::LO, VR::LT,
    VR::OB, VR::OD, VR::OF, VR::OL, VR::OV, VR::OW, VR::PN, VR::SH, VR::SL, VR::SQ, VR::SS, VR::ST,
    VR::SV, VR::TM, VR::UC, VR::UI, VR::UL, VR::UN, VR::UR, VR::US, VR::UT, VR::UV,
];

// ---------------------------------------------------------------- token printers

pub fn prim_tokens(p: &PrimitiveValue, out: &mut Vec<String>) {
    fn list<T: ToString>(k: &str, v: &[T], out: &mut Vec<String>) {
        out.push(k.into());
        out.push(v.len().to_string());
        for x in v {
            out.push(x.to_string());
        }
    }
    match p {
        PrimitiveValue::Empty => out.push("E".into()),
        PrimitiveValue::Strs(v) => {
            out.push("S".into());
            out.push(v.len().to_string());
            for s in v.iter() {
                out.push(hexs(s));
            }
        }
        PrimitiveValue::Str(s) => {
            out.push("T".into());
            out.push(hexs(s));
        }
        PrimitiveValue::Tags(v) => {
            let t: Vec<u32> = v.iter().map(|t| ((t.0 as u32) << 16) | t.1 as u32).collect();
            list("G", &t, out)
        }
        PrimitiveValue::U8(v) => {
            out.push("B".into());
            out.push(hex(v));
        }
        PrimitiveValue::I16(v) => list("h", v, out),
        PrimitiveValue::U16(v) => list("H", v, out),
        PrimitiveValue::I32(v) => list("l", v, out),
        PrimitiveValue::U32(v) => list("L", v, out),
        PrimitiveValue::I64(v) => list("v", v, out),
        PrimitiveValue::U64(v) => list("V", v, out),
        PrimitiveValue::F32(v) => {
            let b: Vec<u32> = v.iter().map(|x| x.to_bits()).collect();
            list("r", &b, out)
        }
        PrimitiveValue::F64(v) => {
            let b: Vec<u64> = v.iter().map(|x| x.to_bits()).collect();
            list("R", &b, out)
        }
        PrimitiveValue::Date(v) => {
            out.push("D".into());
            out.push(v.len().to_string());
            for d in v.iter() {
                out.push(hexs(&d.to_encoded()));
                out.push(hexs(&d.to_string()));
            }
        }
        PrimitiveValue::DateTime(v) => {
            out.push("M".into());
            out.push(v.len().to_string());
            for d in v.iter() {
                out.push(hexs(&d.to_encoded()));
                out.push(hexs(&d.to_string()));
            }
        }
        PrimitiveValue::Time(v) => {
            out.push("I".into());
            out.push(v.len().to_string());
            for d in v.iter() {
                out.push(hexs(&d.to_encoded()));
                out.push(hexs(&d.to_string()));
            }
        }
    }
}

pub fn ds_tokens(obj: &Obj, out: &mut Vec<String>) {
    out.push("(".into());
    for e in obj {
        let t = e.header().tag;
        let tag = ((t.0 as u32) << 16) | t.1 as u32;
        let vr = e.header().vr.to_string();
        match e.value() {
            Value::Primitive(p) => {
                out.push("P".into());
                out.push(tag.to_string());
                out.push(vr.into());
                prim_tokens(p, out);
            }
            Value::Sequence(s) => {
                out.push("Q".into());
                out.push(tag.to_string());
                out.push(vr.into());
                out.push(s.items().len().to_string());
                for it in s.items() {
                    ds_tokens(it, out);
                }
            }
            Value::PixelSequence(_) => {
                out.push("X".into());
                out.push(tag.to_string());
                out.push(vr.into());
            }
        }
    }
    out.push(")".into());
}

pub fn json_tokens(v: &serde_json::Value, out: &mut Vec<String>) {
    use serde_json::Value as V;
    match v {
        V::Null => out.push("n".into()),
        V::Bool(true) => out.push("t".into()),
        V::Bool(false) => out.push("f".into()),
        V::Number(n) => {
            if let Some(u) = n.as_u64() {
                out.push(format!("u{u}"))
            } else if let Some(i) = n.as_i64() {
                out.push(format!("m{}", i.unsigned_abs()))
            } else {
                out.push(format!("d{}", n.as_f64().unwrap().to_bits()))
            }
        }
        V::String(s) => out.push(format!("s{}", hexs(s))),
        V::Array(a) => {
            out.push("[".into());
            for x in a {
                json_tokens(x, out);
            }
            out.push("]".into());
        }
        V::Object(m) => {
            out.push("{".into());
            for (k, x) in m {
                out.push(format!("k{}", hexs(k)));
                json_tokens(x, out);
            }
            out.push("}".into());
        }
    }
}

// ---------------------------------------------------------------- generators

pub fn gen_tag(r: &mut Rng) -> Tag {
    const POOL: [(u16, u16); 14] = [
        (0x0008, 0x0005), (0x0008, 0x0020), (0x0008, 0x0090), (0x0010, 0x0010), (0x0010, 0x0020),
        (0x0028, 0x0010), (0x0028, 0x3006), (0x5200, 0x9229), (0x7FE0, 0x0010), (0x0009, 0x0010),
        (0x0009, 0x1002), (0xFFFF, 0xFFFF), (0x0000, 0x0000), (0x00AB, 0xCDEF),
    ];
    match r.below(4) {
        0 => {
            let (g, e) = *r.pick(&POOL);
            Tag(g, e)
        }
        1 => Tag(r.edgy(16) as u16, r.edgy(16) as u16),
        2 => Tag(0x0008 + (r.below(4) as u16), r.below(0x40) as u16),
        _ => Tag(r.next_u32() as u16, r.next_u32() as u16),
    }
}

pub fn gen_text(r: &mut Rng, allow_bs: bool) -> String {
    const ALPHA: &[u8] = b"ABCDEFXYZabcxyz0123456789 ^=._-+";
    let n = match r.below(8) {
        0 => 0,
        1 => 1,
        _ => r.usize(1, 12),
    };
    let mut s = r.ascii_from(ALPHA, n);
    match r.below(16) {
        0 => s.push(' '),
        1 => s.push_str("  "),
        2 => s.push('\0'),
        3 => s.push_str(" \0 "),
        4 => s.insert(0, ' '),
        5 => s.push('é'),
        6 => s.push_str("山田"),
        7 => {
            if allow_bs || r.chance(1, 6) {
                let k = r.usize(0, s.len());
                s.insert(k, '\\');
            }
        }
        8 => s.push_str("\"q\""),
        9 => s.push('\n'),
        _ => {}
    }
    s
}

fn gen_numeric_text(r: &mut Rng) -> String {
    let mut s = match r.below(6) {
        0 => format!("{}", r.below(100000) as i64 - 50000),
        1 => format!("{}.{}", r.below(1000), r.below(1000)),
        2 => format!("{:e}", f64::from_bits(r.next_u64())),
        3 => format!("+{}", r.below(100)),
        4 => format!("{}", r.edgy(64)),
        _ => format!("-{}.5", r.below(10)),
    };
    if r.chance(1, 4) {
        s.push(' ');
    }
    s
}

fn n_items(r: &mut Rng) -> usize {
    match r.below(40) {
        0 => 0,
        1..=20 => 1,
        21..=30 => 2,
        31..=35 => 3,
        _ => r.usize(3, 6),
    }
}

fn edgy_i(r: &mut Rng, bits: u32) -> i64 {
    let v = r.edgy(bits);
    // reinterpret as signed of that width
    let sh = 64 - bits;
    ((v << sh) as i64) >> sh
}

fn gen_big_u64(r: &mut Rng) -> u64 {
    match r.below(8) {
        0 => (1u64 << 31) - 1,
        1 => 1u64 << 31,
        2 => (1u64 << 53) + 1,
        3 => u64::MAX,
        4 => (1u64 << 63) + 12345,
        5 => r.below(1000),
        _ => r.edgy(64),
    }
}

fn gen_big_i64(r: &mut Rng) -> i64 {
    match r.below(8) {
        0 => i32::MAX as i64,
        1 => i32::MAX as i64 + 1,
        2 => i32::MIN as i64,
        3 => i32::MIN as i64 - 1,
        4 => -((1i64 << 53) + 1),
        5 => r.below(1000) as i64 - 500,
        _ => edgy_i(r, 64),
    }
}

fn gen_f32_bits(r: &mut Rng) -> u32 {
    match r.below(12) {
        0 => 0x7FC0_0000,
        1 => 0xFFC0_0001,
        2 => 0x7F80_0001,
        3 => 0x7F80_0000,
        4 => 0xFF80_0000,
        5 => 0x8000_0000,
        6 => r.below(4) as u32,
        7 => 0x7F7F_FFFF,
        8 => (r.below(2000) as f32 / 8.0 - 100.0).to_bits(),
        9 => (r.below(100000) as f32 / 1000.0).to_bits(),
        _ => r.next_u32(),
    }
}

fn gen_f64_bits(r: &mut Rng) -> u64 {
    match r.below(12) {
        0 => 0x7FF8_0000_0000_0000,
        1 => 0xFFF8_0000_0000_0001,
        2 => 0x7FF0_0000_0000_0001,
        3 => 0x7FF0_0000_0000_0000,
        4 => 0xFFF0_0000_0000_0000,
        5 => 0x8000_0000_0000_0000,
        6 => r.below(4),
        7 => 0x7FEF_FFFF_FFFF_FFFF,
        8 => (r.below(2000) as f64 / 8.0 - 100.0).to_bits(),
        9 => (r.below(100000) as f64 / 1000.0).to_bits(),
        10 => (r.edgy(64) as f64).to_bits(),
        _ => r.next_u64(),
    }
}

fn gen_date(r: &mut Rng) -> DicomDate {
    let y = r.range(1, 9999) as u16;
    let m = r.range(1, 12) as u8;
    let d = r.range(1, 28) as u8;
    match r.below(3) {
        0 => DicomDate::from_y(y).unwrap(),
        1 => DicomDate::from_ym(y, m).unwrap(),
        _ => DicomDate::from_ymd(y, m, d).unwrap(),
    }
}

fn gen_time(r: &mut Rng) -> DicomTime {
    let h = r.below(24) as u8;
    let m = r.below(60) as u8;
    let s = r.below(60) as u8;
    match r.below(4) {
        0 => DicomTime::from_h(h).unwrap(),
        1 => DicomTime::from_hm(h, m).unwrap(),
        2 => DicomTime::from_hms(h, m, s).unwrap(),
        _ => DicomTime::from_hms_micro(h, m, s, r.below(1_000_000) as u32).unwrap(),
    }
}

fn gen_datetime(r: &mut Rng) -> DicomDateTime {
    let y = r.range(1, 9999) as u16;
    let m = r.range(1, 12) as u8;
    let d = r.range(1, 28) as u8;
    match r.below(2) {
        0 => DicomDateTime::from_date(gen_date(r)),
        _ => DicomDateTime::from_date_and_time(DicomDate::from_ymd(y, m, d).unwrap(), gen_time(r)).unwrap(),
    }
}

/// value kinds: 0 Strs 1 Str 2 Tags 3 U8 4 I16 5 U16 6 I32 7 U32 8 I64 9 U64 10 F32 11 F64
/// 12 Date 13 DateTime 14 Time
pub fn gen_prim_kind(r: &mut Rng, kind: u32, vr: VR) -> PrimitiveValue {
    let n = n_items(r);
    let numeric_text = matches!(vr, VR::DS | VR::IS | VR::SV | VR::UV | VR::FL | VR::FD) && r.chance(3, 4);
    let allow_bs = matches!(vr, VR::LT | VR::ST | VR::UT | VR::UR);
    match kind {
        0 => PrimitiveValue::Strs(
            (0..n).map(|_| if numeric_text { gen_numeric_text(r) } else { gen_text(r, false) }).collect(),
        ),
        1 => PrimitiveValue::Str(if numeric_text { gen_numeric_text(r) } else { gen_text(r, allow_bs) }),
        2 => PrimitiveValue::Tags((0..n).map(|_| gen_tag(r)).collect()),
        3 => {
            let len = match r.below(24) {
                0 => 0,
                1..=3 => 1,
                4..=6 => 2,
                7..=9 => 3,
                _ => r.usize(1, 24),
            };
            PrimitiveValue::U8(r.bytes(len).into())
        }
        4 => PrimitiveValue::I16((0..n).map(|_| edgy_i(r, 16) as i16).collect()),
        5 => PrimitiveValue::U16((0..n).map(|_| r.edgy(16) as u16).collect()),
        6 => PrimitiveValue::I32((0..n).map(|_| edgy_i(r, 32) as i32).collect()),
        7 => PrimitiveValue::U32((0..n).map(|_| r.edgy(32) as u32).collect()),
        8 => PrimitiveValue::I64((0..n).map(|_| gen_big_i64(r)).collect()),
        9 => PrimitiveValue::U64((0..n).map(|_| gen_big_u64(r)).collect()),
        10 => PrimitiveValue::F32((0..n).map(|_| f32::from_bits(gen_f32_bits(r))).collect()),
        11 => PrimitiveValue::F64((0..n).map(|_| f64::from_bits(gen_f64_bits(r))).collect()),
        12 => PrimitiveValue::Date((0..n).map(|_| gen_date(r)).collect()),
        13 => PrimitiveValue::DateTime((0..n).map(|_| gen_datetime(r)).collect()),
        _ => PrimitiveValue::Time((0..n).map(|_| gen_time(r)).collect()),
    }
}

/// the value kinds a decoder of dicom-rs (or a careful user) produces for a VR
pub fn natural_kinds(vr: VR) -> &'static [u32] {
    match vr {
        VR::AE | VR::AS | VR::CS | VR::LO | VR::SH | VR::UI | VR::UC | VR::PN => &[0, 0, 1],
        VR::LT | VR::ST | VR::UT | VR::UR => &[1, 1, 0],
        VR::DA => &[0, 1, 12, 12],
        VR::DT => &[0, 1, 13, 13],
        VR::TM => &[0, 1, 14, 14],
        VR::AT => &[2],
        VR::SS => &[4],
        VR::US => &[5],
        VR::SL => &[6],
        VR::UL => &[7],
        VR::SV => &[8],
        VR::UV => &[9],
        VR::FL => &[10],
        VR::FD => &[11],
        VR::IS => &[0, 1, 6],
        VR::DS => &[0, 1, 11],
        VR::OB | VR::UN => &[3],
        VR::OW => &[5, 3],
        VR::OL => &[7, 3],
        VR::OV => &[9, 3],
        VR::OF => &[10, 3],
        VR::OD => &[11, 3],
        VR::SQ => &[],
    }
}

pub struct GenOpts {
    pub max_depth: u32,
    /// allow value kinds that do not belong to the VR (user-constructed elements)
    pub ill_typed: bool,
    pub pixel_seq: bool,
}

pub fn gen_elem(r: &mut Rng, tag: Tag, depth: u32, o: &GenOpts) -> DataElement<Obj> {
    let mut vr = *r.pick(&ALL_VRS);
    if r.chance(1, 8) && depth < o.max_depth {
        vr = VR::SQ;
    }
    if r.chance(1, 10) {
        return DataElement::new(tag, vr, PrimitiveValue::Empty);
    }
    if o.pixel_seq && r.chance(1, 40) {
        let frags: Vec<Vec<u8>> = (0..r.usize(0, 2)).map(|_| r.bytes(4)).collect();
        let v: Value<Obj> = Value::PixelSequence(PixelFragmentSequence::new(C::new(), frags));
        return DataElement::new(tag, if r.chance(1, 2) { VR::OB } else { VR::OW }, v);
    }
    if o.ill_typed && r.chance(1, 12) {
        // anything goes
        if r.chance(1, 6) {
            let items: Vec<Obj> = (0..r.usize(0, 2)).map(|_| gen_ds(r, depth + 1, o)).collect();
            return DataElement::new(tag, vr, DataSetSequence::new(items, Length::UNDEFINED));
        }
        let kind = r.below(15) as u32;
        return DataElement::new(tag, vr, gen_prim_kind(r, kind, vr));
    }
    if vr == VR::SQ {
        let n = if depth >= o.max_depth { 1 } else { match r.below(18) { 0 => 0, 1..=9 => 1, 10..=14 => 2, _ => 3 } };
        let items: Vec<Obj> = (0..n).map(|_| gen_ds(r, depth + 1, o)).collect();
        let len = if r.chance(1, 2) { Length::UNDEFINED } else { Length(r.below(100) as u32 * 2) };
        return DataElement::new(tag, vr, DataSetSequence::new(items, len));
    }
    let kinds = natural_kinds(vr);
    let kind = *r.pick(kinds);
    DataElement::new(tag, vr, gen_prim_kind(r, kind, vr))
}

pub fn gen_ds(r: &mut Rng, depth: u32, o: &GenOpts) -> Obj {
    let n = match r.below(8) {
        0 => 0,
        1 | 2 => 1,
        3 | 4 => 2,
        5 => 3,
        _ => r.usize(3, 7),
    };
    let n = if depth > 3 { n.min(2) } else { n };
    // an empty top-level data set is a degenerate case: keep it rare
    let n = if depth == 0 && n == 0 && !r.chance(1, 8) { 2 } else { n };
    let mut obj = Obj::new_empty();
    for _ in 0..n {
        let tag = gen_tag(r);
        obj.put(gen_elem(r, tag, depth, o));
    }
    obj
}

/// a chain of nested sequences (depth beyond what the random generator reaches)
pub fn gen_deep(r: &mut Rng, levels: u32) -> Obj {
    let o = GenOpts { max_depth: 0, ill_typed: false, pixel_seq: false };
    let mut cur = gen_ds(r, 9, &o);
    for _ in 0..levels {
        let mut outer = Obj::new_empty();
        if r.chance(1, 2) {
            outer.put(gen_elem(r, Tag(0x0008, 0x0020), 9, &o));
        }
        let items = if r.chance(1, 4) { vec![cur.clone(), cur] } else { vec![cur] };
        outer.put(DataElement::new(gen_tag(r), VR::SQ, DataSetSequence::new(items, Length::UNDEFINED)));
        cur = outer;
    }
    cur
}

// ---------------------------------------------------------------- calls into dicom-json

pub fn res_tokens(res: Result<Result<serde_json::Value, ()>, String>, out: &mut Vec<String>) {
    match res {
        Ok(Ok(v)) => {
            out.push("ok".into());
            json_tokens(&v, out);
        }
        Ok(Err(())) => out.push("err".into()),
        Err(_) => out.push("panic".into()),
    }
}

/// `dicom_json::to_value(&obj)`
pub fn ser_value(obj: &Obj) -> Result<Result<serde_json::Value, ()>, String> {
    let o = std::panic::AssertUnwindSafe(obj);
    catch(move || dicom_json::to_value(*o).map_err(|_| ()))
}

/// `dicom_json::to_string(&obj)`, the text
pub fn ser_string(obj: &Obj) -> Result<Result<String, ()>, String> {
    let o = std::panic::AssertUnwindSafe(obj);
    catch(move || dicom_json::to_string(*o).map_err(|_| ()))
}

pub fn de_tokens(res: Result<Result<Obj, ()>, String>, out: &mut Vec<String>) {
    match res {
        Ok(Ok(o)) => {
            out.push("ok".into());
            ds_tokens(&o, out);
        }
        Ok(Err(())) => out.push("err".into()),
        Err(_) => out.push("panic".into()),
    }
}

pub fn de_str(text: &str) -> Result<Result<Obj, ()>, String> {
    let t = text.to_string();
    catch(move || dicom_json::from_str::<Obj>(&t).map_err(|_| ()))
}

pub fn de_value(v: &serde_json::Value) -> Result<Result<Obj, ()>, String> {
    let v = v.clone();
    catch(move || dicom_json::from_value::<Obj>(v).map_err(|_| ()))
}

// ---------------------------------------------------------------- exact JSON text reader
//
// `serde_json::from_str::<Value>` without the `float_roundtrip` feature may read a float one ULP
// off; to look at the *written* text exactly, numbers are classified as serde_json does
// (integer literal fitting u64 / i64, else f64) but floats are converted with Rust's correctly
// rounded `str::parse::<f64>`.  Duplicate members are kept, in order.

pub struct TextReader<'a> {
    s: &'a [u8],
    i: usize,
    pub out: Vec<String>,
    depth: u32,
}

impl<'a> TextReader<'a> {
    pub fn new(s: &'a str) -> Self {
        TextReader { s: s.as_bytes(), i: 0, out: vec![], depth: 0 }
    }
    fn ws(&mut self) {
        while self.i < self.s.len() && matches!(self.s[self.i], b' ' | b'\n' | b'\t' | b'\r') {
            self.i += 1;
        }
    }
    fn string(&mut self) -> Option<String> {
        // at opening quote
        self.i += 1;
        let mut buf: Vec<u8> = vec![];
        loop {
            let c = *self.s.get(self.i)?;
            self.i += 1;
            match c {
                b'"' => break,
                b'\\' => {
                    let e = *self.s.get(self.i)?;
                    self.i += 1;
                    match e {
                        b'"' => buf.push(b'"'),
                        b'\\' => buf.push(b'\\'),
                        b'/' => buf.push(b'/'),
                        b'b' => buf.push(8),
                        b'f' => buf.push(12),
                        b'n' => buf.push(b'\n'),
                        b'r' => buf.push(b'\r'),
                        b't' => buf.push(b'\t'),
                        b'u' => {
                            let h = std::str::from_utf8(self.s.get(self.i..self.i + 4)?).ok()?;
                            let mut cp = u32::from_str_radix(h, 16).ok()?;
                            self.i += 4;
                            if (0xD800..0xDC00).contains(&cp) {
                                if self.s.get(self.i..self.i + 2)? != b"\\u" {
                                    return None;
                                }
                                let h2 = std::str::from_utf8(self.s.get(self.i + 2..self.i + 6)?).ok()?;
                                let lo = u32::from_str_radix(h2, 16).ok()?;
                                self.i += 6;
                                cp = 0x10000 + ((cp - 0xD800) << 10) + (lo.checked_sub(0xDC00)?);
                            }
                            let ch = char::from_u32(cp)?;
                            let mut b = [0u8; 4];
                            buf.extend_from_slice(ch.encode_utf8(&mut b).as_bytes());
                        }
                        _ => return None,
                    }
                }
                c if c < 0x20 => return None,
                c => buf.push(c),
            }
        }
        String::from_utf8(buf).ok()
    }
    pub fn value(&mut self) -> Option<()> {
        self.ws();
        self.depth += 1;
        if self.depth > 400 {
            return None;
        }
        let c = *self.s.get(self.i)?;
        match c {
            b'n' if self.s[self.i..].starts_with(b"null") => {
                self.i += 4;
                self.out.push("n".into())
            }
            b't' if self.s[self.i..].starts_with(b"true") => {
                self.i += 4;
                self.out.push("t".into())
            }
            b'f' if self.s[self.i..].starts_with(b"false") => {
                self.i += 5;
                self.out.push("f".into())
            }
            b'"' => {
                let s = self.string()?;
                self.out.push(format!("s{}", hexs(&s)));
            }
            b'[' => {
                self.i += 1;
                self.out.push("[".into());
                self.ws();
                if *self.s.get(self.i)? == b']' {
                    self.i += 1;
                } else {
                    loop {
                        self.value()?;
                        self.ws();
                        match *self.s.get(self.i)? {
                            b',' => self.i += 1,
                            b']' => {
                                self.i += 1;
                                break;
                            }
                            _ => return None,
                        }
                    }
                }
                self.out.push("]".into());
            }
            b'{' => {
                self.i += 1;
                self.out.push("{".into());
                self.ws();
                if *self.s.get(self.i)? == b'}' {
                    self.i += 1;
                } else {
                    loop {
                        self.ws();
                        if *self.s.get(self.i)? != b'"' {
                            return None;
                        }
                        let k = self.string()?;
                        self.out.push(format!("k{}", hexs(&k)));
                        self.ws();
                        if *self.s.get(self.i)? != b':' {
                            return None;
                        }
                        self.i += 1;
                        self.value()?;
                        self.ws();
                        match *self.s.get(self.i)? {
                            b',' => self.i += 1,
                            b'}' => {
                                self.i += 1;
                                break;
                            }
                            _ => return None,
                        }
                    }
                }
                self.out.push("}".into());
            }
            b'-' | b'0'..=b'9' => {
                let st = self.i;
                while self.i < self.s.len() && matches!(self.s[self.i], b'-' | b'+' | b'.' | b'e' | b'E' | b'0'..=b'9') {
                    self.i += 1;
                }
                let t = std::str::from_utf8(&self.s[st..self.i]).ok()?;
                let is_int = !t.contains(['.', 'e', 'E']);
                if is_int && !t.starts_with('-') && t.parse::<u64>().is_ok() {
                    self.out.push(format!("u{}", t.parse::<u64>().unwrap()));
                } else if is_int && t.starts_with('-') && t != "-0" && t.parse::<i64>().is_ok() {
                    self.out.push(format!("m{}", t.parse::<i64>().unwrap().unsigned_abs()));
                } else {
                    let f: f64 = t.parse().ok()?;
                    if !f.is_finite() {
                        return None;
                    }
                    self.out.push(format!("d{}", f.to_bits()));
                }
            }
            _ => return None,
        }
        self.depth -= 1;
        Some(())
    }
}

/// tokens of a JSON text (None: not JSON as far as this reader knows)
pub fn text_tokens(text: &str) -> Option<Vec<String>> {
    let mut r = TextReader::new(text);
    r.value()?;
    r.ws();
    if r.i != r.s.len() {
        return None;
    }
    Some(r.out)
}
