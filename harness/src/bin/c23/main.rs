//! C23 — DICOM JSON round trip; deserialising any JSON text never panics.
//!
//! Lines (token grammar in `lean/DicomModel/Model/JsonWire.lean`; a result is `ok …`|`err`|`panic`):
//!   `rt <data set> <to_string text, read exactly: ok json> <from_str(text)> <from_value(to_value)>`
//!   `de <json tree, duplicates kept> <from_str(text of the tree)> <from_value(Value of the text)>`
//!   `flt <op> …`   std float/integer text functions the model relies on (trusted base), see `flt_line`
mod common;
use common::*;
use verif_harness::util::*;

#[derive(Clone, Debug)]
enum JT {
    Null,
    Bool(bool),
    U(u64),
    /// negative integer, magnitude 1..=2^63
    M(u64),
    F(u64),
    S(String),
    A(Vec<JT>),
    O(Vec<(String, JT)>),
}

fn jt_of_value(v: &serde_json::Value) -> JT {
    use serde_json::Value as V;
    match v {
        V::Null => JT::Null,
        V::Bool(b) => JT::Bool(*b),
        V::Number(n) => {
            if let Some(u) = n.as_u64() {
                JT::U(u)
            } else if let Some(i) = n.as_i64() {
                JT::M(i.unsigned_abs())
            } else {
                JT::F(n.as_f64().unwrap().to_bits())
            }
        }
        V::String(s) => JT::S(s.clone()),
        V::Array(a) => JT::A(a.iter().map(jt_of_value).collect()),
        V::Object(m) => JT::O(m.iter().map(|(k, v)| (k.clone(), jt_of_value(v))).collect()),
    }
}

fn jt_text(j: &JT, out: &mut String) {
    match j {
        JT::Null => out.push_str("null"),
        JT::Bool(b) => out.push_str(if *b { "true" } else { "false" }),
        JT::U(u) => out.push_str(&u.to_string()),
        JT::M(m) => {
            out.push('-');
            out.push_str(&m.to_string())
        }
        JT::F(b) => out.push_str(&serde_json::to_string(&f64::from_bits(*b)).unwrap()),
        JT::S(s) => out.push_str(&serde_json::to_string(s).unwrap()),
        JT::A(a) => {
            out.push('[');
            for (i, x) in a.iter().enumerate() {
                if i > 0 {
                    out.push(',');
                }
                jt_text(x, out);
            }
            out.push(']');
        }
        JT::O(m) => {
            out.push('{');
            for (i, (k, x)) in m.iter().enumerate() {
                if i > 0 {
                    out.push(',');
                }
                out.push_str(&serde_json::to_string(k).unwrap());
                out.push(':');
                jt_text(x, out);
            }
            out.push('}');
        }
    }
}

fn jt_tokens(j: &JT, out: &mut Vec<String>) {
    match j {
        JT::Null => out.push("n".into()),
        JT::Bool(true) => out.push("t".into()),
        JT::Bool(false) => out.push("f".into()),
        JT::U(u) => out.push(format!("u{u}")),
        JT::M(m) => out.push(format!("m{m}")),
        JT::F(b) => out.push(format!("d{b}")),
        JT::S(s) => out.push(format!("s{}", hexs(s))),
        JT::A(a) => {
            out.push("[".into());
            for x in a {
                jt_tokens(x, out);
            }
            out.push("]".into());
        }
        JT::O(m) => {
            out.push("{".into());
            for (k, x) in m {
                out.push(format!("k{}", hexs(k)));
                jt_tokens(x, out);
            }
            out.push("}".into());
        }
    }
}

/// a float serde_json's (best-effort) text reader reads back exactly
fn safe_float(r: &mut Rng) -> JT {
    for _ in 0..8 {
        let b = match r.below(8) {
            0 => (r.below(2000) as f64 / 8.0 - 100.0).to_bits(),
            1 => 0x8000_0000_0000_0000,
            2 => (r.below(100000) as f64 / 1000.0).to_bits(),
            3 => (f32::from_bits(r.next_u32()) as f64).to_bits(),
            4 => 0x7FEF_FFFF_FFFF_FFFF,
            5 => r.below(3),
            6 => (r.edgy(64) as f64).to_bits(),
            _ => r.next_u64(),
        };
        let f = f64::from_bits(b);
        if !f.is_finite() {
            continue;
        }
        let t = serde_json::to_string(&f).unwrap();
        if let Ok(g) = serde_json::from_str::<f64>(&t) {
            if g.to_bits() == b {
                return JT::F(b);
            }
        }
    }
    JT::F(1.5f64.to_bits())
}

const NUM_STRS: &[&str] = &[
    "12", "abc", " 5", "5 ", "1e5", "1E-3", "NaN", "nan", "inf", "-inf", "+inf", "infinity", "-Infinity", "+5", "-0", "0",
    "-5", "", "+", "-", ".", ".5", "5.", "1.5", "1e", "1e+", "0x10", "1_000", "340282350000000000000000000000000000000",
    "3.5e38", "1e39", "1e-46", "1e400", "-1e400", "4294967295", "4294967296", "18446744073709551615", "18446744073709551616",
    "9223372036854775807", "9223372036854775808", "-9223372036854775808", "-9223372036854775809", "00012", "+007",
    "0.1", "16777217", "9007199254740993", "1.7976931348623157e308", "2.2250738585072014e-308", "5e-324", "2e-324", "3e-324",
    "12\u{e9}", "１２",
];
const TAG_STRS: &[&str] = &[
    "00100020", "0010,0020", "(0010,0020)", "0010002", "001000200", "(0010,0020", "0010,00200", "0010;0020", "(0010;0020)",
    "[0010,0020]", "(0010,0020]", "abc\u{e9}abc", "\u{e9}\u{e9}\u{e9}\u{e9}", "ab\u{e9}cdef", "0010\u{e9}20", "(\u{e9}010,002)",
    "0010,\u{e9}02", "(0010,00\u{e9})", "001\u{e9},0020", "ggggeeee", "7fe00010", "7FE0,0010", "", "(,)", "+0100020", "0010+020",
    "(+010,0020)", " 0100020", "00100020 ", "FFFFFFFF", "ffffffff", "(FFFF,FFFF)", "\u{1F600}0010", "0010\u{1F600}",
    "(0010,\u{1F600}0)", "0\u{1F600}00100", "\u{20AC}00100",
];
const VR_STRS: &[&str] = &[
    "AE", "AS", "AT", "CS", "DA", "DS", "DT", "FL", "FD", "IS", "LO", "LT", "OB", "OD", "OF", "OL", "OV", "OW", "PN", "SH", "SL",
    "SQ", "SS", "ST", "SV", "TM", "UC", "UI", "UL", "UN", "UR", "US", "UT", "UV", "XX", "us", "U", "", "USS", "ox", "OX",
];
const B64_STRS: &[&str] = &[
    "", "AA==", "AAA=", "AAAA", "AA", "AAA", "A", "A===", "====", "AA=A", "AB==", "AAB=", "AAAAAA==", "AA==AAAA", "AAAA=", "z0x9c8v7",
    "z0x9c8v", "z0x9c8v7=", "!AAA", "AAA!", "AA A", "AA\nAA", "AQID", "/+/+", "-_-_", "QUJD", "QUI=", "QQ==", "QR==", "QUJ=", "=AAA",
];

fn rand_scalar(r: &mut Rng) -> JT {
    match r.below(12) {
        0 => JT::Null,
        1 => JT::Bool(r.chance(1, 2)),
        2 => JT::U(r.edgy(64)),
        3 => JT::U(r.below(70000)),
        4 => JT::M(1 + r.below(40000)),
        5 => JT::M(match r.below(4) {
            0 => 1u64 << 63,
            1 => (1u64 << 31) + r.below(2),
            2 => 32768 + r.below(2),
            _ => 1 + (r.edgy(63)),
        }),
        6 => safe_float(r),
        7 => JT::S(r.pick(NUM_STRS).to_string()),
        8 => JT::S(r.pick(TAG_STRS).to_string()),
        9 => JT::S(gen_text(r, true)),
        10 => JT::S(r.pick(B64_STRS).to_string()),
        _ => JT::S(r.pick(VR_STRS).to_string()),
    }
}

fn rand_json(r: &mut Rng, depth: u32) -> JT {
    if depth == 0 || r.chance(1, 2) {
        return rand_scalar(r);
    }
    if r.chance(1, 2) {
        JT::A((0..r.usize(0, 3)).map(|_| rand_json(r, depth - 1)).collect())
    } else {
        JT::O((0..r.usize(0, 3))
            .map(|_| {
                let k = match r.below(6) {
                    0 => "vr".to_string(),
                    1 => "Value".to_string(),
                    2 => "InlineBinary".to_string(),
                    3 => "Alphabetic".to_string(),
                    4 => r.pick(TAG_STRS).to_string(),
                    _ => gen_text(r, false),
                };
                (k, rand_json(r, depth - 1))
            })
            .collect())
    }
}

fn rand_person(r: &mut Rng) -> JT {
    let sv = |r: &mut Rng| match r.below(6) {
        0 => JT::Null,
        1 => JT::U(3),
        2 => JT::A(vec![]),
        _ => JT::S(gen_text(r, false)),
    };
    if r.chance(1, 4) {
        let n = r.usize(0, 4);
        return JT::A((0..n).map(|_| sv(r)).collect());
    }
    let mut ms = vec![];
    for _ in 0..r.usize(0, 4) {
        let k = *r.pick(&["Alphabetic", "Ideographic", "Phonetic", "alphabetic", "Other", "Alphabetic"]);
        ms.push((k.to_string(), sv(r)));
    }
    JT::O(ms)
}

/// an attribute object made of possibly conflicting / repeated / ill-typed members
fn rand_element(r: &mut Rng, depth: u32) -> JT {
    let mut ms: Vec<(String, JT)> = vec![];
    let vr = r.pick(VR_STRS).to_string();
    let n = match r.below(8) {
        0 => 0,
        1..=3 => 1,
        4 | 5 => 2,
        6 => 3,
        _ => 4,
    };
    let mut have_vr = false;
    for _ in 0..n {
        let m = match r.below(9) {
            0 | 1 | 2 => {
                let n = r.usize(0, 3);
                let items: Vec<JT> = (0..n)
                    .map(|_| match r.below(6) {
                        0 => rand_person(r),
                        1 if depth > 0 => rand_dataset(r, depth - 1),
                        2 => JT::S(r.pick(NUM_STRS).to_string()),
                        3 => JT::S(r.pick(TAG_STRS).to_string()),
                        _ => rand_scalar(r),
                    })
                    .collect();
                ("Value".to_string(), if r.chance(1, 10) { rand_scalar(r) } else { JT::A(items) })
            }
            3 | 4 => (
                "InlineBinary".to_string(),
                if r.chance(1, 8) { rand_scalar(r) } else { JT::S(r.pick(B64_STRS).to_string()) },
            ),
            5 => ("BulkDataURI".to_string(), if r.chance(1, 4) { rand_scalar(r) } else { JT::S("http://x/y".into()) }),
            6 => ("vr".to_string(), if r.chance(1, 6) { rand_scalar(r) } else { JT::S(r.pick(VR_STRS).to_string()) }),
            7 => ("Value".to_string(), JT::A(vec![])),
            _ => (gen_text(r, false), rand_scalar(r)),
        };
        if m.0 == "vr" {
            have_vr = true;
        }
        ms.push(m);
    }
    if !have_vr && r.chance(7, 8) {
        let k = r.usize(0, ms.len());
        ms.insert(k, ("vr".to_string(), JT::S(vr)));
    }
    JT::O(ms)
}

fn rand_dataset(r: &mut Rng, depth: u32) -> JT {
    let n = r.usize(0, 3);
    let mut ms = vec![];
    for _ in 0..n {
        let k = if r.chance(3, 4) {
            let t = gen_tag(r);
            if r.chance(1, 6) { format!("{:04x}{:04x}", t.0, t.1) } else { format!("{:04X}{:04X}", t.0, t.1) }
        } else {
            r.pick(TAG_STRS).to_string()
        };
        let v = if r.chance(1, 10) { rand_scalar(r) } else { rand_element(r, depth) };
        ms.push((k, v));
    }
    if n > 0 && r.chance(1, 6) {
        // repeated tag
        let k = ms[0].0.clone();
        ms.push((k, rand_element(r, depth)));
    }
    JT::O(ms)
}

/// positions of all nodes, as index paths
fn paths(j: &JT, cur: &mut Vec<usize>, out: &mut Vec<Vec<usize>>) {
    out.push(cur.clone());
    match j {
        JT::A(a) => {
            for (i, x) in a.iter().enumerate() {
                cur.push(i);
                paths(x, cur, out);
                cur.pop();
            }
        }
        JT::O(m) => {
            for (i, (_, x)) in m.iter().enumerate() {
                cur.push(i);
                paths(x, cur, out);
                cur.pop();
            }
        }
        _ => {}
    }
}

fn node_mut<'a>(j: &'a mut JT, p: &[usize]) -> &'a mut JT {
    if p.is_empty() {
        return j;
    }
    match j {
        JT::A(a) => node_mut(&mut a[p[0]], &p[1..]),
        JT::O(m) => node_mut(&mut m[p[0]].1, &p[1..]),
        _ => unreachable!(),
    }
}

/// one structure-aware mutation of a valid DICOM JSON tree
fn mutate(r: &mut Rng, j: &mut JT) {
    let mut ps = vec![];
    paths(j, &mut vec![], &mut ps);
    let p = r.pick(&ps).clone();
    let node = node_mut(j, &p);
    match node {
        JT::O(ms) => match r.below(10) {
            0 if !ms.is_empty() => {
                let k = r.usize(0, ms.len() - 1);
                ms.remove(k);
            }
            1 if !ms.is_empty() => {
                // duplicate a member (same key), maybe with another value
                let k = r.usize(0, ms.len() - 1);
                let mut m = ms[k].clone();
                if r.chance(1, 2) {
                    m.1 = rand_scalar(r);
                }
                let at = r.usize(0, ms.len());
                ms.insert(at, m);
            }
            2 => {
                let at = r.usize(0, ms.len());
                let k = *r.pick(&["InlineBinary", "BulkDataURI", "Value", "vr", "Alphabetic", "Ideographic", "Phonetic", "x"]);
                let v = match k {
                    "InlineBinary" => JT::S(r.pick(B64_STRS).to_string()),
                    "BulkDataURI" => JT::S("http://x".into()),
                    "Value" => JT::A(vec![rand_scalar(r)]),
                    "vr" => JT::S(r.pick(VR_STRS).to_string()),
                    _ => rand_scalar(r),
                };
                ms.insert(at, (k.to_string(), v));
            }
            3 if !ms.is_empty() => {
                // rename a key
                let k = r.usize(0, ms.len() - 1);
                ms[k].0 = if r.chance(1, 2) { r.pick(TAG_STRS).to_string() } else { gen_text(r, false) };
            }
            4 if ms.len() > 1 => {
                let a = r.usize(0, ms.len() - 1);
                let b = r.usize(0, ms.len() - 1);
                ms.swap(a, b);
            }
            5 => {
                let at = r.usize(0, ms.len());
                ms.insert(at, (r.pick(TAG_STRS).to_string(), rand_element(r, 1)));
            }
            6 => *node = rand_scalar(r),
            7 => *node = JT::A(vec![node.clone()]),
            _ => *node = rand_element(r, 1),
        },
        JT::A(a) => match r.below(8) {
            0 if !a.is_empty() => {
                let k = r.usize(0, a.len() - 1);
                a.remove(k);
            }
            1 => {
                let at = r.usize(0, a.len());
                a.insert(at, rand_scalar(r));
            }
            2 => {
                let at = r.usize(0, a.len());
                a.insert(at, rand_person(r));
            }
            3 => {
                let at = r.usize(0, a.len());
                a.insert(at, JT::S(r.pick(NUM_STRS).to_string()));
            }
            4 => a.clear(),
            5 => *node = rand_scalar(r),
            6 => {
                let at = r.usize(0, a.len());
                a.insert(at, rand_dataset(r, 1));
            }
            _ => {
                let at = r.usize(0, a.len());
                a.insert(at, JT::A(vec![]));
            }
        },
        JT::S(s) => match r.below(8) {
            0 => *s = r.pick(VR_STRS).to_string(),
            1 => *s = r.pick(NUM_STRS).to_string(),
            2 => *s = r.pick(TAG_STRS).to_string(),
            3 => *s = r.pick(B64_STRS).to_string(),
            4 => s.push('='),
            5 => {
                if !s.is_empty() {
                    s.pop();
                }
            }
            6 => *s = s.to_lowercase(),
            _ => *node = rand_scalar(r),
        },
        _ => *node = if r.chance(1, 6) { JT::A(vec![rand_scalar(r)]) } else { rand_scalar(r) },
    }
}

fn de_line(j: &JT) -> String {
    let mut text = String::new();
    jt_text(j, &mut text);
    let mut t: Vec<String> = vec!["de".into()];
    jt_tokens(j, &mut t);
    de_tokens(de_str(&text), &mut t);
    match serde_json::from_str::<serde_json::Value>(&text) {
        Ok(v) => de_tokens(de_value(&v), &mut t),
        Err(_) => t.push("na".into()),
    }
    t.join(" ")
}

fn rt_line(obj: &Obj) -> String {
    let mut t: Vec<String> = vec!["rt".into()];
    ds_tokens(obj, &mut t);
    match ser_string(obj) {
        Ok(Ok(text)) => {
            match text_tokens(&text) {
                Some(tt) => {
                    t.push("ok".into());
                    t.extend(tt);
                }
                None => t.push("err".into()),
            }
            de_tokens(de_str(&text), &mut t);
        }
        Ok(Err(())) => {
            t.push("err".into());
            t.push("err".into());
        }
        Err(_) => {
            t.push("panic".into());
            t.push("err".into());
        }
    }
    match ser_value(obj) {
        Ok(Ok(v)) => de_tokens(de_value(&v), &mut t),
        _ => t.push("err".into()),
    }
    t.join(" ")
}

fn flt_line(r: &mut Rng) -> String {
    let f32b = |r: &mut Rng| match r.below(6) {
        0 => r.below(0x0100_0000) as u32,
        1 => 0x7F7F_FFFF - r.below(4) as u32,
        2 => 0x0080_0000 + r.below(4) as u32 - 2,
        3 => (r.below(1 << 25) as f32).to_bits(),
        _ => r.next_u32(),
    };
    let f64b = |r: &mut Rng| match r.below(8) {
        0 => r.below(1 << 53),
        1 => 0x7FEF_FFFF_FFFF_FFFF - r.below(4),
        2 => 0x0010_0000_0000_0000 + r.below(4) - 2,
        3 => (r.edgy(64) as f64).to_bits(),
        4 => (f32::from_bits(r.next_u32()) as f64).to_bits() + r.below(3) - 1,
        5 => ((r.below(1 << 20) as f64) / 1024.0).to_bits(),
        6 => 0x3690_0000_0000_0000 + (r.next_u64() >> 12), // near the f32 subnormal boundary
        _ => r.next_u64(),
    };
    match r.below(9) {
        0 => {
            let b = f32b(r);
            format!("flt w {} {}", b, (f32::from_bits(b) as f64).to_bits())
        }
        1 => {
            let b = f64b(r);
            format!("flt n {} {}", b, (f64::from_bits(b) as f32).to_bits())
        }
        2 => {
            let n = r.edgy(64);
            format!("flt cu {} {} {}", n, (n as f64).to_bits(), (n as f32).to_bits())
        }
        3 => {
            let n = r.edgy(64) as i64;
            format!("flt ci {} {} {}", n, (n as f64).to_bits(), (n as f32).to_bits())
        }
        4 => {
            let b = f64b(r);
            format!("flt d64 {} {}", b, hexs(&f64::from_bits(b).to_string()))
        }
        5 => {
            let b = f32b(r);
            format!("flt d32 {} {}", b, hexs(&f32::from_bits(b).to_string()))
        }
        _ => {
            let s: String = match r.below(8) {
                0 => r.pick(NUM_STRS).to_string(),
                1 => format!("{}", f64::from_bits(f64b(r))),
                2 => format!("{:e}", f64::from_bits(f64b(r))),
                3 => format!("{}", f32::from_bits(f32b(r))),
                4 => format!("{}{}.{}e{}", if r.chance(1, 3) { "-" } else { "" }, r.below(1000), r.edgy(40), r.below(80) as i64 - 40),
                5 => format!("{}", r.edgy(64)),
                6 => {
                    // decimal half-way cases of f32: the midpoint between two neighbours, exactly
                    let b = f32b(r) & 0x7F7F_FFFF;
                    let a = f32::from_bits(b) as f64;
                    let c = f32::from_bits(b + 1) as f64;
                    let m = (a + c) / 2.0;
                    if m.is_finite() { format!("{:e}", m) } else { "1".into() }
                }
                _ => {
                    let n = r.usize(0, 8);
                    r.ascii_from(b"0123456789.eE+-", n)
                }
            };
            let p32 = s.parse::<f32>().map(|x| x.to_bits().to_string()).unwrap_or("err".into());
            let p64 = s.parse::<f64>().map(|x| x.to_bits().to_string()).unwrap_or("err".into());
            let pi = s.parse::<i64>().map(|x| x.to_string()).unwrap_or("err".into());
            let pu = s.parse::<u64>().map(|x| x.to_string()).unwrap_or("err".into());
            let pu32 = s.parse::<u32>().map(|x| x.to_string()).unwrap_or("err".into());
            format!("flt p {} {} {} {} {} {}", hexs(&s), p32, p64, pi, pu, pu32)
        }
    }
}

fn main() {
    let a = parse_args();
    quiet_panics();
    let mut out = Out::new();
    for i in case_indices(&a) {
        let mut r = Rng::for_case(a.seed, i);
        let line = match r.below(20) {
            0..=7 => {
                // round trip of a generated data set
                let obj = if r.chance(1, 50) {
                    let levels = if r.chance(1, 2) { r.range(4, 10) } else { r.range(10, 30) } as u32;
                    gen_deep(&mut r, levels)
                } else {
                    let o = GenOpts { max_depth: 3, ill_typed: r.chance(1, 4), pixel_seq: r.chance(1, 4) };
                    gen_ds(&mut r, 0, &o)
                };
                rt_line(&obj)
            }
            8..=13 => {
                // mutated serialisation of a generated data set
                let o = GenOpts { max_depth: 2, ill_typed: false, pixel_seq: false };
                let obj = gen_ds(&mut r, 0, &o);
                let mut j = match ser_value(&obj) {
                    Ok(Ok(v)) => jt_of_value(&v),
                    _ => JT::O(vec![]),
                };
                // floats of the tree must survive serde_json's text reader (trusted, not under test)
                fix_floats(&mut r, &mut j);
                for _ in 0..r.usize(1, 3) {
                    mutate(&mut r, &mut j);
                }
                de_line(&j)
            }
            14..=16 => de_line(&rand_dataset(&mut r, 2)),
            17 => de_line(&rand_json(&mut r, 3)),
            _ => flt_line(&mut r),
        };
        out.line(&format!("#{} {}", i, line));
    }
}

fn fix_floats(r: &mut Rng, j: &mut JT) {
    match j {
        JT::F(b) => {
            let t = serde_json::to_string(&f64::from_bits(*b)).unwrap();
            let ok = serde_json::from_str::<f64>(&t).map(|g| g.to_bits() == *b).unwrap_or(false);
            if !ok {
                *j = safe_float(r);
            }
        }
        JT::A(a) => a.iter_mut().for_each(|x| fix_floats(r, x)),
        JT::O(m) => m.iter_mut().for_each(|(_, x)| fix_floats(r, x)),
        _ => {}
    }
}
