//! C25 — PDUs are encoded and decoded losslessly with exact framing.
//! Calls the real `dicom_ul::pdu::{write_pdu, read_pdu}`.
//!
//! line kinds
//!   gen <mx> <strict> <tail> ; <PDU> ; <write result> ; <read of bytes++tail> ; pfx <tested> <bad> <len|-> <class|-> ; sp (<len> <class>)*
//!   mal <mx> <strict> <bytes> ; <read result>
mod gen;
use dicom_ul::pdu::*;
use gen::*;
use verif_harness::util::*;

const MAX_PDU: u32 = 4_294_967_288;

fn pick_mx(r: &mut Rng, body_len: u32) -> u32 {
    match r.below(16) {
        0 => 1018,
        1 => body_len.saturating_sub(1),
        2 | 3 => body_len.max(1018),
        4 => body_len.saturating_add(1).max(1018),
        5 => 16_384,
        6 => 32_762,
        7 => MAX_PDU,
        8 => *r.pick(&[0u32, 1, 1017, MAX_PDU + 1, u32::MAX]),
        9 => r.range(1018, 70_000) as u32,
        _ => r.range(body_len.max(1018) as u64, MAX_PDU as u64) as u32,
    }
}

fn write_result(p: &Pdu) -> (String, Option<Vec<u8>>) {
    let mut out = Vec::new();
    match catch(std::panic::AssertUnwindSafe(|| write_pdu(&mut out, p))) {
        Err(_) => ("panic".into(), None),
        Ok(Ok(())) => (format!("ok {}", hex(&out)), Some(out)),
        Ok(Err(e)) => {
            // class of the failure: text that the codec cannot encode, or anything else
            let mut src: Option<&(dyn std::error::Error + 'static)> = Some(&e);
            let mut enc = false;
            while let Some(s) = src {
                if s.downcast_ref::<dicom_encoding::text::EncodeTextError>().is_some() {
                    enc = true;
                }
                src = s.source();
            }
            ((if enc { "err:encode" } else { "err:other" }).into(), None)
        }
    }
}

fn short_class(c: &str) -> &str {
    c.split(' ').next().unwrap()
}

fn gen_case(r: &mut Rng, size: Size, allow_bad: bool) -> String {
    let p = gen_pdu(r, size, allow_bad);
    let ptoks = pdu_tokens(&p);
    let (wres, bytes) = write_result(&p);
    let strict = r.chance(1, 2);
    let tail = match r.below(4) {
        0 => vec![],
        1 => vec![5, 0, 0, 0, 0, 4, 0, 0, 0, 0],
        _ => {
            let n = r.usize(1, 9);
            r.bytes(n)
        }
    };
    match bytes {
        None => {
            let mx = pick_mx(r, 0);
            format!("gen {} {} {} ; {} ; {} ; - ; pfx 0 0 - - ; sp", mx, strict as u8, hex(&tail), ptoks, wres)
        }
        Some(b) => {
            let body_len = (b.len() - 6) as u32;
            let mx = pick_mx(r, body_len);
            let mut whole = b.clone();
            whole.extend_from_slice(&tail);
            let mut rres = read_class(&whole, mx, strict);
            if let Some(rest) = rres.strip_prefix(&format!("some {} ", b.len())) {
                if rest == ptoks {
                    rres = format!("some {} =in", b.len());
                }
            }
            // every strict prefix of the encoding
            let mut bad = 0u64;
            let mut first: Option<(usize, String)> = None;
            for n in 0..b.len() {
                let c = read_class(&b[..n], mx, strict);
                if c != "none" {
                    bad += 1;
                    if first.is_none() {
                        first = Some((n, short_class(&c).to_string()));
                    }
                }
            }
            let (fl, fc) = match first {
                Some((n, c)) => (n.to_string(), c),
                None => ("-".into(), "-".into()),
            };
            // a few prefixes spelled out for the model
            let mut sp = String::from("sp");
            let mut lens = vec![0usize, 1, 2, 5, 6, 7, b.len() - 1, b.len() / 2];
            for _ in 0..3 {
                lens.push(r.usize(0, b.len() - 1));
            }
            lens.retain(|n| *n < b.len());
            lens.sort();
            lens.dedup();
            for n in lens {
                sp.push_str(&format!(" {} {}", n, short_class(&read_class(&b[..n], mx, strict))));
            }
            format!(
                "gen {} {} {} ; {} ; {} ; {} ; pfx {} {} {} {} ; {}",
                mx,
                strict as u8,
                hex(&tail),
                ptoks,
                wres,
                rres,
                b.len(),
                bad,
                fl,
                fc,
                sp
            )
        }
    }
}

/// positions where a 16-bit item length field starts, found by a plain walk over the
/// variable items of an A-ASSOCIATE-RQ/AC encoding (first level only)
fn item_length_positions(b: &[u8]) -> Vec<usize> {
    let mut v = vec![];
    if b.len() > 74 && (b[0] == 1 || b[0] == 2) {
        let mut i = 74;
        while i + 4 <= b.len() {
            v.push(i + 2);
            let l = u16::from_be_bytes([b[i + 2], b[i + 3]]) as usize;
            // descend one level into presentation contexts and user information
            let (start, end) = (i + 4, (i + 4 + l).min(b.len()));
            let mut j = match b[i] {
                0x20 | 0x21 => start + 4,
                0x50 => start,
                _ => end,
            };
            while j + 4 <= end {
                v.push(j + 2);
                j += 4 + u16::from_be_bytes([b[j + 2], b[j + 3]]) as usize;
            }
            i = end;
        }
    }
    v
}

fn mal_case(r: &mut Rng) -> String {
    // start from a valid encoding, then damage it
    let mut b = loop {
        let p = gen_pdu(r, Size::Small, false);
        let mut out = vec![];
        if write_pdu(&mut out, &p).is_ok() && out.len() < 3000 {
            break out;
        }
    };
    let nmut = r.usize(1, 3);
    let mut fix_len = r.chance(5, 6);
    for _ in 0..nmut {
        let lens = item_length_positions(&b);
        match r.below(12) {
            0 | 1 if !lens.is_empty() => {
                // an item length off by a little
                let p = *r.pick(&lens);
                let l = u16::from_be_bytes([b[p], b[p + 1]]);
                let d = *r.pick(&[1i32, -1, 2, -2, 4, -4, 255, -256]);
                let nl = (l as i32 + d).clamp(0, 65535) as u16;
                b[p..p + 2].copy_from_slice(&nl.to_be_bytes());
            }
            2 if !lens.is_empty() => {
                // an item type replaced
                let p = *r.pick(&lens) - 2;
                b[p] = *r.pick(&[0x10u8, 0x20, 0x21, 0x30, 0x40, 0x50, 0x51, 0x52, 0x54, 0x55, 0x56, 0x58, 0x53, 0x00]);
            }
            3 => {
                // truncate the body
                let n = r.usize(0, b.len());
                b.truncate(n);
            }
            4 => {
                // delete a byte range
                if b.len() > 8 {
                    let s = r.usize(6, b.len() - 1);
                    let e = (s + r.usize(1, 6)).min(b.len());
                    b.drain(s..e);
                }
            }
            5 => {
                // insert bytes
                let s = r.usize(0, b.len());
                let n = r.usize(1, 6);
                let ins = r.bytes(n);
                for (k, x) in ins.into_iter().enumerate() {
                    b.insert(s + k, x);
                }
            }
            6 => {
                // PDU type changed
                if !b.is_empty() {
                    b[0] = r.range(0, 9) as u8;
                }
            }
            7 => {
                // PDU length field changed, left as is
                if b.len() >= 6 {
                    let l = u32::from_be_bytes([b[2], b[3], b[4], b[5]]);
                    let nl = match r.below(4) {
                        0 => l.wrapping_add(1),
                        1 => l.wrapping_sub(1),
                        2 => r.edgy(32) as u32,
                        _ => l / 2,
                    };
                    b[2..6].copy_from_slice(&nl.to_be_bytes());
                    fix_len = false;
                }
            }
            _ => {
                // a byte overwritten
                if !b.is_empty() {
                    let p = r.usize(0, b.len() - 1);
                    b[p] = if r.chance(1, 2) { r.edgy(8) as u8 } else { b[p] ^ (1 << r.below(8)) };
                }
            }
        }
    }
    if fix_len && b.len() >= 6 {
        let l = (b.len() - 6) as u32;
        b[2..6].copy_from_slice(&l.to_be_bytes());
    }
    let strict = r.chance(1, 2);
    let mx = pick_mx(r, b.len().saturating_sub(6) as u32);
    format!("mal {} {} {} ; {}", mx, strict as u8, hex(&b), read_class(&b, mx, strict))
}

fn main() {
    let a = parse_args();
    quiet_panics();
    let mut out = Out::new();
    for i in case_indices(&a) {
        let mut r = Rng::for_case(a.seed, i);
        let line = match i % 20 {
            0..=10 => gen_case(&mut r, Size::Small, false),
            11 => gen_case(&mut r, Size::Large, false),
            12..=14 => gen_case(&mut r, Size::Small, true),
            _ => mal_case(&mut r),
        };
        out.line(&format!("#{} {}", i, line));
    }
}
