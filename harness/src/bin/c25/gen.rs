//! PDU generators and the token printer shared by the C25 and C27 runners.
//! Everything here builds values of the real `dicom_ul::pdu` types.
#![allow(dead_code)]
use dicom_ul::pdu::*;
use verif_harness::util::*;

// ---------------------------------------------------------------- token printer

fn rj_source(s: &AssociationRJSource) -> String {
    match s {
        AssociationRJSource::ServiceUser(r) => format!(
            "su {}",
            match r {
                AssociationRJServiceUserReason::NoReasonGiven => "nrg".to_string(),
                AssociationRJServiceUserReason::ApplicationContextNameNotSupported => "acn".to_string(),
                AssociationRJServiceUserReason::CallingAETitleNotRecognized => "calling".to_string(),
                AssociationRJServiceUserReason::CalledAETitleNotRecognized => "called".to_string(),
                AssociationRJServiceUserReason::Reserved(x) => format!("res:{x}"),
            }
        ),
        AssociationRJSource::ServiceProviderASCE(r) => format!(
            "asce {}",
            match r {
                AssociationRJServiceProviderASCEReason::NoReasonGiven => "nrg",
                AssociationRJServiceProviderASCEReason::ProtocolVersionNotSupported => "pv",
            }
        ),
        AssociationRJSource::ServiceProviderPresentation(r) => format!(
            "pres {}",
            match r {
                AssociationRJServiceProviderPresentationReason::TemporaryCongestion => "tc".to_string(),
                AssociationRJServiceProviderPresentationReason::LocalLimitExceeded => "lle".to_string(),
                AssociationRJServiceProviderPresentationReason::Reserved(x) => format!("res:{x}"),
            }
        ),
    }
}

fn abort_source(s: &AbortRQSource) -> &'static str {
    match s {
        AbortRQSource::ServiceUser => "su",
        AbortRQSource::Reserved => "res",
        AbortRQSource::ServiceProvider(r) => match r {
            AbortRQServiceProviderReason::ReasonNotSpecified => "sp:rns",
            AbortRQServiceProviderReason::UnrecognizedPdu => "sp:unrec",
            AbortRQServiceProviderReason::UnexpectedPdu => "sp:unexp",
            AbortRQServiceProviderReason::Reserved => "sp:res",
            AbortRQServiceProviderReason::UnrecognizedPduParameter => "sp:unrecp",
            AbortRQServiceProviderReason::UnexpectedPduParameter => "sp:unexpp",
            AbortRQServiceProviderReason::InvalidPduParameter => "sp:invp",
        },
    }
}

fn user_var(v: &UserVariableItem) -> String {
    match v {
        UserVariableItem::Unknown(t, d) => format!("unk {} {}", t, hex(d)),
        UserVariableItem::MaxLength(n) => format!("ml {n}"),
        UserVariableItem::ImplementationClassUID(s) => format!("icu {}", hexs(s)),
        UserVariableItem::ImplementationVersionName(s) => format!("ivn {}", hexs(s)),
        UserVariableItem::SopClassExtendedNegotiationSubItem(s, d) => format!("ext {} {}", hexs(s), hex(d)),
        UserVariableItem::ScuScpRoleSelectionSubItem(s, r) => {
            format!("role {} {} {}", hexs(s), r.scu as u8, r.scp as u8)
        }
        UserVariableItem::UserIdentityItem(u) => format!(
            "id {} {} {} {}",
            match u.identity_type() {
                UserIdentityType::Username => "user",
                UserIdentityType::UsernamePassword => "userpw",
                UserIdentityType::KerberosServiceTicket => "krb",
                UserIdentityType::SamlAssertion => "saml",
                UserIdentityType::Jwt => "jwt",
                _ => "other",
            },
            u.positive_response_requested() as u8,
            hex(&u.primary_field()),
            hex(&u.secondary_field())
        ),
    }
}

fn user_vars(vs: &[UserVariableItem]) -> String {
    let mut s = format!("{}", vs.len());
    for v in vs {
        s.push(' ');
        s.push_str(&user_var(v));
    }
    s
}

pub fn reason_name(r: &PresentationContextResultReason) -> &'static str {
    match r {
        PresentationContextResultReason::Acceptance => "acc",
        PresentationContextResultReason::UserRejection => "urej",
        PresentationContextResultReason::NoReason => "nor",
        PresentationContextResultReason::AbstractSyntaxNotSupported => "asn",
        PresentationContextResultReason::TransferSyntaxesNotSupported => "tsn",
    }
}

/// canonical token form of a PDU (prefix notation, explicit counts)
pub fn pdu_tokens(p: &Pdu) -> String {
    match p {
        Pdu::Unknown { pdu_type, data } => format!("unk {} {}", pdu_type, hex(data)),
        Pdu::AssociationRQ(a) => {
            let mut s = format!(
                "rq {} {} {} {} {}",
                a.protocol_version,
                hexs(&a.calling_ae_title),
                hexs(&a.called_ae_title),
                hexs(&a.application_context_name),
                a.presentation_contexts.len()
            );
            for pc in &a.presentation_contexts {
                s.push_str(&format!(" {} {} {}", pc.id, hexs(&pc.abstract_syntax), pc.transfer_syntaxes.len()));
                for ts in &pc.transfer_syntaxes {
                    s.push(' ');
                    s.push_str(&hexs(ts));
                }
            }
            s.push(' ');
            s.push_str(&user_vars(&a.user_variables));
            s
        }
        Pdu::AssociationAC(a) => {
            let mut s = format!(
                "ac {} {} {} {} {}",
                a.protocol_version,
                hexs(&a.calling_ae_title),
                hexs(&a.called_ae_title),
                hexs(&a.application_context_name),
                a.presentation_contexts.len()
            );
            for pc in &a.presentation_contexts {
                s.push_str(&format!(" {} {} {}", pc.id, reason_name(&pc.reason), hexs(&pc.transfer_syntax)));
            }
            s.push(' ');
            s.push_str(&user_vars(&a.user_variables));
            s
        }
        Pdu::AssociationRJ(r) => format!(
            "rj {} {}",
            match r.result {
                AssociationRJResult::Permanent => "perm",
                AssociationRJResult::Transient => "trans",
            },
            rj_source(&r.source)
        ),
        Pdu::PData { data } => {
            let mut s = format!("pd {}", data.len());
            for v in data {
                s.push_str(&format!(
                    " {} {} {} {}",
                    v.presentation_context_id,
                    match v.value_type {
                        PDataValueType::Command => "c",
                        PDataValueType::Data => "d",
                    },
                    v.is_last as u8,
                    hex(&v.data)
                ));
            }
            s
        }
        Pdu::ReleaseRQ => "rrq".into(),
        Pdu::ReleaseRP => "rrp".into(),
        Pdu::AbortRQ { source } => format!("ab {}", abort_source(source)),
    }
}

// ---------------------------------------------------------------- generators

const UID_CH: &[u8] = b"0123456789.";
const TITLE_CH: &[u8] = b"ABCDEFXYZ_019 -";
const G0_CH: &[u8] = b"ABCxyz019_-. /:";

/// how large the "big" things may get
#[derive(Clone, Copy, PartialEq)]
pub enum Size {
    Small,
    /// sub-items near and over the 16-bit limit
    Large,
}

/// a text field: UID-like most of the time; sometimes padded with white space (which the reader
/// trims), sometimes Latin-1, rarely outside ISO-8859-1 (then `write_pdu` must fail)
pub fn gen_text(r: &mut Rng, uid: bool, allow_bad: bool) -> String {
    let n = match r.below(12) {
        0 => 0,
        1 => 1,
        2 => 64,
        3 => r.usize(65, 140),
        _ => r.usize(2, 40),
    };
    let mut s = r.ascii_from(if uid { UID_CH } else { G0_CH }, n);
    match r.below(24) {
        0 => s.push(' '),
        1 => s.insert(0, ' '),
        2 => s.push('\0'),
        3 => s.push('\u{a0}'),
        4 => s.insert(0, '\u{85}'),
        5 => s.push('\u{e9}'),
        6 => s.push_str(" \t\r\n"),
        7 => s.insert(r.usize(0, s.len()), ' '),
        8 => s.insert(r.usize(0, s.len()), '\u{ff}'),
        9 if allow_bad => s.insert(r.usize(0, s.len()), *r.pick(&['\u{100}', '\u{20ac}', '\u{1f600}'])),
        10 => s = " ".repeat(r.usize(1, 5)),
        _ => {}
    }
    s
}

pub fn gen_ae(r: &mut Rng, allow_bad: bool) -> String {
    let n = match r.below(10) {
        0 => 0,
        1 => 16,
        2 => 17,
        3 => r.usize(18, 40),
        _ => r.usize(1, 15),
    };
    let mut s = r.ascii_from(TITLE_CH, n);
    match r.below(16) {
        0 => s.push(' '),
        1 => s.insert(0, ' '),
        2 => s.push('\u{e9}'),
        3 => s.push('\u{a0}'),
        4 if allow_bad => s.push('\u{20ac}'),
        _ => {}
    }
    s
}

fn gen_blob(r: &mut Rng, size: Size) -> Vec<u8> {
    let n = match (size, r.below(10)) {
        (_, 0) => 0,
        (_, 1) => 1,
        (Size::Large, 2) => r.usize(65_500, 65_560),
        (Size::Large, 3) => *r.pick(&[65_527usize, 65_531, 65_532, 65_535, 65_536, 70_000, 131_072]),
        (Size::Large, 4) => r.usize(20_000, 40_000),
        _ => r.usize(2, 48),
    };
    r.bytes(n)
}

const KNOWN_UV: [u8; 6] = [0x51, 0x52, 0x54, 0x55, 0x56, 0x58];

pub fn gen_user_var(r: &mut Rng, size: Size, allow_bad: bool) -> UserVariableItem {
    match r.below(8) {
        0 => UserVariableItem::MaxLength(r.edgy(32) as u32),
        1 => UserVariableItem::ImplementationClassUID(gen_text(r, true, allow_bad)),
        2 => UserVariableItem::ImplementationVersionName(gen_text(r, false, allow_bad)),
        3 => UserVariableItem::SopClassExtendedNegotiationSubItem(gen_text(r, true, allow_bad), gen_blob(r, size)),
        4 => UserVariableItem::ScuScpRoleSelectionSubItem(
            gen_text(r, true, allow_bad),
            RequestorRoles { scu: r.chance(1, 2), scp: r.chance(1, 2) },
        ),
        5 => {
            let ty = match r.below(5) {
                0 => UserIdentityType::Username,
                1 => UserIdentityType::UsernamePassword,
                2 => UserIdentityType::KerberosServiceTicket,
                3 => UserIdentityType::SamlAssertion,
                _ => UserIdentityType::Jwt,
            };
            let second = if r.chance(1, 2) { gen_blob(r, Size::Small) } else { vec![] };
            UserVariableItem::UserIdentityItem(UserIdentity::new(r.chance(1, 2), ty, gen_blob(r, size), second))
        }
        6 if allow_bad && r.chance(1, 6) => {
            // an `Unknown` carrying a code the reader knows: outside the property's quantifier,
            // still compared with the model
            UserVariableItem::Unknown(*r.pick(&KNOWN_UV), gen_blob(r, Size::Small))
        }
        _ => {
            let mut t = r.edgy(8) as u8;
            while KNOWN_UV.contains(&t) {
                t = r.next_u64() as u8;
            }
            UserVariableItem::Unknown(t, gen_blob(r, size))
        }
    }
}

fn gen_user_vars(r: &mut Rng, size: Size, allow_bad: bool) -> Vec<UserVariableItem> {
    let n = match r.below(8) {
        0 => 0,
        1 => 1,
        2 => r.usize(9, 24),
        _ => r.usize(2, 8),
    };
    // at most two large items per PDU keep the lines bounded
    let mut large_left = 2;
    (0..n)
        .map(|_| {
            let sz = if size == Size::Large && large_left > 0 && r.chance(1, 2) {
                large_left -= 1;
                Size::Large
            } else {
                Size::Small
            };
            gen_user_var(r, sz, allow_bad)
        })
        .collect()
}

fn gen_count_pcs(r: &mut Rng) -> usize {
    match r.below(10) {
        0 => 0,
        1 => 1,
        2 => r.usize(20, 60),
        3 => 128,
        _ => r.usize(2, 8),
    }
}

pub fn gen_reason(r: &mut Rng) -> PresentationContextResultReason {
    match r.below(5) {
        0 => PresentationContextResultReason::Acceptance,
        1 => PresentationContextResultReason::UserRejection,
        2 => PresentationContextResultReason::NoReason,
        3 => PresentationContextResultReason::AbstractSyntaxNotSupported,
        _ => PresentationContextResultReason::TransferSyntaxesNotSupported,
    }
}

pub fn gen_rq(r: &mut Rng, size: Size, allow_bad: bool) -> Pdu {
    let npc = gen_count_pcs(r);
    let presentation_contexts = (0..npc)
        .map(|i| {
            let nts = match r.below(8) {
                0 => 0,
                1 => r.usize(9, 30),
                _ => r.usize(1, 5),
            };
            PresentationContextProposed {
                id: if r.chance(3, 4) { (2 * i + 1) as u8 } else { r.edgy(8) as u8 },
                abstract_syntax: gen_text(r, true, allow_bad),
                transfer_syntaxes: (0..nts).map(|_| gen_text(r, true, allow_bad)).collect(),
            }
        })
        .collect();
    Pdu::AssociationRQ(AssociationRQ {
        protocol_version: r.edgy(16) as u16,
        calling_ae_title: gen_ae(r, allow_bad),
        called_ae_title: gen_ae(r, allow_bad),
        application_context_name: if size == Size::Large && r.chance(1, 12) {
            "1".repeat(*r.pick(&[65_535usize, 65_536, 70_001]))
        } else {
            gen_text(r, true, allow_bad)
        },
        presentation_contexts,
        user_variables: gen_user_vars(r, size, allow_bad),
    })
}

pub fn gen_ac(r: &mut Rng, size: Size, allow_bad: bool) -> Pdu {
    let npc = gen_count_pcs(r);
    let presentation_contexts = (0..npc)
        .map(|i| PresentationContextResult {
            id: if r.chance(3, 4) { (2 * i + 1) as u8 } else { r.edgy(8) as u8 },
            reason: gen_reason(r),
            transfer_syntax: if size == Size::Large && r.chance(1, 40) {
                "2".repeat(*r.pick(&[65_527usize, 65_528, 66_000]))
            } else {
                gen_text(r, true, allow_bad)
            },
        })
        .collect();
    Pdu::AssociationAC(AssociationAC {
        protocol_version: r.edgy(16) as u16,
        calling_ae_title: gen_ae(r, allow_bad),
        called_ae_title: gen_ae(r, allow_bad),
        application_context_name: gen_text(r, true, allow_bad),
        presentation_contexts,
        user_variables: gen_user_vars(r, size, allow_bad),
    })
}

pub fn gen_rj(r: &mut Rng, allow_bad: bool) -> Pdu {
    let result = if r.chance(1, 2) { AssociationRJResult::Permanent } else { AssociationRJResult::Transient };
    let source = match r.below(3) {
        0 => AssociationRJSource::ServiceUser(match r.below(6) {
            0 => AssociationRJServiceUserReason::NoReasonGiven,
            1 => AssociationRJServiceUserReason::ApplicationContextNameNotSupported,
            2 => AssociationRJServiceUserReason::CallingAETitleNotRecognized,
            3 => AssociationRJServiceUserReason::CalledAETitleNotRecognized,
            _ => AssociationRJServiceUserReason::Reserved(if allow_bad && r.chance(1, 4) {
                r.edgy(8) as u8
            } else {
                *r.pick(&[4u8, 5, 6, 8, 9, 10])
            }),
        }),
        1 => AssociationRJSource::ServiceProviderASCE(if r.chance(1, 2) {
            AssociationRJServiceProviderASCEReason::NoReasonGiven
        } else {
            AssociationRJServiceProviderASCEReason::ProtocolVersionNotSupported
        }),
        _ => AssociationRJSource::ServiceProviderPresentation(match r.below(4) {
            0 => AssociationRJServiceProviderPresentationReason::TemporaryCongestion,
            1 => AssociationRJServiceProviderPresentationReason::LocalLimitExceeded,
            _ => AssociationRJServiceProviderPresentationReason::Reserved(if allow_bad && r.chance(1, 4) {
                r.edgy(8) as u8
            } else {
                *r.pick(&[0u8, 3, 4, 5, 6, 7])
            }),
        }),
    };
    Pdu::AssociationRJ(AssociationRJ { result, source })
}

pub fn gen_abort(r: &mut Rng) -> Pdu {
    let source = match r.below(9) {
        0 => AbortRQSource::ServiceUser,
        1 => AbortRQSource::Reserved,
        2 => AbortRQSource::ServiceProvider(AbortRQServiceProviderReason::ReasonNotSpecified),
        3 => AbortRQSource::ServiceProvider(AbortRQServiceProviderReason::UnrecognizedPdu),
        4 => AbortRQSource::ServiceProvider(AbortRQServiceProviderReason::UnexpectedPdu),
        5 => AbortRQSource::ServiceProvider(AbortRQServiceProviderReason::Reserved),
        6 => AbortRQSource::ServiceProvider(AbortRQServiceProviderReason::UnrecognizedPduParameter),
        7 => AbortRQSource::ServiceProvider(AbortRQServiceProviderReason::UnexpectedPduParameter),
        _ => AbortRQSource::ServiceProvider(AbortRQServiceProviderReason::InvalidPduParameter),
    };
    Pdu::AbortRQ { source }
}

pub fn gen_pdata(r: &mut Rng, size: Size) -> Pdu {
    let n = match r.below(8) {
        0 => 0,
        1 => r.usize(4, 12),
        _ => r.usize(1, 3),
    };
    let mut large_left = 1;
    let data = (0..n)
        .map(|_| {
            let len = match r.below(8) {
                0 => 0,
                1 => 1,
                2 if size == Size::Large && large_left > 0 => {
                    large_left -= 1;
                    *r.pick(&[16_378usize, 65_534, 65_535, 65_536, 70_000])
                }
                3 => r.usize(200, 2000),
                _ => r.usize(2, 64),
            };
            PDataValue {
                presentation_context_id: if r.chance(3, 4) { (r.below(128) * 2 + 1) as u8 } else { r.edgy(8) as u8 },
                value_type: if r.chance(1, 2) { PDataValueType::Command } else { PDataValueType::Data },
                is_last: r.chance(1, 2),
                data: r.bytes(len),
            }
        })
        .collect();
    Pdu::PData { data }
}

pub fn gen_unknown(r: &mut Rng, size: Size, allow_bad: bool) -> Pdu {
    let pdu_type = if allow_bad && r.chance(1, 8) {
        r.range(1, 7) as u8
    } else {
        *r.pick(&[0u8, 8, 9, 0x10, 0x50, 0x7f, 0x80, 0xfe, 0xff])
    };
    let n = match r.below(6) {
        0 => 0,
        1 if size == Size::Large => r.usize(60_000, 70_000),
        _ => r.usize(1, 100),
    };
    Pdu::Unknown { pdu_type, data: r.bytes(n) }
}

/// a PDU of any kind. `allow_bad`: also values outside the round-trip quantifier
/// (non-Latin-1 text, `Unknown` with a known code, reserved codes the reader rejects)
pub fn gen_pdu(r: &mut Rng, size: Size, allow_bad: bool) -> Pdu {
    match r.below(16) {
        0..=4 => gen_rq(r, size, allow_bad),
        5..=8 => gen_ac(r, size, allow_bad),
        9 => gen_rj(r, allow_bad),
        10..=11 => gen_pdata(r, size),
        12 => Pdu::ReleaseRQ,
        13 => Pdu::ReleaseRP,
        14 => gen_abort(r),
        _ => gen_unknown(r, size, allow_bad),
    }
}

/// result class of `read_pdu`
pub fn read_class(bytes: &[u8], mx: u32, strict: bool) -> String {
    let mut s: &[u8] = bytes;
    match catch(std::panic::AssertUnwindSafe(|| read_pdu(&mut s, mx, strict))) {
        Err(_) => "panic".into(),
        Ok(Err(_)) => "err".into(),
        Ok(Ok(None)) => "none".into(),
        Ok(Ok(Some(p))) => format!("some {} {}", bytes.len() - s.len(), pdu_tokens(&p)),
    }
}
