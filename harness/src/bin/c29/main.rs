//! C29 — requestor and acceptor agree on the association and respect PDU limits.
//!
//! Every case: a real `ClientAssociationOptions::establish_with` talks to a real
//! `ServerAssociationOptions::establish` over loopback TCP through a byte-recording proxy; both
//! sides' negotiated state is printed; then a random script of sends (single P-DATA PDUs around
//! the peer's limit, `send_pdata` streams, release / abort) runs and the PDU sizes on the wire
//! are reported.
#[path = "../c28/wire.rs"]
mod wire;
#[path = "../c28/gen.rs"]
mod gen;
#[path = "../c28/srv.rs"]
mod srv;
mod script;
use dicom_ul::association::client::ClientAssociationOptions;
use dicom_ul::association::Association;
use gen::*;
use script::*;
use srv::*;
use std::io::{Read, Write};
use std::net::{Shutdown, TcpListener, TcpStream};
use std::sync::mpsc;
use std::sync::{Arc, Mutex};
use std::time::Duration;
use verif_harness::util::*;
use wire::*;

/// forward `from` → `to`, recording every byte
fn pump(mut from: TcpStream, mut to: TcpStream, rec: Arc<Mutex<Vec<u8>>>) {
    let mut buf = [0u8; 65536];
    loop {
        match from.read(&mut buf) {
            Ok(0) | Err(_) => break,
            Ok(n) => {
                rec.lock().unwrap().extend_from_slice(&buf[..n]);
                if to.write_all(&buf[..n]).is_err() {
                    break;
                }
            }
        }
    }
    let _ = to.shutdown(Shutdown::Write);
}

/// PDUs in a recorded byte stream: (type, length field); a trailing partial PDU is reported as type 255
pub fn split_pdus(b: &[u8]) -> Vec<(u8, u32)> {
    let mut v = vec![];
    let mut i = 0;
    while i + 6 <= b.len() {
        let len = u32::from_be_bytes([b[i + 2], b[i + 3], b[i + 4], b[i + 5]]);
        if i + 6 + len as usize > b.len() {
            v.push((255, (b.len() - i) as u32));
            return v;
        }
        v.push((b[i], len));
        i += 6 + len as usize;
    }
    if i < b.len() {
        v.push((255, (b.len() - i) as u32));
    }
    v
}

fn first_pdu_tok(b: &[u8]) -> String {
    let mut cur = std::io::Cursor::new(b);
    match dicom_ul::pdu::read_pdu(&mut cur, dicom_ul::pdu::MAXIMUM_PDU_SIZE, false) {
        Ok(Some(p)) => pdu_tok(&p),
        Ok(None) => "none".into(),
        Err(_) => "err:decode".into(),
    }
}

fn wire_tok(v: &[(u8, u32)]) -> String {
    let mut s = format!("{}", v.len());
    for (t, l) in v {
        s.push_str(&format!(" {}:{}", t, l));
    }
    s
}

fn client_options(c: &ClientSpec) -> ClientAssociationOptions<'static> {
    let mut o = ClientAssociationOptions::new()
        .calling_ae_title(c.calling.clone())
        .max_pdu_length(c.maxpdu)
        .strict(c.strict)
        .read_timeout(Duration::from_secs(60));
    if let Some(x) = &c.called {
        o = o.called_ae_title(x.clone());
    }
    for (a, tss) in &c.contexts {
        o = o.with_presentation_context(a.clone(), tss.clone());
    }
    for (u, d) in &c.ext {
        o = o.with_extended_negotiation(u.clone(), d.clone());
    }
    for (u, a, b) in &c.roles {
        o = o.with_role_selection(u.clone(), *a, *b);
    }
    match &c.ident {
        Ident::None => {}
        Ident::User(u) => o = o.username(u.clone()),
        Ident::UserPass(u, p) => o = o.username_password(u.clone(), p.clone()),
        Ident::Kerberos(k) => o = o.kerberos_service_ticket(k.clone()),
        Ident::Saml(k) => o = o.saml_assertion(k.clone()),
        Ident::Jwt(k) => o = o.jwt(k.clone()),
    }
    o
}

fn run_case(uni: &Universe, seed: u64, i: u64, srv_l: &TcpListener, prx_l: &TcpListener) -> String {
    let mut r = Rng::for_case(seed, i);
    let (cs, cfg, script) = gen_case(uni, &mut r);
    let srv_port = srv_l.local_addr().unwrap().port();
    let prx_port = prx_l.local_addr().unwrap().port();
    let c2s = Arc::new(Mutex::new(Vec::new()));
    let s2c = Arc::new(Mutex::new(Vec::new()));
    // channels telling the receiving side whether something was put on the wire
    let (to_srv, from_cli) = mpsc::channel::<bool>();
    let (to_cli, from_srv) = mpsc::channel::<bool>();

    let ip = std::net::Ipv4Addr::new(127, 1, (i / 250 % 250) as u8, (i % 250 + 1) as u8);
    std::thread::scope(|sc| {
        // proxy
        let (c2s_r, s2c_r) = (c2s.clone(), s2c.clone());
        let proxy = sc.spawn(move || {
            let (cli, _) = prx_l.accept().unwrap();
            let srv = TcpStream::connect((ip, srv_port)).unwrap();
            let _ = cli.set_nodelay(true);
            let _ = srv.set_nodelay(true);
            let (cli2, srv2) = (cli.try_clone().unwrap(), srv.try_clone().unwrap());
            let t = std::thread::spawn(move || pump(srv2, cli2, s2c_r));
            pump(cli, srv, c2s_r);
            let _ = t.join();
        });
        // acceptor
        let cfg2 = cfg.clone();
        let script2 = script.clone();
        let server = sc.spawn(move || {
            let (s, _) = srv_l.accept().unwrap();
            let res = catch(std::panic::AssertUnwindSafe(|| establish_cfg(&cfg2, s)));
            match res {
                Err(_) => ("panic".to_string(), vec![]),
                Ok(r) => {
                    let tok = srv_tok(&r);
                    let steps = match r {
                        Ok(assoc) => run_script(Side::Acceptor, assoc, &script2, to_cli, from_cli),
                        Err(_) => vec![],
                    };
                    (tok, steps)
                }
            }
        });
        // requestor
        let addr = match &cs.addr_title {
            Some(t) => format!("{}@{}:{}", t, ip, prx_port),
            None => format!("{}:{}", ip, prx_port),
        };
        let res = catch(std::panic::AssertUnwindSafe(|| client_options(&cs).establish_with(&addr)));
        let (cli_tok, cli_steps) = match res {
            Err(_) => ("panic".to_string(), vec![]),
            Ok(Ok(assoc)) => {
                let tok = format!(
                    "ok {} {} {} {} {}",
                    assoc.acceptor_max_pdu_length(),
                    assoc.requestor_max_pdu_length(),
                    hexs(assoc.peer_ae_title()),
                    negotiated_tok(Association::presentation_contexts(&assoc)),
                    uvs_tok(Association::user_variables(&assoc))
                );
                let steps = run_script(Side::Requestor, assoc, &script, to_srv, from_srv);
                (tok, steps)
            }
            Ok(Err(e)) => {
                drop(to_srv);
                (err_tok(&e).to_string(), vec![])
            }
        };
        let (srv_tok_s, srv_steps) = server.join().unwrap_or_else(|_| ("panic".into(), vec![]));
        let _ = proxy.join();
        let c2s_b = c2s.lock().unwrap();
        let s2c_b = s2c.lock().unwrap();
        let steps = merge_steps(&script, &cli_steps, &srv_steps);
        format!(
            "#{} assoc tcp {} | {} | {} | {} | {} | {} | {} | {} | {}",
            i,
            client_tok(&cs),
            cfg_tok(&cfg),
            first_pdu_tok(&c2s_b),
            first_pdu_tok(&s2c_b),
            cli_tok,
            srv_tok_s,
            steps,
            wire_tok(&split_pdus(&c2s_b)),
            wire_tok(&split_pdus(&s2c_b))
        )
    })
}

/// the same association attempt without sockets: `create_a_associate_req`, the public codec,
/// `process_a_association_rq`, the public codec, `process_a_association_resp`, and `encode_pdu`
/// for the scripted single-PDU sends — all through `dicom_ul::verif_hooks`. Neither side's own
/// maximum is part of the hooks' results: it is filled in from the options (`min(value, largest)`).
fn run_case_hook(uni: &Universe, seed: u64, i: u64) -> String {
    use dicom_ul::pdu::*;
    use dicom_ul::verif_hooks as vh;
    let mut r = Rng::for_case(seed, i);
    let (cs, cfg, script) = gen_case(uni, &mut r);
    let opts = client_options(&cs);
    let head = format!("#{} assoc hook {} | {}", i, client_tok(&cs), cfg_tok(&cfg));
    let (proposed, rq) = match vh::create_a_associate_req(&opts, cs.addr_title.as_deref()) {
        Ok(x) => x,
        Err(e) => return format!("{} | none | none | {} | err:closed | 0 | 0 | 0", head, err_tok(&e)),
    };
    let Some((rq_seen, rq_len)) = through_codec(&rq) else {
        return format!("#{} skip unencodable", i);
    };
    let (reply, srv) = process_cfg_pdu(&cfg, rq_seen.clone());
    let srv = srv.replacen(" - ", &format!(" {} ", cfg.maxpdu.min(MAXIMUM_PDU_SIZE)), 1);
    let Some((reply_seen, reply_len)) = through_codec(&reply) else {
        return format!("#{} skip unencodable-reply", i);
    };
    let cli = vh::process_a_association_resp(&opts, reply_seen.clone(), &proposed);
    let cli_tok = match &cli {
        Ok(n) => format!(
            "ok {} {} {} {} {}",
            n.peer_max_pdu_length,
            cs.maxpdu.min(MAXIMUM_PDU_SIZE),
            hexs(&n.peer_ae_title),
            negotiated_tok(&n.presentation_contexts),
            uvs_tok(&n.user_variables)
        ),
        Err(e) => err_tok(e).to_string(),
    };
    let mut c2s = vec![(1u8, (rq_len - 6) as u32)];
    let mut s2c = vec![(reply_seen_type(&reply_seen), (reply_len - 6) as u32)];
    let mut steps = vec![];
    if let (Ok(n), true) = (&cli, srv.starts_with("ok ")) {
        let srv_peer_max: u32 = srv.split(' ').nth(1).and_then(|x| x.parse().ok()).unwrap_or(0);
        for st in &script {
            if let Step::Pd(by, pdvs) = st {
                let peer_max = if *by == Side::Requestor { n.peer_max_pdu_length } else { srv_peer_max };
                let pdu = Pdu::PData {
                    data: pdvs
                        .iter()
                        .enumerate()
                        .map(|(k, len)| PDataValue { presentation_context_id: 1, value_type: PDataValueType::Data, is_last: k + 1 == pdvs.len(), data: vec![0x5a; *len as usize] })
                        .collect(),
                };
                let mut buf = Vec::new();
                let out = vh::encode_pdu(&mut buf, &pdu, peer_max + PDU_HEADER_SIZE);
                let sizes = pdvs.iter().map(|x| x.to_string()).collect::<Vec<_>>().join(",");
                let who = if *by == Side::Requestor { "c" } else { "s" };
                match out {
                    Ok(()) => {
                        let rec = (4u8, (buf.len() - 6) as u32);
                        if *by == Side::Requestor {
                            c2s.push(rec)
                        } else {
                            s2c.push(rec)
                        }
                        steps.push(format!("pd/{}/{}/ok/pd,{},{}", who, sizes, pdvs.len(), pdvs.iter().sum::<u32>()));
                    }
                    Err(e) => steps.push(format!("pd/{}/{}/{}/-", who, sizes, err_tok(&e))),
                }
            }
        }
    }
    format!(
        "{} | {} | {} | {} | {} | {} {} | {} | {}",
        head,
        pdu_tok(&rq_seen),
        pdu_tok(&reply_seen),
        cli_tok,
        srv,
        steps.len(),
        steps.join(" "),
        wire_tok(&c2s),
        wire_tok(&s2c)
    )
}

fn reply_seen_type(p: &dicom_ul::Pdu) -> u8 {
    match p {
        dicom_ul::Pdu::AssociationAC(_) => 2,
        dicom_ul::Pdu::AssociationRJ(_) => 3,
        dicom_ul::Pdu::ReleaseRP => 6,
        dicom_ul::Pdu::AbortRQ { .. } => 7,
        _ => 0,
    }
}

fn main() {
    let a = parse_args();
    quiet_panics();
    let mut out = Out::new();
    {
        use dicom_transfer_syntax_registry::TransferSyntaxRegistry;
        let mut sup: Vec<String> = TransferSyntaxRegistry.iter().filter(|t| !t.is_unsupported()).map(|t| t.uid().to_string()).collect();
        sup.sort();
        let mut s = format!("#reg reg {} {} {}", hexs(dicom_ul::IMPLEMENTATION_CLASS_UID), hexs(dicom_ul::IMPLEMENTATION_VERSION_NAME), sup.len());
        for u in &sup {
            s.push(' ');
            s.push_str(&hexs(u));
        }
        out.line(&s);
    }
    let uni = Arc::new(Universe::new(a.thorough));
    let idx: Arc<Vec<u64>> = Arc::new(case_indices(&a).collect());
    let next = Arc::new(std::sync::atomic::AtomicUsize::new(0));
    let (tx, rx) = mpsc::sync_channel::<(usize, String)>(4096);
    let workers = if idx.len() < 8 { 1 } else { 8 };
    let force_tcp = a.extra.iter().any(|x| x == "--tcp");
    for _ in 0..workers {
        let (uni, idx, next, tx, seed) = (uni.clone(), idx.clone(), next.clone(), tx.clone(), a.seed);
        std::thread::spawn(move || {
            let srv_l = TcpListener::bind("0.0.0.0:0").unwrap();
            let prx_l = TcpListener::bind("0.0.0.0:0").unwrap();
            loop {
                let k = next.fetch_add(1, std::sync::atomic::Ordering::SeqCst);
                if k >= idx.len() {
                    break;
                }
                // one case in four runs over loopback TCP between the real peers, the others in-process
                let i = idx[k];
                let line = if i % 4 == 0 || force_tcp {
                    run_case(&uni, seed, i, &srv_l, &prx_l)
                } else {
                    catch(std::panic::AssertUnwindSafe(|| run_case_hook(&uni, seed, i))).unwrap_or_else(|_| format!("#{} assoc hook panic", i))
                };
                if tx.send((k, line)).is_err() {
                    break;
                }
            }
        });
    }
    drop(tx);
    let mut pending = std::collections::BTreeMap::new();
    let mut want = 0usize;
    for (k, line) in rx {
        pending.insert(k, line);
        while let Some(l) = pending.remove(&want) {
            out.line(&l);
            want += 1;
        }
    }
}
