//! Requestor options, the post-establishment script and its execution on either side.
#![allow(dead_code)]
use super::gen::*;
use super::wire::*;
use dicom_ul::association::SyncAssociation;
use dicom_ul::pdu::*;
use std::io::Write;
use std::net::TcpStream;
use std::sync::mpsc::{Receiver, Sender};
use verif_harness::util::*;

#[derive(Clone, Debug)]
pub enum Ident {
    None,
    User(String),
    UserPass(String, String),
    Kerberos(String),
    Saml(String),
    Jwt(String),
}

#[derive(Clone, Debug)]
pub struct ClientSpec {
    pub calling: String,
    pub called: Option<String>,
    /// AE title given in the address (`TITLE@host:port`)
    pub addr_title: Option<String>,
    pub maxpdu: u32,
    pub strict: bool,
    /// as passed to `with_presentation_context`
    pub contexts: Vec<(String, Vec<String>)>,
    pub ext: Vec<(String, Vec<u8>)>,
    pub roles: Vec<(String, bool, bool)>,
    pub ident: Ident,
}

fn opt_tok(o: &Option<String>) -> String {
    match o {
        Some(s) => format!("some:{}", hexs(s)),
        None => "none".into(),
    }
}

pub fn client_tok(c: &ClientSpec) -> String {
    let mut s = format!("{} {} {} {} {} {}", hexs(&c.calling), opt_tok(&c.called), opt_tok(&c.addr_title), c.maxpdu, c.strict as u8, c.contexts.len());
    for (a, tss) in &c.contexts {
        s.push_str(&format!(" {} {}", hexs(a), tss.len()));
        for t in tss {
            s.push(' ');
            s.push_str(&hexs(t));
        }
    }
    s.push_str(&format!(" {}", c.ext.len()));
    for (u, d) in &c.ext {
        s.push_str(&format!(" xn:{}:{}", hexs(u), hex(d)));
    }
    s.push_str(&format!(" {}", c.roles.len()));
    for (u, a, b) in &c.roles {
        s.push_str(&format!(" rs:{}:{}:{}", hexs(u), *a as u8, *b as u8));
    }
    s.push(' ');
    s.push_str(&match &c.ident {
        Ident::None => "none".to_string(),
        Ident::User(u) => format!("ui:0:1:{}:-", hexs(u)),
        Ident::UserPass(u, p) => format!("ui:0:2:{}:{}", hexs(u), hexs(p)),
        Ident::Kerberos(k) => format!("ui:0:3:{}:-", hexs(k)),
        Ident::Saml(k) => format!("ui:0:4:{}:-", hexs(k)),
        Ident::Jwt(k) => format!("ui:0:5:{}:-", hexs(k)),
    });
    s
}

#[derive(Clone, Copy, Debug, PartialEq)]
pub enum Side {
    Requestor,
    Acceptor,
}

#[derive(Clone, Debug)]
pub enum Step {
    /// one P-DATA-TF PDU with these PDV payload sizes, through `send`
    Pd(Side, Vec<u32>),
    /// `n` bytes through `send_pdata`
    Wr(Side, u32),
    Release(Side),
    Abort(Side),
}

fn edgy_max(r: &mut Rng) -> u32 {
    match r.below(48) {
        0 => 0,
        1 => MINIMUM_PDU_SIZE - 1,
        2 => r.range(1, 1017) as u32,
        3..=8 => MINIMUM_PDU_SIZE,
        9 | 10 => MINIMUM_PDU_SIZE + 1,
        11..=13 => DEFAULT_MAX_PDU,
        14 | 15 => MAXIMUM_PDU_SIZE,
        16 => MAXIMUM_PDU_SIZE + 1,
        17 => u32::MAX,
        _ => r.range(MINIMUM_PDU_SIZE as u64, 12000) as u32,
    }
}

pub fn gen_case(uni: &Universe, r: &mut Rng) -> (ClientSpec, Cfg, Vec<Step>) {
    let mut cfg = uni.random_cfg(r);
    // most acceptors should be able to run
    cfg.maxpdu = edgy_max(r);
    if r.chance(3, 4) {
        cfg.ac = Ac::Any;
    }
    if r.chance(2, 3) {
        cfg.ts.clear();
    }
    if r.chance(1, 3) {
        cfg.prom = true;
    }
    if r.chance(2, 3) && !cfg.abs.iter().any(|a| a.trim_end_matches('\0') == A_VERIF) {
        cfg.abs.push(A_VERIF.into());
    }
    let n = match r.below(40) {
        0 => 0,
        1 => r.usize(126, 131),
        2 => r.usize(13, 60),
        _ => r.usize(1, 6),
    };
    let sloppy = r.chance(1, 12);
    let mut contexts = vec![];
    for _ in 0..n {
        let a = if r.chance(1, 2) { A_VERIF.to_string() } else { uni.rand_as(r) };
        let a = if sloppy { a } else { clean(&a) };
        let mut tss = vec![];
        for _ in 0..(if r.chance(1, 15) { 0 } else { r.range(1, 4) }) {
            let t = uni.rand_ts(r);
            tss.push(if sloppy { t } else { clean(&t) });
        }
        if r.chance(2, 3) {
            let k = r.usize(0, tss.len());
            tss.insert(k, if r.chance(1, 2) { T_IMPL.to_string() } else { format!("{}\0", T_EXPL) });
        }
        contexts.push((a, tss));
    }
    let mut ext = vec![];
    for _ in 0..r.below(3) {
        let n = r.usize(0, 6);
        ext.push((uni.rand_as(r).trim_end_matches(['\0', ' ']).to_string(), r.bytes(n)));
    }
    let mut roles = vec![];
    for _ in 0..r.below(3) {
        roles.push((uni.rand_as(r).trim_end_matches(['\0', ' ']).to_string(), r.chance(1, 2), r.chance(1, 2)));
    }
    let ident = match r.below(10) {
        0 => Ident::User("alice".into()),
        1 => Ident::UserPass("alice".into(), "secret".into()),
        2 => Ident::UserPass("mallory".into(), "x".into()),
        3 => Ident::Jwt("e30.e30.".into()),
        4 => Ident::Saml("<a/>".into()),
        5 => Ident::Kerberos("tkt".into()),
        _ => Ident::None,
    };
    let cs = ClientSpec {
        calling: if r.chance(1, 3) { Universe::rand_ae(r) } else { "VERIF-SCU".into() },
        called: match r.below(4) {
            0 => Some(cfg.ae.clone()),
            1 => Some(Universe::rand_ae(r)),
            _ => None,
        },
        addr_title: if r.chance(1, 2) { Some(cfg.ae.clone()) } else { None },
        maxpdu: edgy_max(r),
        strict: !r.chance(1, 4),
        contexts,
        ext,
        roles,
        ident,
    };
    // the script; sizes around the limit of whoever receives
    let eff = |m: u32| -> u64 {
        let m = m.min(MAXIMUM_PDU_SIZE);
        if m == 0 {
            MAXIMUM_PDU_SIZE as u64
        } else {
            m as u64
        }
    };
    let mut script = vec![];
    for _ in 0..r.below(5) {
        let by = if r.chance(1, 2) { Side::Requestor } else { Side::Acceptor };
        let peer_max = if by == Side::Requestor { eff(cfg.maxpdu) } else { eff(cs.maxpdu) };
        let around = peer_max <= 33_000;
        if r.chance(2, 3) {
            // total encoded length = 6 + sum(6 + len); limit = peer_max + 6
            let npdv = r.range(1, 3);
            let target: i64 = if around {
                match r.below(6) {
                    0 => peer_max as i64 + 6,
                    1 => peer_max as i64 + 7,
                    2 => peer_max as i64 + 5,
                    3 => 2 * peer_max as i64,
                    _ => r.range(12, (peer_max + 6).max(12)) as i64,
                }
            } else {
                r.range(12, 20000) as i64
            };
            let payload = (target - 6 - 6 * npdv as i64).max(0) as u64;
            let mut pdvs = vec![];
            let mut left = payload;
            for k in 0..npdv {
                let x = if k + 1 == npdv { left } else { r.range(0, left) };
                pdvs.push(x as u32);
                left -= x;
            }
            script.push(Step::Pd(by, pdvs));
        } else {
            let nbytes = if around { r.range(0, 3 * peer_max + 10) } else { r.range(0, 30_000) };
            script.push(Step::Wr(by, nbytes as u32));
        }
    }
    script.push(match r.below(10) {
        0 => Step::Abort(Side::Requestor),
        1 => Step::Abort(Side::Acceptor),
        2 | 3 => Step::Release(Side::Acceptor),
        _ => Step::Release(Side::Requestor),
    });
    (cs, cfg, script)
}

/// a UID without white space at either end (NUL padding is kept)
fn clean(s: &str) -> String {
    let t = s.trim_matches(|c: char| c.is_whitespace());
    if t.ends_with('\0') && t.trim_end_matches('\0').ends_with(|c: char| c.is_whitespace()) {
        t.trim_end_matches(|c: char| c.is_whitespace() || c == '\0').to_string()
    } else {
        t.to_string()
    }
}

fn res_tok<T>(r: &Result<T, dicom_ul::association::Error>) -> String {
    match r {
        Ok(_) => "ok".into(),
        Err(e) => err_tok(e).to_string(),
    }
}

/// run my half of the script; one result token per step I took part in
pub fn run_script<A: SyncAssociation<TcpStream>>(me: Side, a: A, script: &[Step], tx: Sender<bool>, rx: Receiver<bool>) -> Vec<String> {
    let mut out = vec![];
    let mut a = Some(a);
    let pcid = a.as_ref().unwrap().presentation_contexts().iter().find(|p| p.reason == PresentationContextResultReason::Acceptance).map(|p| p.id).unwrap_or(1);
    for st in script {
        let Some(assoc) = a.as_mut() else { break };
        let tok = match st {
            Step::Pd(by, pdvs) if *by == me => {
                let pdu = Pdu::PData {
                    data: pdvs
                        .iter()
                        .enumerate()
                        .map(|(k, n)| PDataValue { presentation_context_id: pcid, value_type: PDataValueType::Data, is_last: k + 1 == pdvs.len(), data: vec![0x5a; *n as usize] })
                        .collect(),
                };
                let r = SyncAssociation::send(assoc, &pdu);
                let _ = tx.send(r.is_ok());
                res_tok(&r)
            }
            Step::Pd(..) => match rx.recv() {
                Ok(true) => match SyncAssociation::receive(assoc) {
                    Ok(Pdu::PData { data }) => format!("pd,{},{}", data.len(), data.iter().map(|d| d.data.len()).sum::<usize>()),
                    Ok(p) => format!("other,{}", pdu_tok(&p).split(' ').next().unwrap_or("")),
                    Err(e) => err_tok(&e).to_string(),
                },
                Ok(false) => "-".into(),
                Err(_) => {
                    out.push("gone".into());
                    break;
                }
            },
            Step::Wr(by, n) if *by == me => {
                let r = {
                    let mut w = SyncAssociation::send_pdata(assoc, pcid);
                    w.write_all(&vec![0xa5u8; *n as usize]).and_then(|_| w.finish())
                };
                let _ = tx.send(r.is_ok());
                if r.is_ok() {
                    "ok".into()
                } else {
                    "err:io".into()
                }
            }
            Step::Wr(..) => match rx.recv() {
                Ok(true) => {
                    let (mut npdu, mut bytes) = (0usize, 0usize);
                    loop {
                        match SyncAssociation::receive(assoc) {
                            Ok(Pdu::PData { data }) => {
                                npdu += 1;
                                bytes += data.iter().map(|d| d.data.len()).sum::<usize>();
                                if data.iter().any(|d| d.is_last) {
                                    break format!("wr,{},{}", npdu, bytes);
                                }
                            }
                            Ok(p) => break format!("other,{}", pdu_tok(&p).split(' ').next().unwrap_or("")),
                            Err(e) => break err_tok(&e).to_string(),
                        }
                    }
                }
                Ok(false) => "-".into(),
                Err(_) => {
                    out.push("gone".into());
                    break;
                }
            },
            Step::Release(by) if *by == me => {
                let r = SyncAssociation::release(a.take().unwrap());
                res_tok(&r)
            }
            Step::Release(_) => {
                let t = match SyncAssociation::receive(assoc) {
                    Ok(Pdu::ReleaseRQ) => res_tok(&SyncAssociation::send(assoc, &Pdu::ReleaseRP)),
                    Ok(p) => format!("other,{}", pdu_tok(&p).split(' ').next().unwrap_or("")),
                    Err(e) => err_tok(&e).to_string(),
                };
                a = None;
                t
            }
            Step::Abort(by) if *by == me => {
                let r = SyncAssociation::abort(a.take().unwrap());
                res_tok(&r)
            }
            Step::Abort(_) => {
                let t = match SyncAssociation::receive(assoc) {
                    Ok(Pdu::AbortRQ { source }) => {
                        let (x, y) = abort_codes(&source);
                        format!("ab,{},{}", x, y)
                    }
                    Ok(p) => format!("other,{}", pdu_tok(&p).split(' ').next().unwrap_or("")),
                    Err(e) => err_tok(&e).to_string(),
                };
                a = None;
                t
            }
        };
        out.push(tok);
    }
    out
}

/// `<n> {<kind>:<by>:<sizes>:<sender result>:<receiver result>}`; a side that did not get that far reports `-`
pub fn merge_steps(script: &[Step], cli: &[String], srv: &[String]) -> String {
    let mut s = format!("{}", script.len());
    for (k, st) in script.iter().enumerate() {
        let (kind, by, sizes) = match st {
            Step::Pd(b, v) => ("pd", *b, v.iter().map(|x| x.to_string()).collect::<Vec<_>>().join(",")),
            Step::Wr(b, n) => ("wr", *b, n.to_string()),
            Step::Release(b) => ("release", *b, "-".into()),
            Step::Abort(b) => ("abort", *b, "-".into()),
        };
        let c = cli.get(k).cloned().unwrap_or_else(|| "-".into());
        let v = srv.get(k).cloned().unwrap_or_else(|| "-".into());
        let (snd, rcv) = if by == Side::Requestor { (c, v) } else { (v, c) };
        s.push_str(&format!(" {}/{}/{}/{}/{}", kind, if by == Side::Requestor { "c" } else { "s" }, if sizes.is_empty() { "-".into() } else { sizes }, snd, rcv));
    }
    s
}
