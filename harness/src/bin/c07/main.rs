//! C07 — odd-length values are handled per strategy; `position()` = bytes consumed.
//!
//! Streams are hand-encoded here (the dicom-rs writer pads): nested data sets with values of every VR whose
//! declared length is odd / not a multiple of the sample size, odd item and sequence lengths, pixel
//! fragment sequences with odd fragments, blank date / number texts — in the three uncompressed syntaxes,
//! for the three odd-length strategies and the three value strategies, from a random base offset.
//! The real `DataSetReader` (over a real `StatefulDecoder` reading through a byte-counting `Read`) yields
//! the tokens; after each one `position()` and the number of bytes taken from the source are recorded.
//! The lazy reader is run over the same bytes (values fetched with the same strategy).
//!   `rd <ts 0|1|2> <odd a|n|f> <mode 0|1|2> <base> <flags> <bytes> <expected skeleton|-> | <word@pos/consumed…> | <lazy word@pos/consumed…>`
#[path = "../c01/gen.rs"]
mod gen;
#[path = "../c08/tok.rs"]
mod tok;

use dicom_core::header::{DataElementHeader, SequenceItemHeader};
use dicom_core::{PrimitiveValue, Tag, VR};
use dicom_encoding::text::SpecificCharacterSet;
use dicom_encoding::transfer_syntax::TransferSyntaxIndex;
use dicom_encoding::TransferSyntax;
use dicom_parser::dataset::lazy_read::{LazyDataSetReader, LazyDataSetReaderOptions};
use dicom_parser::dataset::read::{DataSetReader, DataSetReaderOptions, OddLengthStrategy, ValueReadStrategy};
use dicom_parser::dataset::LazyDataToken;
use dicom_parser::stateful::decode::{StatefulDecode, StatefulDecoder};
use dicom_transfer_syntax_registry::TransferSyntaxRegistry;
use gen::{dict_vr, gen_tag, vrn, VRS};
use std::cell::{Cell, RefCell};
use std::io::{Read, Seek, Write};
use std::rc::Rc;
use tok::*;
use verif_harness::util::*;

const TS_UIDS: [&str; 3] = ["1.2.840.10008.1.2", "1.2.840.10008.1.2.1", "1.2.840.10008.1.2.2"];

fn ts_of(k: u8) -> &'static TransferSyntax {
    TransferSyntaxRegistry.get(TS_UIDS[k as usize]).expect("transfer syntax registered")
}

// ---------------------------------------------------------------------------------------------
// observation: a byte-counting source and a decoder shared with the outside

struct Counting<'a> {
    data: &'a [u8],
    off: Rc<Cell<usize>>,
}

impl Read for Counting<'_> {
    fn read(&mut self, buf: &mut [u8]) -> std::io::Result<usize> {
        let o = self.off.get();
        let n = buf.len().min(self.data.len() - o);
        buf[..n].copy_from_slice(&self.data[o..o + n]);
        self.off.set(o + n);
        Ok(n)
    }
}

/// the real stateful decoder behind an `Rc`, so that `position()` can be asked between tokens
struct Shared<D>(Rc<RefCell<D>>);

impl<D: StatefulDecode> StatefulDecode for Shared<D> {
    type Reader = D::Reader;
    fn decode_header(&mut self) -> dicom_parser::stateful::decode::Result<DataElementHeader> {
        self.0.borrow_mut().decode_header()
    }
    fn decode_item_header(&mut self) -> dicom_parser::stateful::decode::Result<SequenceItemHeader> {
        self.0.borrow_mut().decode_item_header()
    }
    fn read_value(&mut self, h: &DataElementHeader) -> dicom_parser::stateful::decode::Result<PrimitiveValue> {
        self.0.borrow_mut().read_value(h)
    }
    fn read_value_preserved(&mut self, h: &DataElementHeader) -> dicom_parser::stateful::decode::Result<PrimitiveValue> {
        self.0.borrow_mut().read_value_preserved(h)
    }
    fn read_value_bytes(&mut self, h: &DataElementHeader) -> dicom_parser::stateful::decode::Result<PrimitiveValue> {
        self.0.borrow_mut().read_value_bytes(h)
    }
    fn read_to_vec(&mut self, length: u32, vec: &mut Vec<u8>) -> dicom_parser::stateful::decode::Result<()> {
        self.0.borrow_mut().read_to_vec(length, vec)
    }
    fn read_u32_to_vec(&mut self, length: u32, vec: &mut Vec<u32>) -> dicom_parser::stateful::decode::Result<()> {
        self.0.borrow_mut().read_u32_to_vec(length, vec)
    }
    fn read_to<W>(&mut self, length: u32, out: W) -> dicom_parser::stateful::decode::Result<()>
    where
        Self: Sized,
        W: Write,
    {
        self.0.borrow_mut().read_to(length, out)
    }
    fn skip_bytes(&mut self, length: u32) -> dicom_parser::stateful::decode::Result<()> {
        self.0.borrow_mut().skip_bytes(length)
    }
    fn seek(&mut self, position: u64) -> dicom_parser::stateful::decode::Result<()>
    where
        Self::Reader: Seek,
    {
        self.0.borrow_mut().seek(position)
    }
    fn position(&self) -> u64 {
        self.0.borrow().position()
    }
}

fn odd_of(o: u8) -> OddLengthStrategy {
    match o {
        0 => OddLengthStrategy::Accept,
        1 => OddLengthStrategy::NextEven,
        _ => OddLengthStrategy::Fail,
    }
}

fn mode_of(m: u8) -> ValueReadStrategy {
    match m {
        0 => ValueReadStrategy::Interpreted,
        1 => ValueReadStrategy::Preserved,
        _ => ValueReadStrategy::Raw,
    }
}

/// eager reader: `word@position/consumed` per token, up to the first error / the end / CAP
fn run_eager(bytes: &[u8], ts_k: u8, odd: u8, mode: u8, base: u64) -> String {
    let res = catch(std::panic::AssertUnwindSafe(|| {
        let off = Rc::new(Cell::new(0usize));
        let src = Counting { data: bytes, off: off.clone() };
        let dec = match StatefulDecoder::new_with(src, ts_of(ts_k), SpecificCharacterSet::default(), base) {
            Ok(d) => Rc::new(RefCell::new(d)),
            Err(_) => return "E:createDecoder@0/0".to_string(),
        };
        let mut o = DataSetReaderOptions::default();
        o.odd_length = odd_of(odd);
        o.value_read = mode_of(mode);
        let mut rd = DataSetReader::new(Shared(dec.clone()), o);
        let mut words: Vec<String> = Vec::new();
        let mut last_vr = None;
        for _ in 0..CAP {
            let w = match rd.next() {
                None => "D".to_string(),
                Some(Err(e)) => err_word(&e).to_string(),
                Some(Ok(t)) => tok_word(&t, &mut last_vr, mode),
            };
            let stop = w == "D" || w.starts_with("E:");
            words.push(format!("{}@{}/{}", w, dec.borrow().position(), off.get()));
            if stop {
                break;
            }
        }
        words.join(" ")
    }));
    res.unwrap_or_else(|_| "panic@0/0".into())
}

/// consumer policy of the lazy run: the value announced by the `k`-th token is skipped, not fetched
/// (the Lean driver uses the same rule)
fn skip_at(k: usize) -> bool {
    k % 3 == 1
}

/// lazy reader: values are fetched with the same value strategy, or skipped (`skip_at`)
fn run_lazy(bytes: &[u8], ts_k: u8, odd: u8, mode: u8, base: u64) -> String {
    let res = catch(std::panic::AssertUnwindSafe(|| {
        let off = Rc::new(Cell::new(0usize));
        let src = Counting { data: bytes, off: off.clone() };
        let dec = match StatefulDecoder::new_with(src, ts_of(ts_k), SpecificCharacterSet::default(), base) {
            Ok(d) => Rc::new(RefCell::new(d)),
            Err(_) => return "E:createDecoder@0/0".to_string(),
        };
        let mut o = LazyDataSetReaderOptions::default();
        o.odd_length = odd_of(odd);
        let mut rd = LazyDataSetReader::new_with_options(Shared(dec.clone()), o);
        let mut words: Vec<String> = Vec::new();
        let mut last_vr = None;
        for k in 0..CAP {
            let w = match rd.advance() {
                None => "D".to_string(),
                Some(Err(_)) => "E:lazy".to_string(),
                Some(Ok(t)) => {
                    let lazy_value = matches!(t, LazyDataToken::LazyValue { .. } | LazyDataToken::LazyItemValue { .. });
                    if lazy_value && skip_at(k) {
                        // the consumer skips this value instead of fetching it
                        let word = if matches!(t, LazyDataToken::LazyValue { .. }) { "V:skip" } else { "F:skip" };
                        match t.skip() {
                            Ok(()) => word.to_string(),
                            Err(_) => "E:lazyValue".to_string(),
                        }
                    } else {
                        match t.into_owned_with_strategy(mode_of(mode)) {
                            Ok(t) => tok_word(&t, &mut last_vr, mode),
                            Err(_) if lazy_value => "E:lazyValue".to_string(),
                            Err(_) => "E:lazy".to_string(),
                        }
                    }
                }
            };
            let stop = w == "D" || w.starts_with("E:");
            words.push(format!("{}@{}/{}", w, dec.borrow().position(), off.get()));
            if stop {
                break;
            }
        }
        words.join(" ")
    }));
    res.unwrap_or_else(|_| "panic@0/0".into())
}

// ---------------------------------------------------------------------------------------------
// generator

#[derive(Clone, Debug)]
enum N {
    El { tag: Tag, vr: VR, val: Vec<u8> },
    /// `explicit`: sequence length written explicitly; items: (explicit item length, elements)
    Sq { tag: Tag, explicit: bool, items: Vec<(bool, Vec<N>)> },
    /// encapsulated pixel data: offset table bytes, fragments
    Px { bot: Vec<u8>, frags: Vec<Vec<u8>> },
}

const UPPER: &[u8] = b"ABCDEFGHIJKLMNOPQRSTUVWXYZ0123456789_";
const TEXT: &[u8] = b"abcdefghijklmnopqrstuvwxyzABCDEFGHIJKLMNOPQRSTUVWXYZ0123456789.,-_/()'+";

fn odd_len(r: &mut Rng, max: usize) -> usize {
    // mostly odd
    let k = match r.below(8) {
        0 => 1,
        1 => 3,
        _ => r.usize(0, max / 2) * 2 + 1,
    };
    if r.chance(1, 5) {
        k + 1
    } else {
        k
    }
}

fn digits(r: &mut Rng, n: usize) -> String {
    r.ascii_from(b"0123456789", n)
}

fn gen_date(r: &mut Rng) -> String {
    format!("{:04}{:02}{:02}", r.range(1900, 2099), r.range(1, 12), r.range(1, 28))
}

fn gen_time(r: &mut Rng) -> String {
    let base = format!("{:02}{:02}{:02}", r.range(0, 23), r.range(0, 59), r.range(0, 59));
    match r.below(4) {
        0 => base,
        1 => format!("{}.{}", base, digits(r, 6)),
        2 => {
            let k = r.usize(1, 5);
            format!("{}.{}", base, digits(r, k))
        }
        _ => base[..4].to_string(),
    }
}

/// value bytes of a VR; `interp`: the reader will parse DA/DT/TM/DS/IS texts
fn gen_val(r: &mut Rng, vr: VR) -> Vec<u8> {
    use VR::*;
    if r.chance(1, 14) {
        return vec![];
    }
    let blank = |r: &mut Rng| -> Vec<u8> {
        let n = odd_len(r, 6);
        (0..n).map(|_| if r.chance(1, 4) { 0u8 } else { b' ' }).collect()
    };
    // pad a text so that its length is odd (mostly)
    let oddify = |r: &mut Rng, mut s: Vec<u8>, pad: u8| -> Vec<u8> {
        if s.len() % 2 == 0 && r.chance(4, 5) {
            s.push(pad);
        }
        s
    };
    match vr {
        AE | CS | SH | LO | PN | UC | AS | UI => {
            let parts = r.usize(1, 3);
            let mut s: Vec<u8> = Vec::new();
            for k in 0..parts {
                if k > 0 {
                    s.push(b'\\');
                }
                let n = r.usize(0, 7);
                let a = if vr == UI { &b"0123456789."[..] } else if vr == CS || vr == AE { UPPER } else { TEXT };
                s.extend(r.ascii_from(a, n).bytes());
            }
            let pad = if vr == UI { 0 } else { b' ' };
            if r.chance(1, 6) {
                s.push(pad);
            }
            if r.chance(3, 4) && s.len() % 2 == 0 {
                s.push(*r.pick(&[b'X', b'1', pad]));
            }
            s
        }
        LT | ST | UT | UR => {
            let n = odd_len(r, 24);
            r.ascii_from(TEXT, n).into_bytes()
        }
        DA => match r.below(8) {
            0 => blank(r),
            1 => format!("{}\\{}", gen_date(r), gen_date(r)).into_bytes(),
            _ => {
                let d = gen_date(r).into_bytes();
                oddify(r, d, b' ')
            }
        },
        TM => match r.below(8) {
            0 => blank(r),
            1 => format!("{}\\{}", gen_time(r), gen_time(r)).into_bytes(),
            _ => {
                let d = gen_time(r).into_bytes();
                oddify(r, d, b' ')
            }
        },
        DT => match r.below(8) {
            0 => blank(r),
            _ => {
                let mut d = format!("{}{}", gen_date(r), &gen_time(r)[..4]).into_bytes();
                if r.chance(1, 3) {
                    d.extend_from_slice(b"30.5");
                }
                oddify(r, d, b' ')
            }
        },
        DS => match r.below(8) {
            0 => blank(r),
            _ => {
                let parts = r.usize(1, 3);
                let s: Vec<String> = (0..parts)
                    .map(|_| match r.below(4) {
                        0 => format!("{}", r.below(100000)),
                        1 => format!("-{}.{}", r.below(1000), r.below(1000)),
                        2 => format!("{}.{}e{}", r.below(10), r.below(100), r.below(20)),
                        _ => format!("{}.5", r.below(100)),
                    })
                    .collect();
                oddify(r, s.join("\\").into_bytes(), b' ')
            }
        },
        IS => match r.below(8) {
            0 => blank(r),
            _ => {
                let parts = r.usize(1, 3);
                let s: Vec<String> = (0..parts)
                    .map(|_| match r.below(3) {
                        0 => format!("{}", r.below(100000)),
                        1 => format!("-{}", r.below(1000)),
                        _ => format!("+{}", r.below(2_000_000_000)),
                    })
                    .collect();
                oddify(r, s.join("\\").into_bytes(), b' ')
            }
        },
        SQ => vec![],
        // binary: any length, mostly not a multiple of the sample size
        _ => {
            let n = match r.below(10) {
                0 => 1,
                1 => 2,
                2 => 3,
                3 => 5,
                4 => 7,
                5 => 9,
                _ => r.usize(1, 26),
            };
            r.bytes(n)
        }
    }
}

fn gen_nodes(r: &mut Rng, depth: u32, max_depth: u32) -> Vec<N> {
    let n = match r.below(10) {
        0 => 0,
        _ => r.usize(1, if depth == 0 { 7 } else { 3 }),
    };
    let mut out = Vec::new();
    for _ in 0..n {
        if depth < max_depth && r.chance(1, 5) {
            let tag = gen_tag(r, VR::SQ);
            let k = r.usize(0, 2);
            let items = (0..k).map(|_| (r.chance(1, 2), gen_nodes(r, depth + 1, max_depth))).collect();
            out.push(N::Sq { tag, explicit: r.chance(1, 2), items });
        } else {
            let vr = loop {
                let v = *r.pick(&VRS);
                if v != VR::SQ {
                    break v;
                }
            };
            let tag = gen_tag(r, vr);
            out.push(N::El { tag, vr, val: gen_val(r, vr) });
        }
    }
    if depth == 0 && r.chance(1, 8) {
        // Pixel Representation 1 and an attribute of the US-or-SS kind after it
        out.push(N::El { tag: Tag(0x0028, 0x0103), vr: VR::US, val: vec![r.below(2) as u8, 0] });
        let k = *r.pick(&[2usize, 3, 1]);
        out.push(N::El { tag: Tag(0x0028, 0x0106), vr: VR::US, val: r.bytes(k) });
    }
    if r.chance(1, if depth == 0 { 5 } else { 12 }) {
        let nf = r.usize(0, 3);
        let frags = (0..nf)
            .map(|_| {
                let k = odd_len(r, 12);
                r.bytes(k)
            })
            .collect();
        let k = *r.pick(&[0usize, 0, 4, 8, 5, 7, 3, 1]);
        let bot = r.bytes(k);
        out.push(N::Px { bot, frags });
    }
    out
}

struct Enc {
    ts: u8,
    /// 0 accept, 1 next even, 2 fail
    odd: u8,
    /// values / items physically padded to the even length the next-even strategy assumes
    padded: bool,
    /// declare explicit item/sequence lengths one short of the (even) physical size
    odd_containers: bool,
}

fn p16(out: &mut Vec<u8>, be: bool, v: u16) {
    out.extend_from_slice(&if be { v.to_be_bytes() } else { v.to_le_bytes() })
}
fn p32(out: &mut Vec<u8>, be: bool, v: u32) {
    out.extend_from_slice(&if be { v.to_be_bytes() } else { v.to_le_bytes() })
}

fn short_vr(vr: VR) -> bool {
    matches!(
        vr,
        VR::AE | VR::AS | VR::AT | VR::CS | VR::DA | VR::DS | VR::DT | VR::FL | VR::FD | VR::IS | VR::LO | VR::LT | VR::PN
            | VR::SH | VR::SL | VR::SS | VR::ST | VR::TM | VR::UI | VR::UL | VR::US
    )
}

fn header(out: &mut Vec<u8>, ts: u8, tag: Tag, vr: VR, len: u32) {
    let be = ts == 2;
    p16(out, be, tag.0);
    p16(out, be, tag.1);
    if ts == 0 {
        p32(out, false, len);
    } else {
        out.extend_from_slice(vrn(vr).as_bytes());
        if short_vr(vr) {
            p16(out, be, len as u16);
        } else {
            out.extend_from_slice(&[0, 0]);
            p32(out, be, len);
        }
    }
}

/// VR the reader will see for an element
fn seen_vr(ts: u8, tag: Tag, vr: VR) -> VR {
    if ts != 0 {
        vr
    } else if tag == Tag(0x7FE0, 0x0010) || (tag.0 >> 8 == 0x60 && tag.1 == 0x3000) {
        VR::OW
    } else {
        dict_vr(tag).unwrap_or(VR::UN)
    }
}

/// length as the reader reports it under the strategy (`None`: the failing strategy stops here)
fn sanitized(odd: u8, len: u32) -> Option<u32> {
    if len != 0xFFFF_FFFF && len % 2 == 1 {
        match odd {
            0 => Some(len),
            1 => Some(len + 1),
            _ => None,
        }
    } else {
        Some(len)
    }
}

/// Encodes `nodes`; appends the expected token skeleton to `exp`. Returns false once the failing
/// strategy has stopped (the rest is still encoded, but nothing more is expected).
fn encode(nodes: &[N], e: &Enc, out: &mut Vec<u8>, exp: &mut Vec<String>, live: &mut bool) {
    let be = e.ts == 2;
    for n in nodes {
        match n {
            N::El { tag, vr, val } => {
                let len = val.len() as u32;
                header(out, e.ts, *tag, *vr, len);
                out.extend_from_slice(val);
                if e.padded && len % 2 == 1 {
                    out.push(0);
                }
                if *live {
                    match sanitized(e.odd, len) {
                        Some(l) => exp.push(format!("H:{:04x}{:04x}:{}:{}", tag.0, tag.1, vrn(seen_vr(e.ts, *tag, *vr)), l)),
                        None => {
                            exp.push("E:invalidElementLength".into());
                            *live = false
                        }
                    }
                }
            }
            N::Sq { tag, explicit, items } => {
                // encode the content first (lengths are physical sizes)
                let mut body = Vec::new();
                let mut body_exp: Vec<String> = Vec::new();
                let mut body_live = *live;
                for (item_explicit, els) in items {
                    let mut inner = Vec::new();
                    let mut inner_exp = Vec::new();
                    let mut inner_live = body_live;
                    encode(els, e, &mut inner, &mut inner_exp, &mut inner_live);
                    p16(&mut body, be, 0xFFFE);
                    p16(&mut body, be, 0xE000);
                    let declared = if *item_explicit {
                        let p = inner.len() as u32;
                        if e.odd_containers && p % 2 == 0 && p > 0 {
                            p - 1
                        } else {
                            p
                        }
                    } else {
                        0xFFFF_FFFF
                    };
                    p32(&mut body, be, declared);
                    body.extend_from_slice(&inner);
                    if !*item_explicit {
                        p16(&mut body, be, 0xFFFE);
                        p16(&mut body, be, 0xE00D);
                        p32(&mut body, be, 0);
                    }
                    if body_live {
                        match sanitized(e.odd, declared) {
                            Some(l) => {
                                body_exp.push(format!("I:{}", l));
                                body_exp.extend(inner_exp);
                                body_live = inner_live;
                                if body_live {
                                    body_exp.push("i".into());
                                }
                            }
                            None => {
                                body_exp.push("E:invalidItemLength".into());
                                body_live = false;
                            }
                        }
                    }
                }
                let declared = if *explicit {
                    let p = body.len() as u32;
                    if e.odd_containers && p % 2 == 0 && p > 0 {
                        p - 1
                    } else {
                        p
                    }
                } else {
                    0xFFFF_FFFF
                };
                header(out, e.ts, *tag, VR::SQ, declared);
                out.extend_from_slice(&body);
                if !*explicit {
                    p16(out, be, 0xFFFE);
                    p16(out, be, 0xE0DD);
                    p32(out, be, 0);
                }
                if *live {
                    // (in Implicit VR a private / unknown tag is not known to be a sequence unless its
                    // length is undefined; the generator's SQ tags are dictionary SQ or unknown)
                    match sanitized(e.odd, declared) {
                        Some(l) => {
                            exp.push(format!("S:{:04x}{:04x}:{}", tag.0, tag.1, l));
                            exp.extend(body_exp);
                            *live = body_live;
                            if *live {
                                exp.push("s".into());
                            }
                        }
                        None => {
                            exp.push("E:invalidElementLength".into());
                            *live = false;
                        }
                    }
                }
            }
            N::Px { bot, frags } => {
                header(out, e.ts, Tag(0x7FE0, 0x0010), VR::OB, 0xFFFF_FFFF);
                if *live {
                    exp.push("P".into());
                }
                let mut all: Vec<&Vec<u8>> = vec![bot];
                all.extend(frags.iter());
                for (k, f) in all.iter().enumerate() {
                    p16(out, be, 0xFFFE);
                    p16(out, be, 0xE000);
                    p32(out, be, f.len() as u32);
                    out.extend_from_slice(f);
                    if e.padded && f.len() % 2 == 1 {
                        out.push(0);
                    }
                    if *live {
                        match sanitized(e.odd, f.len() as u32) {
                            Some(l) => {
                                exp.push(format!("I:{}", l));
                                if l > 0 {
                                    exp.push(if k == 0 { "O".into() } else { "F".into() });
                                }
                                exp.push("i".into());
                            }
                            None => {
                                exp.push("E:invalidItemLength".into());
                                *live = false;
                            }
                        }
                    }
                }
                p16(out, be, 0xFFFE);
                p16(out, be, 0xE0DD);
                p32(out, be, 0);
                if *live {
                    exp.push("s".into());
                }
            }
        }
    }
}

/// Implicit VR: a sequence with an explicit length is only recognised through the dictionary
fn implicit_sq_unknown(nodes: &[N]) -> bool {
    nodes.iter().any(|n| match n {
        N::Sq { tag, explicit, items } => {
            (*explicit && dict_vr(*tag) != Some(VR::SQ)) || items.iter().any(|(_, e)| implicit_sq_unknown(e))
        }
        _ => false,
    })
}

/// a DA value with more than one component: the `Interpreted` strategy rejects it (`validate_da` has no
/// backslash) whatever its length — a matter of date parsing, not of this property
fn has_multi_da(ts: u8, nodes: &[N]) -> bool {
    nodes.iter().any(|n| match n {
        N::El { tag, vr, val } => seen_vr(ts, *tag, *vr) == VR::DA && val.contains(&b'\\'),
        N::Sq { items, .. } => items.iter().any(|(_, e)| has_multi_da(ts, e)),
        _ => false,
    })
}

fn has_pixel_representation(nodes: &[N]) -> bool {
    nodes.iter().any(|n| matches!(n, N::El { tag, .. } if *tag == Tag(0x0028, 0x0103)))
}

fn rd_case(r: &mut Rng, thorough: bool) -> String {
    let ts = r.below(3) as u8;
    let odd = r.below(3) as u8;
    let mode = r.below(3) as u8;
    let base: u64 = *r.pick(&[0u64, 0, 132, 1, 1000, 0xFFFF_FFF0, 0x1_0000_0000]);
    let max_depth = if thorough { r.below(4) as u32 } else { r.below(3) as u32 };
    let nodes = gen_nodes(r, 0, max_depth);
    // physical padding follows the strategy, except in a few cases (misaligned on purpose)
    // (never in Implicit VR: a misaligned reader takes arbitrary bytes for tags, the dictionary answers
    // some of them with a text VR, and a 32-bit garbage length is allocated and zeroed before it is read)
    let consistent = !r.chance(1, if thorough { 100 } else { 25 }) || ts == 0;
    let padded = if odd == 1 { consistent } else if odd == 0 { !consistent } else { r.chance(1, 2) };
    let e = Enc { ts, odd, padded, odd_containers: odd == 1 && padded && r.chance(1, 3) };
    let mut bytes = Vec::new();
    let mut exp: Vec<String> = Vec::new();
    let mut live = true;
    encode(&nodes, &e, &mut bytes, &mut exp, &mut live);
    if live {
        exp.push("D".into());
    }
    let mut cut = false;
    if r.chance(1, 30) && !bytes.is_empty() {
        let k = r.usize(0, bytes.len() - 1);
        bytes.truncate(k);
        cut = true;
    }
    // an expectation exists when the physical stream is what the strategy assumes
    let expect_ok = !cut
        && (odd == 2 || consistent)
        && !(ts == 0 && implicit_sq_unknown(&nodes))
        && !(mode == 0 && has_multi_da(ts, &nodes))
        && !has_pixel_representation(&nodes);
    let flags = format!("{}{}{}", if padded { "p" } else { "u" }, if cut { "c" } else { "-" }, if e.odd_containers { "o" } else { "-" });
    let eager = run_eager(&bytes, ts, odd, mode, base);
    let lazy = run_lazy(&bytes, ts, odd, mode, base);
    format!(
        "rd {} {} {} {} {} {} {} | {} | {}",
        ts,
        ["a", "n", "f"][odd as usize],
        mode,
        base,
        flags,
        hex(&bytes),
        if expect_ok { exp.join(",") } else { "-".into() },
        eager,
        lazy
    )
}

fn main() {
    let a = parse_args();
    quiet_panics();
    let mut out = Out::new();
    if a.mode == "bytes" {
        // `c07 bytes <ts> <odd 0|1|2> <mode> <base> <hex>`: the observations for a given byte string
        let ts: u8 = a.extra[0].parse().unwrap();
        let odd: u8 = a.extra[1].parse().unwrap();
        let mode: u8 = a.extra[2].parse().unwrap();
        let base: u64 = a.extra[3].parse().unwrap();
        let bytes = unhex(&a.extra[4]);
        let eager = run_eager(&bytes, ts, odd, mode, base);
        let lazy = run_lazy(&bytes, ts, odd, mode, base);
        out.line(&format!("#0 rd {} {} {} {} u-- {} - | {} | {}", ts, ["a", "n", "f"][odd as usize], mode, base, hex(&bytes), eager, lazy));
        return;
    }
    for i in case_indices(&a) {
        let mut r = Rng::for_case(a.seed, i);
        let t0 = std::time::Instant::now();
        let line = rd_case(&mut r, a.thorough);
        if std::env::var_os("VERIF_TIMING").is_some() && t0.elapsed().as_millis() > 100 {
            eprintln!("slow case {} {} ms: {}", i, t0.elapsed().as_millis(), &line[..line.len().min(300)]);
        }
        out.line(&format!("#{} {}", i, line));
    }
}
