//! C10 — text is encoded and decoded faithfully in every supported character set.
//! Calls the real `dicom_encoding::text::SpecificCharacterSet` (bound to the `encoding` crate) and
//! the real data set writer/reader (`InMemDicomObject::write_dataset_with_ts` /
//! `read_dataset_with_ts`, i.e. `StatefulEncoder` / `StatefulDecoder`).
//!
//! modes: `dump` (for translators/charsets.py: exhaustive code page dump, no case ids), `run`.
use dicom_core::value::PrimitiveValue;
use dicom_core::{DataElement, Tag, VR};
use dicom_encoding::text::{SpecificCharacterSet, TextCodec};
use dicom_object::InMemDicomObject;
use dicom_transfer_syntax_registry::entries::EXPLICIT_VR_LITTLE_ENDIAN;
use verif_harness::util::*;

/// the 16 supported sets by their defined term (what `name()` returns)
const TERMS: [&str; 16] = [
    "ISO_IR 6", "ISO_IR 13", "ISO_IR 87", "ISO_IR 100", "ISO_IR 101", "ISO_IR 109", "ISO_IR 110", "ISO_IR 126",
    "ISO_IR 127", "ISO_IR 138", "ISO_IR 144", "ISO_IR 149", "ISO_IR 166", "ISO_IR 192", "GB18030", "GBK",
];

fn cs(term: &str) -> SpecificCharacterSet {
    SpecificCharacterSet::from_code(term).expect("supported term")
}

fn enc(c: &SpecificCharacterSet, s: &str) -> Option<Vec<u8>> {
    let c = c.clone();
    let s = s.to_string();
    match catch(move || c.encode(&s).ok()) {
        Ok(v) => v,
        Err(_) => None,
    }
}

fn dec(c: &SpecificCharacterSet, b: &[u8]) -> String {
    let c = c.clone();
    let b = b.to_vec();
    match catch(move || c.decode(&b)) {
        Ok(Ok(s)) => hexs(&s),
        Ok(Err(_)) => "err".into(),
        Err(_) => "panic".into(),
    }
}

/// Exhaustive over all Unicode scalar values (split over threads): every char the set encodes,
/// its bytes, and what those bytes decode to.
/// `single` sets (all encodings one byte): every accepted char is listed as `c:b:decoded`.
/// `multi` sets: the number of accepted chars, and the list of those that do NOT come back
/// (`c:bytes:decoded`).
fn encode_tables(terms: &[&str]) -> Vec<String> {
    const CHUNKS: u32 = 8;
    let step = 0x110000 / CHUNKS;
    // per chunk: (all single so far, accepted count, entries (c, bytes, decoded-hex, roundtrips))
    type Chunk = (bool, usize, Vec<(u32, Vec<u8>, String, bool)>);
    let mut results: Vec<Vec<Chunk>> = Vec::new();
    std::thread::scope(|sc| {
        let mut handles = vec![];
        for t in terms {
            let mut hs = vec![];
            for k in 0..CHUNKS {
                let t = t.to_string();
                hs.push(sc.spawn(move || {
                    let c = cs(&t);
                    let mut v = vec![];
                    let mut single = true;
                    let mut n = 0usize;
                    let mut buf = [0u8; 4];
                    for u in k * step..(k + 1) * step {
                        if let Some(ch) = char::from_u32(u) {
                            let s: &str = ch.encode_utf8(&mut buf);
                            if let Ok(b) = c.encode(s) {
                                n += 1;
                                let (d, ok) = match c.decode(&b) {
                                    Ok(d) => (hexs(&d), d == s),
                                    Err(_) => ("err".to_string(), false),
                                };
                                if b.len() != 1 {
                                    single = false;
                                }
                                v.push((u, b, d, ok));
                            }
                        }
                    }
                    (single, n, v)
                }));
            }
            handles.push(hs);
        }
        for hs in handles {
            results.push(hs.into_iter().map(|h| h.join().unwrap_or((false, 0, vec![]))).collect());
        }
    });
    terms
        .iter()
        .zip(results)
        .map(|(t, chunks)| {
            let single = chunks.iter().all(|c| c.0);
            let n: usize = chunks.iter().map(|c| c.1).sum();
            let mut s = format!("encall {} {} {}", hexs(t), if single { "single" } else { "multi" }, n);
            for (ch, b, d, ok) in chunks.into_iter().flat_map(|c| c.2) {
                if single || !ok {
                    s.push_str(&format!(" {:x}:{}:{}", ch, hex(&b), d));
                }
            }
            s
        })
        .collect()
}

fn dec1_line(term: &str, b: u8) -> String {
    format!("dec1 {} {} {}", hexs(term), b, dec(&cs(term), &[b]))
}

// ---- generators -------------------------------------------------------------------------------

const BLOCKS: &[(u32, u32)] = &[
    (0x20, 0x7E),       // ASCII printable
    (0xA0, 0xFF),       // Latin-1 supplement
    (0x100, 0x17F),     // Latin extended A
    (0x2C7, 0x2DD),     // spacing modifiers used by 8859-2/3/4
    (0x384, 0x3CE),     // Greek
    (0x401, 0x45F),     // Cyrillic
    (0x5D0, 0x5EA),     // Hebrew
    (0x60C, 0x652),     // Arabic
    (0xE01, 0xE5B),     // Thai
    (0x2010, 0x203E),   // punctuation (incl. U+2015, U+2018/9, U+203E)
    (0x20AC, 0x20AF),   // euro
    (0x2116, 0x2116),   // numero
    (0x3041, 0x30FE),   // hiragana, katakana
    (0x4E00, 0x9FA5),   // CJK unified
    (0xAC00, 0xD7A3),   // Hangul syllables
    (0xFF61, 0xFF9F),   // halfwidth katakana
    (0xFF01, 0xFF5E),   // fullwidth forms
    (0x1F600, 0x1F64F), // emoticons
    (0x80, 0x9F),       // C1 controls
    (0xE000, 0xE864),   // private use (GB18030 maps part of it)
    (0x0, 0x1F),        // C0 controls
];

fn pool_char(r: &mut Rng) -> char {
    loop {
        let (lo, hi) = match r.below(10) {
            0..=2 => BLOCKS[0],
            _ => *r.pick(BLOCKS),
        };
        if let Some(c) = char::from_u32(r.range(lo as u64, hi as u64) as u32) {
            return c;
        }
    }
}

/// chars worth trying in every set: look-alikes that legacy encoders map onto ASCII bytes, etc.
const SPECIAL: &[char] = &['\u{a5}', '\u{203e}', '\u{80}', '\u{a0}', '\u{ad}', '\\', '~', '\u{20ac}', '\u{fffd}', '\u{e5e5}', '\u{e7c7}', '\u{1e3f}', '\u{30fb}', '\u{ff0d}', '\u{2212}', '\u{ff5e}', '\u{301c}', '\u{2225}', '\u{2016}'];

fn encodable(c: &SpecificCharacterSet, ch: char) -> bool {
    let mut buf = [0u8; 4];
    c.encode(ch.encode_utf8(&mut buf)).is_ok()
}

/// a string of `n` chars all individually encodable in `c` (drawn from the pool, or ASCII fallback)
fn inside(r: &mut Rng, c: &SpecificCharacterSet, n: usize, no_backslash: bool) -> String {
    let mut s = String::new();
    while s.chars().count() < n {
        let mut ch = if r.chance(1, 12) { *r.pick(SPECIAL) } else { pool_char(r) };
        let mut tries = 0;
        while !encodable(c, ch) || (no_backslash && (ch == '\\' || (ch as u32) < 0x20 || ch == '\u{7f}')) {
            tries += 1;
            ch = if tries > 6 { (b'A' + r.below(26) as u8) as char } else { pool_char(r) };
        }
        s.push(ch);
    }
    s
}

fn str_case(r: &mut Rng) -> String {
    let term = *r.pick(&TERMS);
    let c = cs(term);
    let n = match r.below(8) {
        0 => 0,
        1 => 1,
        _ => r.usize(1, 12),
    };
    let kind = r.below(4);
    let mut s = inside(r, &c, n, false);
    if kind == 0 {
        // put one or two characters from anywhere (mostly outside the repertoire) somewhere
        for _ in 0..r.usize(1, 2) {
            let ch = if r.chance(1, 3) { *r.pick(SPECIAL) } else { pool_char(r) };
            let mut cs_: Vec<char> = s.chars().collect();
            let k = r.usize(0, cs_.len());
            cs_.insert(k, ch);
            s = cs_.into_iter().collect();
        }
    }
    // how many chars are not encodable on their own
    let bad = s.chars().filter(|ch| !encodable(&c, *ch)).count();
    match enc(&c, &s) {
        None => format!("str {} {} {} err -", hexs(term), hexs(&s), bad),
        Some(b) => format!("str {} {} {} {} {}", hexs(term), hexs(&s), bad, hex(&b), dec(&c, &b)),
    }
}

fn bytes_case(r: &mut Rng) -> String {
    // decoding arbitrary bytes (incl. holes of the code pages): model vs implementation
    let term = *r.pick(&TERMS);
    let n = r.usize(0, 8);
    let b: Vec<u8> = (0..n).map(|_| if r.chance(1, 3) { r.range(0x20, 0x7e) as u8 } else { r.next_u64() as u8 }).collect();
    format!("bytes {} {} {}", hexs(term), hex(&b), dec(&cs(term), &b))
}

const CODE_PREFIX: &[&str] = &["ISO_IR ", "ISO_IR_", "ISO 2022 IR ", "ISO_IR", "ISO 2022 IR_", "iso_ir ", "ISO-IR ", ""];
const CODE_NUM: &[&str] = &["6", "13", "14", "58", "87", "100", "101", "109", "110", "126", "127", "138", "144", "148", "149", "159", "166", "192", "203"];
const CODE_WORD: &[&str] = &["GB18030", "GBK", "GB2312", "Default", "", "UTF-8", "gbk", "ISO-8859-1", "DEFAULT", "GB 18030", "ISO_IR 100\\ISO_IR 144"];
const CODE_PAD: &[&str] = &["", " ", "  ", "\0", " \0", "\t", "\u{a0}", "\n", "\u{3000}"];

fn code_case(k: u64, r: &mut Rng) -> String {
    let nbase = (CODE_PREFIX.len() * CODE_NUM.len() + CODE_WORD.len()) as u64;
    let (base, pad, lead) = if k < nbase {
        (k, "", "")
    } else {
        (r.below(nbase), *r.pick(CODE_PAD), if r.chance(1, 6) { " " } else { "" })
    };
    let base = base as usize;
    let core = if base < CODE_PREFIX.len() * CODE_NUM.len() {
        format!("{}{}", CODE_PREFIX[base / CODE_NUM.len()], CODE_NUM[base % CODE_NUM.len()])
    } else {
        CODE_WORD[base - CODE_PREFIX.len() * CODE_NUM.len()].to_string()
    };
    let code = format!("{lead}{core}{pad}");
    let res = match SpecificCharacterSet::from_code(&code) {
        None => "none".to_string(),
        Some(c) => {
            // the set's defined term must map back to the same set
            let name = c.name().to_string();
            let back = SpecificCharacterSet::from_code(&name);
            format!("some:{}:{}", hexs(&name), if back.as_ref() == Some(&c) { "same" } else if back.is_some() { "other" } else { "none" })
        }
    };
    format!("code {} {}", hexs(&code), res)
}

// ---- data sets ---------------------------------------------------------------------------------

/// (tag, VR, uses the specific character set when written)
const TEXT_ELEMS: &[(u16, u16, VR)] = &[
    (0x0008, 0x0070, VR::LO),
    (0x0008, 0x0080, VR::LO),
    (0x0008, 0x0090, VR::PN),
    (0x0008, 0x1030, VR::LO),
    (0x0008, 0x0050, VR::SH),
    (0x0010, 0x0010, VR::PN),
    (0x0010, 0x4000, VR::LT),
    (0x0008, 0x2111, VR::ST),
    (0x0040, 0xA160, VR::UT),
    (0x0040, 0xA043, VR::UC),
    (0x0006, 0x0011, VR::LO), // before (0008,0005): written and read with the initial (default) set
];
const DEFAULT_ELEMS: &[(u16, u16, VR)] = &[
    (0x0008, 0x0054, VR::AE),
    (0x0010, 0x1010, VR::AS),
    (0x0008, 0x0060, VR::CS),
    (0x0008, 0x0020, VR::DA),
    (0x0010, 0x1020, VR::DS),
    (0x0008, 0x002A, VR::DT),
    (0x0020, 0x0013, VR::IS),
    (0x0008, 0x0030, VR::TM),
    (0x0008, 0x0018, VR::UI),
    (0x0008, 0x0120, VR::UR),
    (0x0006, 0x0012, VR::CS),
];

fn default_value(r: &mut Rng, vr: VR) -> String {
    match vr {
        VR::AE => { let n = r.usize(1, 8); r.ascii_from(b"ABCDEFGHIJ_0123", n) }
        VR::AS => format!("{:03}Y", r.below(120)),
        VR::CS => { let n = r.usize(1, 8); r.ascii_from(b"ABCDEFGHIJ_0123", n) }
        VR::DA => format!("{:04}{:02}{:02}", r.range(1900, 2099), r.range(1, 12), r.range(1, 28)),
        VR::DS => format!("{}.{}", r.below(1000), r.below(100)),
        VR::DT => format!("{:04}{:02}{:02}{:02}{:02}", r.range(1900, 2099), r.range(1, 12), r.range(1, 28), r.below(24), r.below(60)),
        VR::IS => format!("{}", r.below(100000)),
        VR::TM => format!("{:02}{:02}{:02}", r.below(24), r.below(60), r.below(60)),
        VR::UI => format!("1.2.{}.{}", r.below(1000), r.below(100000)),
        VR::UR => format!("http://{}.example/{}", r.ascii_from(b"abcdef", 4), r.below(100)),
        _ => unreachable!(),
    }
}

fn vals_hex(v: &[String]) -> String {
    if v.is_empty() {
        return "0".into();
    }
    format!("{} {}", v.len(), v.iter().map(|s| hexs(s)).collect::<Vec<_>>().join(" "))
}

/// flat explicit-VR-LE stream -> (tag, vr, value bytes)
fn split_stream(b: &[u8]) -> Option<Vec<(u32, String, Vec<u8>)>> {
    let mut out = vec![];
    let mut i = 0;
    while i < b.len() {
        if i + 8 > b.len() {
            return None;
        }
        let g = u16::from_le_bytes([b[i], b[i + 1]]) as u32;
        let e = u16::from_le_bytes([b[i + 2], b[i + 3]]) as u32;
        let vr = String::from_utf8_lossy(&b[i + 4..i + 6]).to_string();
        let (len, hdr) = if matches!(vr.as_str(), "OB" | "OD" | "OF" | "OL" | "OV" | "OW" | "SQ" | "SV" | "UC" | "UN" | "UR" | "UT" | "UV") {
            if i + 12 > b.len() {
                return None;
            }
            (u32::from_le_bytes([b[i + 8], b[i + 9], b[i + 10], b[i + 11]]) as usize, 12)
        } else {
            (u16::from_le_bytes([b[i + 6], b[i + 7]]) as usize, 8)
        };
        if i + hdr + len > b.len() {
            return None;
        }
        out.push(((g << 16) | e, vr, b[i + hdr..i + hdr + len].to_vec()));
        i += hdr + len;
    }
    Some(out)
}

fn ds_case(r: &mut Rng) -> String {
    // the Specific Character Set element
    let term = *r.pick(&TERMS);
    let scs: Vec<String> = match r.below(10) {
        0 => vec![], // no (0008,0005) at all
        1 => vec![match term {
            // the ISO 2022 spelling of the same set
            t if t.starts_with("ISO_IR ") && t != "ISO_IR 192" => format!("ISO 2022 IR {}", &t[7..]),
            t => t.to_string(),
        }],
        2 => vec![term.to_string(), "ISO 2022 IR 87".to_string()], // multi-valued: the first one counts
        3 => vec!["ISO_IR 999".to_string()],                       // unsupported: ignored by writer and reader
        _ => vec![term.to_string()],
    };
    let active = match scs.first() {
        None => cs("ISO_IR 6"),
        Some(t) => SpecificCharacterSet::from_code(t).unwrap_or(cs("ISO_IR 6")),
    };
    let dflt = cs("ISO_IR 6");
    let mut elems: Vec<(Tag, VR, Vec<String>)> = vec![];
    if !scs.is_empty() {
        elems.push((Tag(0x0008, 0x0005), VR::CS, scs.clone()));
    }
    let ntext = r.usize(1, 5);
    let mut used = std::collections::BTreeSet::new();
    for _ in 0..ntext {
        let (g, e, vr) = *r.pick(TEXT_ELEMS);
        if !used.insert((g, e)) {
            continue;
        }
        let set = if (g, e) < (0x0008, 0x0005) { &dflt } else { &active };
        let multi = matches!(vr, VR::LO | VR::PN | VR::SH | VR::UC);
        let nv = if multi { r.usize(1, 3) } else { 1 };
        let mut vals = vec![];
        for _ in 0..nv {
            let n = if r.chance(1, 10) { 0 } else { r.usize(1, 8) };
            let mut v = inside(r, set, n, true);
            // no trailing blanks: the padding convention makes them unobservable
            while v.ends_with(' ') || v.ends_with('\0') {
                v.pop();
            }
            if vr == VR::PN && r.chance(1, 2) {
                let idx = v.char_indices().nth(1).map(|x| x.0).unwrap_or(v.len());
                v.insert(idx, '^');
            }
            vals.push(v);
        }
        elems.push((Tag(g, e), vr, vals));
    }
    for _ in 0..r.usize(1, 3) {
        let (g, e, vr) = *r.pick(DEFAULT_ELEMS);
        if !used.insert((g, e)) {
            continue;
        }
        let nv = if matches!(vr, VR::UR | VR::AS) { 1 } else { r.usize(1, 2) };
        elems.push((Tag(g, e), vr, (0..nv).map(|_| default_value(r, vr)).collect()));
    }
    elems.sort_by_key(|e| e.0);
    let single_str = r.chance(1, 3); // single values as PrimitiveValue::Str instead of Strs
    run_ds(&elems, single_str)
}

/// write the elements as a data set (explicit VR little endian) with the real writer, read it back
/// with the real reader, report original values, value bytes on the wire and values read
fn run_ds(elems: &[(Tag, VR, Vec<String>)], single_str: bool) -> String {
    let mut obj = InMemDicomObject::new_empty();
    let ts = EXPLICIT_VR_LITTLE_ENDIAN.erased();
    let mut line = format!("ds {}", elems.len());
    for (tag, vr, vals) in elems {
        let as_str = vals.len() == 1 && (single_str || matches!(vr, VR::LT | VR::ST | VR::UT | VR::UR));
        let pv = if as_str {
            PrimitiveValue::Str(vals[0].clone())
        } else {
            PrimitiveValue::Strs(vals.iter().cloned().collect())
        };
        obj.put(DataElement::new(*tag, *vr, pv));
        line.push_str(&format!(
            " {:08x} {} {} {}",
            ((tag.0 as u32) << 16) | tag.1 as u32,
            vr.to_string(),
            if as_str { "str" } else { "strs" },
            vals_hex(vals)
        ));
    }
    let obj2 = obj.clone();
    let ts2 = EXPLICIT_VR_LITTLE_ENDIAN.erased();
    let written = catch(std::panic::AssertUnwindSafe(move || {
        let mut buf = Vec::new();
        obj2.write_dataset_with_ts(&mut buf, &ts2).map(|_| buf).map_err(|_| ())
    }));
    let buf = match written {
        Ok(Ok(b)) => b,
        Ok(Err(_)) => return format!("{line} | write-err"),
        Err(_) => return format!("{line} | write-panic"),
    };
    match split_stream(&buf) {
        None => return format!("{line} | wire-unparseable {}", hex(&buf)),
        Some(w) => {
            line.push_str(&format!(" | wire {}", w.len()));
            for (t, vr, b) in w {
                line.push_str(&format!(" {:08x} {} {}", t, vr, hex(&b)));
            }
        }
    }
    let buf2 = buf.clone();
    let read = catch(std::panic::AssertUnwindSafe(move || InMemDicomObject::read_dataset_with_ts(&buf2[..], &ts).map_err(|_| ())));
    match read {
        Ok(Ok(o)) => {
            let n = o.iter().count();
            line.push_str(&format!(" | read {}", n));
            for e in o.iter() {
                let tag = e.header().tag;
                let vals: Vec<String> = match e.value().primitive() {
                    Some(PrimitiveValue::Empty) => vec![],
                    Some(PrimitiveValue::Str(s)) => vec![s.clone()],
                    Some(PrimitiveValue::Strs(v)) => v.iter().cloned().collect(),
                    _ => vec!["<non-text>".to_string()],
                };
                let form = match e.value().primitive() {
                    Some(PrimitiveValue::Str(_)) => "str",
                    _ => "strs",
                };
                line.push_str(&format!(" {:08x} {} {} {}", ((tag.0 as u32) << 16) | tag.1 as u32, e.header().vr.to_string(), form, vals_hex(&vals)));
            }
        }
        Ok(Err(_)) => line.push_str(" | read-err"),
        Err(_) => line.push_str(" | read-panic"),
    }
    line
}

fn main() {
    let a = parse_args();
    if std::env::var("VERIF_LOUD").is_err() {
        quiet_panics();
    }
    let mut out = Out::new();
    if a.mode == "probe" {
        // c10 probe <scs term hex|-> {<tag8hex> <VR> <k> <valhex>*k}...   (for findings and replays)
        let x = &a.extra;
        let mut elems: Vec<(Tag, VR, Vec<String>)> = vec![];
        if x[0] != "-" {
            elems.push((Tag(0x0008, 0x0005), VR::CS, vec![String::from_utf8(unhex(&x[0])).unwrap()]));
        }
        let mut i = 1;
        while i + 2 < x.len() {
            let t = u32::from_str_radix(&x[i], 16).unwrap();
            let vr: VR = x[i + 1].parse().unwrap();
            let k: usize = x[i + 2].parse().unwrap();
            let vals = (0..k).map(|j| String::from_utf8(unhex(&x[i + 3 + j])).unwrap()).collect();
            elems.push((Tag((t >> 16) as u16, t as u16), vr, vals));
            i += 3 + k;
        }
        elems.sort_by_key(|e| e.0);
        out.line(&run_ds(&elems, false));
        return;
    }
    if a.mode == "dump" {
        for (t, l) in TERMS.iter().zip(encode_tables(&TERMS)) {
            out.line(&l);
            for b in 0..=255u8 {
                out.line(&dec1_line(t, b));
            }
        }
        return;
    }
    // fixed, exhaustive prefix: 16 encode tables, 16*256 single-byte decodes, all base codes
    let n_enc = TERMS.len() as u64;
    let n_dec = n_enc * 256;
    let n_code = (CODE_PREFIX.len() * CODE_NUM.len() + CODE_WORD.len()) as u64;
    let wanted: Vec<&str> = case_indices(&a).take_while(|i| *i < n_enc).map(|i| TERMS[i as usize]).collect();
    let tables = encode_tables(&wanted);
    for i in case_indices(&a) {
        let mut r = Rng::for_case(a.seed, i);
        let line = if i < n_enc {
            let t = TERMS[i as usize];
            tables[wanted.iter().position(|w| *w == t).unwrap()].clone()
        } else if i < n_enc + n_dec {
            let k = i - n_enc;
            dec1_line(TERMS[(k / 256) as usize], (k % 256) as u8)
        } else if i < n_enc + n_dec + n_code {
            code_case(i - n_enc - n_dec, &mut r)
        } else {
            match r.below(10) {
                0 => code_case(u64::MAX, &mut r),
                1 => bytes_case(&mut r),
                2..=5 => str_case(&mut r),
                _ => ds_case(&mut r),
            }
        };
        out.line(&format!("#{} {}", i, line));
    }
}
