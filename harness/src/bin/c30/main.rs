//! C30 — association release and abort follow the upper-layer protocol.
//!
//! Every case: a real requestor and a real acceptor establish an association over loopback TCP
//! through a byte-recording proxy; then a random schedule of actions (send P-DATA, send an
//! unexpected PDU, receive, release, answer a release request, abort, drop) is executed on the two
//! peers — each in its own thread, `release()` really blocking while the other side goes on — and
//! the line reports, in schedule order, every action with its observable result, plus the PDU
//! kinds recorded on the wire in each direction.
#[path = "../c28/wire.rs"]
mod wire;
#[path = "../c28/gen.rs"]
mod gen;
#[path = "../c28/srv.rs"]
mod srv;
use dicom_ul::association::client::ClientAssociationOptions;
use dicom_ul::association::SyncAssociation;
use dicom_ul::pdu::*;
use gen::*;
use srv::*;
use std::io::{Read, Write};
use std::net::{Shutdown, TcpListener, TcpStream};
use std::sync::mpsc::{self, Receiver, Sender};
use std::sync::{Arc, Mutex};
use std::time::Duration;
use verif_harness::util::*;
use wire::*;

/// forward `from` → `to`, recording every byte; keeps reading (and recording) when `to` is gone,
/// so that a peer's writes never fail because of what the other end did
fn pump(mut from: TcpStream, mut to: TcpStream, rec: Arc<Mutex<Vec<u8>>>) {
    let mut buf = [0u8; 65536];
    let mut forwarding = true;
    loop {
        match from.read(&mut buf) {
            Ok(0) | Err(_) => break,
            Ok(n) => {
                rec.lock().unwrap().extend_from_slice(&buf[..n]);
                if forwarding && to.write_all(&buf[..n]).is_err() {
                    forwarding = false;
                }
            }
        }
    }
    let _ = to.shutdown(Shutdown::Write);
}

#[derive(Clone, Copy, Debug, PartialEq)]
enum Cmd {
    SendData(u32),
    SendOther,
    Recv,
    Release,
    Reply,
    Abort,
    Close,
}

fn kind_tok(p: &Pdu) -> &'static str {
    match p {
        Pdu::PData { .. } => "pd",
        Pdu::ReleaseRQ => "rlrq",
        Pdu::ReleaseRP => "rlrp",
        Pdu::AbortRQ { .. } => "ab",
        _ => "other",
    }
}

fn res<T>(r: Result<T, dicom_ul::association::Error>) -> String {
    match r {
        Ok(_) => "ok".into(),
        Err(e) => err_tok(&e).to_string(),
    }
}

fn peer_loop<A: SyncAssociation<TcpStream>>(a: A, rx: Receiver<Cmd>, tx: Sender<String>) {
    let mut a = Some(a);
    for cmd in rx {
        let out = match (cmd, a.as_mut()) {
            (_, None) => "gone".to_string(),
            (Cmd::SendData(n), Some(x)) => res(SyncAssociation::send(
                x,
                &Pdu::PData { data: vec![PDataValue { presentation_context_id: 1, value_type: PDataValueType::Data, is_last: true, data: vec![0x42; n as usize] }] },
            )),
            (Cmd::SendOther, Some(x)) => res(SyncAssociation::send(
                x,
                &Pdu::AssociationRJ(AssociationRJ { result: AssociationRJResult::Transient, source: AssociationRJSource::ServiceUser(AssociationRJServiceUserReason::NoReasonGiven) }),
            )),
            (Cmd::Recv, Some(x)) => match SyncAssociation::receive(x) {
                Ok(p) => kind_tok(&p).to_string(),
                Err(e) => err_tok(&e).to_string(),
            },
            (Cmd::Reply, Some(x)) => res(SyncAssociation::send(x, &Pdu::ReleaseRP)),
            (Cmd::Release, Some(_)) => res(SyncAssociation::release(a.take().unwrap())),
            (Cmd::Abort, Some(_)) => res(SyncAssociation::abort(a.take().unwrap())),
            (Cmd::Close, Some(_)) => {
                drop(a.take());
                "ok".to_string()
            }
        };
        if tx.send(out).is_err() {
            break;
        }
    }
}

/// bookkeeping of the coordinator, only to know which actions would block forever
#[derive(Clone, Copy, PartialEq, Debug)]
enum St {
    Est,
    Replying,
    Replied,
    Awaiting,
    Done,
}

struct PeerCtl {
    name: char,
    st: St,
    tx: Sender<Cmd>,
    rx: Receiver<String>,
    /// kinds of PDUs sent to this peer and not yet taken by it
    inbox: std::collections::VecDeque<&'static str>,
}

fn wire_kinds(b: &[u8]) -> String {
    let mut v: Vec<String> = vec![];
    let mut i = 0;
    while i + 6 <= b.len() {
        let len = u32::from_be_bytes([b[i + 2], b[i + 3], b[i + 4], b[i + 5]]) as usize;
        if i + 6 + len > b.len() {
            v.push("partial".into());
            break;
        }
        v.push(
            match b[i] {
                1 => "rq",
                2 => "ac",
                4 => "pd",
                5 => "rlrq",
                6 => "rlrp",
                7 => "ab",
                _ => "other",
            }
            .into(),
        );
        i += 6 + len;
    }
    format!("{} {}", v.len(), v.join(" "))
}

fn run_case(seed: u64, i: u64, srv_l: &TcpListener, prx_l: &TcpListener) -> String {
    let mut r = Rng::for_case(seed, i);
    let srv_port = srv_l.local_addr().unwrap().port();
    let prx_port = prx_l.local_addr().unwrap().port();
    let c2s = Arc::new(Mutex::new(Vec::new()));
    let s2c = Arc::new(Mutex::new(Vec::new()));
    let ip = std::net::Ipv4Addr::new(127, 2, (i / 250 % 250) as u8, (i % 250 + 1) as u8);
    let cfg = Cfg { abs: vec![A_VERIF.into()], ..Cfg::base() };

    let (c2s_r, s2c_r) = (c2s.clone(), s2c.clone());
    let prx = prx_l.try_clone().unwrap();
    let proxy = std::thread::spawn(move || {
        let (cli, _) = prx.accept().unwrap();
        let srv = TcpStream::connect((ip, srv_port)).unwrap();
        let _ = cli.set_nodelay(true);
        let _ = srv.set_nodelay(true);
        let (cli2, srv2) = (cli.try_clone().unwrap(), srv.try_clone().unwrap());
        let t = std::thread::spawn(move || pump(srv2, cli2, s2c_r));
        pump(cli, srv, c2s_r);
        let _ = t.join();
    });
    let (a_cmd_tx, a_cmd_rx) = mpsc::channel::<Cmd>();
    let (a_res_tx, a_res_rx) = mpsc::channel::<String>();
    let (a_up_tx, a_up_rx) = mpsc::channel::<bool>();
    let srv2 = srv_l.try_clone().unwrap();
    let cfg2 = cfg.clone();
    let acceptor = std::thread::spawn(move || {
        let (s, _) = srv2.accept().unwrap();
        match establish_cfg(&cfg2, s) {
            Ok(assoc) => {
                let _ = a_up_tx.send(true);
                peer_loop(assoc, a_cmd_rx, a_res_tx)
            }
            Err(_) => {
                let _ = a_up_tx.send(false);
            }
        }
    });
    let (r_cmd_tx, r_cmd_rx) = mpsc::channel::<Cmd>();
    let (r_res_tx, r_res_rx) = mpsc::channel::<String>();
    let assoc = ClientAssociationOptions::new()
        .with_abstract_syntax(A_VERIF)
        .read_timeout(Duration::from_secs(60))
        .establish_with(&format!("{}:{}", ip, prx_port));
    let a_up = a_up_rx.recv().unwrap_or(false);
    let assoc = match (assoc, a_up) {
        (Ok(x), true) => x,
        _ => {
            drop(a_cmd_tx);
            let _ = acceptor.join();
            let _ = proxy.join();
            return format!("#{} skip establish-failed", i);
        }
    };
    let requestor = std::thread::spawn(move || peer_loop(assoc, r_cmd_rx, r_res_tx));

    let mut peers = [
        PeerCtl { name: 'R', st: St::Est, tx: r_cmd_tx, rx: r_res_rx, inbox: Default::default() },
        PeerCtl { name: 'A', st: St::Est, tx: a_cmd_tx, rx: a_res_rx, inbox: Default::default() },
    ];
    let mut events: Vec<String> = vec![];
    // bytes each side has put on the wire so far (the proxy has seen the whole A-ASSOCIATE-RQ/AC)
    let mut sent_bytes = [c2s.lock().unwrap().len(), s2c.lock().unwrap().len()];
    let recs = [c2s.clone(), s2c.clone()];
    // a PDU only counts as sent once the proxy has recorded it: a later close of the sender with
    // unread input (TCP reset) would otherwise race with the proxy's read (OS level, not modelled)
    let wait_recorded = |p: usize, want: usize| {
        let t0 = std::time::Instant::now();
        for k in 0..u64::MAX {
            if t0.elapsed() > Duration::from_millis(1500) {
                return;
            }
            if recs[p].lock().unwrap().len() >= want {
                return;
            }
            if k < 2000 {
                std::thread::yield_now();
            } else {
                std::thread::sleep(Duration::from_micros(50));
            }
        }
    };
    let limit = r.range(3, 16);
    let mut steps = 0;
    loop {
        // choices: (peer index, command or collect)
        let mut choices: Vec<(usize, Option<Cmd>, u64)> = vec![];
        for p in 0..2 {
            let q = 1 - p;
            let readable = !peers[p].inbox.is_empty() || peers[q].st == St::Done;
            match peers[p].st {
                St::Est => {
                    if steps < limit {
                        choices.push((p, Some(Cmd::SendData(0)), 6));
                        choices.push((p, Some(Cmd::SendOther), 1));
                        // likewise `release()` that reads an unexpected PDU drops the association at
                        // once; with further unread input that is a reset racing with its own request
                        if peers[p].inbox.len() <= 1 {
                            choices.push((p, Some(Cmd::Release), 3));
                        }
                        // A-ABORT followed at once by a close with unread input is a TCP reset
                        // that may overtake the A-ABORT itself (OS level): only abort when
                        // everything sent to this peer has been taken
                        if peers[p].inbox.is_empty() {
                            choices.push((p, Some(Cmd::Abort), 1));
                        }
                        choices.push((p, Some(Cmd::Close), 1));
                    } else {
                        choices.push((p, Some(Cmd::Close), 2));
                        if peers[p].inbox.len() <= 1 {
                            choices.push((p, Some(Cmd::Release), 2));
                        }
                    }
                    if readable {
                        choices.push((p, Some(Cmd::Recv), 8));
                    }
                }
                St::Replying => choices.push((p, Some(Cmd::Reply), 8)),
                St::Replied => choices.push((p, Some(Cmd::Close), 8)),
                St::Awaiting => {
                    if readable {
                        choices.push((p, None, 8));
                    }
                }
                St::Done => {}
            }
        }
        if choices.is_empty() {
            break;
        }
        let total: u64 = choices.iter().map(|c| c.2).sum();
        let mut pick = r.below(total);
        let mut chosen = choices[0];
        for c in &choices {
            if pick < c.2 {
                chosen = *c;
                break;
            }
            pick -= c.2;
        }
        let (p, cmd, _) = chosen;
        let q = 1 - p;
        steps += 1;
        match cmd {
            None => {
                // the blocked release() returns
                let out = peers[p].rx.recv_timeout(Duration::from_secs(90)).unwrap_or_else(|_| "hang".into());
                peers[p].inbox.pop_front();
                peers[p].st = St::Done;
                events.push(format!("{}/recv/{}", peers[p].name, out));
            }
            Some(Cmd::Release) => {
                let _ = peers[p].tx.send(Cmd::Release);
                sent_bytes[p] += 10;
                wait_recorded(p, sent_bytes[p]);
                peers[p].st = St::Awaiting;
                peers[q].inbox.push_back("rlrq");
                events.push(format!("{}/release/-", peers[p].name));
            }
            Some(c) => {
                let c = match c {
                    Cmd::SendData(_) => Cmd::SendData(*r.pick(&[0u32, 1, 100, 4000])),
                    x => x,
                };
                let _ = peers[p].tx.send(c);
                let out = peers[p].rx.recv_timeout(Duration::from_secs(90)).unwrap_or_else(|_| "hang".into());
                let name = match c {
                    Cmd::SendData(_) => "sendData",
                    Cmd::SendOther => "sendOther",
                    Cmd::Recv => "recv",
                    Cmd::Reply => "reply",
                    Cmd::Abort => "abort",
                    Cmd::Close => "close",
                    Cmd::Release => unreachable!(),
                };
                if out == "ok" {
                    sent_bytes[p] += match c {
                        Cmd::SendData(n) => 12 + n as usize,
                        Cmd::SendOther | Cmd::Reply | Cmd::Abort => 10,
                        _ => 0,
                    };
                    wait_recorded(p, sent_bytes[p]);
                }
                match c {
                    Cmd::SendData(_) => peers[q].inbox.push_back("pd"),
                    Cmd::SendOther => peers[q].inbox.push_back("other"),
                    Cmd::Reply => {
                        peers[q].inbox.push_back("rlrp");
                        peers[p].st = St::Replied
                    }
                    Cmd::Abort => {
                        peers[q].inbox.push_back("ab");
                        peers[p].st = St::Done
                    }
                    Cmd::Close => peers[p].st = St::Done,
                    Cmd::Recv => {
                        peers[p].inbox.pop_front();
                        peers[p].st = match out.as_str() {
                            "rlrq" => St::Replying,
                            "ab" => St::Done,
                            "pd" | "other" | "rlrp" => St::Est,
                            _ => St::Done, // end of stream or error: the loop is left
                        };
                        if peers[p].st == St::Done {
                            // storescp-style loop: leaving drops the association
                            let _ = peers[p].tx.send(Cmd::Close);
                            let _ = peers[p].rx.recv_timeout(Duration::from_secs(90));
                        }
                    }
                    Cmd::Release => {}
                }
                events.push(format!("{}/{}/{}", peers[p].name, name, out));
            }
        }
        if steps > 60 {
            break;
        }
    }
    // whoever is still up is dropped now (not part of the reported schedule)
    let [pr, pa] = peers;
    drop(pr.tx);
    drop(pa.tx);
    let _ = requestor.join();
    let _ = acceptor.join();
    let _ = proxy.join();
    let c = c2s.lock().unwrap();
    let s = s2c.lock().unwrap();
    format!("#{} sched {} {} | {} | {}", i, events.len(), events.join(" "), wire_kinds(&c), wire_kinds(&s))
}

/// a real `dicom-storescp` process (sync or `--non-blocking`) listening on a free port
struct Scp {
    child: std::process::Child,
    port: u16,
}
impl Drop for Scp {
    fn drop(&mut self) {
        let _ = self.child.kill();
        let _ = self.child.wait();
    }
}
fn spawn_scp(non_blocking: bool) -> Option<Scp> {
    let tools = std::env::var("VERIF_TOOLS").ok()?;
    let exe = std::path::Path::new(&tools).join("dicom-storescp");
    if !exe.exists() {
        return None;
    }
    let port = TcpListener::bind("127.0.0.1:0").ok()?.local_addr().ok()?.port();
    let work = std::env::var("VERIF_WORK").unwrap_or_else(|_| "/verif/.work".into());
    let out = std::path::Path::new(&work).join(format!("c30-scp-out-{}", port));
    let _ = std::fs::create_dir_all(&out);
    let mut cmd = std::process::Command::new(exe);
    cmd.arg("-p").arg(port.to_string()).arg("-o").arg(&out).stdout(std::process::Stdio::null()).stderr(std::process::Stdio::null());
    if non_blocking {
        cmd.arg("--non-blocking");
    }
    let child = cmd.spawn().ok()?;
    let scp = Scp { child, port };
    for _ in 0..200 {
        if TcpStream::connect(("127.0.0.1", port)).is_ok() {
            return Some(scp);
        }
        std::thread::sleep(Duration::from_millis(50));
    }
    None
}

/// the requestor alone is scripted; the acceptor is the real storescp tool
fn run_scp_case(seed: u64, i: u64, scp_port: u16, flavour: &str, prx_l: &TcpListener) -> String {
    let mut r = Rng::for_case(seed, i);
    let prx_port = prx_l.local_addr().unwrap().port();
    let c2s = Arc::new(Mutex::new(Vec::new()));
    let s2c = Arc::new(Mutex::new(Vec::new()));
    let ip = std::net::Ipv4Addr::new(127, 3, (i / 250 % 250) as u8, (i % 250 + 1) as u8);
    let (c2s_r, s2c_r) = (c2s.clone(), s2c.clone());
    let prx = prx_l.try_clone().unwrap();
    let proxy = std::thread::spawn(move || {
        let (cli, _) = prx.accept().unwrap();
        let srv = TcpStream::connect(("127.0.0.1", scp_port)).unwrap();
        let _ = cli.set_nodelay(true);
        let _ = srv.set_nodelay(true);
        let (cli2, srv2) = (cli.try_clone().unwrap(), srv.try_clone().unwrap());
        let t = std::thread::spawn(move || pump(srv2, cli2, s2c_r));
        pump(cli, srv, c2s_r);
        let _ = t.join();
    });
    let assoc = ClientAssociationOptions::new()
        .with_abstract_syntax(A_VERIF)
        .read_timeout(Duration::from_secs(60))
        .establish_with(&format!("{}:{}", ip, prx_port));
    let mut assoc = match assoc {
        Ok(x) => Some(x),
        Err(_) => {
            let _ = proxy.join();
            return format!("#{} skip scp-establish-failed", i);
        }
    };
    let mut events: Vec<String> = vec![];
    let n = r.below(5);
    for _ in 0..n {
        let x = assoc.as_mut().unwrap();
        if r.chance(3, 4) {
            let len = *r.pick(&[0usize, 1, 100, 4000]);
            // a data PDV that is not the last one: storescp just buffers it
            let out = res(SyncAssociation::send(
                x,
                &Pdu::PData { data: vec![PDataValue { presentation_context_id: 1, value_type: PDataValueType::Data, is_last: false, data: vec![0x42; len] }] },
            ));
            events.push(format!("R/sendData/{}", out));
        } else {
            let out = res(SyncAssociation::send(
                x,
                &Pdu::AssociationRJ(AssociationRJ { result: AssociationRJResult::Transient, source: AssociationRJSource::ServiceUser(AssociationRJServiceUserReason::NoReasonGiven) }),
            ));
            events.push(format!("R/sendOther/{}", out));
        }
    }
    match r.below(6) {
        0 => {
            let out = res(SyncAssociation::abort(assoc.take().unwrap()));
            events.push(format!("R/abort/{}", out));
        }
        1 => {
            drop(assoc.take());
            events.push("R/close/ok".into());
        }
        _ => {
            events.push("R/release/-".into());
            let out = res(SyncAssociation::release(assoc.take().unwrap()));
            events.push(format!("R/recv/{}", out));
        }
    }
    let _ = proxy.join();
    let c = c2s.lock().unwrap();
    let s = s2c.lock().unwrap();
    format!("#{} scp {} {} {} | {} | {}", i, flavour, events.len(), events.join(" "), wire_kinds(&c), wire_kinds(&s))
}


fn main() {
    let a = parse_args();
    quiet_panics();
    let mut out = Out::new();
    // the real storescp tool, sync and async flavour, when the check built it (`pre_build`)
    let scp_sync = spawn_scp(false);
    let scp_async = spawn_scp(true);
    let scp_ports: Option<(u16, u16)> = match (&scp_sync, &scp_async) {
        (Some(x), Some(y)) => Some((x.port, y.port)),
        _ => None,
    };
    let idx: Arc<Vec<u64>> = Arc::new(case_indices(&a).collect());
    let next = Arc::new(std::sync::atomic::AtomicUsize::new(0));
    let (tx, rx) = mpsc::sync_channel::<(usize, String)>(4096);
    let workers = if idx.len() < 8 { 1 } else { 8 };
    for _ in 0..workers {
        let (idx, next, tx, seed) = (idx.clone(), next.clone(), tx.clone(), a.seed);
        std::thread::spawn(move || {
            let srv_l = TcpListener::bind("0.0.0.0:0").unwrap();
            let prx_l = TcpListener::bind("0.0.0.0:0").unwrap();
            loop {
                let k = next.fetch_add(1, std::sync::atomic::Ordering::SeqCst);
                if k >= idx.len() {
                    break;
                }
                let i = idx[k];
                let line = match scp_ports {
                    Some((ps, pa)) if i % 5 == 4 => {
                        if (i / 5) % 2 == 0 {
                            run_scp_case(seed, i, ps, "sync", &prx_l)
                        } else {
                            run_scp_case(seed, i, pa, "async", &prx_l)
                        }
                    }
                    _ => run_case(seed, i, &srv_l, &prx_l),
                };
                if tx.send((k, line)).is_err() {
                    break;
                }
            }
        });
    }
    drop(tx);
    let mut pending = std::collections::BTreeMap::new();
    let mut want = 0usize;
    for (k, line) in rx {
        pending.insert(k, line);
        while let Some(l) = pending.remove(&want) {
            out.line(&l);
            want += 1;
        }
    }
    drop(scp_sync);
    drop(scp_async);
}
