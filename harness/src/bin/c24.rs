//! C24 — DICOM JSON output conforms to PS3.18 Annex F.
//!
//! Line: `ser <data set> <to_value result> <to_string result>`; a result is `ok <json tree>` |
//! `err` | `panic`; the `to_string` text is re-read by the exact reader of `common.rs`
//! (member order and duplicates kept, floats converted with std's correctly rounded parser).  Token grammar: `lean/DicomModel/Model/JsonWire.lean`.
#[path = "c23/common.rs"]
mod common;
use common::*;
use verif_harness::util::*;

fn main() {
    let a = parse_args();
    quiet_panics();
    let mut out = Out::new();
    for i in case_indices(&a) {
        let mut r = Rng::for_case(a.seed, i);
        let obj = if r.chance(1, 60) {
            let levels = if r.chance(1, 2) { r.range(4, 10) } else { r.range(10, 30) } as u32;
            gen_deep(&mut r, levels)
        } else {
            let o = GenOpts { max_depth: 3, ill_typed: r.chance(1, 3), pixel_seq: true };
            gen_ds(&mut r, 0, &o)
        };
        let mut t: Vec<String> = vec!["ser".into()];
        ds_tokens(&obj, &mut t);
        res_tokens(ser_value(&obj), &mut t);
        match ser_string(&obj) {
            Ok(Ok(text)) => match text_tokens(&text) {
                Some(tt) => {
                    t.push("ok".into());
                    t.extend(tt);
                }
                None => t.push("err".into()),
            },
            Ok(Err(())) => t.push("err".into()),
            Err(_) => t.push("panic".into()),
        }
        out.line(&format!("#{} {}", i, t.join(" ")));
    }
}
