//! C02 — reading and rewriting a canonical stream reproduces it byte for byte.
//!
//! Pipeline `gen | drv_c02 enc | run | drv_c02 check`:
//!   gen : random *canonical* data set trees (values in the form a reader delivers for their VR, already
//!         padded to even length; ascending unique tags; sequences / items marked explicit (`0`) or
//!         undefined (`4294967295`) length).  Line: `#i <ts> D <tag=VR,…> T <tree>`
//!   enc : (Lean) fills in the TRUE lengths and appends the bytes of the independent reference encoder
//!         `Ref.encElems`:  `… B <hex>`
//!   run : the real dicom-rs reads the bytes (`InMemDicomObject::read_dataset_with_ts`) and writes the
//!         object back (no-change strategy, default API, set-undefined):
//!         `… W <no-change> <default> <set-undefined> R ok ( tree ) | err | panic`
//!   check : (Lean) byte identity (the statement), then the models.
#[path = "c01/gen.rs"]
mod gen;
#[path = "c01/wr.rs"]
mod wr;

use dicom_core::value::C;
use dicom_core::{PrimitiveValue, Tag, VR};
use dicom_object::InMemDicomObject;
use gen::*;
use std::io::BufRead;
use verif_harness::util::*;
use wr::*;

/// the VR an Implicit VR reader resolves for `tag`
fn resolve(tag: Tag) -> VR {
    if tag == Tag(0x7FE0, 0x0010) || (tag.0 >> 8 == 0x60 && tag.1 == 0x3000) {
        VR::OW
    } else {
        dict_vr(tag).unwrap_or(VR::UN)
    }
}

fn unit(vr: VR) -> usize {
    match vr {
        VR::AT | VR::FL | VR::OF | VR::SL | VR::OL | VR::UL => 4,
        VR::US | VR::OW | VR::SS => 2,
        VR::FD | VR::OD | VR::SV | VR::OV | VR::UV => 8,
        _ => 1,
    }
}

/// the typed form in which a reader delivers the value bytes of a `vr` element
fn canon_value(vr: VR, bytes: &[u8], be: bool) -> PrimitiveValue {
    if bytes.is_empty() {
        return PrimitiveValue::Empty;
    }
    let u16s = |b: &[u8]| if be { u16::from_be_bytes([b[0], b[1]]) } else { u16::from_le_bytes([b[0], b[1]]) };
    let u32s = |b: &[u8]| {
        let a = [b[0], b[1], b[2], b[3]];
        if be {
            u32::from_be_bytes(a)
        } else {
            u32::from_le_bytes(a)
        }
    };
    let u64s = |b: &[u8]| {
        let a = [b[0], b[1], b[2], b[3], b[4], b[5], b[6], b[7]];
        if be {
            u64::from_be_bytes(a)
        } else {
            u64::from_le_bytes(a)
        }
    };
    fn col<T>(it: impl Iterator<Item = T>) -> C<T> {
        it.collect()
    }
    match vr {
        VR::AT => PrimitiveValue::Tags(col(bytes.chunks_exact(4).map(|c| Tag(u16s(&c[0..2]), u16s(&c[2..4]))))),
        VR::AE | VR::AS | VR::PN | VR::SH | VR::LO | VR::UC | VR::UI | VR::IS | VR::DS | VR::DA | VR::TM | VR::DT | VR::CS => {
            PrimitiveValue::Strs(col(bytes.split(|b| *b == b'\\').map(|p| String::from_utf8_lossy(p).into_owned())))
        }
        VR::UT | VR::ST | VR::UR | VR::LT => PrimitiveValue::Str(String::from_utf8_lossy(bytes).into_owned()),
        VR::UN | VR::OB | VR::SQ => PrimitiveValue::U8(col(bytes.iter().copied())),
        VR::US | VR::OW => PrimitiveValue::U16(col(bytes.chunks_exact(2).map(u16s))),
        VR::SS => PrimitiveValue::I16(col(bytes.chunks_exact(2).map(|c| u16s(c) as i16))),
        VR::FD | VR::OD => PrimitiveValue::F64(col(bytes.chunks_exact(8).map(|c| f64::from_bits(u64s(c))))),
        VR::FL | VR::OF => PrimitiveValue::F32(col(bytes.chunks_exact(4).map(|c| f32::from_bits(u32s(c))))),
        VR::SL => PrimitiveValue::I32(col(bytes.chunks_exact(4).map(|c| u32s(c) as i32))),
        VR::OL | VR::UL => PrimitiveValue::U32(col(bytes.chunks_exact(4).map(u32s))),
        VR::SV => PrimitiveValue::I64(col(bytes.chunks_exact(8).map(|c| u64s(c) as i64))),
        VR::OV | VR::UV => PrimitiveValue::U64(col(bytes.chunks_exact(8).map(u64s))),
    }
}

/// how the lengths of sequences and items are chosen
#[derive(Clone, Copy)]
enum LenMode {
    AllUndefined,
    AllExplicit,
    Mixed,
    ExplicitItems,
    ExplicitSeqs,
}

fn pick_len(r: &mut Rng, m: LenMode, is_seq: bool) -> u32 {
    let explicit = match m {
        LenMode::AllUndefined => false,
        LenMode::AllExplicit => true,
        LenMode::Mixed => r.chance(1, 2),
        LenMode::ExplicitItems => !is_seq,
        LenMode::ExplicitSeqs => is_seq,
    };
    if explicit {
        0
    } else {
        UNDEF
    }
}

fn canon_nodes(r: &mut Rng, nodes: &[Node], ts: u8, m: LenMode) -> Vec<Node> {
    let be = ts == 2;
    let mut out = Vec::new();
    for n in nodes {
        match n {
            Node::El { tag, vr, val, .. } => {
                let vr_eff = if ts == 0 { resolve(*tag) } else { *vr };
                if vr_eff == VR::SQ {
                    continue;
                }
                let mut bytes = ref_value(ts, *vr, val);
                let u = unit(vr_eff);
                let keep = bytes.len() / u * u;
                bytes.truncate(keep);
                let v = canon_value(vr_eff, &bytes, be);
                out.push(Node::El { tag: *tag, vr: vr_eff, len: bytes.len() as u32, val: v });
            }
            Node::Sq { tag, items, .. } => {
                let mut len = pick_len(r, m, true);
                if ts == 0 && resolve(*tag) != VR::SQ {
                    // Implicit VR: only an undefined length marks an unknown attribute as a sequence
                    len = UNDEF;
                }
                let items = items.iter().map(|(_, els)| (pick_len(r, m, false), canon_nodes(r, els, ts, m))).collect();
                out.push(Node::Sq { tag: *tag, len, items });
            }
            Node::Px { bot, frags } => {
                let frags = frags
                    .iter()
                    .map(|f| {
                        let mut f = f.clone();
                        if f.len() % 2 == 1 {
                            f.push(0);
                        }
                        f
                    })
                    .collect();
                out.push(Node::Px { bot: bot.clone(), frags });
            }
        }
    }
    out
}

fn dict_with_delims(nodes: &[Node]) -> String {
    let d = dict_token(nodes);
    let extra = format!("fffee00d={}", dict_vr(Tag(0xFFFE, 0xE00D)).map(vrn).unwrap_or("none".into()));
    if d == "-" {
        extra
    } else {
        format!("{},{}", d, extra)
    }
}

/// fixed boundary shapes (index < 16), Explicit VR LE unless noted
fn boundary(i: u64) -> Option<(u8, Vec<Node>)> {
    let sq = Tag(0x0008, 0x1140);
    let sq2 = Tag(0x0040, 0x0275);
    let el = |tag: Tag, vr: VR, bytes: Vec<u8>, be: bool| Node::El { tag, vr, len: bytes.len() as u32, val: canon_value(vr, &bytes, be) };
    let ts = (i % 3) as u8;
    let be = ts == 2;
    Some((
        ts,
        match i {
            0 => vec![],
            // empty sequence, explicit length 0 / undefined
            1 => vec![Node::Sq { tag: sq, len: 0, items: vec![] }],
            2 => vec![Node::Sq { tag: sq, len: UNDEF, items: vec![] }],
            // empty items, explicit length 0 / undefined, inside explicit and undefined sequences
            3 => vec![Node::Sq { tag: sq, len: 0, items: vec![(0, vec![]), (UNDEF, vec![]), (0, vec![])] }],
            4 => vec![Node::Sq { tag: sq, len: UNDEF, items: vec![(0, vec![]), (0, vec![])] }],
            // explicit lengths nested four deep, every container ending at the same byte
            5 => {
                let mut inner = vec![el(Tag(0x0008, 0x0060), VR::CS, b"MR".to_vec(), be)];
                for _ in 0..4 {
                    inner = vec![Node::Sq { tag: sq, len: 0, items: vec![(0, inner)] }];
                }
                inner
            }
            // an explicit-length item directly after an undefined-length one and vice versa
            6 => vec![
                Node::Sq { tag: sq, len: 0, items: vec![(UNDEF, vec![el(Tag(0x0008, 0x0060), VR::CS, b"CT".to_vec(), be)]), (0, vec![])] },
                Node::Sq { tag: sq2, len: UNDEF, items: vec![(0, vec![Node::Sq { tag: sq, len: UNDEF, items: vec![] }]), (UNDEF, vec![])] },
            ],
            // value lengths around the 16-bit limit: 65534 in a 16-bit-length VR, 65536 in a 32-bit one
            7 => vec![el(Tag(0x0008, 0x0080), VR::LO, vec![b'A'; 65534], be), el(Tag(0x0ACE, 0x0D01), VR::OB, vec![7; 65536], be)],
            // encapsulated pixel data: empty offset table, zero-length and non-empty fragments
            8 => vec![Node::Px { bot: vec![], frags: vec![vec![], vec![1, 2], vec![]] }],
            9 => vec![Node::Px { bot: vec![0, 10], frags: vec![vec![9, 9], vec![]] }],
            10 => vec![Node::Px { bot: vec![], frags: vec![] }],
            // encapsulated pixel data inside an explicit-length item, followed by another item
            11 => vec![Node::Sq {
                tag: sq,
                len: 0,
                items: vec![(0, vec![Node::Px { bot: vec![], frags: vec![vec![5, 6, 7, 8]] }]), (0, vec![Node::Sq { tag: sq, len: 0, items: vec![(0, vec![])] }])],
            }],
            // zero-length values
            12 => vec![el(Tag(0x0008, 0x0060), VR::CS, vec![], be), el(Tag(0x0028, 0x0010), VR::US, vec![], be)],
            _ => return None,
        },
    ))
}

fn gen_case(i: u64, seed: u64, thorough: bool) -> String {
    let mut r = Rng::for_case(seed, i);
    if let Some((ts, nodes)) = boundary(i) {
        // Implicit VR: the private / unknown tags above resolve to UN, which is what `canon_nodes` fixes
        let nodes = fix_implicit(&nodes, ts);
        return format!("{} D {} T {}", ts, dict_with_delims(&nodes), sexpr(&nodes));
    }
    let ts = r.below(3) as u8;
    let depth = if thorough { r.below(8) as u32 } else { r.below(5) as u32 };
    let o = GenOpts { max_depth: depth, pixel: true, charset: false, empty_frags: true };
    let src = gen_dataset(&mut r, 0, &o);
    let m = *r.pick(&[
        LenMode::AllUndefined,
        LenMode::AllUndefined,
        LenMode::AllExplicit,
        LenMode::AllExplicit,
        LenMode::Mixed,
        LenMode::Mixed,
        LenMode::Mixed,
        LenMode::ExplicitItems,
        LenMode::ExplicitSeqs,
    ]);
    let nodes = canon_nodes(&mut r, &src, ts, m);
    format!("{} D {} T {}", ts, dict_with_delims(&nodes), sexpr(&nodes))
}

/// boundary trees are written for explicit VR; under Implicit VR re-type the values by the dictionary
fn fix_implicit(nodes: &[Node], ts: u8) -> Vec<Node> {
    if ts != 0 {
        return nodes.to_vec();
    }
    nodes
        .iter()
        .map(|n| match n {
            Node::El { tag, vr, val, .. } => {
                let bytes = ref_value(0, *vr, val);
                let vr_eff = resolve(*tag);
                Node::El { tag: *tag, vr: vr_eff, len: bytes.len() as u32, val: canon_value(vr_eff, &bytes, false) }
            }
            Node::Sq { tag, len, items } => Node::Sq {
                tag: *tag,
                len: if resolve(*tag) != VR::SQ { UNDEF } else { *len },
                items: items.iter().map(|(l, els)| (*l, fix_implicit(els, ts))).collect(),
            },
            n => n.clone(),
        })
        .collect()
}

fn run_line(line: &str) -> String {
    let toks: Vec<&str> = line.split(' ').collect();
    let ts_k: u8 = toks.get(1).and_then(|t| t.parse().ok()).unwrap_or(1);
    let bytes = match toks.iter().position(|t| *t == "B").and_then(|p| toks.get(p + 1)) {
        Some(h) => unhex(h),
        None => return format!("{} W - - - R nothing", line),
    };
    let ts = ts_of(ts_k);
    match catch(std::panic::AssertUnwindSafe(|| InMemDicomObject::read_dataset_with_ts(&bytes[..], ts))) {
        Err(_) => format!("{} W - - - R panic", line),
        Ok(Err(_)) => format!("{} W - - - R err", line),
        Ok(Ok(obj)) => {
            let w = write_all_ways(&obj, ts_k);
            format!("{} W {} {} {} R ok {}", line, w[2], w[0], w[1], sexpr(&from_object(&obj)))
        }
    }
}

fn main() {
    let a = parse_args();
    quiet_panics();
    let mut out = Out::new();
    if a.mode == "gen" {
        for i in case_indices(&a) {
            out.line(&format!("#{} {}", i, gen_case(i, a.seed, a.thorough)));
        }
    } else {
        let stdin = std::io::stdin();
        for line in stdin.lock().lines() {
            let line = line.expect("stdin");
            let line = line.trim_end();
            if line.is_empty() {
                continue;
            }
            out.line(&run_line(line));
        }
    }
    let _ = PrimitiveValue::Empty;
}
