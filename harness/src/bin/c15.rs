//! C15 — the standard dictionaries answer consistently.
//!
//! Stage 2 of the pipeline `driver gen | harness run | driver check`: the Lean driver (the oracle)
//! produces the queries from the generated table; this runner only *executes* them on the real
//! `dicom_dictionary_std` crate and appends the implementation's answer to each line.
//!
//!   tag <g> <e>          -> StandardDataDictionary.by_tag(Tag(g, e))
//!   name <hex>           -> StandardDataDictionary.by_name(text)
//!   uid <hex>            -> StandardSopClassDictionary.by_uid(text)
//!   kw <hex>             -> StandardSopClassDictionary.by_keyword(text)
//!   row <key> …          -> (thorough tier) a table row the run-length predictions refer to
//!   sweep <g> <e>:<sym>… -> by_tag over all 65 536 elements of group g, compared with the model's
//!                           run-length prediction (sym: n none, p private creator, l group length,
//!                           k<key> the table row with that inner tag)
//!
//! answers: `none` | `e <kind> <g> <e> <keyword hex> <vr code>` (kind 0 Single, 1 Group100,
//! 2 Element100, gl, pc) | `u <uid hex> <name hex> <keyword hex> <type index> <retired>`
use dicom_core::dictionary::{
    DataDictionary, DataDictionaryEntryRef, TagRange, UidDictionary, UidDictionaryEntryRef, UidType, VirtualVr,
};
use dicom_core::Tag;
use dicom_dictionary_std::{StandardDataDictionary, StandardSopClassDictionary};
use std::collections::HashMap;
use std::io::BufRead;
use verif_harness::util::*;

#[derive(Clone, PartialEq, Eq, Debug)]
struct Ent {
    kind: &'static str,
    g: u16,
    e: u16,
    alias: String,
    vr: u32,
}

fn vr_code(v: VirtualVr) -> u32 {
    match v {
        VirtualVr::Exact(vr) => {
            let b = vr.to_bytes();
            (b[0] as u32) * 256 + b[1] as u32
        }
        VirtualVr::Xs => 1,
        VirtualVr::Ox => 2,
        VirtualVr::Px => 3,
        VirtualVr::Lt => 4,
        _ => 0,
    }
}

fn ent(e: &DataDictionaryEntryRef<'static>) -> Ent {
    let (kind, t) = match e.tag {
        TagRange::Single(t) => ("0", t),
        TagRange::Group100(t) => ("1", t),
        TagRange::Element100(t) => ("2", t),
        TagRange::GroupLength => ("gl", Tag(0, 0)),
        TagRange::PrivateCreator => ("pc", Tag(0, 0)),
    };
    Ent { kind, g: t.0, e: t.1, alias: e.alias.to_string(), vr: vr_code(e.vr) }
}

fn show(e: Option<&DataDictionaryEntryRef<'static>>) -> String {
    match e {
        None => "none".into(),
        Some(e) => {
            let x = ent(e);
            format!("e {} {} {} {} {}", x.kind, x.g, x.e, hexs(&x.alias), x.vr)
        }
    }
}

fn uid_type_index(t: UidType) -> u32 {
    match t {
        UidType::SopClass => 0,
        UidType::MetaSopClass => 1,
        UidType::TransferSyntax => 2,
        UidType::WellKnownSopInstance => 3,
        UidType::DicomUidsAsCodingScheme => 4,
        UidType::CodingScheme => 5,
        UidType::ApplicationContextName => 6,
        UidType::ServiceClass => 7,
        UidType::ApplicationHostingModel => 8,
        UidType::MappingResource => 9,
        UidType::LdapOid => 10,
        UidType::SynchronizationFrameOfReference => 11,
        _ => 99,
    }
}

fn show_uid(e: Option<&UidDictionaryEntryRef<'static>>) -> String {
    match e {
        None => "none".into(),
        Some(e) => format!(
            "u {} {} {} {} {}",
            hexs(e.uid),
            hexs(e.name),
            hexs(e.alias),
            uid_type_index(e.r#type),
            e.retired as u8
        ),
    }
}

fn text(tok: &str) -> Option<String> {
    String::from_utf8(unhex(tok)).ok()
}

/// the whole group `g` against the run-length prediction; returns the answer tokens
fn sweep(g: u16, runs: &[&str], rows: &HashMap<u64, Ent>) -> String {
    // decode runs: (start, symbol)
    let mut rs: Vec<(u32, &str)> = Vec::with_capacity(runs.len());
    for r in runs {
        match r.split_once(':') {
            Some((a, b)) => match a.parse::<u32>() {
                Ok(a) => rs.push((a, b)),
                Err(_) => return "malformed".into(),
            },
            None => return "malformed".into(),
        }
    }
    if rs.is_empty() || rs[0].0 != 0 {
        return "malformed".into();
    }
    let dict = StandardDataDictionary;
    let mut bad: Vec<String> = vec![];
    let mut nbad = 0u32;
    for (i, (start, sym)) in rs.iter().enumerate() {
        let end = if i + 1 < rs.len() { rs[i + 1].0 } else { 65536 };
        let want: Option<Ent> = match *sym {
            "n" => None,
            "p" => Some(Ent { kind: "pc", g: 0, e: 0, alias: "PrivateCreator".into(), vr: 0x4c4f }),
            "l" => Some(Ent { kind: "gl", g: 0, e: 0, alias: "GenericGroupLength".into(), vr: 0x554c }),
            s => match s.strip_prefix('k').and_then(|k| k.parse::<u64>().ok()).and_then(|k| rows.get(&k)) {
                Some(r) => Some(r.clone()),
                None => return "malformed".into(),
            },
        };
        for e in *start..end {
            let got = dict.by_tag(Tag(g, e as u16));
            let same = match (&want, got) {
                (None, None) => true,
                (Some(w), Some(x)) => *w == ent(x),
                _ => false,
            };
            if !same {
                nbad += 1;
                if bad.len() < 3 {
                    bad.push(format!("at {} {}", e, show(got)));
                }
            }
        }
    }
    if nbad == 0 {
        format!("{} ok", rs.len())
    } else {
        format!("{} bad {} {}", rs.len(), nbad, bad.join(" "))
    }
}

fn answer(toks: &[&str], rows: &HashMap<u64, Ent>) -> String {
    match toks {
        ["tag", g, e] => match (g.parse::<u16>(), e.parse::<u16>()) {
            (Ok(g), Ok(e)) => match catch(move || show(StandardDataDictionary.by_tag(Tag(g, e)))) {
                Ok(s) => s,
                Err(_) => "panic".into(),
            },
            _ => "malformed".into(),
        },
        ["name", h] => match text(h) {
            Some(t) => match catch(move || show(StandardDataDictionary.by_name(&t))) {
                Ok(s) => s,
                Err(_) => "panic".into(),
            },
            None => "malformed".into(),
        },
        ["uid", h] => match text(h) {
            Some(t) => match catch(move || show_uid(StandardSopClassDictionary.by_uid(&t))) {
                Ok(s) => s,
                Err(_) => "panic".into(),
            },
            None => "malformed".into(),
        },
        ["kw", h] => match text(h) {
            Some(t) => match catch(move || show_uid(StandardSopClassDictionary.by_keyword(&t))) {
                Ok(s) => s,
                Err(_) => "panic".into(),
            },
            None => "malformed".into(),
        },
        ["sweep", g, runs @ ..] => match g.parse::<u16>() {
            Ok(g) => sweep(g, runs, rows),
            Err(_) => "malformed".into(),
        },
        _ => "malformed".into(),
    }
}

fn main() {
    let a = parse_args();
    quiet_panics();
    // all query lines (produced by the Lean driver)
    let stdin = std::io::stdin();
    let mut lines: Vec<String> = Vec::new();
    let mut rows: HashMap<u64, Ent> = HashMap::new();
    for l in stdin.lock().lines() {
        let l = l.unwrap();
        let t: Vec<&str> = l.split(' ').collect();
        if t.len() >= 2 && t[1] == "row" {
            // `#R row <key> <kind> <g> <e> <keyword hex> <vr>`: what the model means by k<key>
            if t.len() == 8 {
                let kind = match t[3] {
                    "0" => "0",
                    "1" => "1",
                    _ => "2",
                };
                rows.insert(
                    t[2].parse().unwrap(),
                    Ent {
                        kind,
                        g: t[4].parse().unwrap(),
                        e: t[5].parse().unwrap(),
                        alias: String::from_utf8(unhex(t[6])).unwrap(),
                        vr: t[7].parse().unwrap(),
                    },
                );
            }
            continue;
        }
        if let Some(only) = a.only {
            if t[0] != format!("#{}", only) {
                continue;
            }
        }
        lines.push(l);
    }
    // warm the lazy registries before the threads start
    let _ = StandardDataDictionary.by_tag(Tag(0, 0));
    let _ = StandardSopClassDictionary.by_uid("");
    let nthreads = std::thread::available_parallelism().map(|n| n.get()).unwrap_or(4).min(16);
    let chunk = (lines.len() + nthreads - 1) / nthreads.max(1);
    let mut out = Out::new();
    if lines.is_empty() {
        return;
    }
    let rows = &rows;
    // interleave: thread t handles lines t, t+n, t+2n… (sweep lines are the expensive ones and come last)
    let _ = chunk;
    let results: Vec<Vec<(usize, String)>> = std::thread::scope(|s| {
        let hs: Vec<_> = (0..nthreads)
            .map(|t| {
                let lines = &lines;
                s.spawn(move || {
                    let mut v = Vec::new();
                    let mut i = t;
                    while i < lines.len() {
                        let l = &lines[i];
                        let toks: Vec<&str> = l.split(' ').filter(|x| !x.is_empty()).collect();
                        let ans = if toks.len() >= 2 && toks[0].starts_with('#') {
                            if toks[1] == "sweep" {
                                // the prediction is not echoed (long); the driver re-derives what it needs
                                format!("{} sweep {} {}", toks[0], toks[2], answer(&toks[1..], rows))
                            } else {
                                format!("{} {}", l, answer(&toks[1..], rows))
                            }
                        } else {
                            format!("{} malformed", l)
                        };
                        v.push((i, ans));
                        i += nthreads;
                    }
                    v
                })
            })
            .collect();
        hs.into_iter().map(|h| h.join().unwrap()).collect()
    });
    let mut all: Vec<(usize, String)> = results.into_iter().flatten().collect();
    all.sort_by_key(|x| x.0);
    for (_, l) in all {
        out.line(&l);
    }
}
