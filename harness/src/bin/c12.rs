//! C12 — partial dates / times / date-times: text round trip, encoded length, range bounds,
//! range text.  Calls the real `dicom_core::value` code (and chrono, for the facts the model assumes).
//!
//! Case layout (index → case, independent of all other cases):
//!   0 .. NY                : one line per year `Y y …` with all 1 + 12 + 12·31 partial dates of the year
//!                            (thorough: every year 0–9999; quick: a stratified subset, see `year_list`)
//!   NY .. NY+1440          : one line per (hour, minute) `T h m …` with the minute-precision value and
//!                            all seconds 0..=59 (plus the hour-precision value on minute 0)
//!   NY+1440 .. NY+1464     : one line per hour `L h …` with the leap seconds hh:mm:60 of all minutes
//!   NY+1464 ..             : sampled cases from `Rng::for_case(seed, index)`: fractions, constructor
//!                            range checks, date-times with offsets, ranges, raw parser inputs
use dicom_core::chrono::{Datelike, FixedOffset, NaiveDate, NaiveDateTime, NaiveTime, TimeZone, Timelike};
use dicom_core::value::deserialize::{parse_date_partial, parse_datetime_partial, parse_time_partial};
use dicom_core::value::range::{
    parse_date_range, parse_datetime_range_custom, parse_time_range, FailOnAmbiguousRange, IgnoreTimeZone,
    ToKnownTimeZone,
};
use dicom_core::value::{
    AsRange, DateRange, DateTimeRange, DicomDate, DicomDateTime, DicomTime, PreciseDateTime, PrimitiveValue,
    TimeRange,
};
use dicom_core::smallvec::smallvec;
use verif_harness::util::*;

// ---------- printers -------------------------------------------------------------------------

fn p_date(d: &DicomDate) -> String {
    match (d.month(), d.day()) {
        (None, _) => format!("{}", d.year()),
        (Some(m), None) => format!("{}.{}", d.year(), m),
        (Some(m), Some(dd)) => format!("{}.{}.{}", d.year(), m, dd),
    }
}

fn p_time(t: &DicomTime) -> String {
    match (t.minute(), t.second(), t.fraction_precision()) {
        (None, _, _) => format!("{}", t.hour()),
        (Some(m), None, _) => format!("{}.{}", t.hour(), m),
        (Some(m), Some(s), 0) => format!("{}.{}.{}", t.hour(), m, s),
        (Some(m), Some(s), fp) => {
            // the stored fraction, read back through the public accessor that prints it verbatim
            let fs = t.fraction_str();
            let f: u64 = fs.parse().unwrap_or(u64::MAX);
            format!("{}.{}.{}.{}.{}", t.hour(), m, s, f, fp)
        }
    }
}

fn p_off(o: &Option<FixedOffset>) -> String {
    match o {
        None => "n".into(),
        Some(o) => format!("{}", o.local_minus_utc()),
    }
}

fn p_dt(v: &DicomDateTime) -> String {
    format!(
        "{}/{}/{}",
        p_date(v.date()),
        v.time().map(p_time).unwrap_or("n".into()),
        p_off(&v.time_zone().copied())
    )
}

fn p_nd(d: &NaiveDate) -> String {
    format!("{}.{}.{}", d.year(), d.month(), d.day())
}
fn p_nt(t: &NaiveTime) -> String {
    format!("{}.{}.{}.{}", t.hour(), t.minute(), t.second(), t.nanosecond() / 1000)
}
fn p_ndt(t: &NaiveDateTime) -> String {
    format!("{},{}", p_nd(&t.date()), p_nt(&t.time()))
}
fn p_precise(p: &PreciseDateTime) -> String {
    match p {
        PreciseDateTime::Naive(n) => format!("N,{},{}", p_ndt(n), n.and_utc().timestamp_micros()),
        PreciseDateTime::TimeZone(d) => format!(
            "A,{},{},{}",
            p_ndt(&d.naive_local()),
            d.offset().local_minus_utc(),
            d.timestamp_micros()
        ),
    }
}
fn res<T, E>(r: Result<T, E>, f: impl Fn(&T) -> String) -> String {
    match r {
        Ok(v) => f(&v),
        Err(_) => "E".into(),
    }
}
fn opt<T>(r: Option<T>, f: impl Fn(&T) -> String) -> String {
    match r {
        Some(v) => f(&v),
        None => "n".into(),
    }
}

fn len_d(v: DicomDate) -> (usize, usize) {
    (
        PrimitiveValue::Date(smallvec![v]).calculate_byte_len(),
        PrimitiveValue::Date(smallvec![v, v]).calculate_byte_len(),
    )
}
fn len_t(v: DicomTime) -> (usize, usize) {
    (
        PrimitiveValue::Time(smallvec![v]).calculate_byte_len(),
        PrimitiveValue::Time(smallvec![v, v]).calculate_byte_len(),
    )
}
fn len_dt(v: DicomDateTime) -> (usize, usize) {
    (
        PrimitiveValue::DateTime(smallvec![v]).calculate_byte_len(),
        PrimitiveValue::DateTime(smallvec![v, v]).calculate_byte_len(),
    )
}

/// `enc;parsed/restlen;eq;len1;len2;earliest;latest` of a date value
fn date_token(v: Result<DicomDate, dicom_core::value::partial::Error>) -> String {
    let v = match v {
        Ok(v) => v,
        Err(_) => return "E".into(),
    };
    let enc = v.to_encoded();
    let (parsed, eq) = match parse_date_partial(enc.as_bytes()) {
        Ok((p, rest)) => (format!("{}/{}", p_date(&p), rest.len()), (p == v) as u8),
        Err(_) => ("E".into(), 0),
    };
    let (l1, l2) = len_d(v);
    format!(
        "{};{};{};{};{};{};{}",
        hexs(&enc),
        parsed,
        eq,
        l1,
        l2,
        res(v.earliest(), p_nd),
        res(v.latest(), p_nd)
    )
}

fn time_token(v: Result<DicomTime, dicom_core::value::partial::Error>) -> String {
    let v = match v {
        Ok(v) => v,
        Err(_) => return "E".into(),
    };
    let enc = v.to_encoded();
    let (parsed, eq) = match parse_time_partial(enc.as_bytes()) {
        Ok((p, rest)) => (format!("{}/{}", p_time(&p), rest.len()), (p == v) as u8),
        Err(_) => ("E".into(), 0),
    };
    let (l1, l2) = len_t(v);
    format!(
        "{};{};{};{};{};{};{}",
        hexs(&enc),
        parsed,
        eq,
        l1,
        l2,
        res(v.earliest(), p_nt),
        res(v.latest(), p_nt)
    )
}

// ---------- exhaustive blocks -----------------------------------------------------------------

fn year_list(thorough: bool) -> Vec<u16> {
    if thorough {
        return (0..=9999).collect();
    }
    let mut v: Vec<u16> = vec![];
    let spans: [(u16, u16); 10] = [
        (0, 8),
        (96, 104),
        (396, 404),
        (1196, 1204),
        (1580, 1604),
        (1696, 1704),
        (1796, 1804),
        (1890, 2110),
        (2396, 2404),
        (9990, 9999),
    ];
    for (a, b) in spans {
        v.extend(a..=b);
    }
    v.extend((0..100).map(|k| k * 100));
    v.extend((0..10000u32).step_by(61).map(|y| y as u16));
    v.sort();
    v.dedup();
    v
}

fn year_line(y: u16) -> String {
    let mut s = String::with_capacity(30000);
    s.push_str(&format!("Y {}", y));
    s.push(' ');
    s.push_str(&date_token(DicomDate::from_y(y)));
    for m in 1..=12u8 {
        s.push(' ');
        s.push_str(&date_token(DicomDate::from_ym(y, m)));
        for d in 1..=31u8 {
            s.push(' ');
            s.push_str(&date_token(DicomDate::from_ymd(y, m, d)));
            // the chrono facts the model assumes: validity and day number
            match NaiveDate::from_ymd_opt(y as i32, m as u32, d as u32) {
                Some(n) => s.push_str(&format!(";{}", n.num_days_from_ce())),
                None => s.push_str(";x"),
            }
        }
    }
    s
}

fn time_line(h: u8, m: u8) -> String {
    let mut s = String::with_capacity(6000);
    s.push_str(&format!("T {} {}", h, m));
    s.push(' ');
    if m == 0 {
        s.push_str(&time_token(DicomTime::from_h(h)));
    } else {
        s.push('-');
    }
    s.push(' ');
    s.push_str(&time_token(DicomTime::from_hm(h, m)));
    for sec in 0..=59u8 {
        s.push(' ');
        s.push_str(&time_token(DicomTime::from_hms(h, m, sec)));
    }
    s
}

/// leap seconds `hh:mm:60` of one hour
fn leap_line(h: u8) -> String {
    let mut s = String::with_capacity(6000);
    s.push_str(&format!("L {}", h));
    for m in 0..=59u8 {
        s.push(' ');
        s.push_str(&time_token(DicomTime::from_hms(h, m, 60)));
    }
    s
}

// ---------- sampled cases --------------------------------------------------------------------

fn is_leap(y: u32) -> bool {
    y % 4 == 0 && (y % 100 != 0 || y % 400 == 0)
}
fn dim(y: u32, m: u32) -> u32 {
    match m {
        2 => {
            if is_leap(y) {
                29
            } else {
                28
            }
        }
        4 | 6 | 9 | 11 => 30,
        _ => 31,
    }
}

fn gen_year(r: &mut Rng) -> u16 {
    match r.below(10) {
        0 => *r.pick(&[0u16, 1, 4, 100, 400, 1200, 1201, 1900, 2000, 2100, 9996, 9999]),
        1 => (r.below(100) * 100) as u16,
        2 => (r.below(2500) * 4) as u16,
        3 => r.range(0, 1300) as u16,
        _ => r.range(0, 9999) as u16,
    }
}

#[derive(Clone, Copy)]
struct DSpec {
    y: u16,
    m: Option<u8>,
    d: Option<u8>,
}
fn gen_dspec(r: &mut Rng, force_precise: bool) -> DSpec {
    let y = gen_year(r);
    let prec = if force_precise { 2 } else { r.below(3) };
    let m = r.range(1, 12) as u8;
    let d = match r.below(8) {
        0 => r.range(28, 31) as u8,
        1 => dim(y as u32, m as u32) as u8,
        2 => 1,
        _ => r.range(1, dim(y as u32, m as u32) as u64) as u8,
    };
    match prec {
        0 => DSpec { y, m: None, d: None },
        1 => DSpec { y, m: Some(m), d: None },
        _ => DSpec { y, m: Some(m), d: Some(d) },
    }
}
fn build_date(s: &DSpec) -> Result<DicomDate, dicom_core::value::partial::Error> {
    match (s.m, s.d) {
        (None, _) => DicomDate::from_y(s.y),
        (Some(m), None) => DicomDate::from_ym(s.y, m),
        (Some(m), Some(d)) => DicomDate::from_ymd(s.y, m, d),
    }
}
fn p_dspec(s: &DSpec) -> String {
    match (s.m, s.d) {
        (None, _) => format!("{}", s.y),
        (Some(m), None) => format!("{}.{}", s.y, m),
        (Some(m), Some(d)) => format!("{}.{}.{}", s.y, m, d),
    }
}

#[derive(Clone, Copy)]
struct TSpec {
    h: u8,
    m: Option<u8>,
    s: Option<u8>,
    f: Option<(u32, u8)>,
}
fn gen_tspec(r: &mut Rng, frac_bias: bool) -> TSpec {
    let h = match r.below(6) {
        0 => 0,
        1 => 23,
        _ => r.range(0, 23) as u8,
    };
    let m = match r.below(6) {
        0 => 0,
        1 => 59,
        _ => r.range(0, 59) as u8,
    };
    let s = match r.below(8) {
        0 => 0,
        1 => 59,
        2 => 60,
        _ => r.range(0, 59) as u8,
    };
    let prec = if frac_bias { 3 } else { r.below(4) };
    let fp = r.range(1, 6) as u8;
    let p10 = 10u32.pow(fp as u32);
    let f = match r.below(6) {
        0 => 0,
        1 => p10 - 1,
        2 => r.below(10) as u32 % p10,
        _ => r.below(p10 as u64) as u32,
    };
    match prec {
        0 => TSpec { h, m: None, s: None, f: None },
        1 => TSpec { h, m: Some(m), s: None, f: None },
        2 => TSpec { h, m: Some(m), s: Some(s), f: None },
        _ => TSpec { h, m: Some(m), s: Some(s), f: Some((f, fp)) },
    }
}
fn p_tspec(t: &TSpec) -> String {
    match (t.m, t.s, t.f) {
        (None, _, _) => format!("{}", t.h),
        (Some(m), None, _) => format!("{}.{}", t.h, m),
        (Some(m), Some(s), None) => format!("{}.{}.{}", t.h, m, s),
        (Some(m), Some(s), Some((f, fp))) => format!("{}.{}.{}.{}.{}", t.h, m, s, f, fp),
    }
}
/// text of a time spec written by the harness itself (independent of `to_encoded`)
fn tspec_text(t: &TSpec) -> String {
    match (t.m, t.s, t.f) {
        (None, _, _) => format!("{:02}", t.h),
        (Some(m), None, _) => format!("{:02}{:02}", t.h, m),
        (Some(m), Some(s), None) => format!("{:02}{:02}{:02}", t.h, m, s),
        (Some(m), Some(s), Some((f, fp))) => {
            format!("{:02}{:02}{:02}.{:0w$}", t.h, m, s, f, w = fp as usize)
        }
    }
}
/// how the value is obtained: c = public constructor, p = parsed from text
fn build_time(t: &TSpec, r: &mut Rng) -> (char, Option<DicomTime>) {
    match (t.m, t.s, t.f) {
        (None, _, _) => ('c', DicomTime::from_h(t.h).ok()),
        (Some(m), None, _) => ('c', DicomTime::from_hm(t.h, m).ok()),
        (Some(m), Some(s), None) => ('c', DicomTime::from_hms(t.h, m, s).ok()),
        (Some(m), Some(s), Some((f, fp))) => {
            if fp == 3 && r.chance(1, 2) {
                ('c', DicomTime::from_hms_milli(t.h, m, s, f).ok())
            } else if fp == 6 && r.chance(1, 2) {
                ('c', DicomTime::from_hms_micro(t.h, m, s, f).ok())
            } else {
                ('p', tspec_text(t).parse::<DicomTime>().ok())
            }
        }
    }
}

fn gen_offset(r: &mut Rng) -> i32 {
    match r.below(16) {
        0 => 0,
        1 => 14 * 3600,
        2 => -12 * 3600,
        3 => 14 * 3600 + 60,
        4 => -12 * 3600 - 60,
        5 => r.range(0, 86399) as i32 - 43200,   // arbitrary seconds
        6 => (r.range(0, 1439) as i32 - 720) * 60 + r.range(1, 59) as i32, // seconds part not zero
        7 => -(r.range(1, 12 * 60) as i32) * 60,
        8 => (r.range(14 * 60, 23 * 60 + 59) as i32) * 60,
        9 => -(r.range(12 * 60, 23 * 60 + 59) as i32) * 60,
        10 => *r.pick(&[3600, -3600, 19800, 20700, -34200, 45900, -60, 60]),
        _ => (r.range(0, 26 * 60) as i32 - 12 * 60) * 60,
    }
}

/// a precise date consistent with the spec (unknown components filled at random, valid for chrono)
fn fill_date(s: &DSpec, r: &mut Rng) -> Option<NaiveDate> {
    let y = s.y as u32;
    let m = s.m.map(|m| m as u32).unwrap_or_else(|| r.range(1, 12) as u32);
    let d = s.d.map(|d| d as u32).unwrap_or_else(|| match r.below(4) {
        0 => 1,
        1 => dim(y, m),
        _ => r.range(1, dim(y, m) as u64) as u32,
    });
    NaiveDate::from_ymd_opt(y as i32, m, d)
}
fn fill_time(t: &TSpec, r: &mut Rng) -> Option<NaiveTime> {
    let edge = r.below(4);
    let pick = |r: &mut Rng, hi: u64| match edge {
        0 => 0,
        1 => hi,
        _ => r.range(0, hi),
    };
    let m = t.m.map(|m| m as u64).unwrap_or_else(|| pick(r, 59));
    let s = t.s.map(|s| s as u64).unwrap_or_else(|| pick(r, 59));
    let f = match t.f {
        None => pick(r, 999_999),
        Some((f, fp)) => {
            let unit = 10u64.pow(6 - fp as u32);
            f as u64 * unit + pick(r, unit - 1)
        }
    };
    if s == 60 {
        // chrono's representation of the leap second hh:mm:60.f
        return NaiveTime::from_hms_micro_opt(t.h as u32, m as u32, 59, 1_000_000 + f as u32);
    }
    NaiveTime::from_hms_micro_opt(t.h as u32, m as u32, s as u32, f as u32)
}

fn cmp_flags(e: &Result<PreciseDateTime, dicom_core::value::range::Error>, x: &PreciseDateTime, l: &Result<PreciseDateTime, dicom_core::value::range::Error>) -> String {
    let a = match e {
        Ok(e) => (e <= x) as u8,
        Err(_) => 2,
    };
    let b = match l {
        Ok(l) => (x <= l) as u8,
        Err(_) => 2,
    };
    format!("{}{}", a, b)
}

fn p_daterange(r: &DateRange) -> String {
    format!("{}/{}", opt(r.start().copied(), p_nd), opt(r.end().copied(), p_nd))
}
fn p_timerange(r: &TimeRange) -> String {
    format!("{}/{}", opt(r.start().copied(), p_nt), opt(r.end().copied(), p_nt))
}
fn p_dtrange(r: &DateTimeRange) -> String {
    let k = match r {
        DateTimeRange::Naive { .. } => "N",
        DateTimeRange::TimeZone { .. } => "A",
    };
    format!("{}/{}/{}", k, opt(r.start(), p_precise), opt(r.end(), p_precise))
}

const JUNK: &[u8] = b"0123456789012345678901234567890123456789..--++ :/aZ\\";

fn junk_text(r: &mut Rng, max: usize) -> Vec<u8> {
    let n = r.usize(0, max);
    (0..n).map(|_| *r.pick(JUNK)).collect()
}

/// mutate a well-formed text a little
fn mutate(r: &mut Rng, mut t: Vec<u8>) -> Vec<u8> {
    for _ in 0..r.usize(1, 2) {
        match r.below(5) {
            0 if !t.is_empty() => {
                let k = r.usize(0, t.len() - 1);
                t.remove(k);
            }
            1 => {
                let k = r.usize(0, t.len());
                t.insert(k, *r.pick(JUNK));
            }
            2 if !t.is_empty() => {
                let k = r.usize(0, t.len() - 1);
                t[k] = *r.pick(JUNK);
            }
            3 => t.extend(junk_text(r, 4)),
            _ => {
                let k = r.usize(0, t.len());
                t.truncate(k);
            }
        }
    }
    t
}

fn sampled(r: &mut Rng) -> String {
    match r.below(20) {
        // ---- time with fraction (or any precision): value-level observables
        0..=3 => {
            let frac_bias = r.chance(3, 4);
            let t = gen_tspec(r, frac_bias);
            let (how, v) = build_time(&t, r);
            let mut s = format!("tf {} {} ", p_tspec(&t), how);
            match v {
                None => s.push('E'),
                Some(v) => {
                    s.push_str(&time_token(Ok(v)));
                    s.push_str(&format!(
                        " {} {} {}",
                        v.is_precise() as u8,
                        res(v.exact(), p_nt),
                        res(v.to_naive_time(), p_nt)
                    ));
                    // a precise instant consistent with the value, compared by chrono itself
                    match fill_time(&t, r) {
                        Some(x) => {
                            let a = v.earliest().map(|e| (e <= x) as u8).unwrap_or(2);
                            let b = v.latest().map(|l| (x <= l) as u8).unwrap_or(2);
                            s.push_str(&format!(" {} {}{}", p_nt(&x), a, b));
                        }
                        None => s.push_str(" n 22"),
                    }
                }
            }
            s
        }
        // ---- constructor range checks (out-of-range components mixed in)
        4 | 5 => {
            let big = |r: &mut Rng, ok_hi: u64, ty_hi: u64| -> u64 {
                match r.below(4) {
                    0 => r.range(ok_hi + 1, ty_hi),
                    1 => ok_hi + 1,
                    2 => ok_hi,
                    _ => r.range(0, ok_hi),
                }
            };
            match r.below(8) {
                0 => {
                    let h = big(r, 23, 255) as u8;
                    format!("tc h {} {}", h, res(DicomTime::from_h(h), p_time))
                }
                1 => {
                    let (h, m) = (big(r, 23, 255) as u8, big(r, 59, 255) as u8);
                    format!("tc hm {}.{} {}", h, m, res(DicomTime::from_hm(h, m), p_time))
                }
                2 => {
                    let (h, m, s) = (big(r, 23, 255) as u8, big(r, 59, 255) as u8, big(r, 60, 255) as u8);
                    format!("tc hms {}.{}.{} {}", h, m, s, res(DicomTime::from_hms(h, m, s), p_time))
                }
                3 => {
                    let (h, m, s) = (big(r, 23, 255) as u8, big(r, 59, 255) as u8, big(r, 60, 255) as u8);
                    let f = big(r, 999, 100_000) as u32;
                    format!("tc milli {}.{}.{}.{} {}", h, m, s, f, res(DicomTime::from_hms_milli(h, m, s, f), p_time))
                }
                4 => {
                    let (h, m, s) = (big(r, 23, 255) as u8, big(r, 59, 255) as u8, big(r, 60, 255) as u8);
                    let f = big(r, 999_999, 100_000_000) as u32;
                    format!("tc micro {}.{}.{}.{} {}", h, m, s, f, res(DicomTime::from_hms_micro(h, m, s, f), p_time))
                }
                5 => {
                    let y = big(r, 9999, 65535) as u16;
                    format!("tc y {} {}", y, res(DicomDate::from_y(y), p_date))
                }
                6 => {
                    let (y, m) = (big(r, 9999, 65535) as u16, r.range(0, 14) as u8);
                    format!("tc ym {}.{} {}", y, m, res(DicomDate::from_ym(y, m), p_date))
                }
                _ => {
                    let (y, m, d) = (big(r, 9999, 65535) as u16, r.range(0, 14) as u8, r.range(0, 33) as u8);
                    format!("tc ymd {}.{}.{} {}", y, m, d, res(DicomDate::from_ymd(y, m, d), p_date))
                }
            }
        }
        // ---- date-time values
        6..=10 => {
            let with_time = r.chance(2, 3);
            let fp_ = with_time && r.chance(9, 10);
            let ds = gen_dspec(r, fp_);
            let ts = if with_time { let fb = r.chance(1, 2); Some(gen_tspec(r, fb)) } else { None };
            let off = if r.chance(3, 5) { Some(gen_offset(r)) } else { None };
            let date = build_date(&ds).ok();
            let time = ts.and_then(|t| build_time(&t, r).1);
            let fo = off.and_then(FixedOffset::east_opt);
            let head = format!(
                "dt {} {} {}",
                p_dspec(&ds),
                ts.map(|t| p_tspec(&t)).unwrap_or("n".into()),
                off.map(|o| o.to_string()).unwrap_or("n".into())
            );
            if date.is_none() || (ts.is_some() && time.is_none()) || (off.is_some() && fo.is_none()) {
                return format!("{} X", head);
            }
            let date = date.unwrap();
            let v = match (time, fo) {
                (None, None) => Ok(DicomDateTime::from_date(date)),
                (None, Some(o)) => Ok(DicomDateTime::from_date_with_time_zone(date, o)),
                (Some(t), None) => DicomDateTime::from_date_and_time(date, t),
                (Some(t), Some(o)) => DicomDateTime::from_date_and_time_with_time_zone(date, t, o),
            };
            let v = match v {
                Ok(v) => v,
                Err(_) => return format!("{} E", head),
            };
            let enc = v.to_encoded();
            let (parsed, eq) = match parse_datetime_partial(enc.as_bytes()) {
                Ok(p) => (p_dt(&p), (p == v) as u8),
                Err(_) => ("E".into(), 0),
            };
            let (l1, l2) = len_dt(v);
            let e = v.earliest();
            let l = v.latest();
            // a consistent precise instant
            let inst = match (fill_date(&ds, r), match ts { Some(t) => fill_time(&t, r), None => { let h = r.range(0, 23) as u8; fill_time(&TSpec { h, m: None, s: None, f: None }, r) } }) {
                (Some(d), Some(t)) => {
                    let n = NaiveDateTime::new(d, t);
                    match fo {
                        None => Some(PreciseDateTime::Naive(n)),
                        Some(o) => o.from_local_datetime(&n).single().map(PreciseDateTime::TimeZone),
                    }
                }
                _ => None,
            };
            let inst_s = match &inst {
                Some(x) => format!("{} {}", p_precise(x), cmp_flags(&e, x, &l)),
                None => "n 22".into(),
            };
            format!(
                "{} {} {} {} {} {} {} {} {} {} {}",
                head,
                hexs(&enc),
                parsed,
                eq,
                l1,
                l2,
                res(e, p_precise),
                res(l, p_precise),
                v.is_precise() as u8,
                res(v.exact(), p_precise),
                inst_s
            )
        }
        // ---- date ranges
        11 | 12 => {
            let a = if r.chance(1, 8) { None } else { Some(gen_dspec(r, false)) };
            let b = if a.is_some() && r.chance(1, 8) { None } else { Some(gen_dspec(r, false)) };
            // make the second bound mostly later than the first
            let (a, b) = match (a, b) {
                (Some(x), Some(y)) if x.y > y.y && r.chance(3, 4) => (Some(y), Some(x)),
                p => p,
            };
            let av = a.and_then(|s| build_date(&s).ok());
            let bv = b.and_then(|s| build_date(&s).ok());
            let mut text: Vec<u8> = vec![];
            if let Some(v) = av {
                text.extend(v.to_encoded().bytes());
            }
            text.push(b'-');
            if let Some(v) = bv {
                text.extend(v.to_encoded().bytes());
            }
            let malformed = r.chance(1, 8);
            if malformed {
                text = mutate(r, text);
            }
            format!(
                "dr {} {} {} {} {} {} {}",
                malformed as u8,
                a.map(|s| p_dspec(&s)).unwrap_or("n".into()),
                b.map(|s| p_dspec(&s)).unwrap_or("n".into()),
                opt(av, |v| res(v.earliest(), p_nd)),
                opt(bv, |v| res(v.latest(), p_nd)),
                hex(&text),
                res(parse_date_range(&text), p_daterange)
            )
        }
        // ---- time ranges
        13 | 14 => {
            let a = if r.chance(1, 8) { None } else { Some({ let fb = r.chance(1, 3); gen_tspec(r, fb) }) };
            let b = if a.is_some() && r.chance(1, 8) { None } else { Some({ let fb = r.chance(1, 3); gen_tspec(r, fb) }) };
            let (a, b) = match (a, b) {
                (Some(x), Some(y)) if x.h > y.h && r.chance(3, 4) => (Some(y), Some(x)),
                p => p,
            };
            let av = a.and_then(|s| build_time(&s, r).1);
            let bv = b.and_then(|s| build_time(&s, r).1);
            let mut text: Vec<u8> = vec![];
            if let Some(v) = av {
                text.extend(v.to_encoded().bytes());
            }
            text.push(b'-');
            if let Some(v) = bv {
                text.extend(v.to_encoded().bytes());
            }
            let malformed = r.chance(1, 8);
            if malformed {
                text = mutate(r, text);
            }
            format!(
                "tr {} {} {} {} {} {} {}",
                malformed as u8,
                a.map(|s| p_tspec(&s)).unwrap_or("n".into()),
                b.map(|s| p_tspec(&s)).unwrap_or("n".into()),
                opt(av, |v| res(v.earliest(), p_nt)),
                opt(bv, |v| res(v.latest(), p_nt)),
                hex(&text),
                res(parse_time_range(&text), p_timerange)
            )
        }
        // ---- date-time ranges
        15..=17 => {
            let gen_one = |r: &mut Rng| -> Option<DicomDateTime> {
                let with_time = r.chance(1, 2);
                let ds = gen_dspec(r, with_time);
                let date = build_date(&ds).ok()?;
                let time = if with_time { Some({ let fb = r.chance(1, 3); let ts = gen_tspec(r, fb); build_time(&ts, r).1? }) } else { None };
                let off = if r.chance(1, 2) {
                    // offsets the parser accepts (whole minutes, −12:00 … +14:00), west ones often
                    let o = if r.chance(1, 2) { -(r.range(0, 12 * 60) as i32) * 60 } else { (r.range(0, 14 * 60) as i32) * 60 };
                    Some(FixedOffset::east_opt(o)?)
                } else {
                    None
                };
                match (time, off) {
                    (None, None) => Some(DicomDateTime::from_date(date)),
                    (None, Some(o)) => Some(DicomDateTime::from_date_with_time_zone(date, o)),
                    (Some(t), None) => DicomDateTime::from_date_and_time(date, t).ok(),
                    (Some(t), Some(o)) => DicomDateTime::from_date_and_time_with_time_zone(date, t, o).ok(),
                }
            };
            let a = if r.chance(1, 10) { None } else { gen_one(r) };
            let b = if a.is_some() && r.chance(1, 10) { None } else { gen_one(r) };
            let (a, b) = match (a, b) {
                (Some(x), Some(y)) if x.date().year() > y.date().year() && r.chance(3, 4) => (Some(y), Some(x)),
                p => p,
            };
            let mut text: Vec<u8> = vec![];
            if let Some(v) = a {
                text.extend(v.to_encoded().bytes());
            }
            text.push(b'-');
            if let Some(v) = b {
                text.extend(v.to_encoded().bytes());
            }
            let malformed = r.chance(1, 8);
            if malformed {
                text = mutate(r, text);
            }
            let mode = r.below(3);
            let out = match mode {
                0 => parse_datetime_range_custom::<ToKnownTimeZone>(&text),
                1 => parse_datetime_range_custom::<FailOnAmbiguousRange>(&text),
                _ => parse_datetime_range_custom::<IgnoreTimeZone>(&text),
            };
            format!(
                "xr {} {} {} {} {} {} {} {}",
                malformed as u8,
                mode,
                opt(a, p_dt),
                opt(b, p_dt),
                opt(a, |v| res(v.earliest(), p_precise)),
                opt(b, |v| res(v.latest(), p_precise)),
                hex(&text),
                res(out, p_dtrange)
            )
        }
        // ---- raw parser inputs (model fidelity on arbitrary text)
        _ => {
            let text = if r.chance(1, 2) {
                junk_text(r, 28)
            } else {
                // near-valid: a date-time text with small damage
                let fp_ = r.chance(2, 3);
                let ds = gen_dspec(r, fp_);
                let mut t: Vec<u8> = match build_date(&ds) {
                    Ok(d) => d.to_encoded().into_bytes(),
                    Err(_) => vec![],
                };
                if ds.d.is_some() {
                    let fb = r.chance(1, 2);
                    let ts = gen_tspec(r, fb);
                    t.extend(tspec_text(&ts).bytes());
                    if r.chance(1, 4) {
                        t.extend(junk_text(r, 4)); // e.g. more than six fraction digits
                    }
                }
                if r.chance(1, 2) {
                    let o = gen_offset(r);
                    t.extend(format!("{}{:02}{:02}", if o < 0 { '-' } else { '+' }, o.abs() / 3600, o.abs() / 60 % 60).bytes());
                }
                if r.chance(2, 3) {
                    mutate(r, t)
                } else {
                    t
                }
            };
            let which = r.below(3);
            let out = match which {
                0 => res(parse_date_partial(&text), |(d, rest)| format!("{}/{}", p_date(d), rest.len())),
                1 => res(parse_time_partial(&text), |(t, rest)| format!("{}/{}", p_time(t), rest.len())),
                _ => res(parse_datetime_partial(&text), p_dt),
            };
            format!("px {} {} {}", ["d", "t", "x"][which as usize], hex(&text), out)
        }
    }
}

fn main() {
    let a = parse_args();
    quiet_panics();
    let years = year_list(a.thorough);
    let ny = years.len() as u64;
    let mut out = Out::new();
    for i in case_indices(&a) {
        let line = if i < ny {
            let y = years[i as usize];
            catch(move || year_line(y)).unwrap_or_else(|_| format!("Y {} panic", y))
        } else if i < ny + 1440 {
            let k = (i - ny) as u32;
            let (h, m) = ((k / 60) as u8, (k % 60) as u8);
            catch(move || time_line(h, m)).unwrap_or_else(|_| format!("T {} {} panic", h, m))
        } else if i < ny + 1464 {
            let h = (i - ny - 1440) as u8;
            catch(move || leap_line(h)).unwrap_or_else(|_| format!("L {} panic", h))
        } else {
            let mut r = Rng::for_case(a.seed, i);
            let mut r2 = r.clone();
            catch(move || sampled(&mut r)).unwrap_or_else(|_| {
                // keep the case kind visible
                format!("panic {}", r2.below(20))
            })
        };
        out.line(&format!("#{} {}", i, line));
    }
}
