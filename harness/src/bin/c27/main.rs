//! C27 — PDU reception is independent of how the byte stream is segmented.
//! Drives the real `dicom_ul::association::{read_pdu_from_wire, read_pdu_from_wire_async}` with
//! scripted `Read` / `AsyncRead` transports and logs every read they serve.
//!
//! line:  seq <mx> <strict> <cap> <kind> ; <PDU 1> ; … ; <PDU n> ; stream <hex> ; script <len>* ;
//!        sync (| <nreads> <size>* <result>)* ; async (| <nreads> <size>* <result>)*
//! result: ok =<k> (token-equal to input PDU k) | ok <PDU tokens> | err:closed | err:pdu | err:other | panic
#[path = "../c25/gen.rs"]
mod gen;
use bytes::BytesMut;
use dicom_ul::association::{read_pdu_from_wire, read_pdu_from_wire_async, Error};
use dicom_ul::pdu::*;
use gen::*;
use std::collections::VecDeque;
use std::io::Read;
use std::pin::Pin;
use std::task::{Context, Poll};
use verif_harness::util::*;

/// transport delivering the scripted chunks; logs the size of every read it serves (0 = EOF)
struct Script {
    chunks: VecDeque<Vec<u8>>,
    log: Vec<usize>,
    /// async only: answer `Pending` (with an immediate wake-up) before some reads
    pending: Vec<bool>,
    polls: usize,
}

impl Script {
    fn new(stream: &[u8], sizes: &[usize], pending: Vec<bool>) -> Self {
        let mut chunks = VecDeque::new();
        let mut pos = 0;
        for &n in sizes {
            let end = (pos + n).min(stream.len());
            chunks.push_back(stream[pos..end].to_vec());
            pos = end;
        }
        Script { chunks, log: vec![], pending, polls: 0 }
    }
    fn serve(&mut self, room: usize) -> Vec<u8> {
        match self.chunks.pop_front() {
            None => {
                self.log.push(0);
                vec![]
            }
            Some(c) => {
                // an empty scripted chunk is an EOF in the middle: everything after it is gone
                if c.is_empty() {
                    self.chunks.clear();
                    self.log.push(0);
                    return vec![];
                }
                let n = c.len().min(room);
                if n < c.len() {
                    self.chunks.push_front(c[n..].to_vec());
                }
                self.log.push(n);
                c[..n].to_vec()
            }
        }
    }
}

impl Read for Script {
    fn read(&mut self, buf: &mut [u8]) -> std::io::Result<usize> {
        let d = self.serve(buf.len());
        buf[..d.len()].copy_from_slice(&d);
        Ok(d.len())
    }
}

impl tokio::io::AsyncRead for Script {
    fn poll_read(mut self: Pin<&mut Self>, cx: &mut Context<'_>, buf: &mut tokio::io::ReadBuf<'_>) -> Poll<std::io::Result<()>> {
        let k = self.polls;
        self.polls += 1;
        if !self.pending.is_empty() && self.pending[k % self.pending.len()] {
            // not ready yet: the next poll (a different k) may serve data
            cx.waker().wake_by_ref();
            return Poll::Pending;
        }
        let d = self.serve(buf.remaining());
        buf.put_slice(&d);
        Poll::Ready(Ok(()))
    }
}

fn result_tokens(r: Result<Result<Pdu, Error>, String>, inputs: &[String]) -> (String, bool) {
    match r {
        Err(_) => ("panic".into(), false),
        Ok(Err(Error::ConnectionClosed { .. })) => ("err:closed".into(), false),
        Ok(Err(Error::ReceivePdu { .. })) => ("err:pdu".into(), false),
        Ok(Err(_)) => ("err:other".into(), false),
        Ok(Ok(p)) => {
            let t = pdu_tokens(&p);
            match inputs.iter().position(|x| *x == t) {
                // several equal inputs: any index names the same tokens
                Some(k) => (format!("ok ={}", k), true),
                None => (format!("ok {}", t), true),
            }
        }
    }
}

fn fmt_call(reads: &[usize], res: &str) -> String {
    let mut s = format!(" | {}", reads.len());
    for n in reads {
        s.push_str(&format!(" {}", n));
    }
    s.push(' ');
    s.push_str(res);
    s
}

fn run_sync(stream: &[u8], sizes: &[usize], calls: usize, mx: u32, strict: bool, cap: usize, inputs: &[String]) -> String {
    let mut t = Script::new(stream, sizes, vec![]);
    let mut buffer = BytesMut::with_capacity(cap);
    let mut out = String::from("sync");
    for _ in 0..calls {
        let before = t.log.len();
        let r = catch(std::panic::AssertUnwindSafe(|| read_pdu_from_wire(&mut t, &mut buffer, mx, strict)));
        let (res, ok) = result_tokens(r, inputs);
        out.push_str(&fmt_call(&t.log[before..], &res));
        if !ok {
            break;
        }
    }
    out
}

fn run_async(
    stream: &[u8],
    sizes: &[usize],
    calls: usize,
    mx: u32,
    strict: bool,
    cap: usize,
    pending: Vec<bool>,
    inputs: &[String],
) -> String {
    let rt = tokio::runtime::Builder::new_current_thread().build().unwrap();
    let mut t = Script::new(stream, sizes, pending);
    let mut buffer = BytesMut::with_capacity(cap);
    let mut out = String::from("async");
    for _ in 0..calls {
        let before = t.log.len();
        let r = catch(std::panic::AssertUnwindSafe(|| {
            rt.block_on(read_pdu_from_wire_async(&mut t, &mut buffer, mx, strict))
        }));
        let (res, ok) = result_tokens(r, inputs);
        out.push_str(&fmt_call(&t.log[before..], &res));
        if !ok {
            break;
        }
    }
    out
}

/// cut positions (1..len-1) to chunk sizes
fn sizes_from_cuts(len: usize, cuts: &[usize]) -> Vec<usize> {
    let mut v = vec![];
    let mut last = 0;
    for &c in cuts {
        v.push(c - last);
        last = c;
    }
    v.push(len - last);
    v.retain(|n| *n > 0);
    v
}

/// the `k`-th subset (in order of size, then lexicographic) of {1..=n} with at most 3 elements
fn small_subset(n: usize, mut k: u64) -> Vec<usize> {
    if k == 0 {
        return vec![];
    }
    k -= 1;
    if k < n as u64 {
        return vec![k as usize + 1];
    }
    k -= n as u64;
    for a in 1..=n {
        for b in a + 1..=n {
            if k == 0 {
                return vec![a, b];
            }
            k -= 1;
        }
    }
    for a in 1..=n {
        for b in a + 1..=n {
            for c in b + 1..=n {
                if k == 0 {
                    return vec![a, b, c];
                }
                k -= 1;
            }
        }
    }
    vec![]
}

fn tiny_pdu(r: &mut Rng) -> Pdu {
    match r.below(3) {
        0 => Pdu::ReleaseRQ,
        1 => Pdu::ReleaseRP,
        _ => gen_abort(r),
    }
}

fn small_pdu(r: &mut Rng, allow_bad: bool) -> Pdu {
    // association PDUs with few items, P-DATA, the fixed ones
    loop {
        let p = gen_pdu(r, Size::Small, allow_bad);
        let mut out = vec![];
        if write_pdu(&mut out, &p).is_ok() && out.len() <= 1500 {
            return p;
        }
    }
}

fn main() {
    let a = parse_args();
    quiet_panics();
    let mut out = Out::new();
    let exh2: u64 = if a.thorough { 1 << 19 } else { 1 + 19 + 171 + 969 };
    for i in case_indices(&a) {
        let mut r = Rng::for_case(a.seed, i);
        let mut kind;
        let pdus: Vec<Pdu>;
        let mut sizes: Vec<usize>;
        let mut malformed = false;
        // ---- the PDUs and the stream
        if i < 512 {
            // every segmentation of a 10-byte stream (one PDU), the PDU drawn from the run seed only
            let mut r0 = Rng::for_case(a.seed, 1 << 40);
            pdus = vec![tiny_pdu(&mut r0)];
            kind = "exh1".to_string();
            sizes = vec![];
        } else if i < 512 + exh2 {
            let mut r0 = Rng::for_case(a.seed, (1 << 40) + 1);
            pdus = vec![tiny_pdu(&mut r0), tiny_pdu(&mut r0)];
            kind = "exh2".to_string();
            sizes = vec![];
        } else {
            let n = r.usize(1, 8);
            let bad = r.chance(1, 12);
            let big = r.chance(1, 25);
            pdus = (0..n)
                .map(|k| {
                    if big && k == n / 2 {
                        loop {
                            let p = gen_pdu(&mut r, Size::Large, false);
                            let mut o = vec![];
                            if write_pdu(&mut o, &p).is_ok() {
                                break p;
                            }
                        }
                    } else if r.chance(1, 3) {
                        tiny_pdu(&mut r)
                    } else {
                        small_pdu(&mut r, bad)
                    }
                })
                .collect();
            kind = if big { "big" } else if bad { "bad" } else { "rand" }.to_string();
            sizes = vec![];
        }
        let inputs: Vec<String> = pdus.iter().map(pdu_tokens).collect();
        let mut stream = vec![];
        let mut bounds = vec![];
        for p in &pdus {
            write_pdu(&mut stream, p).unwrap();
            bounds.push(stream.len());
        }
        // ---- the segmentation
        if i < 512 {
            let cuts: Vec<usize> = (1..stream.len()).filter(|j| (i >> (j - 1)) & 1 == 1).collect();
            sizes = sizes_from_cuts(stream.len(), &cuts);
        } else if i < 512 + exh2 {
            let k = i - 512;
            let cuts: Vec<usize> = if a.thorough {
                (1..stream.len()).filter(|j| (k >> (j - 1)) & 1 == 1).collect()
            } else {
                small_subset(stream.len() - 1, k)
            };
            sizes = sizes_from_cuts(stream.len(), &cuts);
        } else {
            if r.chance(1, 14) {
                // damage the stream: the receivers must still agree with the model
                malformed = true;
                let nm = r.usize(1, 2);
                for _ in 0..nm {
                    let p = r.usize(0, stream.len() - 1);
                    stream[p] = if r.chance(1, 2) { r.edgy(8) as u8 } else { stream[p] ^ (1 << r.below(8)) };
                }
                kind = "mal".into();
            }
            let len = stream.len();
            let mode = r.below(10);
            let mut cuts: Vec<usize> = match mode {
                0 => vec![],                                           // everything in one read
                1 if len <= 3000 => (1..len).collect(),                // one byte per read
                2 => bounds.iter().cloned().filter(|b| *b < len).collect(), // exactly one PDU per read
                3 => {
                    // around the PDU boundaries and header ends
                    let mut v = vec![];
                    let mut start = 0;
                    for b in &bounds {
                        for d in [1usize, 2, 5, 6, 7] {
                            if start + d < len && r.chance(1, 2) {
                                v.push(start + d);
                            }
                        }
                        if *b > 1 && r.chance(1, 2) {
                            v.push(b - 1);
                        }
                        if *b + 1 < len && r.chance(1, 2) {
                            v.push(b + 1);
                        }
                        start = *b;
                    }
                    v
                }
                4 => {
                    // several PDUs per read: cut only at some boundaries
                    bounds.iter().cloned().filter(|b| *b < len && r.chance(1, 3)).collect()
                }
                _ => {
                    let k = r.usize(1, 12.min(len.max(2) - 1));
                    (0..k).map(|_| r.usize(1, len.max(2) - 1)).collect()
                }
            };
            cuts.retain(|c| *c >= 1 && *c < len);
            cuts.sort();
            cuts.dedup();
            sizes = sizes_from_cuts(len, &cuts);
            match r.below(16) {
                0 => {
                    // the peer closes early: the script stops before the end of the stream
                    let keep = r.usize(0, sizes.len() - 1);
                    sizes.truncate(keep);
                    kind.push_str("-trunc");
                }
                1 => {
                    // EOF in the middle (a read of 0 bytes)
                    let at = r.usize(0, sizes.len());
                    sizes.insert(at, 0);
                    kind.push_str("-eof");
                }
                _ => {}
            }
        }
        // ---- receiver parameters
        let longest = {
            let mut m = 0;
            let mut s = 0;
            for b in &bounds {
                m = m.max(b - s - 6);
                s = *b;
            }
            m as u32
        };
        let (mx, strict) = if i < 512 + exh2 {
            (16_384u32, i % 2 == 0)
        } else {
            match r.below(12) {
                0 => (longest.max(1018), true),
                1 if longest > 1018 => (longest - 1, true), // one PDU is too long for a strict receiver
                2 if longest > 1018 => (longest - 1, false),
                3 => (1018, r.chance(1, 2)),
                4 => (4_294_967_288, r.chance(1, 2)),
                _ => (r.range(longest.max(1018) as u64, 200_000.max(longest as u64 + 1)) as u32, r.chance(1, 2)),
            }
        };
        let cap = *r.pick(&[0usize, 1, 7, 64, 4096, 32768]);
        let pending: Vec<bool> = match r.below(3) {
            0 => vec![],
            1 => vec![true, false],
            _ => (0..r.usize(1, 7)).map(|_| r.chance(1, 3)).chain(std::iter::once(false)).collect(),
        };
        let calls = pdus.len() + 1;
        let s_sync = run_sync(&stream, &sizes, calls, mx, strict, cap, &inputs);
        let s_async = run_async(&stream, &sizes, calls, mx, strict, cap, pending, &inputs);
        let mut line = format!("#{} seq {} {} {} {}{}", i, mx, strict as u8, cap, kind, if malformed { "" } else { "" });
        for t in &inputs {
            line.push_str(" ; ");
            line.push_str(t);
        }
        line.push_str(&format!(" ; stream {} ; script", hex(&stream)));
        for n in &sizes {
            line.push_str(&format!(" {}", n));
        }
        line.push_str(&format!(" ; {} ; {}", s_sync, s_async));
        out.line(&line);
    }
}
