//! Native test images as real `FileDicomObject`s (shared by the C18 and C19 runners).
use dicom_core::{DataElement, PrimitiveValue, VR};
use dicom_dictionary_std::{tags, uids};
use dicom_object::{FileDicomObject, FileMetaTableBuilder, InMemDicomObject};

#[derive(Clone, Debug)]
pub struct Img {
    pub rows: u16,
    pub cols: u16,
    pub spp: u16,
    pub bits: u16,
    pub frames: u32,
    /// `None`: Number of Frames attribute absent (single frame)
    pub frames_attr: bool,
    /// pixel data bytes, little endian samples
    pub data: Vec<u8>,
    /// store 8-bit data as OB/U8 (false: OW) — 16-bit data is always OW/U16
    pub ob: bool,
    /// Planar Configuration (only written for 3 samples)
    pub planar: u16,
    /// MONOCHROME1 instead of MONOCHROME2 (1 sample)
    pub mono1: bool,
}

#[allow(dead_code)]
impl Img {
    pub fn frame_size(&self) -> usize {
        self.rows as usize * self.cols as usize * self.spp as usize * (self.bits as usize / 8)
    }

    /// build the object in transfer syntax `ts` (a native one)
    pub fn object(&self, ts: &str) -> FileDicomObject<InMemDicomObject> {
        let mut o = InMemDicomObject::new_empty();
        o.put(DataElement::new(tags::SOP_CLASS_UID, VR::UI, uids::SECONDARY_CAPTURE_IMAGE_STORAGE));
        o.put(DataElement::new(tags::SOP_INSTANCE_UID, VR::UI, "1.2.3.4.5"));
        o.put(DataElement::new(tags::SAMPLES_PER_PIXEL, VR::US, PrimitiveValue::from(self.spp)));
        o.put(DataElement::new(
            tags::PHOTOMETRIC_INTERPRETATION,
            VR::CS,
            if self.spp == 3 {
                "RGB"
            } else if self.mono1 {
                "MONOCHROME1"
            } else {
                "MONOCHROME2"
            },
        ));
        if self.spp == 3 {
            o.put(DataElement::new(tags::PLANAR_CONFIGURATION, VR::US, PrimitiveValue::from(self.planar)));
        }
        if self.frames_attr {
            o.put(DataElement::new(tags::NUMBER_OF_FRAMES, VR::IS, self.frames.to_string()));
        }
        o.put(DataElement::new(tags::ROWS, VR::US, PrimitiveValue::from(self.rows)));
        o.put(DataElement::new(tags::COLUMNS, VR::US, PrimitiveValue::from(self.cols)));
        o.put(DataElement::new(tags::BITS_ALLOCATED, VR::US, PrimitiveValue::from(self.bits)));
        o.put(DataElement::new(tags::BITS_STORED, VR::US, PrimitiveValue::from(self.bits)));
        o.put(DataElement::new(tags::HIGH_BIT, VR::US, PrimitiveValue::from(self.bits - 1)));
        o.put(DataElement::new(tags::PIXEL_REPRESENTATION, VR::US, PrimitiveValue::from(0u16)));
        let px = if self.bits == 16 {
            let w: Vec<u16> = self.data.chunks(2).map(|c| u16::from_le_bytes([c[0], c[1]])).collect();
            DataElement::new(tags::PIXEL_DATA, VR::OW, PrimitiveValue::U16(w.into()))
        } else {
            DataElement::new(
                tags::PIXEL_DATA,
                if self.ob { VR::OB } else { VR::OW },
                PrimitiveValue::from(self.data.clone()),
            )
        };
        o.put(px);
        o.with_meta(
            FileMetaTableBuilder::new()
                .transfer_syntax(ts)
                .media_storage_sop_class_uid(uids::SECONDARY_CAPTURE_IMAGE_STORAGE)
                .media_storage_sop_instance_uid("1.2.3.4.5"),
        )
        .expect("meta")
    }
}

/// The deflate and JPEG encoders allocate and free a few hundred KB per frame; glibc then trims
/// and regrows the heap for every case (one `brk` pair each, dominated by page zeroing).
/// Re-run this same process once with the glibc tunables that keep the heap top — output and exit
/// status are passed through unchanged, the cases do not depend on it.
#[allow(dead_code)]
pub fn keep_heap() {
    if std::env::var_os("MALLOC_TOP_PAD_").is_some() {
        return;
    }
    let exe = match std::env::current_exe() {
        Ok(e) => e,
        Err(_) => return,
    };
    let st = std::process::Command::new(exe)
        .args(std::env::args_os().skip(1))
        .env("MALLOC_TOP_PAD_", "67108864")
        .env("MALLOC_TRIM_THRESHOLD_", "268435456")
        .status();
    if let Ok(st) = st {
        std::process::exit(st.code().unwrap_or(1));
    }
}
