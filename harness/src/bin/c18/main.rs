//! C18 — encapsulated pixel data: fragments, basic offset table, total length, frame retrieval.
//! Calls the real helpers (`Fragments`, `encapsulate*`), the real `Transcode::transcode` for every
//! registered transfer syntax with a pixel data encoder, and `PixelDataObject::frame_pixel_data`.
mod img;
use dicom_core::value::fragments::Fragments;
use dicom_core::value::{InMemFragment, PixelFragmentSequence, Value};
use dicom_core::{DataElement, VR};
use dicom_dictionary_std::tags;
use dicom_encoding::adapters::PixelDataObject;
use dicom_encoding::Codec;
use dicom_object::{FileDicomObject, FileMetaTableBuilder, InMemDicomObject};
use dicom_pixeldata::encapsulation::{encapsulate, encapsulate_single_frame};
use dicom_pixeldata::Transcode;
use dicom_transfer_syntax_registry::TransferSyntaxRegistry;
use verif_harness::util::*;

const ENCAP_UNCOMPRESSED: &str = "1.2.840.10008.1.2.1.98";

fn seq_of<I>(v: Value<I, InMemFragment>) -> Option<PixelFragmentSequence<InMemFragment>> {
    match v {
        Value::PixelSequence(s) => Some(s),
        _ => None,
    }
}

fn csv(v: &[u32]) -> String {
    if v.is_empty() {
        "-".into()
    } else {
        v.iter().map(|x| x.to_string()).collect::<Vec<_>>().join(",")
    }
}

fn frags_str(f: &[Vec<u8>]) -> String {
    let mut s = f.len().to_string();
    for x in f {
        s.push(' ');
        s.push_str(&hex(x));
    }
    s
}

/// an object holding just the fragment sequence (+ Number of Frames), for `frame_pixel_data`
fn seq_object(
    seq: PixelFragmentSequence<InMemFragment>,
    nframes_attr: Option<u32>,
) -> FileDicomObject<InMemDicomObject> {
    let mut o = InMemDicomObject::new_empty();
    if let Some(n) = nframes_attr {
        o.put(DataElement::new(tags::NUMBER_OF_FRAMES, VR::IS, n.to_string()));
    }
    o.put(DataElement::new(tags::PIXEL_DATA, VR::OB, Value::PixelSequence(seq)));
    o.with_meta(
        FileMetaTableBuilder::new()
            .transfer_syntax(ENCAP_UNCOMPRESSED)
            .media_storage_sop_class_uid("1.2.840.10008.5.1.4.1.1.7")
            .media_storage_sop_instance_uid("1.2.3.4.5"),
    )
    .expect("meta")
}

fn fpd_str(o: &FileDicomObject<InMemDicomObject>, upto: u32) -> String {
    let mut s = upto.to_string();
    for i in 0..upto {
        s.push(' ');
        match o.frame_pixel_data(i) {
            Some(c) => {
                s.push_str("s:");
                s.push_str(&hex(&c))
            }
            None => s.push_str("none"),
        }
    }
    s
}

/// result of a helper: `ok <table> <n> <fragments…> <k> <frame_pixel_data 0..k>` or `panic`
fn seq_result(
    f: impl FnOnce() -> Option<PixelFragmentSequence<InMemFragment>> + std::panic::UnwindSafe,
    nframes_attr: Option<u32>,
    nframes: u32,
) -> String {
    match catch(move || {
        let seq = match f() {
            Some(s) => s,
            None => return "notseq".to_string(),
        };
        // never print gigabytes (a wrapped / unrounded u32 fragment size)
        let total: usize = seq.fragments().iter().map(|f| f.len()).sum();
        if total > (1 << 22) {
            return format!("huge {} {}", seq.fragments().len(), total);
        }
        let head = format!("ok {} {}", csv(seq.offset_table()), frags_str(seq.fragments()));
        let o = seq_object(seq, nframes_attr);
        format!("{} {}", head, fpd_str(&o, nframes + 1))
    }) {
        Ok(s) => s,
        Err(_) => "panic".into(),
    }
}

fn gen_len(r: &mut Rng) -> usize {
    match r.below(12) {
        0 => 0,
        1 => 1,
        2 => 2,
        3 => 3,
        4 => 2 * r.usize(1, 20) + 1,
        5 => 2 * r.usize(1, 20),
        _ => r.usize(0, 40),
    }
}

fn gen_fs(r: &mut Rng, len: usize) -> u32 {
    match r.below(16) {
        0 | 1 | 2 => 0,
        3 => 1,
        4 => 2,
        5 => 3,
        6 => len as u32,
        7 => len as u32 + 1,
        8 => (len as u32).saturating_sub(1),
        9 => len as u32 + r.range(2, 30) as u32,
        10 => (len as u32 / 2).max(1),
        11 => r.range(100, 700) as u32,
        _ => r.range(1, 48) as u32,
    }
}

/// nonzero first byte so that lost / shifted data is visible against the zero padding
fn gen_data(r: &mut Rng, n: usize) -> Vec<u8> {
    let mut d = r.bytes(n);
    for b in d.iter_mut() {
        if *b == 0 {
            *b = 0x5a;
        }
    }
    if r.chance(1, 6) && n > 0 {
        // a zero tail in the data itself
        let k = r.usize(1, n);
        for b in d[n - k..].iter_mut() {
            *b = 0;
        }
    }
    d
}

fn case_single(r: &mut Rng) -> String {
    // the top of u32 only with empty data (anything else allocates gigabytes)
    let top = r.chance(1, 100);
    let n = if top { 0 } else { gen_len(r) };
    let data = gen_data(r, n);
    let fs = if top { u32::MAX - r.below(2) as u32 } else { gen_fs(r, n) };
    let attr = if r.chance(1, 2) { Some(1) } else { None };
    let d2 = data.clone();
    let res = seq_result(move || seq_of(encapsulate_single_frame(d2, fs)), attr, 1);
    format!("single {} {} {} => {}", attr.map(|x| x.to_string()).unwrap_or("none".into()), fs, hex(&data), res)
}

fn case_multi(r: &mut Rng, public: bool) -> String {
    let n = match r.below(10) {
        0 => 0,
        1 => 1,
        _ => r.usize(1, 16),
    };
    let same = r.chance(1, 3);
    let l0 = gen_len(r).max(1);
    let frames: Vec<Vec<u8>> = (0..n)
        .map(|_| {
            let l = if same { l0 } else if r.chance(1, 25) { 0 } else { gen_len(r).max(1) };
            gen_data(r, l)
        })
        .collect();
    let hexes: Vec<String> = frames.iter().map(|f| hex(f)).collect();
    if public {
        let f2 = frames.clone();
        let res = seq_result(move || seq_of(encapsulate(f2)), Some(n as u32), n as u32);
        format!("encap {} {} => {}", n, hexes.join(" "), res)
    } else {
        // fragment size: mostly one that keeps one fragment per frame
        let maxl = frames.iter().map(|f| f.len()).max().unwrap_or(0);
        let fs = match r.below(6) {
            0 => 0,
            1 => maxl as u32,
            2 => maxl as u32 + 1 + r.below(9) as u32,
            3 => (maxl as u32 / 2).max(1),
            _ => gen_fs(r, maxl),
        };
        let f2 = frames.clone();
        let res = seq_result(
            move || {
                let v: Vec<Fragments> = f2.into_iter().map(|f| Fragments::new(f, fs)).collect();
                Some(v.into())
            },
            Some(n as u32),
            n as u32,
        );
        format!("multi {} {} {} => {}", fs, n, hexes.join(" "), res)
    }
}

/// hand-made sequences (several fragments per frame, several frames) with the table the property
/// describes: only `frame_pixel_data` is exercised
fn case_fpd(r: &mut Rng) -> String {
    let n = r.usize(1, 8);
    let mut table = vec![];
    let mut frags: Vec<Vec<u8>> = vec![];
    let mut shape = vec![];
    let mut off = 0u32;
    let one_each = r.chance(1, 4);
    for _ in 0..n {
        let k = if one_each { 1 } else { r.usize(1, 4) };
        shape.push(k.to_string());
        table.push(off);
        for _ in 0..k {
            let l = match r.below(8) {
                0 => 0,
                1 => 2,
                _ => 2 * r.usize(0, 10),
            };
            let f = gen_data(r, l);
            off += f.len() as u32 + 8;
            frags.push(f);
        }
    }
    // single frame: the attribute may be absent; an empty table is also legal for one frame
    let attr = if n == 1 && r.chance(1, 2) { None } else { Some(n as u32) };
    let table = if n == 1 && r.chance(1, 3) { vec![] } else { table };
    let head = format!(
        "fpd {} {} {} {} {}",
        attr.map(|x| x.to_string()).unwrap_or("none".into()),
        n,
        shape.join(","),
        csv(&table),
        frags_str(&frags)
    );
    let o = seq_object(PixelFragmentSequence::new(table, frags), attr);
    let res = match catch(move || fpd_str(&o, n as u32 + 1)) {
        Ok(s) => format!("ok {}", s),
        Err(_) => "panic".into(),
    };
    format!("{} => {}", head, res)
}

fn pattern(a: u64, b: u64, i: u64) -> u8 {
    ((a * i + b) % 251 + 1) as u8
}

/// large single frame near the f32 precision boundary; bytes follow a formula, only lengths and
/// sampled positions are reported
fn case_big(r: &mut Rng) -> String {
    let len: u64 = match r.below(4) {
        0 => 16_777_217,
        1 => 17_000_001,
        2 => 16_777_217 + 2 * r.below(40_000),
        _ => 16_777_216 + r.range(1, 3_000_000),
    };
    let fs: u32 = match r.below(5) {
        0 => 65_536,
        1 => 1_000_000,
        2 => 1 << 20,
        3 => 2 * r.range(20_000, 500_000) as u32,
        _ => 2 * r.range(20_000, 500_000) as u32 + 1,
    };
    let (a, b) = (r.range(1, 250), r.below(251));
    let data: Vec<u8> = (0..len).map(|i| pattern(a, b, i)).collect();
    let mut extra: Vec<u64> = (0..6).map(|_| r.below(len + 2 * fs as u64)).collect();
    let res = match catch(move || {
        let v = encapsulate_single_frame(data, fs);
        let seq = match v {
            Value::PixelSequence(s) => s,
            _ => return "notseq".to_string(),
        };
        let fr = seq.fragments();
        let lens: Vec<usize> = fr.iter().map(|f| f.len()).collect();
        let total: usize = lens.iter().sum();
        let mut pos: Vec<u64> = vec![0, len - 2, len - 1, len, len + 1, total as u64 - 1, total as u64 - 2];
        pos.append(&mut extra);
        pos.retain(|p| (*p as usize) < total);
        pos.sort();
        pos.dedup();
        // byte at flat position p of the concatenated fragments
        let at = |p: u64| -> u8 {
            let mut p = p as usize;
            for f in fr {
                if p < f.len() {
                    return f[p];
                }
                p -= f.len();
            }
            unreachable!()
        };
        let samples: Vec<String> = pos.iter().map(|p| format!("{}:{}", p, at(*p))).collect();
        format!(
            "ok {} {} {} {} {} {}",
            csv(seq.offset_table()),
            lens.len(),
            lens.iter().min().copied().unwrap_or(0),
            lens.iter().max().copied().unwrap_or(0),
            total,
            samples.join(",")
        )
    }) {
        Ok(s) => s,
        Err(_) => "panic".into(),
    };
    format!("big {} {} {} {} => {}", len, fs, a, b, res)
}

fn encoder_syntaxes() -> Vec<&'static str> {
    let mut v: Vec<&'static str> = TransferSyntaxRegistry
        .iter()
        .filter(|ts| matches!(ts.codec(), Codec::EncapsulatedPixelData(_, Some(_))))
        .map(|ts| ts.uid())
        .collect();
    v.sort();
    v
}

fn case_tx(r: &mut Rng, targets: &[&'static str]) -> String {
    use dicom_encoding::TransferSyntaxIndex;
    let uid = *r.pick(targets);
    let heavy = uid != ENCAP_UNCOMPRESSED && !uid.starts_with("1.2.840.10008.1.2.8");
    let bits: u16 = if r.chance(1, 2) { 8 } else { 16 };
    let spp: u16 = if r.chance(1, 3) { 3 } else { 1 };
    let rows = r.range(1, 6) as u16;
    let cols = r.range(1, 6) as u16;
    let frames = match r.below(6) {
        0 => 1,
        1 => 2,
        _ => r.range(1, if heavy { 4 } else { 16 }) as u32,
    };
    let frames_attr = frames != 1 || r.chance(1, 2);
    let n = rows as usize * cols as usize * spp as usize * (bits as usize / 8) * frames as usize;
    let mut data = r.bytes(n);
    let pad = n % 2 == 1 && r.chance(1, 2);
    if pad {
        data.push(0);
    }
    let im = img::Img { rows, cols, spp, bits, frames, frames_attr, data, ob: r.chance(1, 2), planar: 0, mono1: false };
    let src = *r.pick(&["1.2.840.10008.1.2", "1.2.840.10008.1.2.1", "1.2.840.10008.1.2.2"]);
    let head = format!(
        "tx {} {} {} {} {} {} {} {} {}",
        uid,
        rows,
        cols,
        spp,
        bits,
        frames,
        frames_attr as u8,
        hex(&im.data),
        match src {
            "1.2.840.10008.1.2" => "ile",
            "1.2.840.10008.1.2.1" => "ele",
            _ => "ebe",
        }
    );
    let res = match catch(move || {
        let mut o = im.object(src);
        let ts = TransferSyntaxRegistry.get(uid).unwrap();
        if o.transcode(ts).is_err() {
            return "err".to_string();
        }
        if o.meta().transfer_syntax() != uid {
            return "err:ts-not-set".to_string();
        }
        let nf = o
            .element(tags::NUMBER_OF_FRAMES)
            .ok()
            .and_then(|e| e.to_int::<u32>().ok())
            .map(|x| x.to_string())
            .unwrap_or("none".into());
        let tl = o
            .element(tags::ENCAPSULATED_PIXEL_DATA_VALUE_TOTAL_LENGTH)
            .ok()
            .and_then(|e| e.to_int::<u64>().ok())
            .map(|x| x.to_string())
            .unwrap_or("none".into());
        let (table, frags) = match o.element(tags::PIXEL_DATA).unwrap().value() {
            Value::PixelSequence(s) => (s.offset_table().to_vec(), s.fragments().to_vec()),
            _ => return "err:not-encapsulated".to_string(),
        };
        format!("ok {} {} {} {} {}", nf, tl, csv(&table), frags_str(&frags), fpd_str(&o, frames + 1))
    }) {
        Ok(s) => s,
        Err(_) => "panic".into(),
    };
    format!("{} => {}", head, res)
}

fn main() {
    img::keep_heap();
    let a = parse_args();
    quiet_panics();
    let targets = encoder_syntaxes();
    let mut out = Out::new();
    if a.mode == "list" {
        for t in &targets {
            out.line(t);
        }
        return;
    }
    // the large-size probes are few: about one case in `big_every`
    let big_every = if a.thorough { 5000 } else { 2000 };
    for i in case_indices(&a) {
        let mut r = Rng::for_case(a.seed, i);
        let line = if i % big_every == 3 {
            case_big(&mut r)
        } else {
            match r.below(10) {
                0 | 1 => case_single(&mut r),
                2 => case_multi(&mut r, true),
                3 => case_multi(&mut r, false),
                4 => case_fpd(&mut r),
                _ => case_tx(&mut r, &targets),
            }
        };
        out.line(&format!("#{} {}", i, line));
    }
}
