//! Small generated DICOM objects (shared by the C34 and C05 runners).
//! Everything is derived from the `Rng` handed in, so a case replays from (seed, index).
#![allow(dead_code)]
use dicom_core::header::Length;
use dicom_core::value::{DataSetSequence, PixelFragmentSequence, Value};
use dicom_core::{DataElement, PrimitiveValue, Tag, VR};
use dicom_object::mem::InMemElement;
use dicom_object::{FileMetaTableBuilder, InMemDicomObject};
use smallvec::smallvec;
use verif_harness::util::Rng;

pub const IMPLICIT_LE: &str = "1.2.840.10008.1.2";
pub const EXPLICIT_LE: &str = "1.2.840.10008.1.2.1";
pub const EXPLICIT_BE: &str = "1.2.840.10008.1.2.2";
pub const DEFLATED_LE: &str = "1.2.840.10008.1.2.1.99";
pub const ENCAP_UNCOMPRESSED: &str = "1.2.840.10008.1.2.1.98";
pub const JPEG_BASELINE: &str = "1.2.840.10008.1.2.4.50";
pub const RLE_LOSSLESS: &str = "1.2.840.10008.1.2.5";

/// how the pixel data element of a generated object looks
#[derive(Clone, Copy, Debug, PartialEq, Eq)]
pub enum Pix {
    None,
    Native,
    Encapsulated,
}

#[derive(Clone, Copy, Debug)]
pub struct Shape {
    /// number of extra random elements at top level
    pub extra: usize,
    /// nesting depth of the generated sequence (0 = no sequence)
    pub depth: usize,
    pub pix: Pix,
    /// size of one large OB value (0 = none); > 8192 crosses the `BufWriter` capacity
    pub big: usize,
    /// non-ASCII text + Specific Character Set
    pub charset: bool,
}

fn txt(r: &mut Rng, n: usize) -> String {
    r.ascii_from(b"ABCDEFGHIJKLMNOPQRSTUVWXYZabcdefghij0123456789 ^", n)
}

fn leaf(r: &mut Rng, group: u16, i: u16) -> InMemElement {
    // private-ish odd groups would need creators; use even groups with arbitrary elements
    let tag = Tag(group, 0x1000 + i);
    match r.below(14) {
        0 => {
            let n = r.usize(0, 9);
            DataElement::new(tag, VR::LO, PrimitiveValue::from(txt(r, n)))
        }
        1 => DataElement::new(tag, VR::PN, PrimitiveValue::from(format!("{}^{}", txt(r, 4), txt(r, 3)))),
        2 => DataElement::new(tag, VR::US, PrimitiveValue::U16(smallvec![r.edgy(16) as u16])),
        3 => DataElement::new(tag, VR::UL, PrimitiveValue::U32(smallvec![r.edgy(32) as u32, 7])),
        4 => DataElement::new(tag, VR::SS, PrimitiveValue::I16(smallvec![r.edgy(16) as i16])),
        5 => DataElement::new(tag, VR::FD, PrimitiveValue::F64(smallvec![1.5, -2.25])),
        6 => DataElement::new(tag, VR::FL, PrimitiveValue::F32(smallvec![0.5])),
        7 => {
            let n = r.usize(0, 7);
            DataElement::new(tag, VR::OB, PrimitiveValue::U8(r.bytes(n).into()))
        }
        8 => DataElement::new(tag, VR::DS, PrimitiveValue::F64(smallvec![2.5, 10.0])),
        9 => DataElement::new(tag, VR::IS, PrimitiveValue::I32(smallvec![r.edgy(16) as i32 - 300])),
        10 => DataElement::new(tag, VR::AT, PrimitiveValue::Tags(smallvec![Tag(0x0010, 0x0010), Tag(0x7fe0, 0x0010)])),
        11 => DataElement::new(tag, VR::CS, PrimitiveValue::Strs(smallvec!["ORIGINAL".to_string(), "PRIMARY".to_string(), txt(r, 3)])),
        12 => DataElement::new(tag, VR::UI, PrimitiveValue::from("1.2.840.10008.5.1.4.1.1.7")),
        _ => DataElement::new(tag, VR::LO, PrimitiveValue::Empty),
    }
}

fn sequence(r: &mut Rng, depth: usize, tag: Tag) -> InMemElement {
    let nitems = r.usize(0, 2) + usize::from(depth > 1);
    let mut items = vec![];
    for _ in 0..nitems {
        let mut o = InMemDicomObject::new_empty();
        let n = r.usize(0, 2);
        for i in 0..n {
            o.put(leaf(r, 0x0040, i as u16));
        }
        if depth > 1 {
            o.put(sequence(r, depth - 1, Tag(0x0040, 0xA730)));
        }
        items.push(o);
    }
    // explicit or undefined declared length: the writer rewrites it anyway
    let len = if r.chance(1, 2) { Length::UNDEFINED } else { Length(0) };
    DataElement::new(tag, VR::SQ, Value::Sequence(DataSetSequence::new(items, len)))
}

pub fn gen_shape(r: &mut Rng, allow_big: bool) -> Shape {
    Shape {
        extra: r.usize(0, 6),
        depth: r.usize(0, 3),
        pix: *r.pick(&[Pix::None, Pix::Native, Pix::Encapsulated]),
        big: if allow_big && r.chance(1, 3) { *r.pick(&[8191usize, 8192, 8193, 9001, 20000]) } else { 0 },
        charset: r.chance(1, 4),
    }
}

/// a data set; `encapsulated` pixel data only makes sense with an encapsulated transfer syntax
pub fn gen_object(r: &mut Rng, sh: &Shape) -> InMemDicomObject {
    let mut o = InMemDicomObject::new_empty();
    if sh.charset {
        o.put(DataElement::new(Tag(0x0008, 0x0005), VR::CS, PrimitiveValue::from("ISO_IR 100")));
    }
    o.put(DataElement::new(Tag(0x0008, 0x0016), VR::UI, PrimitiveValue::from("1.2.840.10008.5.1.4.1.1.7")));
    o.put(DataElement::new(Tag(0x0008, 0x0018), VR::UI, PrimitiveValue::from(format!("1.2.3.{}", r.below(100000)))));
    o.put(DataElement::new(Tag(0x0008, 0x0020), VR::DA, PrimitiveValue::from("20240229")));
    o.put(DataElement::new(Tag(0x0008, 0x0030), VR::TM, PrimitiveValue::from("12301")));
    let name = if sh.charset { format!("J\u{f6}rg^{}", txt(r, 3)) } else { format!("Doe^{}", txt(r, 4)) };
    o.put(DataElement::new(Tag(0x0010, 0x0010), VR::PN, PrimitiveValue::from(name)));
    for i in 0..sh.extra {
        o.put(leaf(r, 0x0018, i as u16));
    }
    if sh.depth > 0 {
        o.put(sequence(r, sh.depth, Tag(0x0040, 0x0275)));
    }
    if sh.big > 0 {
        o.put(DataElement::new(Tag(0x0042, 0x0011), VR::OB, PrimitiveValue::U8(r.bytes(sh.big).into())));
    }
    match sh.pix {
        Pix::None => {}
        Pix::Native => {
            o.put(DataElement::new(Tag(0x0028, 0x0010), VR::US, PrimitiveValue::U16(smallvec![2])));
            o.put(DataElement::new(Tag(0x0028, 0x0011), VR::US, PrimitiveValue::U16(smallvec![3])));
            if r.chance(1, 2) {
                o.put(DataElement::new(Tag(0x7fe0, 0x0010), VR::OW, PrimitiveValue::U16(smallvec![1, 2, 3, 4, 5, 6])));
            } else {
                o.put(DataElement::new(Tag(0x7fe0, 0x0010), VR::OB, PrimitiveValue::U8(r.bytes(7).into())));
            }
        }
        Pix::Encapsulated => {
            let nfrag = r.usize(0, 3);
            let frags: Vec<Vec<u8>> = (0..nfrag)
                .map(|_| {
                    let n = r.usize(0, 9);
                    r.bytes(n)
                })
                .collect();
            let bot: Vec<u32> = if r.chance(1, 2) { vec![] } else { (0..nfrag as u32).map(|i| i * 16).collect() };
            o.put(DataElement::new(
                Tag(0x7fe0, 0x0010),
                VR::OB,
                Value::PixelSequence(PixelFragmentSequence::new(bot, frags)),
            ));
        }
    }
    o
}

pub fn with_meta(o: InMemDicomObject, ts: &str) -> dicom_object::FileDicomObject<InMemDicomObject> {
    o.with_meta(
        FileMetaTableBuilder::new()
            .transfer_syntax(ts)
            .media_storage_sop_class_uid("1.2.840.10008.5.1.4.1.1.7")
            .media_storage_sop_instance_uid("1.2.3.4.5.6.7"),
    )
    .expect("meta")
}
