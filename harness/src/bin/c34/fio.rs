//! Faulty sinks and sources: fail (or accept nothing, or accept little) at a chosen byte offset.
#![allow(dead_code)]
use std::io::{self, Read, Write};

#[derive(Clone, Copy, Debug, PartialEq, Eq)]
pub enum Kind {
    /// never fails
    Clean,
    /// `Err(io::ErrorKind::Other)` at byte offset k
    Err,
    /// `Ok(0)` for a non-empty request at byte offset k
    Zero,
    /// `Err(io::ErrorKind::UnexpectedEof)` at byte offset k (sources only)
    EofKind,
    /// the k-th `flush` call fails (sinks only)
    FlushErr,
}

impl Kind {
    pub fn name(self) -> &'static str {
        match self {
            Kind::Clean => "clean",
            Kind::Err => "err",
            Kind::Zero => "zero",
            Kind::EofKind => "eofkind",
            Kind::FlushErr => "flusherr",
        }
    }
}

/// what the sink saw, for recording the clean-run call sequence
#[derive(Clone, Copy, Debug, PartialEq, Eq)]
pub enum Ev {
    W(usize),
    F,
}

pub struct Sink {
    pub out: Vec<u8>,
    pub kind: Kind,
    pub k: usize,
    /// accept at most m bytes per call (0 = no limit)
    pub m: usize,
    /// keep failing after the first failure
    pub sticky: bool,
    pub fired: bool,
    /// failures handed to the caller
    pub fails: u32,
    pub flushes: usize,
    pub log: Option<Vec<Ev>>,
}

impl Sink {
    pub fn new(kind: Kind, k: usize, m: usize, sticky: bool) -> Self {
        Sink { out: vec![], kind, k, m, sticky, fired: false, fails: 0, flushes: 0, log: None }
    }
    pub fn recorder() -> Self {
        let mut s = Sink::new(Kind::Clean, 0, 0, false);
        s.log = Some(vec![]);
        s
    }
}

impl Write for Sink {
    fn write(&mut self, buf: &[u8]) -> io::Result<usize> {
        if let Some(l) = &mut self.log {
            l.push(Ev::W(buf.len()));
        }
        if buf.is_empty() {
            return Ok(0);
        }
        let pos = self.out.len();
        let faulty = matches!(self.kind, Kind::Err | Kind::Zero);
        if faulty && pos == self.k && (!self.fired || self.sticky) {
            self.fired = true;
            self.fails += 1;
            return match self.kind {
                Kind::Err => Err(io::Error::other("injected")),
                _ => Ok(0),
            };
        }
        let mut n = buf.len();
        if self.m > 0 {
            n = n.min(self.m);
        }
        if faulty && pos < self.k {
            n = n.min(self.k - pos);
        }
        self.out.extend_from_slice(&buf[..n]);
        Ok(n)
    }
    fn flush(&mut self) -> io::Result<()> {
        if let Some(l) = &mut self.log {
            l.push(Ev::F);
        }
        let i = self.flushes;
        self.flushes += 1;
        if self.kind == Kind::FlushErr && (i == self.k || (self.sticky && i > self.k)) {
            self.fails += 1;
            return Err(io::Error::other("injected flush"));
        }
        Ok(())
    }
}

/// a `&mut`-free handle so that the sink survives the operation that consumes its writer
pub struct Shared<'a>(pub &'a std::cell::RefCell<Sink>);
impl Write for Shared<'_> {
    fn write(&mut self, buf: &[u8]) -> io::Result<usize> {
        self.0.borrow_mut().write(buf)
    }
    fn flush(&mut self) -> io::Result<()> {
        self.0.borrow_mut().flush()
    }
}

pub struct Source<'a> {
    pub data: &'a [u8],
    pub pos: usize,
    pub kind: Kind,
    pub k: usize,
    pub m: usize,
    pub sticky: bool,
    pub fired: bool,
    pub fails: u32,
    pub calls: u32,
}

impl<'a> Source<'a> {
    pub fn new(data: &'a [u8], kind: Kind, k: usize, m: usize, sticky: bool) -> Self {
        Source { data, pos: 0, kind, k, m, sticky, fired: false, fails: 0, calls: 0 }
    }
}

impl Read for Source<'_> {
    fn read(&mut self, buf: &mut [u8]) -> io::Result<usize> {
        self.calls += 1;
        if buf.is_empty() {
            return Ok(0);
        }
        let faulty = matches!(self.kind, Kind::Err | Kind::Zero | Kind::EofKind);
        if faulty && self.pos == self.k && (!self.fired || self.sticky) {
            self.fired = true;
            return match self.kind {
                Kind::Err => {
                    self.fails += 1;
                    Err(io::Error::other("injected"))
                }
                Kind::EofKind => {
                    self.fails += 1;
                    Err(io::ErrorKind::UnexpectedEof.into())
                }
                // a premature end of the stream is not an I/O failure
                _ => Ok(0),
            };
        }
        let mut n = buf.len().min(self.data.len() - self.pos);
        if self.m > 0 {
            n = n.min(self.m);
        }
        if faulty && self.pos < self.k {
            n = n.min(self.k - self.pos);
        }
        buf[..n].copy_from_slice(&self.data[self.pos..self.pos + n]);
        self.pos += n;
        Ok(n)
    }
}
