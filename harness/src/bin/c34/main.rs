//! C34 — I/O failures are always reported. Fault enumeration over the real writer/reader stacks.
//!
//! One case = one (object, public operation, transfer syntax, failure kind, chunk limit, sticky)
//! combination; its line carries the clean-run call trace of the layer above the stack and the
//! outcome of the real operation for every (or, for large objects, sampled) failing offset k.
mod fio;
mod objs;

use dicom_encoding::transfer_syntax::Codec;
use dicom_encoding::TransferSyntaxIndex;
use dicom_object::{FileDicomObject, InMemDicomObject};
use dicom_transfer_syntax_registry::TransferSyntaxRegistry;
use dicom_ul::pdu::{
    write_pdu, AbortRQServiceProviderReason, AbortRQSource, AssociationAC, AssociationRJ,
    AssociationRJResult, AssociationRJServiceUserReason, AssociationRJSource, AssociationRQ,
    PDataValue, PDataValueType, Pdu, PresentationContextProposed, PresentationContextResult,
    PresentationContextResultReason, UserVariableItem,
};
use fio::{Ev, Kind, Shared, Sink, Source};
use objs::*;
use std::cell::RefCell;
use std::io::{Read, Write};
use verif_harness::util::*;

const TS_LIST: &[(&str, &str)] = &[
    ("implicit", IMPLICIT_LE),
    ("explicit", EXPLICIT_LE),
    ("be", EXPLICIT_BE),
    ("deflated", DEFLATED_LE),
    ("encaps", ENCAP_UNCOMPRESSED),
    ("jpeg", JPEG_BASELINE),
    ("rle", RLE_LOSSLESS),
];

type FileObj = FileDicomObject<InMemDicomObject>;

#[derive(Clone, Copy, PartialEq, Eq, Debug)]
enum WOp {
    /// `FileDicomObject::write_all`
    File,
    /// `FileDicomObject::write_dataset`
    FileDs,
    /// `FileDicomObject::write_meta`
    Meta,
    /// `InMemDicomObject::write_dataset_with_ts`
    Ds,
}

fn run_wop(op: WOp, f: &FileObj, ts_uid: &str, w: Shared) -> Result<(), ()> {
    match op {
        WOp::File => f.write_all(w).map_err(|_| ()),
        WOp::FileDs => f.write_dataset(w).map_err(|_| ()),
        WOp::Meta => f.write_meta(w).map_err(|_| ()),
        WOp::Ds => {
            let ts = TransferSyntaxRegistry.get(ts_uid).ok_or(())?;
            let o: &InMemDicomObject = f;
            o.write_dataset_with_ts(w, ts).map_err(|_| ())
        }
    }
}

fn fmt_ops(ev: &[Ev]) -> String {
    if ev.is_empty() {
        return "-".into();
    }
    ev.iter()
        .map(|e| match e {
            Ev::W(n) => n.to_string(),
            Ev::F => "f".into(),
        })
        .collect::<Vec<_>>()
        .join(",")
}

/// the calls the data set writer makes on *its* writer (clean run on a recording sink)
fn upper_trace(op: WOp, f: &FileObj, ts_uid: &str) -> (Vec<Ev>, Vec<u8>) {
    let deflated = ts_uid == DEFLATED_LE;
    // the deflated syntax encodes as Explicit VR Little Endian before the adapter
    let plain = if deflated { EXPLICIT_LE } else { ts_uid };
    let mut ev = vec![];
    let mut bytes = vec![];
    fn add(ev: &mut Vec<Ev>, bytes: &mut Vec<u8>, c: &RefCell<Sink>) {
        let s = c.borrow();
        ev.extend(s.log.clone().unwrap());
        bytes.extend_from_slice(&s.out);
    }
    if op == WOp::File {
        ev.push(Ev::W(128));
        ev.push(Ev::W(4));
        bytes.extend_from_slice(&[0u8; 128]);
        bytes.extend_from_slice(b"DICM");
    }
    if op == WOp::File || op == WOp::Meta {
        let c = RefCell::new(Sink::recorder());
        f.meta().write(Shared(&c)).expect("clean meta");
        add(&mut ev, &mut bytes, &c);
    }
    if op != WOp::Meta {
        let c = RefCell::new(Sink::recorder());
        let ts = TransferSyntaxRegistry.get(plain).unwrap();
        let o: &InMemDicomObject = f;
        o.write_dataset_with_ts(Shared(&c), ts).expect("clean dataset");
        add(&mut ev, &mut bytes, &c);
        if op != WOp::Ds {
            ev.push(Ev::F);
        }
    }
    (ev, bytes)
}

/// bytes that reach the adapter's inner writer during each upper op, then during its drop
/// (the concrete instance of the abstract compressor; measured on the real adapter)
fn emission_schedule(ev: &[Ev], bytes: &[u8], from: usize) -> Vec<usize> {
    let ts = TransferSyntaxRegistry.get(DEFLATED_LE).unwrap();
    let adapter = match ts.codec() {
        Codec::Dataset(Some(a)) => a,
        _ => panic!("no deflate adapter"),
    };
    let c = RefCell::new(Sink::new(Kind::Clean, 0, 0, false));
    let mut res = vec![];
    {
        let mut w = adapter.adapt_writer(Box::new(Shared(&c)));
        let mut off = 0;
        for (i, e) in ev.iter().enumerate() {
            let before = c.borrow().out.len();
            match e {
                Ev::W(n) => {
                    if i >= from {
                        w.write_all(&bytes[off..off + n]).unwrap();
                    }
                    off += n;
                }
                Ev::F => {
                    if i >= from {
                        w.flush().unwrap();
                    }
                }
            }
            if i >= from {
                res.push(c.borrow().out.len() - before);
            }
        }
        let before = c.borrow().out.len();
        drop(w);
        res.push(c.borrow().out.len() - before);
    }
    res
}

fn offsets(r: &mut Rng, len: usize, thorough: bool) -> Vec<usize> {
    let limit = if thorough { 6000 } else { 1200 };
    if len <= limit {
        return (0..=len).collect();
    }
    let mut v = vec![0, 1, 2, 127, 128, 131, 132, len / 2, len - 2, len - 1, len];
    for b in [8192usize, 16384, 32768] {
        for d in [-2i64, -1, 0, 1, 2] {
            let x = b as i64 + d;
            if x >= 0 && (x as usize) <= len {
                v.push(x as usize);
            }
        }
    }
    for _ in 0..(if thorough { 200 } else { 40 }) {
        v.push(r.usize(0, len));
    }
    v.sort();
    v.dedup();
    v
}

fn res_name(r: &Result<Result<(), ()>, String>) -> &'static str {
    match r {
        Ok(Ok(())) => "ok",
        Ok(Err(())) => "err",
        Err(_) => "panic",
    }
}

fn write_case(r: &mut Rng, thorough: bool) -> String {
    let (tsname, ts_uid) = *r.pick(TS_LIST);
    let op = *r.pick(&[WOp::File, WOp::File, WOp::FileDs, WOp::Ds, WOp::Ds, WOp::Meta]);
    let kind = *r.pick(&[Kind::Err, Kind::Err, Kind::Zero, Kind::FlushErr]);
    let m = *r.pick(&[0usize, 0, 0, 1, 3, 7, 4096]);
    let sticky = r.chance(1, 2);
    let mut sh = gen_shape(r, true);
    let encaps_ts = !matches!(tsname, "implicit" | "explicit" | "be" | "deflated");
    if sh.pix == Pix::Encapsulated && !encaps_ts {
        sh.pix = Pix::Native;
    }
    if encaps_ts && sh.pix == Pix::Native {
        sh.pix = Pix::Encapsulated;
    }
    let f = with_meta(gen_object(r, &sh), ts_uid);
    let deflated = ts_uid == DEFLATED_LE && op != WOp::Meta;
    let stack = match (op, deflated) {
        (WOp::File, false) | (WOp::FileDs, false) => "buf",
        (WOp::File, true) | (WOp::FileDs, true) => "deflbuf",
        (WOp::Ds, false) | (WOp::Meta, _) => "direct",
        (WOp::Ds, true) => "defldirect",
    };
    let (ev, bytes) = upper_trace(op, &f, ts_uid);
    // byte-at-a-time sinks only for small objects (cost), large ones get large chunk limits
    let m = if bytes.len() > 3000 && m > 0 && m < 100 { *r.pick(&[1000usize, 4096, 8191, 8193]) } else { m };
    // index of the first op that goes through the deflate adapter
    let from = if deflated && op == WOp::File {
        // preamble, magic, meta ops incl. its flush
        let c = RefCell::new(Sink::recorder());
        f.meta().write(Shared(&c)).unwrap();
        let n = c.borrow().log.as_ref().unwrap().len();
        2 + n
    } else {
        0
    };
    let emis = if deflated { emission_schedule(&ev, &bytes, from) } else { vec![] };
    // clean run of the real operation: the reference output
    let clean = RefCell::new(Sink::new(Kind::Clean, 0, 0, false));
    let cr = run_wop(op, &f, ts_uid, Shared(&clean));
    let full = clean.into_inner().out;
    let nflush = ev.iter().filter(|e| **e == Ev::F).count();
    let ks = if kind == Kind::FlushErr { (0..=nflush + 1).collect() } else { offsets(r, full.len(), thorough) };
    let mut entries = vec![];
    for k in ks {
        let cell = RefCell::new(Sink::new(kind, k, m, sticky));
        let res = {
            let cref = &cell;
            let fref = &f;
            catch(std::panic::AssertUnwindSafe(move || run_wop(op, fref, ts_uid, Shared(cref))))
        };
        let s = cell.into_inner();
        entries.push(format!("{}:{}:{}:{}:{}", k, res_name(&res), s.out.len(), s.fails, u8::from(s.out == full)));
    }
    format!(
        "w {} {} {:?} {} {} {} {} {} {} {} {} {}",
        stack,
        tsname,
        op,
        kind.name(),
        m,
        u8::from(sticky),
        from,
        fmt_ops(&ev),
        if emis.is_empty() { "-".to_string() } else { emis.iter().map(|x| x.to_string()).collect::<Vec<_>>().join(",") },
        if cr.is_ok() { "cleanok" } else { "cleanerr" },
        full.len(),
        entries.join(",")
    )
}

// ---------------------------------------------------------------- PDUs

fn gen_pdu(r: &mut Rng) -> Pdu {
    match r.below(8) {
        0 => Pdu::ReleaseRQ,
        1 => Pdu::ReleaseRP,
        2 => Pdu::AbortRQ { source: AbortRQSource::ServiceProvider(AbortRQServiceProviderReason::ReasonNotSpecified) },
        3 => Pdu::AssociationRJ(AssociationRJ {
            result: AssociationRJResult::Permanent,
            source: AssociationRJSource::ServiceUser(AssociationRJServiceUserReason::CalledAETitleNotRecognized),
        }),
        4 => Pdu::AssociationRQ(AssociationRQ {
            protocol_version: 1,
            calling_ae_title: "SCU".into(),
            called_ae_title: "ANY-SCP".into(),
            application_context_name: "1.2.840.10008.3.1.1.1".into(),
            presentation_contexts: (0..r.usize(1, 3))
                .map(|i| PresentationContextProposed {
                    id: (2 * i + 1) as u8,
                    abstract_syntax: "1.2.840.10008.1.1".into(),
                    transfer_syntaxes: vec![IMPLICIT_LE.into(), EXPLICIT_LE.into()],
                })
                .collect(),
            user_variables: vec![
                UserVariableItem::MaxLength(16384),
                UserVariableItem::ImplementationClassUID("1.2.3.4".into()),
                UserVariableItem::ImplementationVersionName("VERIF".into()),
            ],
        }),
        5 => Pdu::AssociationAC(AssociationAC {
            protocol_version: 1,
            calling_ae_title: "SCU".into(),
            called_ae_title: "ANY-SCP".into(),
            application_context_name: "1.2.840.10008.3.1.1.1".into(),
            presentation_contexts: vec![PresentationContextResult {
                id: 1,
                reason: PresentationContextResultReason::Acceptance,
                transfer_syntax: IMPLICIT_LE.into(),
            }],
            user_variables: vec![UserVariableItem::MaxLength(16384)],
        }),
        _ => {
            let n = r.usize(1, 3);
            Pdu::PData {
                data: (0..n)
                    .map(|i| {
                        let len = r.usize(0, 40);
                        PDataValue {
                            presentation_context_id: 1,
                            value_type: if r.chance(1, 2) { PDataValueType::Command } else { PDataValueType::Data },
                            is_last: i == n - 1,
                            data: r.bytes(len),
                        }
                    })
                    .collect(),
            }
        }
    }
}

fn pdu_name(p: &Pdu) -> &'static str {
    match p {
        Pdu::Unknown { .. } => "unknown",
        Pdu::AssociationRQ(_) => "rq",
        Pdu::AssociationAC(_) => "ac",
        Pdu::AssociationRJ(_) => "rj",
        Pdu::PData { .. } => "pdata",
        Pdu::ReleaseRQ => "relrq",
        Pdu::ReleaseRP => "relrp",
        Pdu::AbortRQ { .. } => "abort",
    }
}

fn pdu_write_case(r: &mut Rng) -> String {
    let pdu = gen_pdu(r);
    let kind = *r.pick(&[Kind::Err, Kind::Err, Kind::Zero]);
    let m = *r.pick(&[0usize, 0, 1, 3]);
    let sticky = r.chance(1, 2);
    let mut rec = Sink::recorder();
    let cr = write_pdu(&mut rec, &pdu);
    let ev = rec.log.clone().unwrap();
    let full = rec.out;
    let mut entries = vec![];
    for k in 0..=full.len() {
        let mut s = Sink::new(kind, k, m, sticky);
        let res = {
            let sref = &mut s;
            let pref = &pdu;
            catch(std::panic::AssertUnwindSafe(move || write_pdu(sref, pref).map_err(|_| ())))
        };
        entries.push(format!("{}:{}:{}:{}:{}", k, res_name(&res), s.out.len(), s.fails, u8::from(s.out == full)));
    }
    format!(
        "w direct pdu-{} Pdu {} {} {} 0 {} - {} {} {}",
        pdu_name(&pdu),
        kind.name(),
        m,
        u8::from(sticky),
        fmt_ops(&ev),
        if cr.is_ok() { "cleanok" } else { "cleanerr" },
        full.len(),
        entries.join(",")
    )
}

/// `PDataWriter` (constructed through the cfg-gated hook): `write_all` chunks, then `finish()`
fn pdata_write_case(r: &mut Rng) -> String {
    let max_pdu = *r.pick(&[7u32, 16, 16, 50, 200, 4096]);
    let kind = *r.pick(&[Kind::Err, Kind::Err, Kind::Zero]);
    let m = *r.pick(&[0usize, 0, 1, 3, 13]);
    let sticky = r.chance(1, 2);
    let nchunks = r.usize(0, 4);
    let chunks: Vec<Vec<u8>> = (0..nchunks)
        .map(|_| {
            let n = match r.below(6) {
                0 => 0,
                1 => max_pdu as usize - 6,
                2 => max_pdu as usize - 5,
                3 => 2 * (max_pdu as usize - 6),
                _ => r.usize(1, 70),
            };
            r.bytes(n.min(600))
        })
        .collect();
    let run = |cell: &RefCell<Sink>| -> Result<(), ()> {
        let mut w = dicom_ul::association::PDataWriter::new_for_verif(Shared(cell), 1, max_pdu);
        for c in &chunks {
            w.write_all(c).map_err(|_| ())?;
        }
        w.finish().map_err(|_| ())
    };
    let clean = RefCell::new(Sink::new(Kind::Clean, 0, 0, false));
    let cr = catch(std::panic::AssertUnwindSafe(|| run(&clean)));
    let full = clean.into_inner().out;
    let mut entries = vec![];
    for k in 0..=full.len() {
        let cell = RefCell::new(Sink::new(kind, k, m, sticky));
        let res = catch(std::panic::AssertUnwindSafe(|| run(&cell)));
        let s = cell.into_inner();
        entries.push(format!("{}:{}:{}:{}:{}", k, res_name(&res), s.out.len(), s.fails, u8::from(s.out == full)));
    }
    let ops: Vec<Ev> = chunks.iter().map(|c| Ev::W(c.len())).collect();
    format!(
        "w pdata mp{} PData {} {} {} {} {} - {} {} {}",
        max_pdu,
        kind.name(),
        m,
        u8::from(sticky),
        max_pdu,
        fmt_ops(&ops),
        match &cr {
            Ok(Ok(())) => "cleanok",
            Ok(Err(())) => "cleanerr",
            Err(_) => "cleanpanic",
        },
        full.len(),
        entries.join(",")
    )
}

// ---------------------------------------------------------------- reading

fn read_case(r: &mut Rng, thorough: bool) -> String {
    let (tsname, ts_uid) = *r.pick(TS_LIST);
    let what = *r.pick(&["file", "file", "dataset", "meta"]);
    let kind = *r.pick(&[Kind::Err, Kind::Err, Kind::EofKind, Kind::Zero]);
    let m = *r.pick(&[0usize, 0, 0, 1, 5, 133, 4096]);
    let sticky = r.chance(1, 2);
    let mut sh = gen_shape(r, true);
    let encaps_ts = !matches!(tsname, "implicit" | "explicit" | "be" | "deflated");
    if sh.pix == Pix::Encapsulated && !encaps_ts {
        sh.pix = Pix::Native;
    }
    if encaps_ts && sh.pix == Pix::Native {
        sh.pix = Pix::Encapsulated;
    }
    let f = with_meta(gen_object(r, &sh), ts_uid);
    let mut data = vec![];
    match what {
        "file" => f.write_all(&mut data).unwrap(),
        "meta" => {
            // the file meta reader expects the magic code
            data.extend_from_slice(b"DICM");
            f.write_meta(&mut data).unwrap()
        }
        _ => f.write_dataset(&mut data).unwrap(),
    }
    let m = if data.len() > 3000 && m > 0 && m < 100 { *r.pick(&[1000usize, 4096, 8191, 8193]) } else { m };
    let ts = TransferSyntaxRegistry.get(ts_uid).unwrap();
    let run = |src: &mut Source| -> Result<(), ()> {
        match what {
            "file" => dicom_object::from_reader(src).map(|_| ()).map_err(|_| ()),
            "meta" => dicom_object::FileMetaTable::from_reader(src).map(|_| ()).map_err(|_| ()),
            _ => InMemDicomObject::read_dataset_with_ts(src, ts).map(|_| ()).map_err(|_| ()),
        }
    };
    let clean = {
        let mut s = Source::new(&data, Kind::Clean, 0, m, false);
        let res = catch(std::panic::AssertUnwindSafe(|| run(&mut s)));
        format!("{}:{}", res_name(&res), s.pos)
    };
    let mut entries = vec![];
    for k in offsets(r, data.len(), thorough) {
        let mut s = Source::new(&data, kind, k, m, sticky);
        let res = catch(std::panic::AssertUnwindSafe(|| run(&mut s)));
        entries.push(format!("{}:{}:{}:{}", k, res_name(&res), s.pos, s.fails));
    }
    format!(
        "r {} {} {} {} {} {} {} - {}",
        what,
        tsname,
        kind.name(),
        m,
        u8::from(sticky),
        clean,
        data.len(),
        entries.join(",")
    )
}

fn pdu_read_case(r: &mut Rng) -> String {
    // a stream of 1..3 PDUs; `wire` reads the first one, `pdata` reads P-DATA until the last PDV
    let what = *r.pick(&["wire", "wire", "pdata"]);
    let kind = *r.pick(&[Kind::Err, Kind::Err, Kind::EofKind, Kind::Zero]);
    let m = *r.pick(&[0usize, 0, 1, 3, 7, 20]);
    let sticky = r.chance(1, 2);
    let strict = r.chance(1, 2);
    let mut data = vec![];
    let n = r.usize(1, 3);
    for i in 0..n {
        let pdu = if what == "pdata" {
            let len = r.usize(1, 30);
            Pdu::PData {
                data: vec![PDataValue {
                    presentation_context_id: 1,
                    value_type: PDataValueType::Data,
                    is_last: i == n - 1,
                    data: r.bytes(len),
                }],
            }
        } else {
            gen_pdu(r)
        };
        write_pdu(&mut data, &pdu).unwrap();
    }
    if what == "pdata" && r.chance(1, 2) {
        // trailing bytes after the last P-DATA PDU (must not be needed)
        write_pdu(&mut data, &Pdu::ReleaseRQ).unwrap();
    }
    let run = |src: &mut Source| -> Result<(), ()> {
        let mut rb = bytes::BytesMut::new();
        if what == "wire" {
            dicom_ul::association::read_pdu_from_wire(src, &mut rb, 16384, strict).map(|_| ()).map_err(|_| ())
        } else {
            let mut rd = dicom_ul::association::PDataReader::new(src, 16384, &mut rb);
            let mut v = vec![];
            rd.read_to_end(&mut v).map(|_| ()).map_err(|_| ())
        }
    };
    let clean = {
        let mut s = Source::new(&data, Kind::Clean, 0, m, false);
        let res = catch(std::panic::AssertUnwindSafe(|| run(&mut s)));
        format!("{}:{}", res_name(&res), s.pos)
    };
    let mut entries = vec![];
    for k in 0..=data.len() {
        let mut s = Source::new(&data, kind, k, m, sticky);
        let res = catch(std::panic::AssertUnwindSafe(|| run(&mut s)));
        entries.push(format!("{}:{}:{}:{}", k, res_name(&res), s.pos, s.fails));
    }
    format!(
        "r {} pdu-{} {} {} {} {} {} {} {}",
        what,
        if strict && what == "wire" { "strict" } else { "lax" },
        kind.name(),
        m,
        u8::from(sticky),
        clean,
        data.len(),
        hex(&data),
        entries.join(",")
    )
}

/// the real file path: `write_to_file` onto a device that accepts the open and refuses the data
fn devfull_case(r: &mut Rng) -> String {
    let (tsname, ts_uid) = *r.pick(TS_LIST);
    let mut sh = gen_shape(r, true);
    let encaps_ts = !matches!(tsname, "implicit" | "explicit" | "be" | "deflated");
    if sh.pix == Pix::Encapsulated && !encaps_ts {
        sh.pix = Pix::Native;
    }
    if encaps_ts && sh.pix == Pix::Native {
        sh.pix = Pix::Encapsulated;
    }
    let f = with_meta(gen_object(r, &sh), ts_uid);
    if !std::path::Path::new("/dev/full").exists() {
        return format!("devfull {} absent", tsname);
    }
    let res = catch(std::panic::AssertUnwindSafe(|| f.write_to_file("/dev/full").map_err(|_| ())));
    format!("devfull {} {}", tsname, res_name(&res))
}

fn main() {
    let a = parse_args();
    quiet_panics();
    let mut out = Out::new();
    for i in case_indices(&a) {
        let mut r = Rng::for_case(a.seed, i);
        let line = match r.below(20) {
            0..=9 => write_case(&mut r, a.thorough),
            10 => pdu_write_case(&mut r),
            11 => pdata_write_case(&mut r),
            12..=15 => read_case(&mut r, a.thorough),
            16..=18 => pdu_read_case(&mut r),
            _ => devfull_case(&mut r),
        };
        out.line(&format!("#{} {}", i, line));
    }
}
