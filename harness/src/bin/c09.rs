//! C09 — file meta group integrity and preamble handling.
//! Drives the real `FileMetaTableBuilder`, `FileMetaTable::{write, from_reader}`, `ApplyOp for
//! FileMetaTable`, `FileDicomObject::{write_all, write_to_file}`, `open_file`, `from_reader`.
use dicom_core::ops::{ApplyOp, AttributeAction, AttributeOp, AttributeSelector};
use dicom_core::value::{PrimitiveValue, C};
use dicom_core::{DataElement, Tag, VR};
use dicom_object::meta::{FileMetaTable, FileMetaTableBuilder};
use dicom_object::{InMemDicomObject, IMPLEMENTATION_CLASS_UID, IMPLEMENTATION_VERSION_NAME};
use std::io::Cursor;
use verif_harness::util::*;

const UI_CH: &[u8] = b"0123456789.";
const TXT_CH: &[u8] = b"ABCDEFGHIJKLMNOPQRSTUVWXYZabcdefghijklmnopqrstuvwxyz0123456789 _-.,:;()/'\"!#$%&*+<=>?@[]^`{|}~";

fn opt(s: &Option<String>) -> String {
    match s {
        Some(s) => hexs(s),
        None => "~".into(),
    }
}

fn table(t: &FileMetaTable) -> String {
    format!(
        "{} {} {} {} {} {} {} {} {} {} {} {} {}",
        t.information_group_length,
        t.information_version[0],
        t.information_version[1],
        hexs(&t.media_storage_sop_class_uid),
        hexs(&t.media_storage_sop_instance_uid),
        hexs(&t.transfer_syntax),
        hexs(&t.implementation_class_uid),
        opt(&t.implementation_version_name),
        opt(&t.source_application_entity_title),
        opt(&t.sending_application_entity_title),
        opt(&t.receiving_application_entity_title),
        opt(&t.private_information_creator_uid),
        match &t.private_information {
            Some(v) => hex(v),
            None => "~".into(),
        }
    )
}

fn str_len(r: &mut Rng, long_ok: bool) -> usize {
    match r.below(24) {
        0 => 0,
        1 => 1,
        2 => 2,
        3 => 15,
        4 => 16,
        5 => 63,
        6 => 64,
        7 => r.usize(65, 300),
        8 if long_ok && r.chance(1, 12) => *r.pick(&[65534usize, 65535, 65536, 65537]),
        _ => r.usize(1, 40),
    }
}

fn gen_uid(r: &mut Rng, long_ok: bool) -> String {
    let n = str_len(r, long_ok);
    let mut s = r.ascii_from(UI_CH, n);
    match r.below(10) {
        0 => s.push('\0'),
        1 => s.push(' '),
        _ => {}
    }
    s
}

fn gen_txt(r: &mut Rng, long_ok: bool) -> String {
    let n = if r.chance(3, 4) { r.usize(0, 16) } else { str_len(r, long_ok) };
    let mut s = r.ascii_from(TXT_CH, n);
    match r.below(10) {
        0 => s.push(' '),
        1 => s.push_str("  "),
        2 => s.push('\0'),
        _ => {}
    }
    s
}

fn gen_priv(r: &mut Rng) -> Vec<u8> {
    let n = match r.below(8) {
        0 => 0,
        1 => 1,
        2 => 2,
        3 => r.usize(100, 400),
        _ => r.usize(1, 24),
    };
    let mut v = r.bytes(n);
    if r.chance(1, 3) {
        v.push(0);
    }
    if r.chance(1, 8) {
        v.push(0);
    }
    v
}

const TS_UIDS: &[&str] = &["1.2.840.10008.1.2", "1.2.840.10008.1.2.1", "1.2.840.10008.1.2.2", "1.2.840.10008.1.2.1.99"];

/// make a table (through the builder or as a literal + update); returns its description and result
fn gen_table(r: &mut Rng, for_file: bool) -> (String, Option<FileMetaTable>) {
    let long_ok = !for_file;
    let ts = if for_file || r.chance(1, 2) { TS_UIDS[r.below(if for_file { 4 } else { 3 }) as usize].to_string() } else { gen_uid(r, long_ok) };
    if r.chance(3, 4) {
        // builder
        let mut b = FileMetaTableBuilder::new();
        let mut d = String::from("b");
        macro_rules! field {
            ($p:expr, $set:ident, $v:expr) => {
                if $p {
                    let v: String = $v;
                    d.push_str(&format!(" {}", hexs(&v)));
                    b = b.$set(v);
                } else {
                    d.push_str(" ~");
                }
            };
        }
        if r.chance(1, 8) {
            let g = r.edgy(32) as u32;
            d.push_str(&format!(" {}", g));
            b = b.group_length(g);
        } else {
            d.push_str(" ~");
        }
        if r.chance(1, 2) {
            let v = [r.below(3) as u8, r.below(256) as u8];
            d.push_str(&format!(" {},{}", v[0], v[1]));
            b = b.information_version(v);
        } else {
            d.push_str(" ~");
        }
        field!(r.chance(9, 10), media_storage_sop_class_uid, if r.chance(1, 12) { String::new() } else { gen_uid(r, long_ok) });
        field!(r.chance(9, 10), media_storage_sop_instance_uid, if r.chance(1, 12) { String::new() } else { gen_uid(r, long_ok) });
        field!(for_file || r.chance(19, 20), transfer_syntax, ts);
        field!(r.chance(3, 4), implementation_class_uid, gen_uid(r, long_ok));
        field!(r.chance(1, 2), implementation_version_name, gen_txt(r, long_ok));
        field!(r.chance(1, 2), source_application_entity_title, gen_txt(r, long_ok));
        field!(r.chance(1, 3), sending_application_entity_title, gen_txt(r, long_ok));
        field!(r.chance(1, 3), receiving_application_entity_title, gen_txt(r, long_ok));
        field!(r.chance(1, 3), private_information_creator_uid, gen_uid(r, long_ok));
        if r.chance(1, 3) {
            let v = gen_priv(r);
            d.push_str(&format!(" {}", hex(&v)));
            b = b.private_information(v);
        } else {
            d.push_str(" ~");
        }
        (d, b.build().ok())
    } else {
        // literal with unpadded strings, then update_information_group_length
        let mut t = FileMetaTable {
            information_group_length: r.edgy(32) as u32,
            information_version: [0, r.below(3) as u8],
            media_storage_sop_class_uid: gen_uid(r, long_ok),
            media_storage_sop_instance_uid: gen_uid(r, long_ok),
            transfer_syntax: ts,
            implementation_class_uid: gen_uid(r, long_ok),
            implementation_version_name: if r.chance(1, 2) { Some(gen_txt(r, long_ok)) } else { None },
            source_application_entity_title: if r.chance(1, 2) { Some(gen_txt(r, long_ok)) } else { None },
            sending_application_entity_title: if r.chance(1, 3) { Some(gen_txt(r, long_ok)) } else { None },
            receiving_application_entity_title: if r.chance(1, 3) { Some(gen_txt(r, long_ok)) } else { None },
            private_information_creator_uid: if r.chance(1, 3) { Some(gen_uid(r, long_ok)) } else { None },
            private_information: if r.chance(1, 3) { Some(gen_priv(r)) } else { None },
        };
        let d = format!("l {}", table(&t));
        t.update_information_group_length();
        (d, Some(t))
    }
}

fn gen_pv(r: &mut Rng, uid: bool) -> (PrimitiveValue, String) {
    let g = |r: &mut Rng| if uid { gen_uid(r, false) } else { gen_txt(r, false) };
    match r.below(8) {
        0 => (PrimitiveValue::Empty, "o".into()),
        1 => (PrimitiveValue::from(r.next_u32() as u16), "o".into()),
        2 => (PrimitiveValue::U32(C::from_vec(vec![1, 2])), "o".into()),
        3 => {
            let k = r.usize(0, 3);
            let v: C<String> = (0..k).map(|_| g(r)).collect();
            let s = format!("ss.{}{}", k, v.iter().map(|x| format!(".{}", hexs(x))).collect::<String>());
            (PrimitiveValue::Strs(v), s)
        }
        _ => {
            let s = g(r);
            let d = format!("s.{}", hexs(&s));
            (PrimitiveValue::Str(s), d)
        }
    }
}

const OP_TAGS: &[(u16, u16)] = &[
    (2, 0x10), (2, 2), (2, 3), (2, 0x12), (2, 0x13), (2, 0x16), (2, 0x17), (2, 0x18), (2, 0x100),
    (2, 0), (2, 1), (2, 0x102), (2, 0x26), (8, 0x18), (2, 0x13), (2, 0x16), (2, 0x100), (2, 3),
];

fn gen_op(r: &mut Rng, keep_ts: bool) -> (AttributeOp, String) {
    let (g, e) = loop {
        let t = *r.pick(OP_TAGS);
        if !(keep_ts && t == (2, 0x10)) {
            break t;
        }
    };
    let tag = Tag(g, e);
    let nested = r.chance(1, 25);
    let selector: AttributeSelector = if nested { (tag, 0, Tag(2, 0x10)).into() } else { tag.into() };
    let sel = if nested { "n".to_string() } else { format!("t:{}:{}", g, e) };
    let uid = matches!(e, 0x10 | 2 | 3 | 0x12 | 0x100);
    let (action, a) = match r.below(20) {
        0 => (AttributeAction::Remove, "remove".to_string()),
        1 => (AttributeAction::Empty, "empty".into()),
        2 => (AttributeAction::SetVr(*r.pick(&[VR::UI, VR::LO, VR::US])), "setvr".into()),
        3 => (AttributeAction::Truncate(r.usize(0, 3)), "trunc".into()),
        4 | 5 => {
            let (v, d) = gen_pv(r, uid);
            (AttributeAction::Set(v), format!("set:{d}"))
        }
        6 | 7 | 8 => {
            let s = if uid { gen_uid(r, false) } else { gen_txt(r, false) };
            let d = format!("setstr:{}", hexs(&s));
            (AttributeAction::SetStr(s.into()), d)
        }
        9 => {
            let (v, d) = gen_pv(r, uid);
            (AttributeAction::SetIfMissing(v), format!("sim:{d}"))
        }
        10 | 11 => {
            let s = if uid { gen_uid(r, false) } else { gen_txt(r, false) };
            let d = format!("ssim:{}", hexs(&s));
            (AttributeAction::SetStrIfMissing(s.into()), d)
        }
        12 => {
            let (v, d) = gen_pv(r, uid);
            (AttributeAction::Replace(v), format!("rep:{d}"))
        }
        13 | 14 => {
            let s = if uid { gen_uid(r, false) } else { gen_txt(r, false) };
            let d = format!("repstr:{}", hexs(&s));
            (AttributeAction::ReplaceStr(s.into()), d)
        }
        15 => (AttributeAction::PushStr("X".into()), "pushstr".into()),
        16 => (AttributeAction::PushU16(7), "pushnum".into()),
        17 => (AttributeAction::PushF64(1.5), "pushnum".into()),
        18 => (AttributeAction::PushI32(-3), "pushnum".into()),
        _ => (AttributeAction::Remove, "remove".into()),
    };
    (AttributeOp { selector, action }, format!("{sel} {a}"))
}

fn apply_ops(r: &mut Rng, t: &mut FileMetaTable, n: usize, keep_ts: bool) -> String {
    let mut s = format!("OPS {}", n);
    for _ in 0..n {
        let (op, d) = gen_op(r, keep_ts);
        let res = ApplyOp::apply(t, op);
        s.push_str(&format!(" {} {} {}", d, if res.is_ok() { "ok" } else { "err" }, table(t)));
    }
    s
}

fn write_meta(t: &FileMetaTable) -> Option<Vec<u8>> {
    let mut v = Vec::new();
    t.write(&mut v).ok().map(|_| v)
}

fn gen_dataset(r: &mut Rng) -> (InMemDicomObject, Option<String>, Option<String>) {
    let mut o = InMemDicomObject::new_empty();
    let sc = if r.chance(2, 3) { Some(gen_uid(r, false).trim_end_matches([' ', '\0']).to_string()) } else { None };
    let si = if r.chance(2, 3) { Some(gen_uid(r, false).trim_end_matches([' ', '\0']).to_string()) } else { None };
    if let Some(s) = &sc {
        o.put(DataElement::new(Tag(8, 0x16), VR::UI, PrimitiveValue::from(s.as_str())));
    }
    if let Some(s) = &si {
        o.put(DataElement::new(Tag(8, 0x18), VR::UI, PrimitiveValue::from(s.as_str())));
    }
    if r.chance(1, 2) {
        let n = r.usize(0, 12);
        o.put(DataElement::new(Tag(0x10, 0x10), VR::PN, PrimitiveValue::from(r.ascii_from(b"ABCDEF^ ", n))));
    }
    if r.chance(1, 2) {
        o.put(DataElement::new(Tag(0x28, 0x10), VR::US, PrimitiveValue::from(r.next_u32() as u16)));
    }
    if r.chance(1, 4) {
        // enough bytes to reach past offset 132 also for short meta groups
        let n = r.usize(0, 400);
        o.put(DataElement::new(Tag(0x20, 0x4000), VR::LT, PrimitiveValue::from(r.ascii_from(TXT_CH, n))));
    }
    (o, sc, si)
}

fn read_res(res: Result<dicom_object::DefaultDicomObject, dicom_object::ReadError>, orig: &InMemDicomObject) -> String {
    match res {
        Ok(f) => {
            let rew = write_meta(f.meta()).map(|v| hex(&v)).unwrap_or("err".into());
            let m = table(f.meta());
            // padding-insensitive comparison of the data sets: both re-encoded in Explicit VR LE
            let enc = |o: &InMemDicomObject| {
                let mut v = Vec::new();
                o.write_dataset_with_ts(&mut v, &dicom_transfer_syntax_registry::entries::EXPLICIT_VR_LITTLE_ENDIAN.erased())
                    .ok()
                    .map(|_| v)
            };
            let inner = f.into_inner();
            let same = match (enc(&inner), enc(orig)) {
                (Some(a), Some(b)) => a == b,
                _ => false,
            };
            format!("ok {} {} {}", m, same as u8, rew)
        }
        Err(_) => "err".into(),
    }
}

fn main() {
    let a = parse_args();
    if std::env::var("VERIF_LOUD").is_err() {
        quiet_panics();
    }
    let mut out = Out::new();
    let work = std::env::var("VERIF_WORK").unwrap_or_else(|_| "/verif/.work".into());
    let dir = std::path::PathBuf::from(work).join(format!("c09-files-{}", std::process::id()));
    std::fs::create_dir_all(&dir).unwrap();
    let defaults = format!("D {} {}", hexs(IMPLEMENTATION_CLASS_UID), hexs(IMPLEMENTATION_VERSION_NAME));
    for i in case_indices(&a) {
        let mut r = Rng::for_case(a.seed, i);
        let file_case = r.chance(1, 3);
        if !file_case {
            let (src, t0) = gen_table(&mut r, false);
            let mut line = format!("#{} meta {} SRC {}", i, defaults, src);
            match t0 {
                None => line.push_str(" T0 err"),
                Some(mut t) => {
                    line.push_str(&format!(" T0 ok {}", table(&t)));
                    let n = match r.below(6) {
                        0 => 0,
                        1 => 1,
                        _ => r.usize(2, 12),
                    };
                    line.push(' ');
                    line.push_str(&apply_ops(&mut r, &mut t, n, false));
                    match write_meta(&t) {
                        None => line.push_str(" W err"),
                        Some(w) => {
                            line.push_str(&format!(" W {}", hex(&w)));
                            let tn = r.usize(0, 6);
                            let tail = r.bytes(tn);
                            let mut src = b"DICM".to_vec();
                            src.extend_from_slice(&w);
                            src.extend_from_slice(&tail);
                            let mut cur = Cursor::new(&src[..]);
                            match FileMetaTable::from_reader(&mut cur) {
                                Ok(t2) => {
                                    let pos = cur.position() as usize;
                                    line.push_str(&format!(" RB {} ok {} {} EQ {}", hex(&tail), table(&t2), hex(&src[pos..]), (t2 == t) as u8));
                                }
                                Err(_) => line.push_str(&format!(" RB {} err", hex(&tail))),
                            }
                        }
                    }
                }
            }
            out.line(&line);
        } else {
            let (src, t0) = gen_table(&mut r, true);
            let mut t = t0.expect("file tables always have a transfer syntax");
            let nops = r.usize(0, 5);
            let ops = apply_ops(&mut r, &mut t, nops, true);
            let (mut ds, mut sc, mut si) = gen_dataset(&mut r);
            // one case in 30: arrange `DICM` at offset 128 of the file without preamble
            let ambiguous = r.chance(1, 30);
            if ambiguous {
                let base = FileMetaTableBuilder::new()
                    .media_storage_sop_class_uid("1.2.3")
                    .media_storage_sop_instance_uid("1.2")
                    .transfer_syntax(t.transfer_syntax.clone())
                    .implementation_class_uid("1.2.3.4")
                    .implementation_version_name("X")
                    .build()
                    .unwrap();
                // offset of the implementation version name value in `DICM ++ group`
                let off = 4 + 12 + 14 + 8 + base.media_storage_sop_class_uid.len() + 8
                    + base.media_storage_sop_instance_uid.len() + 8 + ((base.transfer_syntax.len() + 1) & !1) + 8;
                // implementation class uid value starts at `off`; pad it so that the version name value starts at 128
                let need = 128 - off - 8;
                t = FileMetaTable {
                    implementation_class_uid: "1".repeat(need),
                    implementation_version_name: Some(format!("DICM{}", { let k = r.usize(0, 4); r.ascii_from(b"AB", k) })),
                    ..base
                };
                t.update_information_group_length();
                let x = gen_dataset(&mut r);
                ds = x.0;
                sc = x.1;
                si = x.2;
            }
            let ts = dicom_transfer_syntax_registry::TransferSyntaxRegistry;
            use dicom_encoding::transfer_syntax::TransferSyntaxIndex;
            let tsd = ts.get(t.transfer_syntax()).expect("known ts");
            let mut dsb = Vec::new();
            let dsw = ds.write_dataset_with_ts(&mut dsb, tsd).is_ok();
            let file = ds.clone().with_exact_meta(t.clone());
            let mut wa = Vec::new();
            let wa_ok = file.write_all(&mut wa).is_ok();
            let p1 = dir.join("a.dcm");
            let wf = match file.write_to_file(&p1) {
                Ok(()) => {
                    if std::fs::read(&p1).map(|b| b == wa).unwrap_or(false) { "same" } else { "diff" }
                }
                Err(_) => "err",
            };
            let mut line = format!(
                "#{} file {} SRC {} {} T {} AMB {} SOPC {} SOPI {} DS {} WA {} WF {}",
                i, defaults, src, ops, table(&t), ambiguous as u8, opt(&sc), opt(&si),
                if dsw { hex(&dsb) } else { "err".into() },
                if wa_ok { hex(&wa) } else { "err".into() },
                wf
            );
            if wa_ok && wa.len() >= 132 {
                let nopre = &wa[128..];
                let p2 = dir.join("b.dcm");
                std::fs::write(&p2, nopre).unwrap();
                let rpp = catch(|| dicom_object::open_file(&p1));
                let rpr = catch(|| dicom_object::from_reader(&wa[..]));
                let rnp = catch(|| dicom_object::open_file(&p2));
                let rnr = catch(|| dicom_object::from_reader(nopre));
                // the same two byte sources with the preamble option stated outright (Always / Never)
                let rpa = catch(|| {
                    dicom_object::OpenFileOptions::new().read_preamble(dicom_object::file::ReadPreamble::Always).from_reader(&wa[..])
                });
                let rnn = catch(|| {
                    dicom_object::OpenFileOptions::new().read_preamble(dicom_object::file::ReadPreamble::Never).from_reader(nopre)
                });
                for (k, res) in [("pp", rpp), ("pr", rpr), ("np", rnp), ("nr", rnr), ("pR", rpa), ("nR", rnn)] {
                    match res {
                        Ok(x) => line.push_str(&format!(" R {} {}", k, read_res(x, &ds))),
                        Err(_) => line.push_str(&format!(" R {} panic", k)),
                    }
                }
            }
            out.line(&line);
        }
    }
    let _ = std::fs::remove_dir_all(&dir);
}
