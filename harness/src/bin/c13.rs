//! C13 — attribute operations follow their documented semantics.
//! Random histories of `AttributeOp`s through the real `ApplyOp for InMemDicomObject`; the object is
//! dumped after every step; the final object is written in the writable transfer syntaxes with the
//! real writer and re-read with the real reader.
use dicom_core::dictionary::DataDictionary;
use dicom_core::dictionary::DataDictionaryEntry;
use dicom_core::ops::{ApplyOp, AttributeAction, AttributeOp, AttributeSelector, AttributeSelectorStep};
use dicom_core::value::{DataSetSequence, PixelFragmentSequence, PrimitiveValue, Value, C};
use dicom_core::{DataElement, Tag, VR};
use dicom_dictionary_std::StandardDataDictionary;
use dicom_object::mem::InMemElement;
use dicom_object::InMemDicomObject;
use dicom_transfer_syntax_registry::entries;
use verif_harness::util::*;

type Obj = InMemDicomObject;

fn tagn(t: Tag) -> u32 {
    ((t.0 as u32) << 16) | t.1 as u32
}

fn ftok64(x: f64) -> String {
    let d = x * 2.0;
    if d.fract() == 0.0 && d.abs() < 1.0e12 && !(x == 0.0 && x.is_sign_negative()) {
        format!("h{}", d as i64)
    } else {
        format!("b{}", x.to_bits())
    }
}
fn ftok32(x: f32) -> String {
    let d = x as f64 * 2.0;
    if d.fract() == 0.0 && d.abs() < 1.0e12 && !(x == 0.0 && x.is_sign_negative()) {
        format!("h{}", d as i64)
    } else {
        format!("b{}", x.to_bits())
    }
}

fn list<T>(name: &str, v: &[T], f: impl Fn(&T) -> String) -> String {
    let mut s = format!("{} {}", name, v.len());
    for x in v {
        s.push(' ');
        s.push_str(&f(x));
    }
    s
}

fn dump_prim(p: &PrimitiveValue) -> String {
    use PrimitiveValue::*;
    match p {
        Empty => "e".into(),
        Str(s) => format!("s {}", hexs(s)),
        Strs(v) => list("ss", v, |x| hexs(x)),
        U8(v) => format!("u8 {}", hex(v)),
        I16(v) => list("i16", v, |x| x.to_string()),
        U16(v) => list("u16", v, |x| x.to_string()),
        I32(v) => list("i32", v, |x| x.to_string()),
        U32(v) => list("u32", v, |x| x.to_string()),
        I64(v) => list("i64", v, |x| x.to_string()),
        U64(v) => list("u64", v, |x| x.to_string()),
        F32(v) => list("f32", v, |x| ftok32(*x)),
        F64(v) => list("f64", v, |x| ftok64(*x)),
        Tags(v) => list("at", v, |x| tagn(*x).to_string()),
        Date(v) => list("dt", v, |x| hexs(&x.to_string())),
        Time(v) => list("dt", v, |x| hexs(&x.to_string())),
        DateTime(v) => list("dt", v, |x| hexs(&x.to_string())),
    }
}

fn dump(o: &Obj) -> String {
    let mut s = String::from("{");
    for e in o.iter() {
        s.push_str(&format!(" {} {} ", tagn(e.header().tag), e.vr().to_string()));
        match e.value() {
            Value::Primitive(p) => s.push_str(&dump_prim(p)),
            Value::Sequence(sq) => {
                s.push_str(&format!("sq {}", sq.items().len()));
                for it in sq.items() {
                    s.push(' ');
                    s.push_str(&dump(it));
                }
            }
            Value::PixelSequence(px) => {
                s.push_str(&list("px", px.offset_table(), |x| x.to_string()));
                s.push_str(&list("", px.fragments(), |x| hex(x)));
            }
        }
    }
    s.push_str(" }");
    s
}

#[derive(Clone, Copy, PartialEq, Debug)]
enum Class {
    Text,
    Uid,
    U16,
    I16,
    U32,
    I32,
    I64,
    U64,
    F32,
    F64,
    At,
    Sq,
    Un,
}

/// tag pool: (tag, class)
const POOL: &[(Tag, Class)] = &[
    (Tag(0x0010, 0x0010), Class::Text), // PatientName PN
    (Tag(0x0010, 0x0020), Class::Text), // PatientID LO
    (Tag(0x0008, 0x0060), Class::Text), // Modality CS
    (Tag(0x0008, 0x0050), Class::Text), // AccessionNumber SH
    (Tag(0x0008, 0x0008), Class::Text), // ImageType CS multi
    (Tag(0x0008, 0x0018), Class::Uid),  // SOPInstanceUID
    (Tag(0x0020, 0x000D), Class::Uid),  // StudyInstanceUID
    (Tag(0x0028, 0x0010), Class::U16),  // Rows US
    (Tag(0x0028, 0x0100), Class::U16),  // BitsAllocated
    (Tag(0x0018, 0x9219), Class::I16),  // TagAngleSecondAxis SS
    (Tag(0x0018, 0x6018), Class::U32),  // RegionLocationMinX0 UL
    (Tag(0x0018, 0x6020), Class::I32),  // ReferencePixelX0 SL
    (Tag(0x0072, 0x0082), Class::I64),  // SelectorSVValue SV
    (Tag(0x0008, 0x040C), Class::U64),  // FileOffsetInContainer UV
    (Tag(0x0018, 0x9320), Class::F32),  // TableSpeed? FL (any FL)
    (Tag(0x0018, 0x9182), Class::F64),  // GradientOutput FD
    (Tag(0x0020, 0x5000), Class::At),   // OriginalImageIdentification? (AT, retired) fallback checked at run time
    (Tag(0x0040, 0x0275), Class::Sq),   // RequestAttributesSequence
    (Tag(0x0008, 0x1140), Class::Sq),   // ReferencedImageSequence
    (Tag(0x0040, 0xA730), Class::Sq),   // ContentSequence
    (Tag(0x0009, 0x0010), Class::Text), // private creator LO (dictionary: generic private creator)
    (Tag(0x0009, 0x1001), Class::Un),   // private element
    (Tag(0x0011, 0x1002), Class::Un),   // private element
    (Tag(0x0077, 0x0012), Class::Un),   // unknown standard-group tag
    (Tag(0x5555, 0x0042), Class::Un),   // unknown
];

fn dict_vr(t: Tag) -> Option<VR> {
    StandardDataDictionary.by_tag(t).and_then(|e| e.vr().exact())
}

/// class of a tag as the dictionary sees it (the pool's class is only a hint)
fn class_of(t: Tag) -> Class {
    match dict_vr(t) {
        Some(VR::US) => Class::U16,
        Some(VR::SS) => Class::I16,
        Some(VR::UL) => Class::U32,
        Some(VR::SL) => Class::I32,
        Some(VR::SV) => Class::I64,
        Some(VR::UV) => Class::U64,
        Some(VR::FL) => Class::F32,
        Some(VR::FD) => Class::F64,
        Some(VR::AT) => Class::At,
        Some(VR::SQ) => Class::Sq,
        Some(VR::UI) => Class::Uid,
        Some(VR::UN) | None => Class::Un,
        Some(VR::LO) | Some(VR::SH) | Some(VR::PN) | Some(VR::CS) | Some(VR::LT) | Some(VR::ST) | Some(VR::UT) | Some(VR::UC) => Class::Text,
        Some(_) => Class::Un,
    }
}

const TXT: &[u8] = b"ABCDEFGHIJKLMNOPQRSTUVWXYZabcdefghijklmnopqrstuvwxyz0123456789 _-.^";

fn gen_text(r: &mut Rng, uid: bool) -> String {
    let n = match r.below(8) {
        0 => 0,
        1 => 1,
        _ => r.usize(1, 12),
    };
    if uid {
        r.ascii_from(b"0123456789.", n)
    } else {
        r.ascii_from(TXT, n)
    }
}

fn small_int(r: &mut Rng, wide: bool) -> i64 {
    // boundary values of the 16- and 32-bit kinds (every `as` cast of extend_* is exercised at its wrap point);
    // not onto 32-bit float targets: `n as f32` rounds above 2^24, the model keeps floats exact (half units)
    if wide && r.chance(1, 2) {
        return *r.pick(&[0x7FFF, 0x8000, 0xFFFF, 0x10000, 0x7FFF_FFFF, 0x8000_0000, 0xFFFF_FFFF, -0x8000_0000i64, -0x8001, 3_000_000_000]);
    }
    match r.below(10) {
        0 => 0,
        1 => -1,
        2 => 255,
        3 => 256,
        4 => 65535,
        5 => 70000,
        6 => -32768,
        7 => -(r.below(1 << 23) as i64),
        _ => r.below(1 << 23) as i64,
    }
}

fn half(r: &mut Rng) -> i64 {
    match r.below(8) {
        0 => 0,
        1 => 3,
        2 => -3,
        3 => 511,
        4 => 131073,
        5 => -(r.below(1 << 20) as i64),
        _ => r.below(1 << 20) as i64,
    }
}

/// a value compatible with the class
fn gen_value(r: &mut Rng, c: Class) -> PrimitiveValue {
    if r.chance(1, 10) {
        return PrimitiveValue::Empty;
    }
    let k = match r.below(6) {
        0 => 0,
        1 | 2 | 3 => 1,
        4 => 2,
        _ => r.usize(3, 5),
    };
    match c {
        Class::Text | Class::Uid => {
            if r.chance(1, 2) {
                PrimitiveValue::Str(gen_text(r, c == Class::Uid))
            } else {
                PrimitiveValue::Strs((0..k).map(|_| gen_text(r, c == Class::Uid)).collect())
            }
        }
        Class::U16 => PrimitiveValue::U16((0..k).map(|_| r.edgy(16) as u16).collect()),
        Class::I16 => PrimitiveValue::I16((0..k).map(|_| r.edgy(16) as i16).collect()),
        Class::U32 => PrimitiveValue::U32((0..k).map(|_| r.edgy(32) as u32).collect()),
        Class::I32 => PrimitiveValue::I32((0..k).map(|_| r.edgy(32) as i32).collect()),
        Class::I64 => PrimitiveValue::I64((0..k).map(|_| r.edgy(64) as i64).collect()),
        Class::U64 => PrimitiveValue::U64((0..k).map(|_| r.edgy(64)).collect()),
        Class::F32 => PrimitiveValue::F32((0..k).map(|_| if r.chance(1, 4) { f32::from_bits(r.next_u32()) } else { half(r) as f32 / 2.0 }).filter(|x| !x.is_nan()).collect()),
        Class::F64 => PrimitiveValue::F64((0..k).map(|_| if r.chance(1, 4) { f64::from_bits(r.next_u64()) } else { half(r) as f64 / 2.0 }).filter(|x| !x.is_nan()).collect()),
        Class::At => PrimitiveValue::Tags((0..k).map(|_| Tag(r.edgy(16) as u16, r.edgy(16) as u16)).collect()),
        Class::Sq => PrimitiveValue::Empty,
        Class::Un => match r.below(4) {
            0 => PrimitiveValue::Str(gen_text(r, false)),
            _ => PrimitiveValue::U8(C::from_vec(r.bytes(k * 2))),
        },
    }
}

fn safe_vr_for(r: &mut Rng, c: Class) -> VR {
    match c {
        Class::Text => *r.pick(&[VR::LO, VR::SH, VR::LT, VR::ST, VR::UT, VR::UC, VR::PN, VR::CS]),
        Class::Uid => VR::UI,
        Class::U16 | Class::I16 => *r.pick(&[VR::US, VR::SS]),
        Class::U32 | Class::I32 => *r.pick(&[VR::UL, VR::SL]),
        Class::I64 | Class::U64 => *r.pick(&[VR::SV, VR::UV]),
        Class::F32 => *r.pick(&[VR::FL, VR::OF]),
        Class::F64 => *r.pick(&[VR::FD, VR::OD]),
        Class::At => VR::AT,
        Class::Sq => VR::SQ,
        Class::Un => *r.pick(&[VR::UN, VR::OB]),
    }
}

fn gen_obj(r: &mut Rng, depth: u32) -> Obj {
    let mut o = InMemDicomObject::new_empty();
    let n = match r.below(6) {
        0 => 0,
        1 => 1,
        _ => r.usize(2, 6),
    };
    for _ in 0..n {
        let (tag, _) = *r.pick(POOL);
        let c = class_of(tag);
        let vr = dict_vr(tag).unwrap_or(VR::UN);
        if c == Class::Sq {
            let k = if depth >= 2 { 0 } else { r.usize(0, 2) };
            let items: Vec<Obj> = (0..k).map(|_| gen_obj(r, depth + 1)).collect();
            o.put(DataElement::new(tag, VR::SQ, DataSetSequence::from(items)));
        } else {
            o.put(DataElement::new(tag, vr, gen_value(r, c)));
        }
    }
    if depth == 0 && r.chance(1, 6) {
        let nf = r.usize(0, 3);
        let frags: Vec<Vec<u8>> = (0..nf).map(|_| { let k = r.usize(0, 4); r.bytes(k * 2) }).collect();
        let bot: Vec<u32> = if r.chance(1, 2) { vec![] } else { vec![0] };
        o.put(DataElement::new(Tag(0x7FE0, 0x0010), VR::OB, PixelFragmentSequence::new(bot, frags)));
    }
    o
}

/// the element a selector points at in the real object, if any
fn lookup<'a>(o: &'a Obj, steps: &[(Tag, u32)], tag: Tag) -> Option<&'a InMemElement> {
    let mut cur = o;
    for (t, i) in steps {
        cur = cur.get(*t)?.items()?.get(*i as usize)?;
    }
    cur.get(tag)
}

fn item_count(o: &Obj, steps: &[(Tag, u32)], t: Tag) -> Option<usize> {
    let mut cur = o;
    for (t, i) in steps {
        cur = cur.get(*t)?.items()?.get(*i as usize)?;
    }
    Some(cur.get(t)?.items()?.len())
}

fn main() {
    let a = parse_args();
    if std::env::var("VERIF_LOUD").is_err() {
        quiet_panics();
    }
    let mut out = Out::new();
    let sq_tags: Vec<Tag> = POOL.iter().filter(|(t, _)| class_of(*t) == Class::Sq).map(|(t, _)| *t).collect();
    for i in case_indices(&a) {
        let mut r = Rng::for_case(a.seed, i);
        // one case in twelve: operations whose value type need not suit the attribute's VR
        let mismatch = r.chance(1, 12);
        let mut obj = gen_obj(&mut r, 0);
        let init = dump(&obj);
        let nops = if a.thorough { r.usize(0, 300) } else { match r.below(8) { 0 => 0, 1 => 1, _ => r.usize(2, 30) } };
        let mut used: Vec<Tag> = Vec::new();
        let mut body = String::new();
        for _ in 0..nops {
            // selector: depth 0..3 nested steps
            let depth = match r.below(10) {
                0..=3 => 0,
                4..=6 => 1,
                7 | 8 => 2,
                _ => 3,
            };
            let mut steps: Vec<(Tag, u32)> = Vec::new();
            for _ in 0..depth {
                // mostly sequence tags; sometimes a non-sequence or unknown tag
                let t = match r.below(12) {
                    0 => r.pick(POOL).0,
                    _ => *r.pick(&sq_tags),
                };
                // existing item, next item, or beyond
                let cnt = item_count(&obj, &steps, t).unwrap_or(0) as u32;
                let idx = match r.below(8) {
                    0 => cnt + 1,
                    1 | 2 => cnt,
                    _ => if cnt == 0 { 0 } else { r.below(cnt as u64) as u32 },
                };
                steps.push((t, idx));
            }
            let (tag, _) = *r.pick(POOL);
            let c = class_of(tag);
            let cur = lookup(&obj, &steps, tag);
            let cur_text = matches!(cur.map(|e| e.value()), Some(Value::Primitive(PrimitiveValue::Str(s))) if !s.is_empty())
                || matches!(cur.map(|e| e.value()), Some(Value::Primitive(PrimitiveValue::Strs(v))) if v.iter().any(|s| !s.is_empty()));
            let cur_class = cur.map(|e| match e.vr() {
                VR::US | VR::SS => Class::U16,
                VR::UL | VR::SL => Class::U32,
                VR::SV => Class::I64,
                VR::UV | VR::OV => Class::U64,
                VR::FL | VR::OF => Class::F32,
                VR::FD | VR::OD => Class::F64,
                VR::UI => Class::Uid,
                VR::SQ => Class::Sq,
                VR::AT => Class::At,
                VR::UN | VR::OB => Class::Un,
                _ => Class::Text,
            });
            let cur_f32 = cur_class == Some(Class::F32) || matches!(cur.map(|e| e.value()), Some(Value::Primitive(PrimitiveValue::F32(_))));
            let cur_is_seq = matches!(cur.map(|e| e.value()), Some(Value::Sequence(_)) | Some(Value::PixelSequence(_)));
            let cur_prim_nonempty = matches!(cur.map(|e| e.value()), Some(Value::Primitive(p)) if p.multiplicity() > 0);
            let cur_bytes = matches!(cur.map(|e| e.value()), Some(Value::Primitive(PrimitiveValue::U8(v))) if !v.is_empty());
            // the class values must have: that of the element's VR when it exists, else of the dictionary VR
            let c = if cur.is_some() { cur_class.unwrap_or(c) } else { c };
            // an existing non-empty numeric value is extended half of the time (every `as` cast of extend_*)
            let numeric_target = cur_prim_nonempty
                && matches!(cur_class, Some(Class::U16) | Some(Class::I16) | Some(Class::U32) | Some(Class::I32) | Some(Class::I64) | Some(Class::U64) | Some(Class::F32) | Some(Class::F64));
            let (action, ad) = loop {
                let roll = if numeric_target && r.chance(1, 2) { 14 } else { r.below(20) };
                match roll {
                    0 => break (AttributeAction::Remove, "remove".to_string()),
                    1 => break (AttributeAction::Empty, "empty".into()),
                    2 | 3 => {
                        // VR change within the value class (of the element if present, else of the tag)
                        let cl = cur_class.unwrap_or(c);
                        let is_seq_val = matches!(cur.map(|e| e.value()), Some(Value::Sequence(_)) | Some(Value::PixelSequence(_)));
                        // a VR change asked of a sequence: any VR (it must be ignored)
                        let vr = if is_seq_val { *r.pick(&[VR::LO, VR::UN, VR::SQ, VR::OB, VR::US]) } else { safe_vr_for(&mut r, cl) };
                        break (AttributeAction::SetVr(vr), format!("setvr {}", vr.to_string()));
                    }
                    4 | 5 => {
                        let v = gen_value(&mut r, c);
                        let d = format!("set {}", dump_prim(&v));
                        break (AttributeAction::Set(v), d);
                    }
                    6 | 7 if c == Class::Text || c == Class::Uid || c == Class::Un => {
                        let s = gen_text(&mut r, c == Class::Uid);
                        let d = format!("setstr {}", hexs(&s));
                        break (AttributeAction::SetStr(s.into()), d);
                    }
                    8 => {
                        let v = gen_value(&mut r, c);
                        let d = format!("sim {}", dump_prim(&v));
                        break (AttributeAction::SetIfMissing(v), d);
                    }
                    9 if c == Class::Text || c == Class::Uid || c == Class::Un => {
                        let s = gen_text(&mut r, c == Class::Uid);
                        let d = format!("ssim {}", hexs(&s));
                        break (AttributeAction::SetStrIfMissing(s.into()), d);
                    }
                    10 => {
                        let v = gen_value(&mut r, c);
                        let d = format!("rep {}", dump_prim(&v));
                        break (AttributeAction::Replace(v), d);
                    }
                    11 if c == Class::Text || c == Class::Uid || c == Class::Un => {
                        let s = gen_text(&mut r, c == Class::Uid);
                        let d = format!("repstr {}", hexs(&s));
                        break (AttributeAction::ReplaceStr(s.into()), d);
                    }
                    12 | 13 => {
                        // text goes to textual / byte attributes (or bounces off an existing sequence)
                        let cl = c;
                        let textual = matches!(cl, Class::Text | Class::Uid | Class::Un) || cur_is_seq;
                        if !(textual || mismatch) {
                            continue;
                        }
                        let s = gen_text(&mut r, c == Class::Uid);
                        let d = format!("pushstr {}", hexs(&s));
                        break (AttributeAction::PushStr(s.into()), d);
                    }
                    14..=17 => {
                        // numbers: any kind onto an existing non-empty numeric / byte / text value (cast or
                        // printed); onto a missing or empty attribute only the kind of its VR
                        let kind = r.below(6);
                        let existing_ok = cur_prim_nonempty
                            && (cur_text || cur_bytes
                                || matches!(cur_class, Some(Class::U16) | Some(Class::I16) | Some(Class::U32) | Some(Class::I32)
                                    | Some(Class::I64) | Some(Class::U64) | Some(Class::F32) | Some(Class::F64)));
                        let fresh_vr = if cur.is_some() && !cur_is_seq { cur.map(|e| e.vr()) } else { dict_vr(tag) };
                        let fresh_ok = !cur_prim_nonempty && !cur_is_seq
                            && match fresh_vr {
                                None => true,
                                Some(VR::SL) => kind == 0,
                                Some(VR::UL) => kind == 1,
                                Some(VR::SS) => kind == 2,
                                Some(VR::US) => kind == 3,
                                Some(VR::FL) | Some(VR::OF) => kind == 4,
                                Some(VR::FD) | Some(VR::OD) => kind == 5,
                                _ => false,
                            };
                        if !(existing_ok || fresh_ok || cur_is_seq || mismatch) {
                            continue;
                        }
                        match kind {
                            0 => {
                                let n = small_int(&mut r, !cur_f32) as i32;
                                break (AttributeAction::PushI32(n), format!("pushnum i32 {n}"));
                            }
                            1 => {
                                let n = small_int(&mut r, !cur_f32).unsigned_abs() as u32;
                                break (AttributeAction::PushU32(n), format!("pushnum u32 {n}"));
                            }
                            2 => {
                                let n = small_int(&mut r, !cur_f32) as i16;
                                break (AttributeAction::PushI16(n), format!("pushnum i16 {n}"));
                            }
                            3 => {
                                let n = small_int(&mut r, !cur_f32) as u16;
                                break (AttributeAction::PushU16(n), format!("pushnum u16 {n}"));
                            }
                            4 => {
                                let k = half(&mut r);
                                break (AttributeAction::PushF32(k as f32 / 2.0), format!("pushnum f32 {k}"));
                            }
                            _ => {
                                let k = half(&mut r);
                                break (AttributeAction::PushF64(k as f64 / 2.0), format!("pushnum f64 {k}"));
                            }
                        }
                    }
                    18 => {
                        let n = r.usize(0, 3);
                        break (AttributeAction::Truncate(n), format!("trunc {n}"));
                    }
                    _ => continue,
                }
            };
            let mut sel_steps: Vec<AttributeSelectorStep> =
                steps.iter().map(|(t, i)| AttributeSelectorStep::Nested { tag: *t, item: *i }).collect();
            sel_steps.push(AttributeSelectorStep::Tag(tag));
            let selector = AttributeSelector::new(sel_steps).expect("valid selector");
            for (t, _) in &steps {
                if !used.contains(t) {
                    used.push(*t);
                }
            }
            if !used.contains(&tag) {
                used.push(tag);
            }
            let res = obj.apply(AttributeOp { selector, action });
            body.push_str(&format!(" SEL {}", steps.len()));
            for (t, i) in &steps {
                body.push_str(&format!(" {} {}", tagn(*t), i));
            }
            body.push_str(&format!(" {} ACT {} RES {} OBJ {}", tagn(tag), ad, if res.is_ok() { "ok" } else { "err" }, dump(&obj)));
        }
        // write + re-read in the writable transfer syntaxes; equality = same Implicit VR LE encoding
        let canon = |o: &Obj| {
            let o = o.clone();
            catch(std::panic::AssertUnwindSafe(move || {
                let mut v = Vec::new();
                o.write_dataset_with_ts(&mut v, &entries::IMPLICIT_VR_LITTLE_ENDIAN.erased()).ok().map(|_| v)
            }))
            .ok()
            .flatten()
        };
        let c0 = canon(&obj);
        let mut wr = String::new();
        for (name, ts) in [
            ("ile", entries::IMPLICIT_VR_LITTLE_ENDIAN.erased()),
            ("ele", entries::EXPLICIT_VR_LITTLE_ENDIAN.erased()),
            ("ebe", entries::EXPLICIT_VR_BIG_ENDIAN.erased()),
            ("defl", entries::DEFLATED_EXPLICIT_VR_LITTLE_ENDIAN.erased()),
        ] {
            let o2 = obj.clone();
            let c0 = c0.clone();
            let st = catch(std::panic::AssertUnwindSafe(move || {
                let mut bytes = Vec::new();
                if o2.write_dataset_with_ts(&mut bytes, &ts).is_err() {
                    return "werr";
                }
                match InMemDicomObject::read_dataset_with_ts(&bytes[..], &ts) {
                    Err(_) => "rerr",
                    Ok(back) => {
                        let mut v = Vec::new();
                        let ok = back.write_dataset_with_ts(&mut v, &entries::IMPLICIT_VR_LITTLE_ENDIAN.erased()).is_ok();
                        if ok && Some(v) == c0 { "ok" } else { "diff" }
                    }
                }
            }))
            .unwrap_or("panic");
            wr.push_str(&format!(" {} {}", name, st));
        }
        let mut d = format!("DICT {}", used.len());
        for t in &used {
            d.push_str(&format!(" {} {}", tagn(*t), dict_vr(*t).map(|v| v.to_string()).unwrap_or("-")));
        }
        out.line(&format!("#{} ops MODE {} {} INIT {} N {}{} WR{}", i, if mismatch { "mismatch" } else { "typed" }, d, init, nops, body, wr));
    }
}
