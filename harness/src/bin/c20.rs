//! C20 — RLE Lossless decoding. Two stages:
//! `gen`: random image + random run-segmentation choices (+ optional corruption descriptor);
//! `run`: reads the lines completed by the Lean reference encoder (fragments appended), applies the
//!        corruption, and runs the real registered RLE decoder on the whole object and per frame.
use dicom_encoding::adapters::{PixelDataObject, RawPixelData};
use dicom_encoding::transfer_syntax::TransferSyntaxIndex;
use dicom_transfer_syntax_registry::TransferSyntaxRegistry;
use smallvec::SmallVec;
use std::borrow::Cow;
use std::io::BufRead;
use verif_harness::util::*;

struct Obj {
    rows: u16,
    cols: u16,
    spp: u16,
    bits: u16,
    frames: u32,
    frags: Vec<Vec<u8>>,
}

impl PixelDataObject for Obj {
    fn transfer_syntax_uid(&self) -> &str {
        "1.2.840.10008.1.2.5"
    }
    fn rows(&self) -> Option<u16> {
        Some(self.rows)
    }
    fn cols(&self) -> Option<u16> {
        Some(self.cols)
    }
    fn samples_per_pixel(&self) -> Option<u16> {
        Some(self.spp)
    }
    fn bits_allocated(&self) -> Option<u16> {
        Some(self.bits)
    }
    fn bits_stored(&self) -> Option<u16> {
        Some(self.bits)
    }
    fn photometric_interpretation(&self) -> Option<&str> {
        Some(if self.spp == 3 { "RGB" } else { "MONOCHROME2" })
    }
    fn number_of_frames(&self) -> Option<u32> {
        Some(self.frames)
    }
    fn number_of_fragments(&self) -> Option<u32> {
        Some(self.frags.len() as u32)
    }
    fn fragment(&self, fragment: usize) -> Option<Cow<'_, [u8]>> {
        self.frags.get(fragment).map(|f| Cow::Borrowed(&f[..]))
    }
    fn offset_table(&self) -> Option<Cow<'_, [u32]>> {
        None
    }
    fn raw_pixel_data(&self) -> Option<RawPixelData> {
        Some(RawPixelData {
            fragments: self.frags.iter().cloned().collect::<SmallVec<_>>(),
            offset_table: SmallVec::new(),
        })
    }
}

fn gen_line(r: &mut Rng) -> String {
    let bits: u16 = match r.below(50) {
        0 => *r.pick(&[1u16, 12, 32]),
        x if x % 2 == 0 => 8,
        _ => 16,
    };
    let spp: u16 = if r.chance(1, 2) { 1 } else { 3 };
    let (rows, cols): (usize, usize) = match r.below(20) {
        0 => (*r.pick(&[0usize, 3]), *r.pick(&[0usize, 2])),
        1..=11 => (r.usize(1, 8), r.usize(1, 8)),
        12..=15 => (r.usize(9, 20), r.usize(15, 20)),
        16 | 17 => (1, r.usize(120, 300)),
        18 => (r.usize(127, 131), 1),
        _ => (r.usize(1, 3), r.usize(126, 130)),
    };
    let npix = rows * cols;
    let nframes: usize = match r.below(12) {
        0 => 0,
        1..=5 => 1,
        6..=8 => 2,
        9 | 10 => 3,
        _ => 4,
    };
    let bps = if bits == 16 { 2 } else { 1 };
    // sample values, big-endian per sample
    let n = npix * spp as usize * nframes;
    let kind = r.below(6);
    let palette: Vec<u16> = (0..3).map(|_| r.next_u64() as u16).collect();
    let mut vals: Vec<u8> = Vec::with_capacity(n * bps);
    let mut cur: u16 = r.next_u64() as u16;
    for k in 0..n {
        let v: u16 = match kind {
            0 => r.next_u64() as u16,                        // noise
            1 => *r.pick(&palette),                          // few values
            2 => palette[0],                                 // constant
            3 => (k as u16).wrapping_mul(259),               // gradient
            4 => {
                // long stretches
                if r.chance(1, 60) {
                    cur = r.next_u64() as u16
                }
                cur
            }
            _ => {
                // stretches in one byte only
                if r.chance(1, 40) {
                    cur = r.next_u64() as u16
                }
                (cur & 0xff00) | (r.next_u64() as u16 & if r.chance(1, 2) { 0x00ff } else { 0 })
            }
        };
        if bps == 2 {
            vals.push((v >> 8) as u8);
        }
        vals.push(v as u8);
    }
    // run-segmentation choices
    let nch = match r.below(5) {
        0 => 0,
        1 => r.usize(0, 8),
        _ => 2 * (npix / 2 + 4) * (spp as usize) * bps * nframes.max(1),
    };
    let chk = r.below(5);
    let choices: Vec<u8> = (0..nch)
        .map(|j| {
            let b = r.next_u64() as u8;
            if j % 2 == 0 {
                match chk {
                    0 => b,                 // anything
                    1 => 4 | (b & 3),       // replicate whenever possible
                    2 => 1 + (b % 3),       // literal
                    3 => if b < 40 { 0 } else { b }, // many no-ops
                    _ => if b < 128 { 4 } else { 1 },
                }
            } else {
                match r.below(4) {
                    0 => 127,
                    1 => 126,
                    2 => b % 4,
                    _ => b,
                }
            }
        })
        .collect();
    let pad = if r.chance(9, 10) { 1 } else { 0 };
    let dst0 = if r.chance(7, 10) { vec![] } else { r.bytes(r.clone().usize(1, 5)) };
    let mutd = if r.chance(4, 5) || nframes == 0 {
        "none".to_string()
    } else {
        let f = r.below(nframes as u64);
        match r.below(6) {
            0 => format!("trunc:{}:{}", f, r.next_u32()),
            1 => format!("trunc:{}:{}", f, r.below(70)),
            2 => format!("set:{}:{}:{}", f, r.next_u32(), r.below(256)),
            3 => format!("set:{}:{}:{}", f, r.below(64), r.below(256)),
            4 => format!("nseg:{}:{}", f, r.below(20)),
            _ => "dropfrag".to_string(),
        }
    };
    format!(
        "rle {} {} {} {} {} {} {} {} {} {}",
        bits,
        spp,
        rows,
        cols,
        nframes,
        pad,
        hex(&dst0),
        hex(&vals),
        hex(&choices),
        mutd
    )
}

fn apply_mut(m: &str, frags: &mut Vec<Vec<u8>>) {
    let p: Vec<&str> = m.split(':').collect();
    let num = |i: usize| p.get(i).and_then(|s| s.parse::<u64>().ok()).unwrap_or(0);
    match p[0] {
        "trunc" => {
            let f = num(1) as usize;
            if f < frags.len() {
                let k = (num(2) % (frags[f].len() as u64 + 1)) as usize;
                frags[f].truncate(k);
            }
        }
        "set" => {
            let f = num(1) as usize;
            if f < frags.len() && !frags[f].is_empty() {
                let pos = (num(2) % frags[f].len() as u64) as usize;
                frags[f][pos] = num(3) as u8;
            }
        }
        "nseg" => {
            let f = num(1) as usize;
            if f < frags.len() && frags[f].len() >= 4 {
                frags[f][0..4].copy_from_slice(&(num(2) as u32).to_le_bytes());
            }
        }
        "dropfrag" => {
            frags.pop();
        }
        _ => {}
    }
}

fn show(r: Result<Result<Vec<u8>, ()>, String>) -> String {
    match r {
        Ok(Ok(v)) => format!("ok:{}", hex(&v)),
        Ok(Err(())) => "err".into(),
        Err(_) => "panic".into(),
    }
}

fn main() {
    let a = parse_args();
    quiet_panics();
    let mut out = Out::new();
    if a.mode == "gen" {
        for i in case_indices(&a) {
            let mut r = Rng::for_case(a.seed, i);
            out.line(&format!("#{} {}", i, gen_line(&mut r)));
        }
        return;
    }
    // run
    let ts = TransferSyntaxRegistry.get("1.2.840.10008.1.2.5").expect("RLE Lossless is registered");
    let reader = ts.pixel_data_reader().expect("RLE Lossless has a pixel data reader");
    let stdin = std::io::stdin();
    for line in stdin.lock().lines() {
        let line = line.unwrap();
        let t: Vec<&str> = line.split(' ').collect();
        if t.len() < 13 || t[1] != "rle" {
            out.line(&format!("{} BAD", t.first().unwrap_or(&"")));
            continue;
        }
        let n = |i: usize| t[i].parse::<u64>().unwrap();
        let (bits, spp, rows, cols, nframes) = (n(2) as u16, n(3) as u16, n(4) as u16, n(5) as u16, n(6) as u32);
        let dst0 = unhex(t[8]);
        let mutd = t[11];
        let nfr = n(12) as usize;
        let mut frags: Vec<Vec<u8>> = (0..nfr).map(|k| unhex(t[13 + k])).collect();
        apply_mut(mutd, &mut frags);
        let obj = Obj { rows, cols, spp, bits, frames: nframes, frags };
        let whole = show(catch(std::panic::AssertUnwindSafe(|| {
            let mut dst = dst0.clone();
            reader.decode(&obj, &mut dst).map(|_| dst).map_err(|_| ())
        })));
        let mut res = Vec::new();
        for f in 0..=obj.frags.len() {
            res.push(show(catch(std::panic::AssertUnwindSafe(|| {
                let mut dst = dst0.clone();
                reader.decode_frame(&obj, f as u32, &mut dst).map(|_| dst).map_err(|_| ())
            }))));
        }
        let fr: Vec<String> = obj.frags.iter().map(|f| hex(f)).collect();
        out.line(&format!(
            "{} {} {}{}{} R {} {}",
            t[0],
            t[1..12].join(" "),
            obj.frags.len(),
            if fr.is_empty() { "" } else { " " },
            fr.join(" "),
            whole,
            res.join(" ")
        ));
    }
}
