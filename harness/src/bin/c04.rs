//! C04 — structurally valid output, exact lengths / padding / byte counts.
//! Writes generated data sets with the real dicom-rs in the 4 writable data-set transfer syntaxes and
//! both explicit-length strategies, feeds primitive values to the primitive encoders, and drives
//! `StatefulEncoder` directly to observe `bytes_written`.
#[path = "c01/gen.rs"]
mod gen;
#[path = "c01/wr.rs"]
mod wr;

use dicom_core::header::{DataElementHeader, Length};
use dicom_core::{PrimitiveValue, Tag, VR};
use dicom_encoding::encode::explicit_be::ExplicitVRBigEndianEncoder;
use dicom_encoding::encode::explicit_le::ExplicitVRLittleEndianEncoder;
use dicom_encoding::encode::implicit_le::ImplicitVRLittleEndianEncoder;
use dicom_encoding::encode::{Encode, EncoderFor};
use dicom_encoding::text::SpecificCharacterSet;
use dicom_object::InMemDicomObject;
use dicom_parser::stateful::encode::StatefulEncoder;
use gen::*;
use wr::*;
use verif_harness::util::*;

fn witness_case() -> String {
    let obj = InMemDicomObject::read_dataset_with_ts(WITNESS_PIXEL_THEN_ITEM, ts_of(1)).expect("witness is readable");
    let nodes = from_object(&obj);
    let w = write_all_ways(&obj, 1);
    format!("ds 1 B T {} W {} {} {}", sexpr(&nodes), w[0], w[1], w[2])
}

fn ds_case(r: &mut Rng, thorough: bool) -> String {
    let ts_k = r.below(4) as u8;
    let depth = if thorough { r.below(9) as u32 } else { r.below(5) as u32 };
    // (C04 is about the writer: when the reader rejects the reference encoding — C01/C02 report that — use path A)
    let (obj, path) = case_object(r, ts_k, depth).unwrap_or_else(|(_, nodes, _)| (to_object(&nodes), "A"));
    let nodes = from_object(&obj);
    let w = write_all_ways(&obj, ts_k);
    format!("ds {} {} T {} W {} {} {}", ts_k, path, sexpr(&nodes), w[0], w[1], w[2])
}

fn prim_case(r: &mut Rng) -> String {
    let vr = *r.pick(&VRS);
    let v = if vr == VR::SQ { PrimitiveValue::Empty } else { gen_value(r, vr) };
    let k = r.below(3) as u8;
    let mut out = Vec::new();
    let res = catch(std::panic::AssertUnwindSafe(|| match k {
        0 => ImplicitVRLittleEndianEncoder::default().encode_primitive(&mut out, &v),
        1 => ExplicitVRLittleEndianEncoder::default().encode_primitive(&mut out, &v),
        _ => ExplicitVRBigEndianEncoder::default().encode_primitive(&mut out, &v),
    }));
    let rs = match res {
        Err(_) => "panic".to_string(),
        Ok(Err(_)) => "err".to_string(),
        Ok(Ok(n)) => format!("ok {} {}", hex(&out), n),
    };
    format!("prim {} {} bl={} R {}", k, value_token(&v), v.calculate_byte_len(), rs)
}

fn senc_case(r: &mut Rng) -> String {
    let k = r.below(3) as u8;
    let n = r.usize(1, 8);
    let mut ops: Vec<String> = Vec::new();
    let mut out: Vec<u8> = Vec::new();
    let mut written: Option<u64> = None;
    let mut failed: Option<&'static str> = None;
    macro_rules! run {
        ($enc:expr) => {{
            let mut p = StatefulEncoder::new(&mut out, EncoderFor::new($enc), SpecificCharacterSet::default());
            for _ in 0..n {
                let res: Result<(), ()> = match r.below(9) {
                    0 | 1 | 2 => {
                        let vr = loop {
                            let v = *r.pick(&VRS);
                            if v != VR::SQ {
                                break v;
                            }
                        };
                        let tag = gen_tag(r, vr);
                        let v = gen_value(r, vr);
                        let len = r.edgy(16) as u32;
                        ops.push(format!("pe:{:04x}{:04x}:{}:{} {}", tag.0, tag.1, vrn(vr), len, value_token(&v)));
                        p.encode_primitive_element(&DataElementHeader::new(tag, vr, Length(len)), &v).map_err(|_| ())
                    }
                    3 => {
                        let vr = *r.pick(&VRS);
                        let tag = gen_tag(r, vr);
                        let len = match r.below(4) {
                            0 => 0xFFFF_FFFF,
                            1 => r.edgy(32) as u32,
                            _ => r.edgy(16) as u32,
                        };
                        ops.push(format!("eh:{:04x}{:04x}:{}:{}", tag.0, tag.1, vrn(vr), len));
                        p.encode_element_header(DataElementHeader::new(tag, vr, Length(len))).map_err(|_| ())
                    }
                    4 => {
                        let len = match r.below(3) {
                            0 => 0xFFFF_FFFF,
                            _ => r.edgy(16) as u32,
                        };
                        ops.push(format!("ih:{}", len));
                        p.encode_item_header(len).map_err(|_| ())
                    }
                    5 => {
                        if r.chance(1, 2) {
                            ops.push("id".into());
                            p.encode_item_delimiter().map_err(|_| ())
                        } else {
                            ops.push("sd".into());
                            p.encode_sequence_delimiter().map_err(|_| ())
                        }
                    }
                    6 => {
                        let k = r.usize(0, 9);
                        let b = r.bytes(k);
                        ops.push(format!("wb:{}", hex(&b)));
                        p.write_bytes(&b).map_err(|_| ())
                    }
                    7 => {
                        let k = r.usize(0, 9);
                        let b = r.bytes(k);
                        ops.push(format!("wr:{}", hex(&b)));
                        p.write_raw_bytes(&b).map_err(|_| ())
                    }
                    _ => {
                        let t: Vec<u32> = (0..r.usize(0, 4)).map(|_| r.edgy(32) as u32).collect();
                        ops.push(format!("ot:{}", if t.is_empty() { "-".to_string() } else { t.iter().map(|x| x.to_string()).collect::<Vec<_>>().join(",") }));
                        p.encode_offset_table(&t).map_err(|_| ())
                    }
                };
                if res.is_err() {
                    failed = Some("err");
                    break;
                }
            }
            written = Some(p.bytes_written());
        }};
    }
    let res = catch(std::panic::AssertUnwindSafe(|| match k {
        0 => run!(ImplicitVRLittleEndianEncoder::default()),
        1 => run!(ExplicitVRLittleEndianEncoder::default()),
        _ => run!(ExplicitVRBigEndianEncoder::default()),
    }));
    let rs = match (res, failed) {
        (Err(_), _) => "panic".to_string(),
        (Ok(_), Some(e)) => format!("{} {} {}", e, hex(&out), written.unwrap_or(0)),
        (Ok(_), None) => format!("ok {} {}", hex(&out), written.unwrap_or(0)),
    };
    format!("senc {} {} R {}", k, ops.join(" "), rs)
}


/// text elements written through the stateful encoder under a Specific Character Set other than the
/// default one, with characters whose encoded length differs from their UTF-8 length: the declared
/// length and the padding must follow the *encoded* bytes.
/// line: `cstxt <k> <hex of the defined term> E <tag8>:<VR>:<s|m>:<hex,hex,…> … R ok <hex> <bytes_written> | err | panic`
fn cstxt_case(r: &mut Rng) -> String {
    const SETS: &[(&str, &str)] = &[
        ("ISO_IR 100", "ãéüÿÆñ"),
        ("ISO_IR 144", "ЖяЁю"),
        ("ISO_IR 126", "αβΩλ"),
        ("ISO_IR 192", "ã€😀Жα"),
        ("ISO_IR 6", ""),
    ];
    const ELS: &[(Tag, VR)] = &[
        (Tag(0x0008, 0x0018), VR::UI),
        (Tag(0x0008, 0x0060), VR::CS),
        (Tag(0x0008, 0x0080), VR::LO),
        (Tag(0x0008, 0x1030), VR::LO),
        (Tag(0x0010, 0x0010), VR::PN),
        (Tag(0x0010, 0x4000), VR::LT),
        (Tag(0x0040, 0xA160), VR::UT),
    ];
    let k = r.below(3) as u8;
    let (code, extra) = *r.pick(SETS);
    let n = r.usize(1, 3);
    let mut picked: Vec<usize> = (0..ELS.len()).collect();
    while picked.len() > n {
        let j = r.usize(0, picked.len() - 1);
        picked.remove(j);
    }
    let mut text = |r: &mut Rng, vr: VR| -> String {
        let len = r.usize(0, 6);
        (0..len)
            .map(|_| match vr {
                VR::UI => *r.pick(&['1', '2', '.', '9']),
                VR::CS => *r.pick(&['A', 'B', '_', '7']),
                _ => {
                    let pool: Vec<char> = "Ab x^".chars().chain(extra.chars()).chain(extra.chars()).collect();
                    *r.pick(&pool)
                }
            })
            .collect::<String>()
            .trim()
            .to_string()
    };
    let mut els: Vec<(Tag, VR, PrimitiveValue, String)> = Vec::new();
    for j in picked {
        let (tag, vr) = ELS[j];
        if r.chance(1, 3) && !matches!(vr, VR::LT | VR::UT) {
            let m = r.usize(1, 3);
            let comps: Vec<String> = (0..m).map(|_| text(r, vr)).collect();
            let tok = comps.iter().map(|c| hexs(c)).collect::<Vec<_>>().join(",");
            els.push((tag, vr, PrimitiveValue::Strs(comps.into()), format!("{:04x}{:04x}:{}:m:{}", tag.0, tag.1, vrn(vr), tok)));
        } else {
            let t = text(r, vr);
            let tok = hexs(&t);
            els.push((tag, vr, PrimitiveValue::Str(t), format!("{:04x}{:04x}:{}:s:{}", tag.0, tag.1, vrn(vr), tok)));
        }
    }
    let mut out: Vec<u8> = Vec::new();
    let mut written = 0u64;
    let mut failed = false;
    macro_rules! run {
        ($enc:expr) => {{
            let cs = SpecificCharacterSet::from_code(code).expect("supported set");
            let mut p = StatefulEncoder::new(&mut out, EncoderFor::new($enc), cs);
            for (tag, vr, v, _) in &els {
                if p.encode_primitive_element(&DataElementHeader::new(*tag, *vr, Length(0)), v).is_err() {
                    failed = true;
                    break;
                }
            }
            written = p.bytes_written();
        }};
    }
    let res = catch(std::panic::AssertUnwindSafe(|| match k {
        0 => run!(ImplicitVRLittleEndianEncoder::default()),
        1 => run!(ExplicitVRLittleEndianEncoder::default()),
        _ => run!(ExplicitVRBigEndianEncoder::default()),
    }));
    let rs = match res {
        Err(_) => "panic".to_string(),
        Ok(()) if failed => "err".to_string(),
        Ok(()) => format!("ok {} {}", hex(&out), written),
    };
    format!("cstxt {} {} E {} R {}", k, hexs(code), els.iter().map(|e| e.3.clone()).collect::<Vec<_>>().join(" "), rs)
}

fn main() {
    let a = parse_args();
    quiet_panics();
    let mut out = Out::new();
    for i in case_indices(&a) {
        let mut r = Rng::for_case(a.seed, i);
        let line = match i % 10 {
            0 if i == 0 => witness_case(),
            0..=5 => ds_case(&mut r, a.thorough),
            6 => prim_case(&mut r),
            7 => {
                if i % 20 == 7 {
                    cstxt_case(&mut r)
                } else {
                    prim_case(&mut r)
                }
            }
            _ => senc_case(&mut r),
        };
        out.line(&format!("#{} {}", i, line));
    }
    let _ = Tag(0, 0);
}
