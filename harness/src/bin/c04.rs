//! C04 — structurally valid output, exact lengths / padding / byte counts.
//! Writes generated data sets with the real dicom-rs in the 4 writable data-set transfer syntaxes and
//! both explicit-length strategies, feeds primitive values to the primitive encoders, and drives
//! `StatefulEncoder` directly to observe `bytes_written`.
#[path = "c01/gen.rs"]
mod gen;

use dicom_core::header::{DataElementHeader, Length};
use dicom_core::{PrimitiveValue, Tag, VR};
use dicom_encoding::encode::explicit_be::ExplicitVRBigEndianEncoder;
use dicom_encoding::encode::explicit_le::ExplicitVRLittleEndianEncoder;
use dicom_encoding::encode::implicit_le::ImplicitVRLittleEndianEncoder;
use dicom_encoding::encode::{Encode, EncoderFor};
use dicom_encoding::text::SpecificCharacterSet;
use dicom_encoding::transfer_syntax::{Codec, TransferSyntaxIndex};
use dicom_encoding::TransferSyntax;
use dicom_object::InMemDicomObject;
use dicom_parser::dataset::write::{DataSetWriterOptions, ExplicitLengthSqItemStrategy};
use dicom_parser::stateful::encode::StatefulEncoder;
use dicom_transfer_syntax_registry::TransferSyntaxRegistry;
use gen::*;
use std::io::Read;
use verif_harness::util::*;

pub const TS_UIDS: [&str; 4] = ["1.2.840.10008.1.2", "1.2.840.10008.1.2.1", "1.2.840.10008.1.2.2", "1.2.840.10008.1.2.1.99"];

pub fn ts_of(k: u8) -> &'static TransferSyntax {
    TransferSyntaxRegistry.get(TS_UIDS[k as usize]).expect("transfer syntax registered")
}

/// inflate with dicom-rs' own adapter; None when the stream is not a complete deflate stream
fn inflate(ts: &TransferSyntax, raw: &[u8]) -> Option<Vec<u8>> {
    if let Codec::Dataset(Some(adapter)) = ts.codec() {
        let mut r = adapter.adapt_reader(Box::new(raw));
        let mut out = Vec::new();
        match r.read_to_end(&mut out) {
            Ok(_) => Some(out),
            Err(_) => None,
        }
    } else {
        None
    }
}

fn show(ts_k: u8, res: Result<Result<Vec<u8>, ()>, String>) -> String {
    match res {
        Err(_) => "panic".into(),
        Ok(Err(())) => "err".into(),
        Ok(Ok(raw)) => {
            // `ok:<raw bytes>:<inflated bytes or ->` (inflation attempted for the deflated syntax only)
            let inf = if ts_k == 3 { inflate(ts_of(3), &raw) } else { None };
            match inf {
                Some(i) => format!("ok:{}:{}", hex(&raw), hex(&i)),
                None => format!("ok:{}:x", hex(&raw)),
            }
        }
    }
}

/// the three write calls: default API, options API with SetUndefined, options API with NoChange
pub fn write_all_ways(obj: &InMemDicomObject, ts_k: u8) -> [String; 3] {
    let ts = ts_of(ts_k);
    let a = catch(std::panic::AssertUnwindSafe(|| {
        let mut out = Vec::new();
        obj.write_dataset_with_ts(&mut out, ts).map(|_| out).map_err(|_| ())
    }));
    let mk = |strat| {
        catch(std::panic::AssertUnwindSafe(|| {
            let mut out = Vec::new();
            let opts = DataSetWriterOptions::default().explicit_length_sq_item_strategy(strat);
            obj.write_dataset_with_ts_options(&mut out, ts, opts).map(|_| out).map_err(|_| ())
        }))
    };
    let b = mk(ExplicitLengthSqItemStrategy::SetUndefined);
    let c = mk(ExplicitLengthSqItemStrategy::NoChange);
    [show(ts_k, a), show(ts_k, b), show(ts_k, c)]
}

/// object for a case: path A (constructors) or path B (consistent explicit lengths, via the
/// reference encoder + dicom-rs reader in the same syntax)
pub fn case_object(r: &mut Rng, ts_k: u8, depth: u32) -> (InMemDicomObject, &'static str) {
    let path_b = r.chance(1, 3);
    // (a zero-length fragment does not survive reading, so explicit lengths read back would be stale)
    let o = GenOpts { max_depth: depth, empty_frags: !path_b, ..Default::default() };
    let nodes = gen_dataset(r, 0, &o);
    if path_b {
        let mode = r.below(3);
        let seed = r.next_u64();
        let explicit = move |d: u32, k: usize| -> (bool, bool) {
            let h = seed.wrapping_mul(0x9E3779B97F4A7C15 ^ ((d as u64) << 32 | k as u64)).rotate_left(17);
            match mode {
                0 => (true, true),
                1 => (h & 1 == 1, h & 2 == 2),
                _ => (h & 1 == 1, true),
            }
        };
        let enc_ts = if ts_k == 3 { 1 } else { ts_k };
        let bytes = ref_encode(&nodes, enc_ts, &explicit, 0);
        // read with the uncompressed syntax (Deflated = Explicit VR LE after inflation)
        if let Ok(obj) = InMemDicomObject::read_dataset_with_ts(&bytes[..], ts_of(enc_ts)) {
            return (obj, "B");
        }
    }
    (to_object(&nodes), "A")
}

/// fixed witness (index 0): Explicit VR LE, a sequence whose first item holds an encapsulated Pixel Data
/// element and whose second item has an explicit length and contains a defined-length sequence
pub const WITNESS_PIXEL_THEN_ITEM: &[u8] = &[
    0x08, 0x00, 0x40, 0x11, b'S', b'Q', 0, 0, 0xff, 0xff, 0xff, 0xff, // (0008,1140) SQ undefined
    0xfe, 0xff, 0x00, 0xe0, 0xff, 0xff, 0xff, 0xff, // item, undefined
    0xe0, 0x7f, 0x10, 0x00, b'O', b'B', 0, 0, 0xff, 0xff, 0xff, 0xff, // (7FE0,0010) OB undefined
    0xfe, 0xff, 0x00, 0xe0, 0, 0, 0, 0, // empty offset table
    0xfe, 0xff, 0xdd, 0xe0, 0, 0, 0, 0, // sequence delimiter
    0xfe, 0xff, 0x0d, 0xe0, 0, 0, 0, 0, // item delimiter
    0xfe, 0xff, 0x00, 0xe0, 20, 0, 0, 0, // item, length 20
    0x08, 0x00, 0x40, 0x11, b'S', b'Q', 0, 0, 8, 0, 0, 0, // (0008,1140) SQ length 8
    0xfe, 0xff, 0x00, 0xe0, 0, 0, 0, 0, // item, length 0
    0xfe, 0xff, 0xdd, 0xe0, 0, 0, 0, 0, // sequence delimiter
];

fn witness_case() -> String {
    let obj = InMemDicomObject::read_dataset_with_ts(WITNESS_PIXEL_THEN_ITEM, ts_of(1)).expect("witness is readable");
    let nodes = from_object(&obj);
    let w = write_all_ways(&obj, 1);
    format!("ds 1 B T {} W {} {} {}", sexpr(&nodes), w[0], w[1], w[2])
}

fn ds_case(r: &mut Rng, thorough: bool) -> String {
    let ts_k = r.below(4) as u8;
    let depth = if thorough { r.below(9) as u32 } else { r.below(5) as u32 };
    let (obj, path) = case_object(r, ts_k, depth);
    let nodes = from_object(&obj);
    let w = write_all_ways(&obj, ts_k);
    format!("ds {} {} T {} W {} {} {}", ts_k, path, sexpr(&nodes), w[0], w[1], w[2])
}

fn prim_case(r: &mut Rng) -> String {
    let vr = *r.pick(&VRS);
    let v = if vr == VR::SQ { PrimitiveValue::Empty } else { gen_value(r, vr) };
    let k = r.below(3) as u8;
    let mut out = Vec::new();
    let res = catch(std::panic::AssertUnwindSafe(|| match k {
        0 => ImplicitVRLittleEndianEncoder::default().encode_primitive(&mut out, &v),
        1 => ExplicitVRLittleEndianEncoder::default().encode_primitive(&mut out, &v),
        _ => ExplicitVRBigEndianEncoder::default().encode_primitive(&mut out, &v),
    }));
    let rs = match res {
        Err(_) => "panic".to_string(),
        Ok(Err(_)) => "err".to_string(),
        Ok(Ok(n)) => format!("ok {} {}", hex(&out), n),
    };
    format!("prim {} {} bl={} R {}", k, value_token(&v), v.calculate_byte_len(), rs)
}

fn senc_case(r: &mut Rng) -> String {
    let k = r.below(3) as u8;
    let n = r.usize(1, 8);
    let mut ops: Vec<String> = Vec::new();
    let mut out: Vec<u8> = Vec::new();
    let mut written: Option<u64> = None;
    let mut failed: Option<&'static str> = None;
    macro_rules! run {
        ($enc:expr) => {{
            let mut p = StatefulEncoder::new(&mut out, EncoderFor::new($enc), SpecificCharacterSet::default());
            for _ in 0..n {
                let res: Result<(), ()> = match r.below(9) {
                    0 | 1 | 2 => {
                        let vr = loop {
                            let v = *r.pick(&VRS);
                            if v != VR::SQ {
                                break v;
                            }
                        };
                        let tag = gen_tag(r, vr);
                        let v = gen_value(r, vr);
                        let len = r.edgy(16) as u32;
                        ops.push(format!("pe:{:04x}{:04x}:{}:{} {}", tag.0, tag.1, vrn(vr), len, value_token(&v)));
                        p.encode_primitive_element(&DataElementHeader::new(tag, vr, Length(len)), &v).map_err(|_| ())
                    }
                    3 => {
                        let vr = *r.pick(&VRS);
                        let tag = gen_tag(r, vr);
                        let len = match r.below(4) {
                            0 => 0xFFFF_FFFF,
                            1 => r.edgy(32) as u32,
                            _ => r.edgy(16) as u32,
                        };
                        ops.push(format!("eh:{:04x}{:04x}:{}:{}", tag.0, tag.1, vrn(vr), len));
                        p.encode_element_header(DataElementHeader::new(tag, vr, Length(len))).map_err(|_| ())
                    }
                    4 => {
                        let len = match r.below(3) {
                            0 => 0xFFFF_FFFF,
                            _ => r.edgy(16) as u32,
                        };
                        ops.push(format!("ih:{}", len));
                        p.encode_item_header(len).map_err(|_| ())
                    }
                    5 => {
                        if r.chance(1, 2) {
                            ops.push("id".into());
                            p.encode_item_delimiter().map_err(|_| ())
                        } else {
                            ops.push("sd".into());
                            p.encode_sequence_delimiter().map_err(|_| ())
                        }
                    }
                    6 => {
                        let k = r.usize(0, 9);
                        let b = r.bytes(k);
                        ops.push(format!("wb:{}", hex(&b)));
                        p.write_bytes(&b).map_err(|_| ())
                    }
                    7 => {
                        let k = r.usize(0, 9);
                        let b = r.bytes(k);
                        ops.push(format!("wr:{}", hex(&b)));
                        p.write_raw_bytes(&b).map_err(|_| ())
                    }
                    _ => {
                        let t: Vec<u32> = (0..r.usize(0, 4)).map(|_| r.edgy(32) as u32).collect();
                        ops.push(format!("ot:{}", if t.is_empty() { "-".to_string() } else { t.iter().map(|x| x.to_string()).collect::<Vec<_>>().join(",") }));
                        p.encode_offset_table(&t).map_err(|_| ())
                    }
                };
                if res.is_err() {
                    failed = Some("err");
                    break;
                }
            }
            written = Some(p.bytes_written());
        }};
    }
    let res = catch(std::panic::AssertUnwindSafe(|| match k {
        0 => run!(ImplicitVRLittleEndianEncoder::default()),
        1 => run!(ExplicitVRLittleEndianEncoder::default()),
        _ => run!(ExplicitVRBigEndianEncoder::default()),
    }));
    let rs = match (res, failed) {
        (Err(_), _) => "panic".to_string(),
        (Ok(_), Some(e)) => format!("{} {} {}", e, hex(&out), written.unwrap_or(0)),
        (Ok(_), None) => format!("ok {} {}", hex(&out), written.unwrap_or(0)),
    };
    format!("senc {} {} R {}", k, ops.join(" "), rs)
}

fn main() {
    let a = parse_args();
    quiet_panics();
    let mut out = Out::new();
    for i in case_indices(&a) {
        let mut r = Rng::for_case(a.seed, i);
        let line = match i % 10 {
            0 if i == 0 => witness_case(),
            0..=5 => ds_case(&mut r, a.thorough),
            6 | 7 => prim_case(&mut r),
            _ => senc_case(&mut r),
        };
        out.line(&format!("#{} {}", i, line));
    }
    let _ = Tag(0, 0);
}
