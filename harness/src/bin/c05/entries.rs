//! The public reading entry points of dicom-rs, each run on one untrusted input.
//! Every stage is wrapped in `catch_unwind`; the result is a list of `stage:outcome` tokens.
use dicom_core::dictionary::DataDictionary;
use dicom_core::value::{PixelFragmentSequence, Value};
use dicom_core::{DataElement, PrimitiveValue, Tag, VR};
use dicom_dictionary_std::{tags, StandardDataDictionary};
use dicom_encoding::adapters::{PixelDataObject, RawPixelData};
use dicom_encoding::transfer_syntax::Codec;
use dicom_encoding::TransferSyntaxIndex;
use dicom_object::file::{OddLengthStrategy, ReadPreamble};
use dicom_object::{DicomCollector, FileDicomObject, FileMetaTable, FileMetaTableBuilder, InMemDicomObject, OpenFileOptions};
use dicom_parser::dataset::lazy_read::LazyDataSetReader;
use dicom_parser::dataset::read::{DataSetReader, DataSetReaderOptions};
use dicom_parser::dataset::LazyDataToken;
use dicom_pixeldata::PixelDecoder;
use dicom_transfer_syntax_registry::TransferSyntaxRegistry;
use std::io::{BufReader, Cursor};
use std::sync::Mutex;

/// where and why the last panic happened (set by the panic hook)
pub static LAST_PANIC: Mutex<Option<String>> = Mutex::new(None);

fn slug(s: &str) -> String {
    let mut out = String::new();
    let mut last_n = false;
    for c in s.chars() {
        if c.is_ascii_digit() {
            if !last_n {
                out.push('N');
            }
            last_n = true;
        } else {
            last_n = false;
            out.push(if c.is_ascii_alphanumeric() { c } else { '_' });
        }
        if out.len() > 70 {
            break;
        }
    }
    out
}

pub fn install_hook() {
    std::panic::set_hook(Box::new(|info| {
        let file = info
            .location()
            .map(|l| {
                let f = l.file();
                // crate directory + file stem, without version numbers and line numbers
                let parts: Vec<&str> = f.rsplit('/').collect();
                let stem = parts.first().copied().unwrap_or("").trim_end_matches(".rs");
                let krate = parts.iter().skip(1).find(|p| **p != "src" && !p.is_empty()).copied().unwrap_or("");
                let krate = krate.trim_end_matches(|c: char| c.is_ascii_digit() || c == '.' || c == '-');
                format!("{}.{}", krate, stem)
            })
            .unwrap_or_default();
        let msg = if let Some(s) = info.payload().downcast_ref::<&str>() {
            s.to_string()
        } else if let Some(s) = info.payload().downcast_ref::<String>() {
            s.clone()
        } else {
            "?".into()
        };
        *LAST_PANIC.lock().unwrap() = Some(format!("{}:{}", slug(&file), slug(&msg)));
    }));
}

/// run one stage; `Ok(class)` / `Err(())` from the closure
fn stage<T>(name: &str, out: &mut Vec<String>, f: impl FnOnce() -> Result<T, ()>) -> Option<T> {
    // announced on stderr so that the parent can name the stage if the process dies in it
    eprintln!("@stage {}", name);
    match std::panic::catch_unwind(std::panic::AssertUnwindSafe(f)) {
        Ok(Ok(v)) => {
            out.push(format!("{}:ok", name));
            Some(v)
        }
        Ok(Err(())) => {
            out.push(format!("{}:err", name));
            None
        }
        Err(_) => {
            let site = LAST_PANIC.lock().unwrap().take().unwrap_or_else(|| "unknown".into());
            out.push(format!("{}:panic:{}", name, site));
            None
        }
    }
}

fn e<T, E>(r: Result<T, E>) -> Result<T, ()> {
    r.map_err(|_| ())
}

fn after_read(obj: &FileDicomObject<InMemDicomObject>, out: &mut Vec<String>) {
    stage("dump", out, || e(dicom_dump::DumpOptions::new().dump_file_to(std::io::sink(), obj)));
    if obj.element(tags::PIXEL_DATA).is_ok() {
        stage("px", out, || e(obj.decode_pixel_data().map(|_| ())));
        stage("frame", out, || e(obj.decode_pixel_data_frame(0).map(|_| ())));
        stage("frame1", out, || e(obj.decode_pixel_data_frame(1).map(|_| ())));
    }
}

pub fn ts_of(name: &str) -> &'static dicom_encoding::TransferSyntax {
    TransferSyntaxRegistry.get(name).expect("transfer syntax")
}

/// wrap a data set as a file object so that the pixel decoder can be applied
fn as_file(obj: InMemDicomObject, ts: &str) -> Option<FileDicomObject<InMemDicomObject>> {
    obj.with_meta(
        FileMetaTableBuilder::new()
            .transfer_syntax(ts)
            .media_storage_sop_class_uid("1.2.840.10008.5.1.4.1.1.7")
            .media_storage_sop_instance_uid("1.2.3"),
    )
    .ok()
}

/// pixel data adapter input for the direct codec calls
struct Px {
    rows: u16,
    cols: u16,
    spp: u16,
    bits: u16,
    frames: u32,
    frags: Vec<Vec<u8>>,
    ts: String,
}

impl PixelDataObject for Px {
    fn transfer_syntax_uid(&self) -> &str {
        &self.ts
    }
    fn rows(&self) -> Option<u16> {
        Some(self.rows)
    }
    fn cols(&self) -> Option<u16> {
        Some(self.cols)
    }
    fn samples_per_pixel(&self) -> Option<u16> {
        Some(self.spp)
    }
    fn bits_allocated(&self) -> Option<u16> {
        Some(self.bits)
    }
    fn bits_stored(&self) -> Option<u16> {
        Some(self.bits)
    }
    fn photometric_interpretation(&self) -> Option<&str> {
        Some(if self.spp == 3 { "RGB" } else { "MONOCHROME2" })
    }
    fn number_of_frames(&self) -> Option<u32> {
        Some(self.frames)
    }
    fn number_of_fragments(&self) -> Option<u32> {
        Some(self.frags.len() as u32)
    }
    fn fragment(&self, fragment: usize) -> Option<std::borrow::Cow<'_, [u8]>> {
        self.frags.get(fragment).map(|f| std::borrow::Cow::Borrowed(&f[..]))
    }
    fn offset_table(&self) -> Option<std::borrow::Cow<'_, [u32]>> {
        Some(std::borrow::Cow::Borrowed(&[]))
    }
    fn raw_pixel_data(&self) -> Option<RawPixelData> {
        Some(RawPixelData { fragments: self.frags.clone().into(), offset_table: Default::default() })
    }
}

/// `kind` selects the entry point, `arg` its parameters, `data` the untrusted bytes
pub fn exec_case(kind: &str, arg: &str, data: &[u8]) -> String {
    let mut out: Vec<String> = vec![];
    match kind {
        "file" => {
            // arg = preamble option + odd length strategy
            let pre = match arg.as_bytes().first() {
                Some(b'n') => ReadPreamble::Never,
                Some(b'a') => ReadPreamble::Always,
                _ => ReadPreamble::Auto,
            };
            let odd = match arg.as_bytes().get(1) {
                Some(b'e') => OddLengthStrategy::NextEven,
                Some(b'f') => OddLengthStrategy::Fail,
                _ => OddLengthStrategy::Accept,
            };
            let o = stage("read", &mut out, || {
                e(OpenFileOptions::new().read_preamble(pre).odd_length_strategy(odd).from_reader(data))
            });
            if let Some(o) = o {
                after_read(&o, &mut out);
            }
        }
        "meta" => {
            stage("read", &mut out, || e(FileMetaTable::from_reader(data).map(|_| ())));
        }
        "ds" => {
            // eager object reader; arg = transfer syntax uid
            let ts = ts_of(arg);
            let o = stage("read", &mut out, || e(InMemDicomObject::read_dataset_with_ts(data, ts)));
            if let Some(o) = o {
                stage("dump", &mut out, || e(dicom_dump::DumpOptions::new().dump_object_to(std::io::sink(), &o)));
                if o.element(tags::PIXEL_DATA).is_ok() {
                    if let Some(f) = as_file(o, arg) {
                        stage("px", &mut out, || e(f.decode_pixel_data().map(|_| ())));
                        stage("frame", &mut out, || e(f.decode_pixel_data_frame(0).map(|_| ())));
                    }
                }
            }
        }
        "tok" | "tokflex" => {
            // eager token reader (optionally with flexible VR detection)
            let ts = ts_of(arg);
            stage("read", &mut out, || {
                let opts = DataSetReaderOptions::default().flexible_decoding(kind == "tokflex");
                let rd = e(DataSetReader::new_with_ts_options(data, ts, opts))?;
                let mut n = 0u64;
                for t in rd {
                    e(t)?;
                    n += 1;
                    if n > 50_000_000 {
                        return Err(());
                    }
                }
                Ok(())
            });
        }
        "lazy" => {
            let ts = ts_of(arg);
            stage("read", &mut out, || {
                let mut rd = e(LazyDataSetReader::new_with_ts(Cursor::new(data), ts))?;
                let mut n = 0u64;
                while let Some(t) = rd.advance() {
                    let t = e(t)?;
                    match t {
                        t @ LazyDataToken::LazyValue { .. } | t @ LazyDataToken::LazyItemValue { .. } => {
                            if n % 2 == 0 {
                                e(t.skip())?;
                            } else {
                                e(t.into_owned().map(|_| ()))?;
                            }
                        }
                        _ => {}
                    }
                    n += 1;
                    if n > 50_000_000 {
                        return Err(());
                    }
                }
                Ok(())
            });
        }
        "coll" => {
            // collector over a whole file: meta, data set up to pixel data, offset table, fragments
            let mut c = DicomCollector::new(BufReader::new(Cursor::new(data)));
            let m = stage("meta", &mut out, || e(c.read_file_meta().map(|_| ())));
            if m.is_some() {
                let mut o = InMemDicomObject::new_empty();
                let step = arg.as_bytes().first().copied().unwrap_or(b'p');
                let r = stage("ds", &mut out, || match step {
                    b'e' => e(c.read_dataset_to_end(&mut o)),
                    b'u' => e(c.read_dataset_up_to(Tag(0x0028, 0x0000), &mut o)),
                    _ => e(c.read_dataset_up_to_pixeldata(&mut o)),
                });
                if r.is_some() && step != b'e' {
                    let mut bot = vec![];
                    stage("bot", &mut out, || e(c.read_basic_offset_table(&mut bot).map(|_| ())));
                    stage("frags", &mut out, || {
                        let mut buf = vec![];
                        for _ in 0..100_000 {
                            match e(c.read_next_fragment(&mut buf))? {
                                Some(_) => buf.clear(),
                                None => break,
                            }
                        }
                        Ok(())
                    });
                    stage("rest", &mut out, || e(c.read_dataset_to_end(&mut o)));
                }
                stage("dump", &mut out, || e(dicom_dump::DumpOptions::new().dump_object_to(std::io::sink(), &o)));
            }
        }
        "json" => {
            let text = String::from_utf8_lossy(data);
            let o = stage("read", &mut out, || e(dicom_json::from_str::<InMemDicomObject>(&text)));
            if let Some(o) = o {
                stage("dump", &mut out, || e(dicom_dump::DumpOptions::new().dump_object_to(std::io::sink(), &o)));
            }
        }
        "pdu" => {
            eprintln!("@stage read");
            let strict = arg.starts_with('s');
            let max: u32 = arg[1..].parse().unwrap_or(16384);
            let r = std::panic::catch_unwind(|| dicom_ul::pdu::read_pdu(Cursor::new(data), max, strict));
            out.push(match r {
                Ok(Ok(Some(_))) => "read:ok".into(),
                Ok(Ok(None)) => "read:inc".into(),
                Ok(Err(_)) => "read:err".into(),
                Err(_) => format!("read:panic:{}", LAST_PANIC.lock().unwrap().take().unwrap_or_default()),
            });
        }
        "px" | "codec" => {
            // arg = ts,rows,cols,spp,bits,frames ; data = fragments as (u32 LE length, bytes)*
            let a: Vec<&str> = arg.split(',').collect();
            let nums: Vec<u32> = a[1..].iter().map(|x| x.parse().unwrap_or(0)).collect();
            let mut frags = vec![];
            let mut p = 0usize;
            while p + 4 <= data.len() {
                let n = u32::from_le_bytes([data[p], data[p + 1], data[p + 2], data[p + 3]]) as usize;
                p += 4;
                let n = n.min(data.len() - p);
                frags.push(data[p..p + n].to_vec());
                p += n;
            }
            let (rows, cols, spp, bits, frames) = (nums[0] as u16, nums[1] as u16, nums[2] as u16, nums[3] as u16, nums[4]);
            if kind == "codec" {
                // the registry's pixel data reader, called directly
                let ts = ts_of(a[0]);
                let px = Px { rows, cols, spp, bits, frames, frags, ts: a[0].to_string() };
                if let Codec::EncapsulatedPixelData(Some(rd), _) = ts.codec() {
                    let mut dst = vec![];
                    stage("all", &mut out, || e(rd.decode(&px, &mut dst)));
                    let mut dst = vec![];
                    stage("frame", &mut out, || e(rd.decode_frame(&px, 0, &mut dst)));
                    let mut dst = vec![7u8; 3];
                    stage("framelast", &mut out, || e(rd.decode_frame(&px, frames.saturating_sub(1), &mut dst)));
                } else {
                    out.push("all:nocodec".into());
                }
            } else {
                let mut o = InMemDicomObject::new_empty();
                o.put(DataElement::new(tags::SAMPLES_PER_PIXEL, VR::US, PrimitiveValue::from(spp)));
                o.put(DataElement::new(tags::PHOTOMETRIC_INTERPRETATION, VR::CS, if spp == 3 { "RGB" } else { "MONOCHROME2" }));
                o.put(DataElement::new(tags::PLANAR_CONFIGURATION, VR::US, PrimitiveValue::from(0u16)));
                o.put(DataElement::new(tags::NUMBER_OF_FRAMES, VR::IS, frames.to_string()));
                o.put(DataElement::new(tags::ROWS, VR::US, PrimitiveValue::from(rows)));
                o.put(DataElement::new(tags::COLUMNS, VR::US, PrimitiveValue::from(cols)));
                o.put(DataElement::new(tags::BITS_ALLOCATED, VR::US, PrimitiveValue::from(bits)));
                o.put(DataElement::new(tags::BITS_STORED, VR::US, PrimitiveValue::from(bits)));
                o.put(DataElement::new(tags::HIGH_BIT, VR::US, PrimitiveValue::from(bits.saturating_sub(1))));
                o.put(DataElement::new(tags::PIXEL_REPRESENTATION, VR::US, PrimitiveValue::from(0u16)));
                o.put(DataElement::new(
                    tags::PIXEL_DATA,
                    VR::OB,
                    Value::PixelSequence(PixelFragmentSequence::new(Vec::<u32>::new(), frags)),
                ));
                if let Some(f) = as_file(o, a[0]) {
                    stage("px", &mut out, || e(f.decode_pixel_data().map(|_| ())));
                    stage("frame", &mut out, || e(f.decode_pixel_data_frame(0).map(|_| ())));
                    stage("framelast", &mut out, || e(f.decode_pixel_data_frame(frames.saturating_sub(1)).map(|_| ())));
                    stage("dump", &mut out, || e(dicom_dump::DumpOptions::new().dump_file_to(std::io::sink(), &f)));
                } else {
                    out.push("px:nometa".into());
                }
            }
        }
        "hdr" => {
            // one element header (arg = transfer syntax) and one item header
            use dicom_encoding::decode::DecodeFrom;
            eprintln!("@stage read");
            let ts = ts_of(arg);
            let r = std::panic::catch_unwind(std::panic::AssertUnwindSafe(|| {
                let dec = ts.decoder_for::<&[u8]>().ok_or(())?;
                let mut src: &[u8] = data;
                dec.decode_header(&mut src).map(|(_, n)| n).map_err(|_| ())
            }));
            out.push(match r {
                Ok(Ok(n)) => format!("read:ok={}", n),
                Ok(Err(())) => "read:err".into(),
                Err(_) => format!("read:panic:{}", LAST_PANIC.lock().unwrap().take().unwrap_or_default()),
            });
            let r = std::panic::catch_unwind(std::panic::AssertUnwindSafe(|| {
                let dec = ts.decoder_for::<&[u8]>().ok_or(())?;
                let mut src: &[u8] = data;
                dec.decode_item_header(&mut src).map(|_| ()).map_err(|_| ())
            }));
            out.push(match r {
                Ok(Ok(())) => "item:ok".into(),
                Ok(Err(())) => "item:err".into(),
                Err(_) => format!("item:panic:{}", LAST_PANIC.lock().unwrap().take().unwrap_or_default()),
            });
        }
        "text" => {
            // arg = which parser; data = the string (lossy UTF-8 for the `&str` parsers)
            eprintln!("@stage read");
            let s = String::from_utf8_lossy(data).to_string();
            let r: Result<Result<String, ()>, _> = std::panic::catch_unwind(|| match arg {
                "tag" => s.parse::<Tag>().map(|t| format!("{:04x}{:04x}", t.0, t.1)).map_err(|_| ()),
                "sel" => StandardDataDictionary.parse_selector(&s).map(|x| x.to_string().len().to_string()).map_err(|_| ()),
                "ptag" => StandardDataDictionary.parse_tag(&s).map(|t| format!("{:04x}{:04x}", t.0, t.1)).ok_or(()),
                "date" => dicom_core::value::deserialize::parse_date(data).map(|_| String::new()).map_err(|_| ()),
                "datep" => dicom_core::value::deserialize::parse_date_partial(data).map(|_| String::new()).map_err(|_| ()),
                "time" => dicom_core::value::deserialize::parse_time(data).map(|_| String::new()).map_err(|_| ()),
                "timep" => dicom_core::value::deserialize::parse_time_partial(data).map(|_| String::new()).map_err(|_| ()),
                "dtp" => dicom_core::value::deserialize::parse_datetime_partial(data).map(|_| String::new()).map_err(|_| ()),
                "dater" => dicom_core::value::range::parse_date_range(data).map(|_| String::new()).map_err(|_| ()),
                "timer" => dicom_core::value::range::parse_time_range(data).map(|_| String::new()).map_err(|_| ()),
                "dtr" => dicom_core::value::range::parse_datetime_range(data).map(|_| String::new()).map_err(|_| ()),
                _ => Err(()),
            });
            out.push(match r {
                Ok(Ok(v)) => {
                    if v.is_empty() {
                        "read:ok".into()
                    } else {
                        format!("read:ok={}", v)
                    }
                }
                Ok(Err(())) => "read:err".into(),
                Err(_) => format!("read:panic:{}", LAST_PANIC.lock().unwrap().take().unwrap_or_default()),
            });
        }
        _ => out.push("unknown-kind".into()),
    }
    if out.is_empty() {
        out.push("none".into());
    }
    out.join(",")
}
