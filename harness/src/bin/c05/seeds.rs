//! Valid seeds for every entry point and the mutations applied to them.
use crate::gen;
use crate::img::Img;
use crate::objs::{self, Pix};
use dicom_core::value::{PixelFragmentSequence, Value};
use dicom_core::{DataElement, Tag, VR};
use dicom_dictionary_std::tags;
use dicom_encoding::TransferSyntaxIndex;
use dicom_object::{FileDicomObject, InMemDicomObject};
use dicom_pixeldata::Transcode;
use dicom_transfer_syntax_registry::TransferSyntaxRegistry;
use dicom_ul::pdu::*;
use verif_harness::util::Rng;

pub const NATIVE_TS: &[&str] = &[objs::IMPLICIT_LE, objs::EXPLICIT_LE, objs::EXPLICIT_BE, objs::DEFLATED_LE];
pub const ENCAPS_TS: &[&str] = &[objs::ENCAP_UNCOMPRESSED, objs::JPEG_BASELINE, objs::RLE_LOSSLESS, "1.2.840.10008.1.2.4.70", "1.2.840.10008.1.2.8.1"];

/// every transfer syntax of the registry the data set readers accept
pub fn all_dataset_ts() -> Vec<&'static str> {
    let mut v: Vec<&'static str> = TransferSyntaxRegistry
        .iter()
        .filter(|t| !t.is_unsupported() || t.uid() == objs::DEFLATED_LE)
        .map(|t| t.uid())
        .collect();
    v.sort();
    v
}

/// PackBits, literal runs only
fn packbits(data: &[u8]) -> Vec<u8> {
    let mut out = vec![];
    for c in data.chunks(128) {
        out.push((c.len() - 1) as u8);
        out.extend_from_slice(c);
    }
    if out.len() % 2 == 1 {
        out.push(0x80);
    }
    out
}

/// one RLE Lossless fragment for one frame
pub fn rle_fragment(rows: usize, cols: usize, spp: usize, bytes_per_sample: usize, r: &mut Rng) -> Vec<u8> {
    let nseg = spp * bytes_per_sample;
    let mut segs = vec![];
    for _ in 0..nseg {
        let plane: Vec<u8> = (0..rows * cols).map(|_| r.below(5) as u8 * 50).collect();
        segs.push(packbits(&plane));
    }
    let mut out = vec![0u8; 64];
    out[0..4].copy_from_slice(&(nseg as u32).to_le_bytes());
    let mut off = 64u32;
    for (i, s) in segs.iter().enumerate() {
        out[4 + 4 * i..8 + 4 * i].copy_from_slice(&off.to_le_bytes());
        off += s.len() as u32;
    }
    for s in segs {
        out.extend(s);
    }
    out
}

pub struct ImgSeed {
    pub ts: &'static str,
    pub rows: u16,
    pub cols: u16,
    pub spp: u16,
    pub bits: u16,
    pub frames: u32,
    pub frags: Vec<Vec<u8>>,
    pub file: FileDicomObject<InMemDicomObject>,
}

/// a small valid image in an encapsulated transfer syntax (real encoders where the crate has one)
pub fn image_seed(r: &mut Rng) -> ImgSeed {
    let rows = r.usize(1, 9) as u16;
    let cols = r.usize(1, 9) as u16;
    let spp = if r.chance(1, 3) { 3 } else { 1 };
    let bits = if spp == 1 && r.chance(1, 2) { 16 } else { 8 };
    let frames = r.usize(1, 3) as u32;
    let n = rows as usize * cols as usize * spp as usize * (bits as usize / 8) * frames as usize;
    let im = Img {
        rows,
        cols,
        spp,
        bits,
        frames,
        frames_attr: true,
        data: r.bytes(n),
        ob: false,
        planar: 0,
        mono1: false,
    };
    let mut f = im.object(objs::EXPLICIT_LE);
    let which = r.below(4);
    let ts: &'static str = match which {
        0 => objs::RLE_LOSSLESS,
        1 => objs::JPEG_BASELINE,
        2 => objs::ENCAP_UNCOMPRESSED,
        _ => "1.2.840.10008.1.2.8.1",
    };
    let frags: Vec<Vec<u8>>;
    if ts == objs::RLE_LOSSLESS {
        frags = (0..frames).map(|_| rle_fragment(rows as usize, cols as usize, spp as usize, bits as usize / 8, r)).collect();
        f.put(DataElement::new(
            tags::PIXEL_DATA,
            VR::OB,
            Value::PixelSequence(PixelFragmentSequence::new(Vec::<u32>::new(), frags.clone())),
        ));
        f.meta_mut().set_transfer_syntax(TransferSyntaxRegistry.get(ts).unwrap());
    } else {
        let target = TransferSyntaxRegistry.get(ts).unwrap();
        if (bits == 16 && ts == objs::JPEG_BASELINE) || f.transcode(target).is_err() {
            // keep it native: still a valid seed
            return ImgSeed { ts: objs::EXPLICIT_LE, rows, cols, spp, bits, frames, frags: vec![im.data.clone()], file: im.object(objs::EXPLICIT_LE) };
        }
        frags = match f.element(tags::PIXEL_DATA).map(|e| e.value().clone()) {
            Ok(Value::PixelSequence(s)) => s.fragments().iter().map(|x| x.to_vec()).collect(),
            _ => vec![],
        };
    }
    ImgSeed { ts, rows, cols, spp, bits, frames, frags, file: f }
}

pub fn object_seed(r: &mut Rng, encaps: bool) -> InMemDicomObject {
    if r.chance(1, 2) {
        let mut sh = objs::gen_shape(r, false);
        if sh.pix == Pix::Encapsulated && !encaps {
            sh.pix = Pix::Native;
        }
        if sh.pix == Pix::Native && encaps {
            sh.pix = Pix::Encapsulated;
        }
        objs::gen_object(r, &sh)
    } else {
        let o = gen::GenOpts { max_depth: 3, pixel: encaps, charset: true, empty_frags: true };
        gen::to_object(&gen::gen_dataset(r, 0, &o))
    }
}

/// a complete file in transfer syntax `ts`
pub fn file_seed(r: &mut Rng) -> (Vec<u8>, &'static str) {
    let mut out = vec![];
    if r.chance(1, 4) {
        let s = image_seed(r);
        if s.file.write_all(&mut out).is_ok() {
            return (out, s.ts);
        }
        out.clear();
    }
    let encaps = r.chance(1, 4);
    let ts = if encaps { *r.pick(ENCAPS_TS) } else { *r.pick(NATIVE_TS) };
    let f = objs::with_meta(object_seed(r, encaps), ts);
    if f.write_all(&mut out).is_err() {
        out.clear();
        objs::with_meta(InMemDicomObject::new_empty(), ts).write_all(&mut out).unwrap();
    }
    (out, ts)
}

pub fn dataset_seed(r: &mut Rng, ts: &str) -> Vec<u8> {
    let t = TransferSyntaxRegistry.get(ts).unwrap();
    let encaps = !NATIVE_TS.contains(&ts);
    let o = object_seed(r, encaps);
    let mut out = vec![];
    if o.write_dataset_with_ts(&mut out, t).is_err() {
        out.clear();
    }
    out
}

/// `depth` unterminated nested sequences (Explicit VR LE, or implicit), optionally closed
pub fn nested(depth: usize, implicit: bool, close: bool) -> Vec<u8> {
    let mut out = vec![];
    for _ in 0..depth {
        out.extend_from_slice(&[0x40, 0x00, 0x75, 0x02]);
        if !implicit {
            out.extend_from_slice(b"SQ\0\0");
        }
        out.extend_from_slice(&[0xFF; 4]);
        out.extend_from_slice(&[0xFE, 0xFF, 0x00, 0xE0, 0xFF, 0xFF, 0xFF, 0xFF]);
    }
    if close {
        for _ in 0..depth {
            out.extend_from_slice(&[0xFE, 0xFF, 0x0D, 0xE0, 0, 0, 0, 0]);
            out.extend_from_slice(&[0xFE, 0xFF, 0xDD, 0xE0, 0, 0, 0, 0]);
        }
    }
    out
}

/// a short random sequence of structural tokens (item headers, delimiters, sequence headers,
/// pixel data headers, small elements) outside of any well-formed nesting
pub fn delimiter_soup(r: &mut Rng, implicit: bool) -> Vec<u8> {
    let mut out = vec![];
    let n = r.usize(1, 8);
    for _ in 0..n {
        match r.below(7) {
            0 => {
                out.extend_from_slice(&[0xFE, 0xFF, 0x00, 0xE0]);
                out.extend_from_slice(&(*r.pick(&[0u32, 0xFFFF_FFFF, 8, 2])).to_le_bytes());
            }
            1 => out.extend_from_slice(&[0xFE, 0xFF, 0x0D, 0xE0, 0, 0, 0, 0]),
            2 => out.extend_from_slice(&[0xFE, 0xFF, 0xDD, 0xE0, 0, 0, 0, 0]),
            3 => {
                out.extend_from_slice(&[0x40, 0x00, 0x75, 0x02]);
                if !implicit {
                    out.extend_from_slice(b"SQ\0\0");
                }
                out.extend_from_slice(&(*r.pick(&[0u32, 0xFFFF_FFFF, 8, 16])).to_le_bytes());
            }
            4 => {
                out.extend_from_slice(&[0xE0, 0x7F, 0x10, 0x00]);
                if !implicit {
                    out.extend_from_slice(b"OB\0\0");
                }
                out.extend_from_slice(&(*r.pick(&[0u32, 0xFFFF_FFFF, 2])).to_le_bytes());
            }
            _ => {
                out.extend_from_slice(&[0x10, 0x00, 0x20, 0x00]);
                if implicit {
                    out.extend_from_slice(&[2, 0, 0, 0]);
                } else {
                    out.extend_from_slice(b"LO");
                    out.extend_from_slice(&[2, 0]);
                }
                out.extend_from_slice(b"A ");
            }
        }
    }
    out
}

pub fn json_seed(r: &mut Rng) -> Vec<u8> {
    let enc = r.chance(1, 5);
    let o = object_seed(r, enc);
    match dicom_json::to_string(&o) {
        Ok(s) => s.into_bytes(),
        Err(_) => br#"{"00100010":{"vr":"PN","Value":[{"Alphabetic":"Doe^John"}]}}"#.to_vec(),
    }
}

pub fn pdu_seed(r: &mut Rng) -> Vec<u8> {
    let pdu = match r.below(8) {
        0 => Pdu::ReleaseRQ,
        1 => Pdu::ReleaseRP,
        2 => Pdu::AbortRQ { source: AbortRQSource::ServiceUser },
        3 => Pdu::AssociationRJ(AssociationRJ {
            result: AssociationRJResult::Permanent,
            source: AssociationRJSource::ServiceUser(AssociationRJServiceUserReason::CalledAETitleNotRecognized),
        }),
        4 => Pdu::AssociationRQ(AssociationRQ {
            protocol_version: 1,
            calling_ae_title: "SCU".into(),
            called_ae_title: "ANY-SCP".into(),
            application_context_name: "1.2.840.10008.3.1.1.1".into(),
            presentation_contexts: (0..r.usize(1, 3))
                .map(|i| PresentationContextProposed {
                    id: (2 * i + 1) as u8,
                    abstract_syntax: "1.2.840.10008.1.1".into(),
                    transfer_syntaxes: vec![objs::IMPLICIT_LE.into(), objs::EXPLICIT_LE.into()],
                })
                .collect(),
            user_variables: vec![
                UserVariableItem::MaxLength(16384),
                UserVariableItem::ImplementationClassUID("1.2.3.4".into()),
                UserVariableItem::ImplementationVersionName("VERIF".into()),
                UserVariableItem::SopClassExtendedNegotiationSubItem("1.2.840.10008.1.1".into(), vec![1, 2, 3]),
                UserVariableItem::UserIdentityItem(UserIdentity::new(true, UserIdentityType::UsernamePassword, b"me".to_vec(), b"pw".to_vec())),
                UserVariableItem::Unknown(0x77, vec![9, 9]),
            ],
        }),
        5 => Pdu::AssociationAC(AssociationAC {
            protocol_version: 1,
            calling_ae_title: "SCU".into(),
            called_ae_title: "ANY-SCP".into(),
            application_context_name: "1.2.840.10008.3.1.1.1".into(),
            presentation_contexts: vec![PresentationContextResult {
                id: 1,
                reason: PresentationContextResultReason::Acceptance,
                transfer_syntax: objs::IMPLICIT_LE.into(),
            }],
            user_variables: vec![UserVariableItem::MaxLength(16384)],
        }),
        6 => Pdu::Unknown { pdu_type: 0x42, data: r.bytes(5) },
        _ => {
            let n = r.usize(1, 3);
            Pdu::PData {
                data: (0..n)
                    .map(|i| {
                        let len = r.usize(0, 40);
                        PDataValue {
                            presentation_context_id: 1,
                            value_type: if r.chance(1, 2) { PDataValueType::Command } else { PDataValueType::Data },
                            is_last: i == n - 1,
                            data: r.bytes(len),
                        }
                    })
                    .collect(),
            }
        }
    };
    let mut out = vec![];
    let _ = write_pdu(&mut out, &pdu);
    out
}

pub const TEXT_KINDS: &[&str] = &["tag", "sel", "ptag", "date", "datep", "time", "timep", "dtp", "dater", "timer", "dtr"];

pub fn text_seed(r: &mut Rng, which: &str) -> Vec<u8> {
    let s: String = match which {
        "tag" | "ptag" => match r.below(5) {
            0 => "(0010,0010)".into(),
            1 => "7FE00010".into(),
            2 => "0008,103e".into(),
            3 => "PatientName".into(),
            _ => format!("({:04X},{:04x})", r.below(65536), r.below(65536)),
        },
        "sel" => match r.below(5) {
            0 => "PatientName".into(),
            1 => "OtherPatientIDsSequence[1].PatientID".into(),
            2 => "(0040,A730)[12].(0040,A730).00100010".into(),
            3 => "ReferencedStudySequence.ReferencedSOPInstanceUID".into(),
            _ => "(0008,1140)[0].0008,1155".into(),
        },
        "date" | "datep" => match r.below(4) {
            0 => "20240229".into(),
            1 => "1999".into(),
            2 => "202401".into(),
            _ => format!("{:04}{:02}{:02}", r.below(10000), r.below(14), r.below(33)),
        },
        "time" | "timep" => match r.below(4) {
            0 => "123015.123456".into(),
            1 => "12".into(),
            2 => "235960".into(),
            _ => format!("{:02}{:02}{:02}.{}", r.below(25), r.below(61), r.below(62), r.below(1000000)),
        },
        "dtp" => match r.below(4) {
            0 => "20240229123015.5+0100".into(),
            1 => "2024-0500".into(),
            2 => "20240229123015.123456".into(),
            _ => "202402291230+1400".into(),
        },
        "dater" => (*r.pick(&["20200101-20211231", "-20200101", "20200101-", "2020-2021", "20200101"])).into(),
        "timer" => (*r.pick(&["1000-1230", "-1230", "10-", "101010.5-12", "12"])).into(),
        _ => (*r.pick(&["20200101-20211231", "2020010112+0100-202101", "-2021", "20200101123015.5-", "2020+0200-2021-0500"])).into(),
    };
    s.into_bytes()
}

// ---------------------------------------------------------------- mutations

const EDGE32: &[u32] = &[0xFFFF_FFFF, 0xFFFF_FFF0, 0xFFFF_FFFE, 0x7FFF_FFFF, 0x8000_0000, 0, 1, 3, 5, 0x0001_0000, 0xFFFF, 0x0100_0000];
const VRS: &[&[u8; 2]] = &[b"SQ", b"UN", b"OB", b"OW", b"UT", b"ZZ", b"US", b"AT", b"DS", b"PN", b"UC", b"OV", b"\0\0", b"ox"];

fn put32(d: &mut [u8], p: usize, v: u32, be: bool) {
    if p + 4 <= d.len() {
        d[p..p + 4].copy_from_slice(&if be { v.to_be_bytes() } else { v.to_le_bytes() });
    }
}

/// positions whose 4 bytes look like a length field (small value, even offset)
fn length_like(d: &[u8], be: bool) -> Vec<usize> {
    let mut v = vec![];
    let mut p = 0;
    while p + 4 <= d.len() {
        let x = if be { u32::from_be_bytes([d[p], d[p + 1], d[p + 2], d[p + 3]]) } else { u32::from_le_bytes([d[p], d[p + 1], d[p + 2], d[p + 3]]) };
        if x == 0xFFFF_FFFF || (x as usize) <= d.len() {
            v.push(p);
        }
        p += 2;
    }
    v
}

/// one structure-aware or byte-level mutation; returns its name
pub fn mutate_binary(r: &mut Rng, d: &mut Vec<u8>, be: bool) -> &'static str {
    if d.is_empty() {
        d.extend(r.bytes(8));
        return "fill";
    }
    match r.below(16) {
        0 => {
            let n = r.usize(0, d.len() - 1);
            d.truncate(n);
            "truncate"
        }
        1 => {
            let n = d.len() - r.usize(0, 12.min(d.len()));
            d.truncate(n);
            "truncate-tail"
        }
        2 | 3 | 4 => {
            // a length-like field becomes huge / odd / undefined
            let c = length_like(d, be);
            if c.is_empty() {
                return "none";
            }
            let p = *r.pick(&c);
            let v = if r.chance(1, 4) { d.len() as u32 + r.below(3) as u32 } else { *r.pick(EDGE32) };
            put32(d, p, v, be);
            "length"
        }
        5 => {
            let p = r.usize(0, d.len() - 1) & !1;
            let v = *r.pick(EDGE32);
            put32(d, p, v, be != r.chance(1, 8));
            "u32"
        }
        6 => {
            // bad VR: find two upper-case letters at an even offset
            let c: Vec<usize> = (0..d.len().saturating_sub(1)).step_by(2).filter(|&p| d[p].is_ascii_uppercase() && d[p + 1].is_ascii_uppercase()).collect();
            if c.is_empty() {
                return "none";
            }
            let p = *r.pick(&c);
            let v = *r.pick(VRS);
            d[p] = v[0];
            d[p + 1] = v[1];
            "vr"
        }
        7 => {
            // wrong / extra delimiter
            let p = r.usize(0, d.len()) & !1;
            let el: u16 = *r.pick(&[0xE000u16, 0xE00D, 0xE0DD, 0xE0FF]);
            let mut ins = vec![];
            if be {
                ins.extend_from_slice(&[0xFF, 0xFE]);
                ins.extend_from_slice(&el.to_be_bytes());
            } else {
                ins.extend_from_slice(&[0xFE, 0xFF]);
                ins.extend_from_slice(&el.to_le_bytes());
            }
            let l = *r.pick(&[0u32, 0xFFFF_FFFF, 4, 0xFFFF_FFF0]);
            ins.extend_from_slice(&if be { l.to_be_bytes() } else { l.to_le_bytes() });
            d.splice(p.min(d.len())..p.min(d.len()), ins);
            "delimiter"
        }
        8 => {
            let p = r.usize(0, d.len() - 1);
            d[p] = *r.pick(&[0u8, 0xFF, 0x7F, 0x80, 0x01, 0xFE]);
            "byte"
        }
        9 => {
            let p = r.usize(0, d.len() - 1);
            d[p] ^= 1 << r.below(8);
            "bit"
        }
        10 => {
            let a = r.usize(0, d.len() - 1);
            let b = (a + r.usize(1, 64)).min(d.len());
            let chunk = d[a..b].to_vec();
            let p = r.usize(0, d.len());
            d.splice(p..p, chunk);
            "dup"
        }
        11 => {
            let a = r.usize(0, d.len() - 1);
            let b = (a + r.usize(1, 32)).min(d.len());
            d.drain(a..b);
            "del"
        }
        12 => {
            let p = r.usize(0, d.len());
            let n = r.usize(1, 16);
            let ins = r.bytes(n);
            d.splice(p..p, ins);
            "ins"
        }
        13 => {
            // tag group/element to a special value
            let p = r.usize(0, d.len() - 1) & !3;
            let v: [u8; 4] = *r.pick(&[[0xE0, 0x7F, 0x10, 0x00], [0xFE, 0xFF, 0x00, 0xE0], [0x08, 0x00, 0x05, 0x00], [0x02, 0x00, 0x10, 0x00], [0x28, 0x00, 0x08, 0x00]]);
            if p + 4 <= d.len() {
                d[p..p + 4].copy_from_slice(&v);
            }
            "tag"
        }
        14 => {
            let p = r.usize(0, d.len() - 1) & !1;
            if p + 2 <= d.len() {
                let v: u16 = *r.pick(&[0u16, 0xFFFF, 0xFFFE, 1, 0x8000]);
                d[p..p + 2].copy_from_slice(&v.to_le_bytes());
            }
            "u16"
        }
        _ => {
            let n = r.usize(1, 4);
            for _ in 0..n {
                let p = r.usize(0, d.len() - 1);
                d[p] = r.next_u64() as u8;
            }
            "rand"
        }
    }
}

pub fn mutate_text(r: &mut Rng, d: &mut Vec<u8>) -> &'static str {
    match r.below(12) {
        10 | 11 => {
            // length-preserving: a multi-byte character takes the place of as many bytes
            let c = *r.pick(&["\u{e9}", "\u{20ac}", "\u{1F600}", "\u{7ff}", "\u{ffff}"]);
            let l = c.len();
            if d.len() < l {
                return "none";
            }
            let p = r.usize(0, d.len() - l);
            d.splice(p..p + l, c.bytes());
            "multibyte-replace"
        }
        0 => {
            let n = r.usize(0, d.len());
            d.truncate(n);
            "truncate"
        }
        1 => {
            let p = r.usize(0, d.len());
            let ins = *r.pick(&["\u{e9}", "\u{20ac}", "\u{1F600}", "\u{0}", "\u{7f}", "\u{a0}"]);
            d.splice(p..p, ins.bytes());
            "multibyte"
        }
        2 => {
            if d.is_empty() {
                return "none";
            }
            let p = r.usize(0, d.len() - 1);
            d[p] = *r.pick(b"()[],.-+:9aFgZ \\/\x80\xff");
            "char"
        }
        3 => {
            let p = r.usize(0, d.len());
            let n = r.usize(1, 30);
            let ins: Vec<u8> = (0..n).map(|_| b'0' + r.below(10) as u8).collect();
            d.splice(p..p, ins);
            "digits"
        }
        4 => {
            if d.is_empty() {
                return "none";
            }
            let a = r.usize(0, d.len() - 1);
            d.remove(a);
            "del"
        }
        5 => {
            let s = d.clone();
            d.extend_from_slice(*r.pick(&[b".", b"-", b"[", b"]", b"+"]));
            d.extend(s);
            "double"
        }
        6 => {
            let n = r.usize(0, 12);
            *d = r.bytes(n);
            "random"
        }
        7 => {
            let n = r.usize(1, 300);
            let c = *r.pick(b"9[(.A");
            *d = vec![c; n];
            "long"
        }
        8 => {
            for b in d.iter_mut() {
                if r.chance(1, 4) {
                    *b = b.to_ascii_uppercase();
                }
            }
            "case"
        }
        _ => {
            if d.len() >= 2 {
                let a = r.usize(0, d.len() - 2);
                d.swap(a, a + 1);
            }
            "swap"
        }
    }
}

pub fn mutate_json(r: &mut Rng, d: &mut Vec<u8>) -> &'static str {
    let s = String::from_utf8_lossy(d).to_string();
    let rep = |s: &str, a: &str, b: &str, r: &mut Rng| -> Option<String> {
        let idx: Vec<usize> = s.match_indices(a).map(|(i, _)| i).collect();
        if idx.is_empty() {
            return None;
        }
        let i = *r.pick(&idx);
        Some(format!("{}{}{}", &s[..i], b, &s[i + a.len()..]))
    };
    let (name, t): (&'static str, Option<String>) = match r.below(12) {
        0 => ("vr", {
            let v = *r.pick(&["SQ", "OB", "AT", "PN", "UN", "ZZ", "DS", "US", "FD", "OW", "UV", "SV"]);
            let idx: Vec<usize> = s.match_indices("\"vr\":\"").map(|(i, _)| i + 6).collect();
            if idx.is_empty() {
                None
            } else {
                let i = *r.pick(&idx);
                Some(format!("{}{}{}", &s[..i], v, &s[(i + 2).min(s.len())..]))
            }
        }),
        1 => ("value-to-inline", rep(&s, "\"Value\":", "\"InlineBinary\":", r)),
        2 => ("both", rep(&s, "\"Value\":", "\"InlineBinary\":\"AA==\",\"Value\":", r)),
        3 => ("bulk", rep(&s, "\"Value\":", "\"BulkDataURI\":\"x\",\"Value\":", r)),
        4 => ("num-to-str", rep(&s, ":[", ":[\"\u{e9}abc\",", r)),
        5 => ("huge-number", rep(&s, ":[", ":[1e999,-18446744073709551617,", r)),
        6 => ("null", rep(&s, ":[", ":[null,{},[],", r)),
        7 => ("key", {
            let k = *r.pick(&["\"abc\u{e9}abc\"", "\"0010001\"", "\"(0010,0010)\"", "\"PatientName\"", "\"\"", "\"7FE00010\"", "\"00100010\""]);
            match s.find('"') {
                Some(i) if i + 10 <= s.len() => Some(format!("{}{}{}", &s[..i], k, &s[i + 10..])),
                _ => None,
            }
        }),
        8 => ("nest", {
            let n = *r.pick(&[3usize, 50, 130, 1000]);
            Some(format!("{}{}{}", "{\"00400275\":{\"vr\":\"SQ\",\"Value\":[".repeat(n), "{}", "]}}".repeat(n)))
        }),
        9 => ("truncate", {
            let mut n = r.usize(0, s.len());
            while !s.is_char_boundary(n) {
                n -= 1;
            }
            Some(s[..n].to_string())
        }),
        10 => ("pn", rep(&s, "\"Alphabetic\":", "\"Alphabetic\":5,\"Ideographic\":[],\"Phonetic\":", r)),
        _ => ("bytes", {
            let mut b = d.clone();
            mutate_text(r, &mut b);
            Some(String::from_utf8_lossy(&b).to_string())
        }),
    };
    match t {
        Some(t) => {
            *d = t.into_bytes();
            name
        }
        None => "none",
    }
}

#[allow(dead_code)]
pub fn unused(_: Tag) {}
