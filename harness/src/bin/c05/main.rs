//! C05 — untrusted input never makes a reader panic, abort or hang.
//! STRUCTURE-AWARE FUZZING of the real public reading entry points (release build).
//!
//! `c05 run …`   parent: generates one (entry point, input) per case from (seed, index), hands it to a
//!               worker process and waits with a time budget. A worker that dies (abort, stack
//!               overflow, allocation failure under the address-space limit) or does not answer in
//!               time is a case result (`abort:<how>` / `hang`), and is replaced.
//! `c05 worker`  child (re-exec of this binary under `ulimit -v`): runs each case on a fresh thread
//!               with an 8 MiB stack, every stage under `catch_unwind`.
mod entries;
#[path = "../c01/gen.rs"]
mod gen;
#[path = "../c18/img.rs"]
mod img;
#[path = "../c34/objs.rs"]
mod objs;
mod seeds;

use std::io::{BufRead, BufReader, Write};
use std::process::{Child, ChildStdin, Command, Stdio};
use std::sync::mpsc::{channel, Receiver, RecvTimeoutError};
use std::time::Duration;
use verif_harness::util::*;

/// address-space limit of the worker in KiB (512 MiB): a length field must not make it abort
const VM_LIMIT_KB: u64 = 512 * 1024;

struct Case {
    kind: String,
    arg: String,
    muts: Vec<&'static str>,
    data: Vec<u8>,
}

fn gen_case(seed: u64, i: u64, thorough: bool) -> Case {
    let mut r = Rng::for_case(seed, i);
    let r = &mut r;
    let nmut = match r.below(10) {
        0 => 0,
        1..=5 => 1,
        6..=8 => 2,
        _ => r.usize(3, 6),
    };
    let mut muts = vec![];
    // a few dedicated deep-nesting cases (stack exhaustion is an abort)
    if i % 97 == 13 {
        let depth = *r.pick(&[64usize, 1000, 10_000, if thorough { 400_000 } else { 120_000 }]);
        let implicit = r.chance(1, 2);
        let close = r.chance(1, 2);
        let body = seeds::nested(depth, implicit, close);
        let ts = if implicit { objs::IMPLICIT_LE } else { objs::EXPLICIT_LE };
        muts.push("nest");
        let which = r.below(5);
        if which == 0 {
            let mut f = vec![];
            objs::with_meta(dicom_object::InMemDicomObject::new_empty(), ts).write_all(&mut f).unwrap();
            f.extend(body);
            return Case { kind: "file".into(), arg: "x".into(), muts, data: f };
        }
        let kind = ["ds", "ds", "tok", "lazy", "tokflex"][which as usize];
        return Case { kind: kind.into(), arg: ts.into(), muts, data: body };
    }
    if i % 29 == 3 {
        // header decoders on short and damaged input
        let ts = *r.pick(&[objs::IMPLICIT_LE, objs::EXPLICIT_LE, objs::EXPLICIT_BE]);
        let mut d = seeds::dataset_seed(r, ts);
        if r.chance(1, 2) {
            d = seeds::delimiter_soup(r, ts == objs::IMPLICIT_LE);
        }
        d.truncate(r.usize(0, 14));
        for _ in 0..nmut {
            muts.push(seeds::mutate_binary(r, &mut d, ts == objs::EXPLICIT_BE));
        }
        d.truncate(40);
        return Case { kind: "hdr".into(), arg: ts.into(), muts, data: d };
    }
    if i % 31 == 5 {
        // structural tokens in disorder: the reader state machines off the beaten track
        let implicit = r.chance(1, 2);
        let ts = if implicit { objs::IMPLICIT_LE } else { objs::EXPLICIT_LE };
        let kind = *r.pick(&["lazy", "lazy", "tok", "tokflex", "ds"]);
        muts.push("soup");
        return Case { kind: kind.into(), arg: ts.into(), muts, data: seeds::delimiter_soup(r, implicit) };
    }
    match r.below(100) {
        0..=24 => {
            let (mut d, ts) = seeds::file_seed(r);
            let be = ts == objs::EXPLICIT_BE;
            for _ in 0..nmut {
                // the file meta group is little endian: mutate mostly beyond it
                let lo = if r.chance(3, 4) { 132.min(d.len()) } else { 0 };
                let mut tail = d.split_off(lo);
                muts.push(seeds::mutate_binary(r, &mut tail, be && lo > 0));
                d.extend(tail);
            }
            let arg = format!("{}{}", r.pick(&["x", "x", "n", "a"]), r.pick(&["a", "a", "e", "f"]));
            Case { kind: "file".into(), arg, muts, data: d }
        }
        25..=28 => {
            let (d, _) = seeds::file_seed(r);
            let mut d = d[128.min(d.len())..].to_vec();
            d.truncate(400);
            for _ in 0..nmut {
                muts.push(seeds::mutate_binary(r, &mut d, false));
            }
            Case { kind: "meta".into(), arg: "-".into(), muts, data: d }
        }
        29..=52 => {
            let all = seeds::all_dataset_ts();
            let ts = if r.chance(2, 3) { *r.pick(&[objs::IMPLICIT_LE, objs::EXPLICIT_LE, objs::EXPLICIT_BE, objs::DEFLATED_LE, objs::RLE_LOSSLESS]) } else { *r.pick(&all) };
            let mut d = seeds::dataset_seed(r, ts);
            let be = ts == objs::EXPLICIT_BE;
            if ts == objs::DEFLATED_LE && r.chance(1, 2) {
                // mutate before compression: the decoder sees a valid deflate stream of a bad data set
                let mut plain = seeds::dataset_seed(r, objs::EXPLICIT_LE);
                for _ in 0..nmut {
                    muts.push(seeds::mutate_binary(r, &mut plain, false));
                }
                let t = entries::ts_of(objs::DEFLATED_LE);
                if let dicom_encoding::transfer_syntax::Codec::Dataset(Some(a)) = t.codec() {
                    let mut out = vec![];
                    {
                        let mut w = a.adapt_writer(Box::new(&mut out));
                        let _ = w.write_all(&plain);
                    }
                    d = out;
                }
                muts.push("recompressed");
            } else {
                for _ in 0..nmut {
                    muts.push(seeds::mutate_binary(r, &mut d, be));
                }
            }
            let kind = *r.pick(&["ds", "ds", "tok", "tokflex", "lazy", "lazy"]);
            Case { kind: kind.into(), arg: ts.into(), muts, data: d }
        }
        53..=59 => {
            let (mut d, ts) = seeds::file_seed(r);
            let be = ts == objs::EXPLICIT_BE;
            for _ in 0..nmut {
                let lo = if r.chance(3, 4) { 132.min(d.len()) } else { 0 };
                let mut tail = d.split_off(lo);
                muts.push(seeds::mutate_binary(r, &mut tail, be && lo > 0));
                d.extend(tail);
            }
            Case { kind: "coll".into(), arg: (*r.pick(&["p", "p", "e", "u"])).into(), muts, data: d }
        }
        60..=67 => {
            let mut d = seeds::json_seed(r);
            for _ in 0..nmut {
                muts.push(seeds::mutate_json(r, &mut d));
            }
            Case { kind: "json".into(), arg: "-".into(), muts, data: d }
        }
        68..=75 => {
            let mut d = seeds::pdu_seed(r);
            if r.chance(1, 4) {
                d.extend(seeds::pdu_seed(r));
            }
            // structure-preserving shrink: one (sub-)item of an A-ASSOCIATE-RQ/AC is cut to a few bytes and every
            // enclosing length is recomputed, so that the outer length checks pass and the inner reader is reached
            if r.chance(1, 2) && shrink_assoc_item(r, &mut d) {
                muts.push("item-shrink");
            }
            for _ in 0..nmut {
                if d.len() >= 6 && r.chance(1, 3) {
                    // the PDU length (or an item length) becomes a small number: bodies around the
                    // sizes of the fixed parts (4, 6, 68 bytes)
                    let v = *r.pick(&[0u32, 1, 2, 3, 4, 5, 6, 35, 36, 37, 67, 68, 69, 70, 74]);
                    let v = if r.chance(1, 2) { v } else { r.below(100) as u32 };
                    d[2..6].copy_from_slice(&v.to_be_bytes());
                    muts.push("pdu-length");
                    if r.chance(1, 2) {
                        d.truncate(6 + v as usize);
                    }
                } else {
                    muts.push(seeds::mutate_binary(r, &mut d, true));
                }
            }
            let arg = format!("{}{}", if r.chance(1, 2) { "s" } else { "l" }, r.pick(&[16384u32, 4096, 1018, 100, 4294967288]));
            Case { kind: "pdu".into(), arg, muts, data: d }
        }
        76..=87 => {
            let s = seeds::image_seed(r);
            let mut frags = s.frags.clone();
            let (mut rows, mut cols, mut spp, mut bits, mut frames) = (s.rows as u32, s.cols as u32, s.spp as u32, s.bits as u32, s.frames);
            let ts = if s.ts == objs::EXPLICIT_LE { objs::RLE_LOSSLESS } else { s.ts };
            // RLE header boundaries: the 64-byte header holds a segment count (at most 15) and 15 offsets; sweep
            // the count around its limit against fragment lengths around the header size
            let hdr_sweep = r.chance(1, 4);
            if hdr_sweep {
                let c = *r.pick(&[0u32, 1, 2, 3, 14, 15, 15, 16, 16, 16, 17, 20, 255, 65536]);
                let l = *r.pick(&[0usize, 3, 4, 5, 8, 60, 63, 64, 65, 66, 67, 68, 69, 72, 128]);
                let mut f = if frags.is_empty() { vec![] } else { frags[0].clone() };
                if f.len() < 4 {
                    f.resize(4, 0);
                }
                f[0..4].copy_from_slice(&c.to_le_bytes());
                f.resize(l, 0);
                if frags.is_empty() {
                    frags.push(f);
                } else {
                    frags[0] = f;
                }
                muts.push("rlehdr");
            }
            let ts = if hdr_sweep { objs::RLE_LOSSLESS } else { ts };
            for _ in 0..(if hdr_sweep { 0 } else { nmut }) {
                match r.below(8) {
                    0 => {
                        let v = *r.pick(&[0u32, 1, 2, 3, 255, 256, 4096, 65535]);
                        match r.below(3) {
                            0 => rows = v,
                            1 => cols = v,
                            _ => frames = *r.pick(&[0u32, 1, 2, 7, 1000, 0x7FFF_FFFF]),
                        }
                        muts.push("dims");
                    }
                    1 => {
                        spp = *r.pick(&[0u32, 1, 2, 3, 4, 255]);
                        muts.push("spp");
                    }
                    2 => {
                        bits = *r.pick(&[0u32, 1, 7, 8, 12, 16, 24, 32, 64]);
                        muts.push("bits");
                    }
                    3 => {
                        if !frags.is_empty() {
                            let k = r.usize(0, frags.len() - 1);
                            frags.remove(k);
                        }
                        muts.push("dropfrag");
                    }
                    4 => {
                        frags.push(vec![]);
                        muts.push("emptyfrag");
                    }
                    5 => {
                        if !frags.is_empty() {
                            let k = r.usize(0, frags.len() - 1);
                            let n = r.usize(0, 6.min(frags[k].len()));
                            frags[k].truncate(n);
                        }
                        muts.push("shortfrag");
                    }
                    _ => {
                        if !frags.is_empty() {
                            let k = r.usize(0, frags.len() - 1);
                            // RLE headers are little endian; JPEG segment lengths big endian
                            let mut head = frags[k].clone();
                            let keep = if r.chance(1, 2) { 64.min(head.len()) } else { head.len() };
                            let mut tail = head.split_off(keep);
                            muts.push(seeds::mutate_binary(r, &mut head, ts == objs::JPEG_BASELINE));
                            head.append(&mut tail);
                            frags[k] = head;
                        }
                    }
                }
            }
            let mut d = vec![];
            for f in &frags {
                d.extend_from_slice(&(f.len() as u32).to_le_bytes());
                d.extend_from_slice(f);
            }
            let kind = if r.chance(1, 2) { "codec" } else { "px" };
            Case { kind: kind.into(), arg: format!("{},{},{},{},{},{}", ts, rows, cols, spp, bits, frames), muts, data: d }
        }
        _ => {
            // the tag parser is behind three of the entry points: give it a third of the text cases
            let which = if r.chance(1, 3) { "tag" } else { *r.pick(seeds::TEXT_KINDS) };
            let mut d = seeds::text_seed(r, which);
            for _ in 0..nmut {
                muts.push(seeds::mutate_text(r, &mut d));
            }
            // the `&str` parsers get valid UTF-8 (lossy conversion done here so that the line shows it)
            if matches!(which, "tag" | "sel" | "ptag") {
                d = String::from_utf8_lossy(&d).into_owned().into_bytes();
            }
            Case { kind: "text".into(), arg: which.into(), muts, data: d }
        }
    }
}

/// `d` = one A-ASSOCIATE-RQ/AC PDU (type 1 or 2): pick a variable item or a user-information sub-item, cut its
/// body to 0..=8 bytes (optionally dropping what follows it), and fix the item, user-information and PDU lengths
fn shrink_assoc_item(r: &mut Rng, d: &mut Vec<u8>) -> bool {
    if d.len() < 74 || !(d[0] == 1 || d[0] == 2) {
        return false;
    }
    let plen = u32::from_be_bytes([d[2], d[3], d[4], d[5]]) as usize;
    if 6 + plen != d.len() {
        return false;
    }
    // variable items start at offset 74
    fn items(b: &[u8]) -> Option<Vec<(usize, usize)>> {
        // (offset of the item, body length)
        let mut v = vec![];
        let mut i = 0;
        while i < b.len() {
            if i + 4 > b.len() {
                return None;
            }
            let l = u16::from_be_bytes([b[i + 2], b[i + 3]]) as usize;
            if i + 4 + l > b.len() {
                return None;
            }
            v.push((i, l));
            i += 4 + l;
        }
        Some(v)
    }
    let Some(top) = items(&d[74..]) else { return false };
    let Some(&(uo, ul)) = top.iter().find(|(o, _)| d[74 + o] == 0x50) else { return false };
    let ubody = 74 + uo + 4;
    let in_user = r.chance(3, 4);
    if in_user {
        let Some(subs) = items(&d[ubody..ubody + ul]) else { return false };
        if subs.is_empty() {
            return false;
        }
        let (so, sl) = *r.pick(&subs);
        let k = r.usize(0, sl.min(8));
        let keep_rest = r.chance(1, 2);
        let mut nb: Vec<u8> = d[ubody..ubody + so + 4 + k].to_vec();
        nb[so + 2..so + 4].copy_from_slice(&(k as u16).to_be_bytes());
        if keep_rest {
            nb.extend_from_slice(&d[ubody + so + 4 + sl..ubody + ul]);
        }
        let tail: Vec<u8> = d[ubody + ul..].to_vec();
        d.truncate(ubody);
        d[ubody - 2..ubody].copy_from_slice(&(nb.len() as u16).to_be_bytes());
        d.extend(nb);
        d.extend(tail);
    } else {
        let (o, l) = *r.pick(&top);
        let k = r.usize(0, l.min(8));
        let start = 74 + o;
        let tail: Vec<u8> = d[start + 4 + l..].to_vec();
        d.truncate(start + 4 + k);
        d[start + 2..start + 4].copy_from_slice(&(k as u16).to_be_bytes());
        d.extend(tail);
    }
    let n = (d.len() - 6) as u32;
    d[2..6].copy_from_slice(&n.to_be_bytes());
    true
}

struct Worker {
    child: Child,
    stdin: ChildStdin,
    rx: Receiver<String>,
    errfile: std::path::PathBuf,
    slot: usize,
}

fn spawn_worker(slot: usize) -> Worker {
    let exe = std::env::current_exe().expect("current_exe");
    let dir = std::env::var("VERIF_WORK").unwrap_or_else(|_| std::env::temp_dir().to_string_lossy().to_string());
    let errfile = std::path::Path::new(&dir).join(format!("c05-worker-{}-{}.stderr", std::process::id(), slot));
    let errf = std::fs::File::create(&errfile).expect("stderr file");
    let mut child = Command::new("sh")
        .arg("-c")
        .arg(format!("ulimit -v {}; exec \"$0\" worker", VM_LIMIT_KB))
        .arg(exe)
        .env("RUST_BACKTRACE", "0")
        .env("MALLOC_ARENA_MAX", "1")
        .env("TZ", "UTC")
        .stdin(Stdio::piped())
        .stdout(Stdio::piped())
        .stderr(Stdio::from(errf))
        .spawn()
        .expect("spawn worker");
    let stdin = child.stdin.take().unwrap();
    let stdout = child.stdout.take().unwrap();
    let (tx, rx) = channel();
    std::thread::spawn(move || {
        for line in BufReader::new(stdout).lines() {
            match line {
                Ok(l) => {
                    if tx.send(l).is_err() {
                        break;
                    }
                }
                Err(_) => break,
            }
        }
    });
    Worker { child, stdin, rx, errfile, slot }
}

/// the stage the worker was in when it died (it announces every stage on stderr)
fn last_stage(err: &str) -> String {
    err.lines().rev().find_map(|l| l.strip_prefix("@stage ")).unwrap_or("start").to_string()
}

fn how_died(w: &mut Worker) -> String {
    use std::os::unix::process::ExitStatusExt;
    let st = w.child.wait();
    let err = std::fs::read_to_string(&w.errfile).unwrap_or_default();
    if err.contains("memory allocation of") {
        return format!("{}:abort:alloc", last_stage(&err));
    }
    if err.contains("overflowed its stack") {
        return format!("{}:abort:stack", last_stage(&err));
    }
    let stage = last_stage(&err);
    match st {
        Ok(st) => match (st.signal(), st.code()) {
            (Some(s), _) => format!("{}:abort:sig{}", stage, s),
            (_, Some(c)) => format!("{}:abort:exit{}", stage, c),
            _ => format!("{}:abort:unknown", stage),
        },
        Err(_) => format!("{}:abort:unknown", stage),
    }
}

fn worker_main() {
    entries::install_hook();
    let stdin = std::io::stdin();
    let mut out = std::io::stdout();
    for line in stdin.lock().lines() {
        let line = match line {
            Ok(l) => l,
            Err(_) => break,
        };
        let mut it = line.splitn(3, ' ');
        let kind = it.next().unwrap_or("").to_string();
        let arg = it.next().unwrap_or("-").to_string();
        let data = unhex(it.next().unwrap_or("-"));
        eprintln!("@stage start");
        let h = std::thread::Builder::new()
            .stack_size(8 << 20)
            .spawn(move || entries::exec_case(&kind, &arg, &data))
            .expect("thread");
        let res = h.join().unwrap_or_else(|_| "thread:panic:join".into());
        let _ = writeln!(out, "{}", res);
        let _ = out.flush();
    }
}

fn main() {
    let a = parse_args();
    if a.mode == "worker" {
        worker_main();
        return;
    }
    if a.mode == "one" {
        // `c05 one <kind> <arg> <hex>`: run a single input in this process (debugging aid)
        entries::install_hook();
        println!("{}", entries::exec_case(&a.extra[0], &a.extra[1], &unhex(&a.extra[2])));
        return;
    }
    if a.mode == "gen" {
        for i in case_indices(&a) {
            let t = std::time::Instant::now();
            let c = gen_case(a.seed, i, a.thorough);
            println!("#{} {} {} {} {}us", i, c.kind, c.arg, c.data.len(), t.elapsed().as_micros());
        }
        return;
    }
    let budget = Duration::from_secs(if a.thorough { 40 } else { 20 });
    // the cases are independent (each generated from (seed, index) alone): shard them over several
    // worker processes; the lines are printed in index order
    let jobs: usize = std::env::var("C05_JOBS").ok().and_then(|v| v.parse().ok()).unwrap_or_else(|| {
        std::thread::available_parallelism().map(|n| n.get()).unwrap_or(4).clamp(1, 12)
    });
    let indices: Vec<u64> = case_indices(&a).collect();
    let jobs = jobs.min(indices.len().max(1));
    let (seed, thorough) = (a.seed, a.thorough);
    let mut handles = Vec::new();
    for slot in 0..jobs {
        let mine: Vec<u64> = indices.iter().copied().skip(slot).step_by(jobs).collect();
        handles.push(std::thread::spawn(move || {
            let mut lines: Vec<(u64, String)> = Vec::new();
            let mut w = spawn_worker(slot);
            for i in mine {
                let c = gen_case(seed, i, thorough);
                lines.push((i, run_case(&mut w, i, &c, budget)));
            }
            let errfile = w.errfile.clone();
            drop(w.stdin);
            let _ = w.child.wait();
            let _ = std::fs::remove_file(errfile);
            lines
        }));
    }
    let mut all: Vec<(u64, String)> = handles.into_iter().flat_map(|h| h.join().expect("shard thread")).collect();
    all.sort_by_key(|x| x.0);
    // a case that missed its budget twice while the other shards were running is judged once more alone,
    // with a ten-fold budget: only then is it a hang (a loaded machine must not produce the verdict)
    if jobs > 1 {
        for (i, l) in all.iter_mut() {
            if l.ends_with(":hang") {
                let c = gen_case(seed, *i, thorough);
                let mut w = spawn_worker(jobs);
                *l = run_case(&mut w, *i, &c, budget * 10);
                let errfile = w.errfile.clone();
                drop(w.stdin);
                let _ = w.child.kill();
                let _ = w.child.wait();
                let _ = std::fs::remove_file(errfile);
            }
        }
    }
    let mut out = Out::new();
    for (_, l) in all {
        out.line(&l);
    }
}

/// one case on worker `w` (respawned in place when it dies or hangs): the case line
fn run_case(w: &mut Worker, i: u64, c: &Case, budget: Duration) -> String {
    let slot = w.slot;
    let hexd = hex(&c.data);
    let t0 = std::time::Instant::now();
    let sent = writeln!(w.stdin, "{} {} {}", c.kind, c.arg, hexd).and_then(|_| w.stdin.flush());
    let outcome = if sent.is_err() {
        let d = how_died(w);
        *w = spawn_worker(slot);
        d
    } else {
        match w.rx.recv_timeout(budget) {
            Ok(l) => l,
            Err(RecvTimeoutError::Timeout) => {
                // the machine is shared: give the case a second, longer chance before calling it a hang
                let _ = w.child.kill();
                let _ = w.child.wait();
                let st = last_stage(&std::fs::read_to_string(&w.errfile).unwrap_or_default());
                *w = spawn_worker(slot);
                let again = writeln!(w.stdin, "{} {} {}", c.kind, c.arg, hexd).and_then(|_| w.stdin.flush());
                match (again, w.rx.recv_timeout(budget * 4)) {
                    (Ok(()), Ok(l)) => l,
                    (Ok(()), Err(RecvTimeoutError::Disconnected)) => {
                        let d = how_died(w);
                        *w = spawn_worker(slot);
                        d
                    }
                    _ => {
                        let _ = w.child.kill();
                        let _ = w.child.wait();
                        *w = spawn_worker(slot);
                        format!("{}:hang", st)
                    }
                }
            }
            Err(RecvTimeoutError::Disconnected) => {
                let d = how_died(w);
                *w = spawn_worker(slot);
                d
            }
        }
    };
    if std::env::var("C05_TIMING").is_ok() {
        eprintln!("#{} {} {} {}ms {}", i, c.kind, c.arg, t0.elapsed().as_millis(), &outcome[..outcome.len().min(60)]);
    }
    let shown = if c.data.len() <= 3000 { hexd } else { format!("big:{}", c.data.len()) };
    let muts = if c.muts.is_empty() { "valid".to_string() } else { c.muts.join("+") };
    format!("#{} {} {} {} {} {}", i, c.kind, c.arg, muts, shown, outcome)
}
