//! C19 — lossless transcoding preserves pixel data exactly.
//! Random native images × every registry target that is native or has a lossless encoder:
//! real `Transcode::transcode` there, then back to Explicit VR Little Endian — once purely in
//! memory and once through a written and re-read file in the target transfer syntax.
#[path = "c18/img.rs"]
mod img;
use dicom_core::value::{PixelFragmentSequence, Value};
use dicom_core::{DataElement, VR};
use dicom_dictionary_std::tags;
use dicom_encoding::{Codec, TransferSyntaxIndex};
use dicom_object::{FileDicomObject, InMemDicomObject};
use dicom_pixeldata::Transcode;
use dicom_transfer_syntax_registry::{entries, TransferSyntaxRegistry};
use verif_harness::util::*;

/// transfer syntaxes whose compression is mathematically lossless by definition (PS3.5 / PS3.6)
const LOSSLESS_UIDS: &[&str] = &[
    "1.2.840.10008.1.2.1.98",  // Encapsulated Uncompressed Explicit VR Little Endian
    "1.2.840.10008.1.2.8.1",   // Deflated Image Frame Compression
    "1.2.840.10008.1.2.5",     // RLE Lossless
    "1.2.840.10008.1.2.4.57",  // JPEG Lossless, Non-Hierarchical (Process 14)
    "1.2.840.10008.1.2.4.70",  // JPEG Lossless SV1
    "1.2.840.10008.1.2.4.80",  // JPEG-LS Lossless
    "1.2.840.10008.1.2.4.90",  // JPEG 2000 Lossless Only
    "1.2.840.10008.1.2.4.92",  // JPEG 2000 Part 2 Lossless Only
    "1.2.840.10008.1.2.4.201", // HTJ2K Lossless Only
    "1.2.840.10008.1.2.4.202", // HTJ2K RPCL Lossless Only
    "1.2.840.10008.1.2.4.110", // JPEG XL Lossless
];

/// (uid, class) of every target in scope: `nat` = pixel data not encapsulated,
/// `enc` = encapsulated with a registered lossless encoder and decoder
fn targets() -> Vec<(&'static str, &'static str)> {
    let mut v: Vec<(&'static str, &'static str)> = TransferSyntaxRegistry
        .iter()
        .filter_map(|ts| match ts.codec() {
            Codec::EncapsulatedPixelData(Some(_), Some(_)) if LOSSLESS_UIDS.contains(&ts.uid()) => {
                Some((ts.uid(), "enc"))
            }
            Codec::EncapsulatedPixelData(..) => None,
            Codec::Dataset(None) => None,
            _ => Some((ts.uid(), "nat")),
        })
        .collect();
    v.sort();
    v
}

type Obj = FileDicomObject<InMemDicomObject>;

/// `ok <ts> <vr> <rows> <cols> <spp> <bits> <frames|none> <total length|none> <pixel data>`
fn describe(o: &Obj) -> String {
    let int = |t| -> String {
        o.element(t)
            .ok()
            .and_then(|e| e.to_int::<u64>().ok())
            .map(|x| x.to_string())
            .unwrap_or("none".into())
    };
    let e = match o.element(tags::PIXEL_DATA) {
        Ok(e) => e,
        Err(_) => return "nopixel".into(),
    };
    let px = match e.value() {
        Value::Primitive(p) => hex(&p.to_bytes()),
        _ => return "notnative".into(),
    };
    format!(
        "ok {} {:?} {} {} {} {} {} {} {}",
        o.meta().transfer_syntax().trim_end_matches('\0'),
        e.vr(),
        int(tags::ROWS),
        int(tags::COLUMNS),
        int(tags::SAMPLES_PER_PIXEL),
        int(tags::BITS_ALLOCATED),
        int(tags::NUMBER_OF_FRAMES),
        int(tags::ENCAPSULATED_PIXEL_DATA_VALUE_TOTAL_LENGTH),
        px
    )
}

/// the intermediate object: `nat <len>` or `enc <fragment lengths>`
fn hop1(o: &Obj) -> String {
    match o.element(tags::PIXEL_DATA).map(|e| e.value().clone()) {
        Ok(Value::Primitive(p)) => format!("nat {}", p.to_bytes().len()),
        Ok(Value::PixelSequence(s)) => format!(
            "enc {}",
            if s.fragments().is_empty() {
                "-".to_string()
            } else {
                s.fragments().iter().map(|f| f.len().to_string()).collect::<Vec<_>>().join(",")
            }
        ),
        _ => "other".into(),
    }
}


/// one frame as a fragment of the target syntax, made without the adapters of the registry:
/// as it is for encapsulated uncompressed, as a single *stored* deflate block otherwise;
/// padded to even length
fn independent_fragment(uid: &str, frame: &[u8]) -> Vec<u8> {
    let mut f = if uid == "1.2.840.10008.1.2.1.98" {
        frame.to_vec()
    } else {
        let n = frame.len() as u16;
        let mut v = vec![0x01, n as u8, (n >> 8) as u8, !n as u8, (!n >> 8) as u8];
        v.extend_from_slice(frame);
        v
    };
    if f.len() % 2 == 1 {
        f.push(0);
    }
    f
}

fn main() {
    img::keep_heap();
    let a = parse_args();
    quiet_panics();
    let tg = targets();
    let mut out = Out::new();
    if a.mode == "list" {
        for (u, c) in &tg {
            out.line(&format!("{} {}", u, c));
        }
        return;
    }
    let enc: Vec<_> = tg.iter().filter(|t| t.1 == "enc").cloned().collect();
    let nat: Vec<_> = tg.iter().filter(|t| t.1 == "nat").cloned().collect();
    for i in case_indices(&a) {
        let mut r = Rng::for_case(a.seed, i);
        let (uid, class) = if r.chance(3, 5) && !enc.is_empty() { *r.pick(&enc) } else { *r.pick(&nat) };
        let bits: u16 = if r.chance(1, 2) { 8 } else { 16 };
        let spp: u16 = if r.chance(1, 3) { 3 } else { 1 };
        // odd dimensions are favoured: odd frame byte length for 8-bit data
        let dim = |r: &mut Rng| -> u16 {
            match r.below(4) {
                0 => 1,
                1 => 2 * r.range(0, 3) as u16 + 1,
                _ => r.range(1, 7) as u16,
            }
        };
        let rows = dim(&mut r);
        let cols = dim(&mut r);
        let frames = match r.below(5) {
            0 => 1,
            _ => r.range(1, 5) as u32,
        };
        let frames_attr = frames != 1 || r.chance(1, 2);
        let n = rows as usize * cols as usize * spp as usize * (bits as usize / 8) * frames as usize;
        let mut data = r.bytes(n);
        if r.chance(1, 8) {
            // trailing zero samples: a dropped or added pad byte must not hide behind them
            let k = r.usize(1, n.min(4));
            for b in data[n - k..].iter_mut() {
                *b = 0;
            }
        }
        let im = img::Img {
            rows,
            cols,
            spp,
            bits,
            frames,
            frames_attr,
            data,
            ob: r.chance(1, 2),
            planar: if spp == 3 && r.chance(1, 3) { 1 } else { 0 },
            mono1: r.chance(1, 4),
        };
        // one direction only: an encapsulated object made by hand, decoded to Explicit VR LE
        if r.chance(1, 5) && (uid == "1.2.840.10008.1.2.1.98" || uid == "1.2.840.10008.1.2.8.1") {
            let fsz = im.frame_size();
            let frags: Vec<Vec<u8>> = (0..frames as usize)
                .map(|f| independent_fragment(uid, &im.data[f * fsz..(f + 1) * fsz]))
                .collect();
            let mut off = 0u32;
            let table: Vec<u32> = frags
                .iter()
                .map(|f| {
                    let o = off;
                    off += f.len() as u32 + 8;
                    o
                })
                .collect();
            let with_table = r.chance(2, 3);
            let head = format!(
                "dec {} {} {} {} {} {} {} {} {}",
                uid,
                rows,
                cols,
                spp,
                bits,
                frames,
                frames_attr as u8,
                with_table as u8,
                hex(&im.data)
            );
            let im1 = im.clone();
            let res = catch(move || {
                let mut o = im1.object(uid);
                let seq = if with_table {
                    PixelFragmentSequence::new(table, frags)
                } else {
                    PixelFragmentSequence::new_fragments(frags)
                };
                o.put(DataElement::new(tags::PIXEL_DATA, VR::OB, Value::PixelSequence(seq)));
                if o.transcode(&entries::EXPLICIT_VR_LITTLE_ENDIAN.erased()).is_err() {
                    return "err".to_string();
                }
                describe(&o)
            })
            .unwrap_or_else(|_| "panic".into());
            out.line(&format!("#{} {} => {}", i, head, res));
            continue;
        }
        let src = *r.pick(&["1.2.840.10008.1.2", "1.2.840.10008.1.2.1", "1.2.840.10008.1.2.2"]);
        let head = format!(
            "rt {} {} {} {} {} {} {} {} {} {} {} {}",
            uid,
            class,
            match src {
                "1.2.840.10008.1.2" => "ile",
                "1.2.840.10008.1.2.1" => "ele",
                _ => "ebe",
            },
            rows,
            cols,
            spp,
            bits,
            frames,
            frames_attr as u8,
            im.planar,
            (im.ob && bits == 8) as u8,
            hex(&im.data)
        );
        // purely in memory
        let im1 = im.clone();
        let mem = catch(move || {
            let ts = TransferSyntaxRegistry.get(uid).unwrap();
            let mut o = im1.object(src);
            if o.transcode(ts).is_err() {
                return "err1".to_string();
            }
            let h = hop1(&o);
            if o.transcode(&entries::EXPLICIT_VR_LITTLE_ENDIAN.erased()).is_err() {
                return format!("{} err2", h);
            }
            format!("{} {}", h, describe(&o))
        })
        .unwrap_or_else(|_| "panic".into());
        // through a file in the target transfer syntax
        let im2 = im.clone();
        let file = catch(move || {
            let ts = TransferSyntaxRegistry.get(uid).unwrap();
            let mut o = im2.object(src);
            if o.transcode(ts).is_err() {
                return "err1".to_string();
            }
            let mut buf = Vec::new();
            if o.write_all(&mut buf).is_err() {
                return "werr".to_string();
            }
            let mut o = match dicom_object::from_reader(&buf[..]) {
                Ok(o) => o,
                Err(_) => return "rerr".to_string(),
            };
            let h = hop1(&o);
            if o.transcode(&entries::EXPLICIT_VR_LITTLE_ENDIAN.erased()).is_err() {
                return format!("{} err2", h);
            }
            format!("{} {}", h, describe(&o))
        })
        .unwrap_or_else(|_| "panic".into());
        out.line(&format!("#{} {} => mem {} file {}", i, head, mem, file));
    }
}
