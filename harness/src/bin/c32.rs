//! C32 — storescp stores exactly what it receives, only inside its output directory.
//!
//! A scripted requestor (real `dicom_ul` client API) talks over loopback to the REAL
//! `dicom-storescp` binary (built from the working tree, `$VERIF_TOOLS/dicom-storescp`),
//! in blocking and `--non-blocking` mode. Every case is one association with 1–3 messages
//! (C-STORE, sometimes C-ECHO); the whole sandbox tree is snapshotted before and after.
//!
//! Line (all strings hex of UTF-8, byte strings hex):
//! `#i <sync|async> <gdir> <cwd> <dirarg> <outabs> D n dir* P n (id ts)* V n (pc c|d last data)*
//!  X n canon* R n (rsp pc field msgid status cls inst)* <end> T n (kind path raw canon)*`
use dicom_core::value::{DataSetSequence, PixelFragmentSequence, Value};
use dicom_core::{dicom_value, DataElement, PrimitiveValue, Tag, VR};
use dicom_dictionary_std::{tags, uids};
use dicom_encoding::transfer_syntax::TransferSyntaxIndex;
use dicom_object::InMemDicomObject;
use dicom_transfer_syntax_registry::TransferSyntaxRegistry;
use dicom_ul::pdu::{PDataValue, PDataValueType, PresentationContextResultReason};
use dicom_ul::{ClientAssociationOptions, Pdu};
use std::collections::BTreeMap;
use std::path::{Path, PathBuf};
use std::process::{Child, Command, Stdio};
use std::time::{Duration, Instant};
use verif_harness::util::*;

const GROUP: u64 = 12;
const IMPLICIT: &str = "1.2.840.10008.1.2";
const EXPLICIT: &str = "1.2.840.10008.1.2.1";

const TS_LIST: &[&str] = &[
    IMPLICIT,
    EXPLICIT,
    "1.2.840.10008.1.2.2",    // explicit VR big endian (retired)
    "1.2.840.10008.1.2.4.50", // JPEG baseline (encapsulated)
    "1.2.840.10008.1.2.5",    // RLE lossless (encapsulated)
    "1.2.840.10008.1.2.4.90", // JPEG 2000 lossless (encapsulated)
    "1.2.840.10008.1.2.1.98", // encapsulated uncompressed
    "1.2.840.10008.1.2.1.99", // deflated explicit VR little endian
];

const SOP_CLASSES: &[&str] = &[
    uids::CT_IMAGE_STORAGE,
    uids::MR_IMAGE_STORAGE,
    uids::SECONDARY_CAPTURE_IMAGE_STORAGE,
    uids::ENHANCED_CT_IMAGE_STORAGE,
    uids::DIGITAL_X_RAY_IMAGE_STORAGE_FOR_PRESENTATION,
    uids::ENCAPSULATED_PDF_STORAGE,
];

fn encapsulated(ts: &str) -> bool {
    !matches!(ts, IMPLICIT | EXPLICIT | "1.2.840.10008.1.2.2" | "1.2.840.10008.1.2.1.99")
}

// ---------------------------------------------------------------------------------------------
// sandbox + server

struct Server {
    child: Child,
    port: u16,
    asynch: bool,
    gdir: PathBuf,
    cwd: PathBuf,
    out: PathBuf,
    dirarg: String,
}

impl Drop for Server {
    fn drop(&mut self) {
        let _ = self.child.kill();
        let _ = self.child.wait();
    }
}

fn free_port() -> u16 {
    let l = std::net::TcpListener::bind(("0.0.0.0", 0)).expect("bind port 0");
    l.local_addr().unwrap().port()
}

fn tool(name: &str) -> PathBuf {
    let dir = std::env::var("VERIF_TOOLS").unwrap_or_else(|_| "/verif/.target/repo-tools/release".into());
    Path::new(&dir).join(name)
}

fn launch(base: &Path, seed: u64, g: u64) -> Server {
    let mut r = Rng::for_case(seed, (1u64 << 40) + g);
    let gdir = base.join(format!("g{g}"));
    let cwd = gdir.join("l1").join("l2");
    let out = cwd.join("out");
    let _ = std::fs::remove_dir_all(&gdir);
    std::fs::create_dir_all(out.join("sub")).unwrap();
    std::fs::create_dir_all(cwd.join("sibling")).unwrap();
    std::fs::write(cwd.join("sibling").join("sentinel.txt"), b"sentinel").unwrap();
    std::fs::write(gdir.join("l1").join("keep.txt"), b"keep").unwrap();
    let asynch = g % 2 == 1;
    let dirarg = match r.below(5) {
        0 => "out".to_string(),
        1 => "out/".to_string(),
        2 => "./out".to_string(),
        3 => format!("{}/", out.display()),
        _ => out.display().to_string(),
    };
    let maxpdu = *r.pick(&[16378u32, 4096, 65536]);
    let strict = r.chance(1, 3);
    let promiscuous = r.chance(1, 4);
    for _attempt in 0..8 {
        let port = free_port();
        let mut c = Command::new(tool("dicom-storescp"));
        c.current_dir(&cwd)
            .arg("-p")
            .arg(port.to_string())
            .arg("-o")
            .arg(&dirarg)
            .arg("-m")
            .arg(maxpdu.to_string())
            .stdin(Stdio::null())
            .stdout(Stdio::null())
            .stderr(Stdio::null());
        if asynch {
            c.arg("--non-blocking");
        }
        if strict {
            c.arg("--strict");
        }
        if promiscuous {
            c.arg("--promiscuous");
        }
        let mut child = c.spawn().expect("spawn dicom-storescp");
        let t0 = Instant::now();
        let mut up = false;
        while t0.elapsed() < Duration::from_secs(10) {
            if let Ok(Some(_)) = child.try_wait() {
                break; // could not bind: somebody took the port, try another
            }
            if std::net::TcpStream::connect(("127.0.0.1", port)).is_ok() {
                up = true;
                break;
            }
            std::thread::sleep(Duration::from_millis(5));
        }
        if up {
            // make sure it is OUR child that listens (it is still alive)
            if let Ok(None) = child.try_wait() {
                return Server { child, port, asynch, gdir, cwd, out, dirarg };
            }
        }
        let _ = child.kill();
        let _ = child.wait();
    }
    panic!("could not start dicom-storescp");
}

#[derive(Clone, PartialEq)]
enum Ent {
    Dir,
    File(Vec<u8>),
}

fn snap(root: &Path) -> BTreeMap<PathBuf, Ent> {
    let mut m = BTreeMap::new();
    let mut stack = vec![root.to_path_buf()];
    while let Some(d) = stack.pop() {
        m.insert(d.clone(), Ent::Dir);
        if let Ok(rd) = std::fs::read_dir(&d) {
            for e in rd.flatten() {
                let p = e.path();
                match e.file_type() {
                    Ok(t) if t.is_dir() => stack.push(p),
                    _ => {
                        m.insert(p.clone(), Ent::File(std::fs::read(&p).unwrap_or_default()));
                    }
                }
            }
        }
    }
    m
}

// ---------------------------------------------------------------------------------------------
// generators

/// the file name the code under test derives from the UID text (`to_str` + `trim_end_matches`)
fn impl_name(u: &str) -> String {
    let pieces: Vec<&str> = u.split('\\').map(|p| p.trim_end_matches([' ', '\0'])).collect();
    format!("{}.dcm", pieces.join("\\").trim_end_matches('\0'))
}

/// safety filter of the generator: would `File::create(out/<name>)` stay inside the sandbox
/// `gdir`, with every prefix of the walk either inside it or (absolute names) one of its ancestors
fn stays_inside(gdir: &Path, out: &Path, name: &str) -> bool {
    let absolute = name.starts_with('/');
    let mut p = if absolute { PathBuf::from("/") } else { out.to_path_buf() };
    for c in name.split('/') {
        match c {
            "" | "." => {}
            ".." => {
                p.pop();
            }
            x => p.push(x),
        }
        if !(p.starts_with(gdir) || (absolute && gdir.starts_with(&p))) {
            return false;
        }
    }
    p.starts_with(gdir) && p != *gdir
}

fn legal_uid(r: &mut Rng, i: u64) -> String {
    format!("1.2.826.0.1.3680043.9.{}.{}", i, r.below(1_000_000))
}

fn gen_uid(r: &mut Rng, i: u64, s: &Server) -> String {
    let out = s.out.display().to_string();
    let cwd = s.cwd.display().to_string();
    let gd = s.gdir.display().to_string();
    let u = match if r.chance(2, 5) { 0 } else { r.range(8, 23) } {
        0..=7 => legal_uid(r, i),
        8 => legal_uid(r, i) + *r.pick(&["\0", " ", "\0\0", " \0", "  "]),
        9 => format!("../up{i}"),
        10 => format!("../../up{i}"),
        11 => format!("../../../up{i}"),
        12 => format!("{cwd}/sibling/abs{i}"),
        13 => format!("{gd}/abs{i}"),
        14 => format!("{out}/inner{i}"),
        15 => format!("//{}/l1/dbl{i}", gd.trim_start_matches('/')),
        16 => format!("sub/s{i}"),
        17 => format!("{}/n{i}", r.pick(&["nosuch", "a/..", "sub/nosuch", "../nosuch"])),
        18 => format!("{}{i}", r.pick(&["./d", "sub/../c", "sub/./e", "sub//f", "../out/g", "../sibling/../out/h", ".//k"])),
        19 => r.pick(&["", ".", "..", " ", "...", "/", "sub/", "sub/..", "../sibling/"]).to_string(),
        20 => format!("{}{i}", r.pick(&["a\\b", "a \\b ", "..\\w", "x\0\\y\0", "\\", "a\\..\\/q"])),
        21 => {
            let n = r.usize(1, 40);
            let mut t = r.ascii_from(b"0123456789.abcXYZ_-/ \\~", n);
            t.push_str(&i.to_string());
            t
        }
        22 => format!("a\0b{i}"),
        _ => {
            let n = *r.pick(&[250usize, 251, 252, 255, 300]);
            let mut t = format!("{i}.");
            while t.len() < n {
                t.push((b'0' + r.below(10) as u8) as char);
            }
            if r.chance(1, 3) {
                t = format!("sub/{t}");
            }
            t
        }
    };
    // the file name the code under test will use is `<text>.dcm` pushed on the output directory
    let name = impl_name(&u);
    if stays_inside(&s.gdir, &s.out, &name) || name.contains('\0') {
        u
    } else {
        legal_uid(r, i)
    }
}

fn gen_dataset(r: &mut Rng, i: u64, ts: &str, cls: &str, inst: &str) -> InMemDicomObject {
    let mut o = InMemDicomObject::new_empty();
    let drop = r.below(40);
    if drop != 0 {
        o.put(DataElement::new(tags::SOP_CLASS_UID, VR::UI, dicom_value!(Str, cls)));
    }
    if drop != 1 {
        o.put(DataElement::new(tags::SOP_INSTANCE_UID, VR::UI, dicom_value!(Str, inst)));
    }
    if r.chance(1, 2) {
        o.put(DataElement::new(tags::IMAGE_TYPE, VR::CS, dicom_value!(Strs, ["ORIGINAL", "PRIMARY"])));
    }
    o.put(DataElement::new(tags::MODALITY, VR::CS, dicom_value!(Str, *r.pick(&["CT", "MR", "OT"]))));
    o.put(DataElement::new(tags::PATIENT_NAME, VR::PN, dicom_value!(Str, format!("Case^N{i}"))));
    o.put(DataElement::new(tags::PATIENT_ID, VR::LO, dicom_value!(Str, format!("ID{}", r.below(100000)))));
    if r.chance(1, 3) {
        let item = InMemDicomObject::from_element_iter([DataElement::new(
            tags::REFERENCED_SOP_INSTANCE_UID,
            VR::UI,
            dicom_value!(Str, legal_uid(r, i)),
        )]);
        o.put(DataElement::new(
            tags::REFERENCED_IMAGE_SEQUENCE,
            VR::SQ,
            Value::from(DataSetSequence::from(vec![item])),
        ));
    }
    o.put(DataElement::new(tags::INSTANCE_NUMBER, VR::IS, dicom_value!(Str, format!("{}", r.below(1000)))));
    let rows = r.range(1, 40) as u16;
    let cols = r.range(1, 40) as u16;
    o.put(DataElement::new(tags::ROWS, VR::US, dicom_value!(U16, [rows])));
    o.put(DataElement::new(tags::COLUMNS, VR::US, dicom_value!(U16, [cols])));
    o.put(DataElement::new(tags::BITS_ALLOCATED, VR::US, dicom_value!(U16, [16])));
    if encapsulated(ts) {
        let nf = r.usize(1, 3);
        // (a zero-length fragment now and then: legal, and the reader must keep it)
        let frags: Vec<Vec<u8>> = (0..nf).map(|_| { let n = if r.chance(1, 10) { 0 } else { 2 * r.usize(1, 400) }; r.bytes(n) }).collect();
        o.put(DataElement::new(
            tags::PIXEL_DATA,
            VR::OB,
            Value::from(PixelFragmentSequence::new(vec![0u32], frags)),
        ));
    } else if r.chance(7, 8) {
        let n = 2 * match r.below(4) {
            0 => 0,
            1 => r.usize(1, 16),
            _ => (rows as usize * cols as usize).min(1500),
        };
        let words: Vec<u16> = (0..n / 2).map(|_| r.next_u32() as u16).collect();
        o.put(DataElement::new(tags::PIXEL_DATA, VR::OW, PrimitiveValue::U16(words.into())));
    }
    o
}

fn canon(o: &InMemDicomObject) -> String {
    let ts = TransferSyntaxRegistry.get(EXPLICIT).unwrap();
    let mut b = Vec::new();
    match o.write_dataset_with_ts(&mut b, ts) {
        Ok(()) => hex(&b),
        Err(_) => "unwritable".into(),
    }
}

fn store_command(cls: &str, inst: &str, msgid: u16) -> Vec<u8> {
    let o = InMemDicomObject::command_from_element_iter([
        DataElement::new(tags::AFFECTED_SOP_CLASS_UID, VR::UI, dicom_value!(Str, cls)),
        DataElement::new(tags::COMMAND_FIELD, VR::US, dicom_value!(U16, [0x0001])),
        DataElement::new(tags::MESSAGE_ID, VR::US, dicom_value!(U16, [msgid])),
        DataElement::new(tags::PRIORITY, VR::US, dicom_value!(U16, [0x0000])),
        DataElement::new(tags::COMMAND_DATA_SET_TYPE, VR::US, dicom_value!(U16, [0x0000])),
        DataElement::new(tags::AFFECTED_SOP_INSTANCE_UID, VR::UI, dicom_value!(Str, inst)),
    ]);
    let mut b = Vec::new();
    o.write_dataset_with_ts(&mut b, TransferSyntaxRegistry.get(IMPLICIT).unwrap()).unwrap();
    b
}

fn echo_command(msgid: u16) -> Vec<u8> {
    let o = InMemDicomObject::command_from_element_iter([
        DataElement::new(tags::AFFECTED_SOP_CLASS_UID, VR::UI, dicom_value!(Str, uids::VERIFICATION)),
        DataElement::new(tags::COMMAND_FIELD, VR::US, dicom_value!(U16, [0x0030])),
        DataElement::new(tags::MESSAGE_ID, VR::US, dicom_value!(U16, [msgid])),
        DataElement::new(tags::COMMAND_DATA_SET_TYPE, VR::US, dicom_value!(U16, [0x0101])),
    ]);
    let mut b = Vec::new();
    o.write_dataset_with_ts(&mut b, TransferSyntaxRegistry.get(IMPLICIT).unwrap()).unwrap();
    b
}

enum Msg {
    Echo { msgid: u16 },
    Store { cls: String, ts: String, msgid: u16, uid: String, data: Vec<u8>, canon: String },
}

fn split_points(r: &mut Rng, len: usize) -> Vec<usize> {
    // fragment lengths: 1..n pieces, empty pieces allowed, each piece <= 1400 bytes
    let mut cuts = vec![];
    let extra = match r.below(5) {
        0 => 0,
        1 => 1,
        2 => r.usize(2, 6),
        3 => r.usize(0, 2),
        _ => 0,
    };
    for _ in 0..extra {
        cuts.push(r.usize(0, len));
    }
    cuts.sort();
    let mut pieces = vec![];
    let mut prev = 0;
    for c in cuts.into_iter().chain(std::iter::once(len)) {
        let mut a = prev;
        while c - a > 1400 {
            pieces.push(1400);
            a += 1400;
        }
        pieces.push(c - a);
        prev = c;
    }
    pieces
}

// ---------------------------------------------------------------------------------------------

fn rsp_token(pc: u8, data: &[u8]) -> String {
    let ts = TransferSyntaxRegistry.get(IMPLICIT).unwrap();
    match InMemDicomObject::read_dataset_with_ts(data, ts) {
        Err(_) => format!("rsp {pc} bad - - - -"),
        Ok(o) => {
            let u16of = |t: Tag| o.get(t).and_then(|e| e.to_int::<u16>().ok());
            let strof = |t: Tag| {
                o.get(t)
                    .and_then(|e| e.to_str().ok().map(|s| hexs(&s)))
                    .unwrap_or_else(|| "none".into())
            };
            let field = u16of(tags::COMMAND_FIELD).map(|v| v.to_string()).unwrap_or("-".into());
            let is_echo = field == "32816";
            format!(
                "rsp {pc} {field} {} {} {} {}",
                // the echo response's message id is not a property-relevant observable
                if is_echo { "-".into() } else { u16of(tags::MESSAGE_ID_BEING_RESPONDED_TO).map(|v| v.to_string()).unwrap_or("-".into()) },
                u16of(tags::STATUS).map(|v| v.to_string()).unwrap_or("-".into()),
                strof(tags::AFFECTED_SOP_CLASS_UID),
                strof(tags::AFFECTED_SOP_INSTANCE_UID)
            )
        }
    }
}

fn run_case(seed: u64, i: u64, s: &Server) -> String {
    let mut r = Rng::for_case(seed, i);
    // ---- plan the association
    let nstores = match r.below(10) {
        0..=5 => 1,
        6..=8 => 2,
        _ => 3,
    };
    let mut plan: Vec<(String, String)> = vec![]; // (class, ts) per store
    for _ in 0..nstores {
        // (the deflated syntax is proposed now and then: this binary is built without it and rejects it)
        let ts = if r.chance(1, 3) { *r.pick(&[IMPLICIT, EXPLICIT]) } else if r.chance(1, 25) { TS_LIST[7] } else { *r.pick(&TS_LIST[..7]) };
        plan.push((r.pick(SOP_CLASSES).to_string(), ts.to_string()));
    }
    let mut opts = ClientAssociationOptions::new()
        .calling_ae_title("VERIF-SCU")
        .called_ae_title("STORE-SCP")
        .max_pdu_length(16384)
        .read_timeout(Duration::from_secs(20))
        .write_timeout(Duration::from_secs(20));
    for (cls, ts) in &plan {
        opts = opts.with_presentation_context(cls.clone(), vec![ts.clone()]);
    }
    let before = snap(&s.gdir);
    let mut assoc = match opts.establish(("127.0.0.1", s.port)) {
        Ok(a) => a,
        Err(e) => { if std::env::var("C32_DEBUG").is_ok() { eprintln!("case {i}: {e:?} plan={plan:?}"); } return "noassoc".into() }
    };
    let _ = assoc.inner_stream().set_nodelay(true);
    let pcs: Vec<(u8, String, String)> = assoc
        .presentation_contexts()
        .iter()
        .filter(|pc| pc.reason == PresentationContextResultReason::Acceptance)
        .map(|pc| (pc.id, pc.transfer_syntax.clone(), pc.abstract_syntax.clone()))
        .collect();
    // ---- messages (only on accepted contexts)
    let mut msgs: Vec<(u8, Msg)> = vec![];
    let mut next_id = r.range(1, 65000) as u16;
    for (k, (cls, ts)) in plan.iter().enumerate() {
        let pcid = (2 * k + 1) as u8;
        let Some((_, nts, _)) = pcs.iter().find(|p| p.0 == pcid) else { continue };
        if nts != ts {
            continue;
        }
        if r.chance(1, 8) {
            msgs.push((pcid, Msg::Echo { msgid: next_id }));
            next_id = next_id.wrapping_add(1);
        }
        let uid = gen_uid(&mut r, i * 4 + k as u64, s);
        let ds_uid = if r.chance(3, 4) { uid.clone() } else { legal_uid(&mut r, i * 4 + k as u64) };
        let ds_cls = if r.chance(9, 10) { cls.clone() } else { r.pick(SOP_CLASSES).to_string() };
        let obj = gen_dataset(&mut r, i, ts, &ds_cls, &ds_uid);
        let tsx = TransferSyntaxRegistry.get(ts).unwrap();
        let mut data = Vec::new();
        if obj.write_dataset_with_ts(&mut data, tsx).is_err() {
            continue;
        }
        let canon = match InMemDicomObject::read_dataset_with_ts(&data[..], tsx) {
            Ok(o) => canon(&o),
            Err(_) => "undecodable".into(),
        };
        msgs.push((pcid, Msg::Store { cls: cls.clone(), ts: ts.clone(), msgid: next_id, uid, data, canon }));
        next_id = next_id.wrapping_add(r.range(1, 3) as u16);
    }
    // ---- send
    let mut sent: Vec<String> = vec![]; // V tokens
    let mut xs: Vec<String> = vec![];
    let mut rsps: Vec<String> = vec![];
    let mut open = true;
    'outer: for (pcid, m) in &msgs {
        let mut pdvs: Vec<PDataValue> = vec![];
        match m {
            Msg::Echo { msgid } => pdvs.push(PDataValue {
                presentation_context_id: *pcid,
                value_type: PDataValueType::Command,
                is_last: true,
                data: echo_command(*msgid),
            }),
            Msg::Store { cls, msgid, uid, data, canon, .. } => {
                pdvs.push(PDataValue {
                    presentation_context_id: *pcid,
                    value_type: PDataValueType::Command,
                    is_last: true,
                    data: store_command(cls, uid, *msgid),
                });
                let pieces = split_points(&mut r, data.len());
                let mut at = 0;
                for (k, n) in pieces.iter().enumerate() {
                    pdvs.push(PDataValue {
                        presentation_context_id: *pcid,
                        value_type: PDataValueType::Data,
                        is_last: k + 1 == pieces.len(),
                        data: data[at..at + n].to_vec(),
                    });
                    at += n;
                }
                xs.push(canon.clone());
            }
        }
        // group the PDVs into PDUs of 1..=2 values
        let mut k = 0;
        while k < pdvs.len() {
            let n = r.usize(1, 2).min(pdvs.len() - k);
            let pdu = Pdu::PData { data: pdvs[k..k + n].to_vec() };
            for v in &pdvs[k..k + n] {
                sent.push(format!(
                    "{} {} {} {}",
                    v.presentation_context_id,
                    if v.value_type == PDataValueType::Command { "c" } else { "d" },
                    v.is_last as u8,
                    hex(&v.data)
                ));
            }
            if assoc.send(&pdu).is_err() {
                open = false;
                break 'outer;
            }
            k += n;
        }
        // one response per message
        match assoc.receive() {
            Ok(Pdu::PData { data }) => {
                for v in data {
                    rsps.push(rsp_token(v.presentation_context_id, &v.data));
                }
            }
            Ok(_) => {
                rsps.push("rsp 0 otherpdu - - - -".into());
                open = false;
                break 'outer;
            }
            Err(_) => {
                open = false;
                break 'outer;
            }
        }
    }
    let end = if open {
        match assoc.release() {
            Ok(()) => "end:released",
            Err(_) => "end:release-failed",
        }
    } else {
        drop(assoc);
        "end:closed"
    };
    let after = snap(&s.gdir);
    // ---- diff
    let mut tks: Vec<String> = vec![];
    for (p, e) in &after {
        let kind = match (before.get(p), e) {
            (None, Ent::Dir) => "newdir",
            (None, Ent::File(_)) => "newfile",
            (Some(Ent::Dir), Ent::File(_)) | (Some(Ent::File(_)), Ent::Dir) => "retyped",
            (Some(Ent::File(a)), Ent::File(b)) if a != b => "modfile",
            _ => continue,
        };
        let (raw, cn) = match e {
            Ent::Dir => ("-".to_string(), "-".to_string()),
            Ent::File(b) => (
                hex(b),
                match dicom_object::from_reader(&b[..]) {
                    Ok(f) => format!("{}:{}", hexs(f.meta().transfer_syntax.trim_end_matches(['\0', ' '])), canon(&f.into_inner())),
                    Err(_) => "unreadable".into(),
                },
            ),
        };
        tks.push(format!("{kind} {} {raw} {cn}", hexs(&p.display().to_string())));
    }
    for (p, e) in &before {
        if !after.contains_key(p) {
            tks.push(format!("{} {} - -", if *e == Ent::Dir { "deldir" } else { "delfile" }, hexs(&p.display().to_string())));
        }
    }
    let mut dirs: Vec<String> = before.iter().filter(|(_, e)| **e == Ent::Dir).map(|(p, _)| p.display().to_string()).collect();
    let mut anc = s.gdir.parent();
    while let Some(a) = anc {
        dirs.push(a.display().to_string());
        anc = a.parent();
    }
    dirs.sort();
    let mut line = format!(
        "{} {} {} {} {}",
        if s.asynch { "async" } else { "sync" },
        hexs(&s.gdir.display().to_string()),
        hexs(&s.cwd.display().to_string()),
        hexs(&s.dirarg),
        hexs(&s.out.display().to_string())
    );
    line += &format!(" D {}", dirs.len());
    for d in &dirs {
        line += &format!(" {}", hexs(d));
    }
    line += &format!(" P {}", pcs.len());
    for (id, ts, _) in &pcs {
        line += &format!(" {} {}", id, hexs(ts));
    }
    line += &format!(" V {}", sent.len());
    for v in &sent {
        line += &format!(" {v}");
    }
    line += &format!(" X {}", xs.len());
    for x in &xs {
        line += &format!(" {x}");
    }
    line += &format!(" R {}", rsps.len());
    for x in &rsps {
        line += &format!(" {x}");
    }
    line += &format!(" {end} T {}", tks.len());
    for t in &tks {
        line += &format!(" {t}");
    }
    let _ = msgs.iter().map(|(_, m)| if let Msg::Store { ts, .. } = m { ts.len() } else { 0 }).count();
    line
}

fn main() {
    let a = parse_args();
    quiet_panics();
    let work = std::env::var("VERIF_WORK").unwrap_or_else(|_| "/verif/.work/c32-manual".into());
    let nanos = std::time::SystemTime::now().duration_since(std::time::UNIX_EPOCH).unwrap().subsec_nanos();
    std::fs::create_dir_all(&work).unwrap();
    let work = std::fs::canonicalize(&work).unwrap();
    let base = work.join(format!("c32-{}-{}", std::process::id(), nanos));
    std::fs::create_dir_all(&base).unwrap();
    let mut out = Out::new();
    let mut server: Option<(u64, Server)> = None;
    for i in case_indices(&a) {
        let g = i / GROUP;
        if server.as_ref().map(|s| s.0) != Some(g) {
            if let Some((og, s)) = server.take() {
                let gd = s.gdir.clone();
                drop(s);
                let _ = std::fs::remove_dir_all(&gd);
                let _ = og;
            }
            server = Some((g, launch(&base, a.seed, g)));
        }
        let s = &server.as_ref().unwrap().1;
        let line = run_case(a.seed, i, s);
        out.line(&format!("#{} {}", i, line));
    }
    drop(server);
    drop(out);
    let _ = std::fs::remove_dir_all(&base);
}
