//! The recording acceptor and one `bin` case: the real `dicom-storescu` binary sends generated
//! files to it over loopback.
use super::files::*;
use super::*;
use dicom_core::{dicom_value, DataElement, VR};
use dicom_dictionary_std::tags;
use dicom_object::InMemDicomObject;
use dicom_ul::association::server::ServerAssociationOptions;
use dicom_ul::pdu::{
    AssociationAC, PDataValue, PDataValueType, PresentationContextResult, PresentationContextResultReason, UserVariableItem,
};
use dicom_ul::{read_pdu, write_pdu, Pdu, ServerAssociation};
use std::io::{Read, Write};
use std::net::{TcpListener, TcpStream};
use std::path::Path;
use std::process::{Command, Stdio};
use std::sync::{Arc, Mutex};
use std::time::{Duration, Instant};

/// the acceptor's policy: which (abstract syntax, transfer syntax) proposals it accepts
#[derive(Clone, Debug)]
pub enum Policy {
    /// everything
    All,
    /// classes x syntaxes, through the real `ServerAssociationOptions` (`ts` empty = any it supports)
    Product { abs: Vec<String>, ts: Vec<String> },
    /// an explicit table of accepted pairs (PDU-level acceptor); the answer may be shuffled
    Table { pairs: Vec<(String, String)>, shuffle: u64 },
}

impl Policy {
    fn accepts(&self, asx: &str, ts: &str) -> bool {
        match self {
            Policy::All => true,
            Policy::Product { abs, ts: tss } => abs.iter().any(|a| a == asx) && (tss.is_empty() || tss.iter().any(|t| t == ts)),
            Policy::Table { pairs, .. } => pairs.iter().any(|(a, t)| a == asx && t == ts),
        }
    }
}

#[derive(Default, Debug)]
pub struct AssocRecord {
    pub order: usize,
    /// proposals seen in the A-ASSOCIATE-RQ (PDU-level acceptor only)
    pub proposed: Option<Vec<(String, String)>>,
    /// accepted contexts in the order of the A-ASSOCIATE-AC
    pub accepted: Vec<(u8, String, String)>,
    /// (context id of the command, all PDVs on that id, affected SOP class, affected SOP instance, data set)
    pub stores: Vec<(u8, bool, String, String, Vec<u8>)>,
    pub end: &'static str,
}

enum Conn {
    Real(ServerAssociation<TcpStream>),
    Raw(TcpStream),
}

fn read_raw(s: &mut TcpStream) -> Option<Pdu> {
    let mut h = [0u8; 6];
    s.read_exact(&mut h).ok()?;
    let len = u32::from_be_bytes([h[2], h[3], h[4], h[5]]) as usize;
    let mut b = vec![0u8; 6 + len];
    b[..6].copy_from_slice(&h);
    s.read_exact(&mut b[6..]).ok()?;
    read_pdu(&b[..], dicom_ul::pdu::MAXIMUM_PDU_SIZE, false).ok().flatten()
}

impl Conn {
    fn recv(&mut self) -> Option<Pdu> {
        match self {
            Conn::Real(a) => a.receive().ok(),
            Conn::Raw(s) => read_raw(s),
        }
    }
    fn send(&mut self, p: &Pdu) -> bool {
        match self {
            Conn::Real(a) => a.send(p).is_ok(),
            Conn::Raw(s) => {
                let mut b = vec![];
                write_pdu(&mut b, p).is_ok() && s.write_all(&b).is_ok()
            }
        }
    }
}

fn trim(s: &str) -> String {
    s.trim_end_matches(|c: char| c.is_whitespace() || c == '\0').to_string()
}

fn negotiate(mut s: TcpStream, policy: &Policy, max_pdu: u32, rec: &mut AssocRecord) -> Option<Conn> {
    let _ = s.set_read_timeout(Some(Duration::from_secs(20)));
    let _ = s.set_nodelay(true);
    match policy {
        Policy::Product { abs, ts } => {
            let mut o = ServerAssociationOptions::new().accept_any().max_pdu_length(if max_pdu == 0 { 16384 } else { max_pdu }).read_timeout(Duration::from_secs(20));
            for a in abs {
                o = o.with_abstract_syntax(a.clone());
            }
            for t in ts {
                o = o.with_transfer_syntax(t.clone());
            }
            let a = o.establish(s).ok()?;
            rec.accepted = a
                .presentation_contexts()
                .iter()
                .filter(|p| p.reason == PresentationContextResultReason::Acceptance)
                .map(|p| (p.id, p.abstract_syntax.clone(), p.transfer_syntax.clone()))
                .collect();
            Some(Conn::Real(a))
        }
        _ => {
            let rq = match read_raw(&mut s)? {
                Pdu::AssociationRQ(rq) => rq,
                _ => return None,
            };
            let mut proposed = vec![];
            let mut results: Vec<(PresentationContextResult, String)> = vec![];
            for pc in &rq.presentation_contexts {
                let asx = trim(&pc.abstract_syntax);
                let mut chosen = None;
                for t in &pc.transfer_syntaxes {
                    let t = trim(t);
                    proposed.push((asx.clone(), t.clone()));
                    if chosen.is_none() && policy.accepts(&asx, &t) {
                        chosen = Some(t);
                    }
                }
                let r = match chosen {
                    Some(t) => PresentationContextResult { id: pc.id, reason: PresentationContextResultReason::Acceptance, transfer_syntax: t },
                    None => PresentationContextResult {
                        id: pc.id,
                        reason: PresentationContextResultReason::TransferSyntaxesNotSupported,
                        transfer_syntax: IVRLE.to_string(),
                    },
                };
                results.push((r, asx));
            }
            if let Policy::Table { shuffle, .. } = policy {
                if *shuffle != 0 {
                    let mut r = Rng::new(*shuffle);
                    for i in 0..results.len() {
                        let j = r.usize(i, results.len() - 1);
                        results.swap(i, j);
                    }
                }
            }
            proposed.sort();
            proposed.dedup();
            rec.proposed = Some(proposed);
            rec.accepted = results
                .iter()
                .filter(|(r, _)| r.reason == PresentationContextResultReason::Acceptance)
                .map(|(r, a)| (r.id, a.clone(), r.transfer_syntax.clone()))
                .collect();
            let ac = Pdu::AssociationAC(AssociationAC {
                protocol_version: 1,
                calling_ae_title: rq.calling_ae_title.clone(),
                called_ae_title: rq.called_ae_title.clone(),
                application_context_name: rq.application_context_name.clone(),
                presentation_contexts: results.into_iter().map(|(r, _)| r).collect(),
                user_variables: vec![
                    UserVariableItem::MaxLength(max_pdu),
                    UserVariableItem::ImplementationClassUID("1.2.826.0.1.3680043.9.7433.33".into()),
                    UserVariableItem::ImplementationVersionName("VERIF-C33".into()),
                ],
            });
            let mut c = Conn::Raw(s);
            if !c.send(&ac) {
                return None;
            }
            Some(c)
        }
    }
}

fn store_rsp(cls: &str, inst: &str, msgid: u16) -> Vec<u8> {
    let o = InMemDicomObject::command_from_element_iter([
        DataElement::new(tags::AFFECTED_SOP_CLASS_UID, VR::UI, dicom_value!(Str, cls)),
        DataElement::new(tags::COMMAND_FIELD, VR::US, dicom_value!(U16, [0x8001])),
        DataElement::new(tags::MESSAGE_ID_BEING_RESPONDED_TO, VR::US, dicom_value!(U16, [msgid])),
        DataElement::new(tags::COMMAND_DATA_SET_TYPE, VR::US, dicom_value!(U16, [0x0101])),
        DataElement::new(tags::STATUS, VR::US, dicom_value!(U16, [0x0000])),
        DataElement::new(tags::AFFECTED_SOP_INSTANCE_UID, VR::UI, dicom_value!(Str, inst)),
    ]);
    let mut b = Vec::new();
    o.write_dataset_with_ts(&mut b, TransferSyntaxRegistry.get(IVRLE).unwrap()).unwrap();
    b
}

/// serve one association, recording every C-STORE
fn serve(s: TcpStream, policy: &Policy, max_pdu: u32, rec: &mut AssocRecord) {
    rec.end = "drop";
    let Some(mut c) = negotiate(s, policy, max_pdu, rec) else {
        rec.end = "noassoc";
        return;
    };
    let mut cmd: Vec<u8> = vec![];
    let mut data: Vec<u8> = vec![];
    let mut cur: Option<(u8, String, String, u16)> = None; // command seen: pc id, class, instance, message id
    let mut same = true;
    loop {
        match c.recv() {
            Some(Pdu::PData { data: pdvs }) => {
                for pdv in pdvs {
                    match pdv.value_type {
                        PDataValueType::Command => {
                            cmd.extend_from_slice(&pdv.data);
                            if pdv.is_last {
                                let o = InMemDicomObject::read_dataset_with_ts(&cmd[..], TransferSyntaxRegistry.get(IVRLE).unwrap()).ok();
                                cmd.clear();
                                let s_of = |t| o.as_ref().and_then(|o| o.get(t)).and_then(|e| e.to_str().ok().map(|s| trim(&s))).unwrap_or_default();
                                let msgid = o.as_ref().and_then(|o| o.get(tags::MESSAGE_ID)).and_then(|e| e.to_int::<u16>().ok()).unwrap_or(0);
                                cur = Some((pdv.presentation_context_id, s_of(tags::AFFECTED_SOP_CLASS_UID), s_of(tags::AFFECTED_SOP_INSTANCE_UID), msgid));
                                same = true;
                            }
                        }
                        PDataValueType::Data => {
                            data.extend_from_slice(&pdv.data);
                            if let Some((id, ..)) = &cur {
                                if *id != pdv.presentation_context_id {
                                    same = false;
                                }
                            }
                            if pdv.is_last {
                                if let Some((id, cls, inst, msgid)) = cur.take() {
                                    let rsp = store_rsp(&cls, &inst, msgid);
                                    rec.stores.push((id, same, cls, inst, std::mem::take(&mut data)));
                                    let p = Pdu::PData {
                                        data: vec![PDataValue { presentation_context_id: id, value_type: PDataValueType::Command, is_last: true, data: rsp }],
                                    };
                                    if !c.send(&p) {
                                        return;
                                    }
                                } else {
                                    data.clear();
                                }
                            }
                        }
                    }
                }
            }
            Some(Pdu::ReleaseRQ) => {
                let _ = c.send(&Pdu::ReleaseRP);
                rec.end = "release";
                return;
            }
            Some(Pdu::AbortRQ { .. }) => {
                rec.end = "abort";
                return;
            }
            Some(_) => {
                rec.end = "unexpected";
                return;
            }
            None => return,
        }
    }
}

fn tool(name: &str) -> std::path::PathBuf {
    let dir = std::env::var("VERIF_TOOLS").unwrap_or_else(|_| "/verif/.target/repo-tools/release".into());
    Path::new(&dir).join(name)
}

fn gen_policy(r: &mut Rng, files: &[GenFile], never: bool) -> Policy {
    // what the tool will propose (to aim the policy at it)
    let mut prop: Vec<(String, String)> = vec![];
    for f in files {
        prop.push((f.sop.clone(), f.ts.clone()));
        if !never {
            prop.push((f.sop.clone(), EVRLE.into()));
            prop.push((f.sop.clone(), IVRLE.into()));
        }
    }
    prop.sort();
    prop.dedup();
    let mut classes: Vec<String> = prop.iter().map(|p| p.0.clone()).collect();
    classes.dedup();
    let shuffle = if r.chance(1, 2) { r.next_u64() | 1 } else { 0 };
    match r.below(10) {
        0 => Policy::All,
        1 | 2 => {
            // product policy through the real server API
            let abs: Vec<String> = classes.iter().filter(|_| r.chance(3, 4)).cloned().collect();
            let all_ts = [IVRLE, EVRLE, EVRBE, DEFL, ENCU, J2K];
            let ts: Vec<String> = if r.chance(1, 4) { vec![] } else { all_ts.iter().filter(|_| r.chance(1, 2)).map(|s| s.to_string()).collect() };
            let ts = if ts.is_empty() && r.chance(1, 2) { vec![IVRLE.to_string()] } else { ts };
            Policy::Product { abs, ts }
        }
        3 => {
            // Implicit VR LE only, and only for some of the classes
            let keep: Vec<&String> = classes.iter().filter(|_| r.chance(1, 2)).collect();
            Policy::Table { pairs: prop.iter().filter(|p| p.1 == IVRLE && keep.contains(&&p.0)).cloned().collect(), shuffle }
        }
        4 => {
            // per class: exactly one of its proposed syntaxes
            let mut pairs = vec![];
            for c in &classes {
                let mine: Vec<&(String, String)> = prop.iter().filter(|p| &p.0 == c).collect();
                if r.chance(5, 6) {
                    pairs.push((*r.pick(&mine)).clone());
                }
            }
            Policy::Table { pairs, shuffle }
        }
        5 => Policy::Table { pairs: prop.iter().filter(|p| p.1 != IVRLE && p.1 != EVRLE).cloned().collect(), shuffle },
        _ => {
            let num = r.range(1, 4);
            Policy::Table { pairs: prop.iter().filter(|_| r.chance(num, 5)).cloned().collect(), shuffle }
        }
    }
}

pub fn bin_case(seed: u64, i: u64, dir: &Path) -> String {
    let mut r = Rng::for_case(seed, i);
    let _ = std::fs::remove_dir_all(dir);
    std::fs::create_dir_all(dir).expect("case dir");
    // ---- options
    let mode = match r.below(6) {
        0 | 1 => "async1",
        2 => "async2",
        _ => "sync",
    };
    let ign = r.chance(1, 6);
    let never = r.chance(1, 4);
    let ff = mode != "async2" && r.chance(1, 5);
    let acc_max_pdu = *r.pick(&[16378u32, 4096, 65536, 1018 + 6, 0]);
    // ---- files
    const FILE_TS: [&str; 6] = [IVRLE, EVRLE, EVRBE, DEFL, ENCU, J2K];
    const SOPS: [&str; 4] = [CT, MR, SC, PDF];
    let nsop = r.usize(1, 4);
    let nfiles = r.usize(1, 5);
    let narrow = r.chance(1, 2);
    let mut files = vec![];
    for k in 0..nfiles {
        let sop = SOPS[r.usize(0, nsop - 1)];
        let ts = if sop == PDF {
            *r.pick(&[IVRLE, EVRLE, EVRBE, DEFL])
        } else if narrow {
            *r.pick(&[EVRLE, DEFL, ENCU, J2K])
        } else {
            *r.pick(&FILE_TS)
        };
        let inst = format!("1.2.826.0.1.3680043.9.7433.{}.{}.{}", seed % 100000, i, k + 1);
        let big = r.chance(1, 8);
        files.push(gen_file(&mut r, dir, k, sop, ts, &inst, big));
    }
    // something that is not DICOM among the arguments: the tool skips it
    let junk = if r.chance(1, 8) {
        let p = dir.join("notes.txt");
        std::fs::write(&p, b"not a DICOM file, just text that is long enough to have a preamble-sized body........................................................................................................").unwrap();
        Some(p)
    } else {
        None
    };
    let policy = gen_policy(&mut r, &files, never);
    // ---- acceptor
    let listener = TcpListener::bind(("127.0.0.1", 0)).expect("bind");
    let port = listener.local_addr().unwrap().port();
    listener.set_nonblocking(true).unwrap();
    let records: Arc<Mutex<Vec<AssocRecord>>> = Arc::new(Mutex::new(vec![]));
    let mut cmd = Command::new(tool("dicom-storescu"));
    cmd.arg(format!("127.0.0.1:{port}"));
    for f in &files {
        cmd.arg(&f.path);
    }
    if let Some(j) = &junk {
        cmd.arg(j);
    }
    if ign {
        cmd.arg("--ignore-sop-class");
    }
    if never {
        cmd.arg("--never-transcode");
    }
    if ff {
        cmd.arg("--fail-first");
    }
    match mode {
        "async1" => {
            cmd.arg("-c").arg("1");
        }
        "async2" => {
            cmd.arg("-c").arg("2");
        }
        _ => {}
    }
    cmd.env_remove("RUST_LOG").stdin(Stdio::null()).stdout(Stdio::null()).stderr(Stdio::null());
    let mut child = cmd.spawn().expect("spawn dicom-storescu");
    let start = Instant::now();
    let mut handles = vec![];
    let mut status = None;
    let mut order = 0usize;
    loop {
        match listener.accept() {
            Ok((s, _)) => {
                let _ = s.set_nonblocking(false);
                let pol = policy.clone();
                let recs = records.clone();
                let ord = order;
                order += 1;
                handles.push(std::thread::spawn(move || {
                    let mut rec = AssocRecord { order: ord, ..Default::default() };
                    serve(s, &pol, acc_max_pdu, &mut rec);
                    recs.lock().unwrap().push(rec);
                }));
                continue;
            }
            Err(_) => {}
        }
        if status.is_none() {
            if let Ok(Some(st)) = child.try_wait() {
                status = Some(st);
                // one more pass over the backlog, then stop
                continue;
            }
        } else {
            break;
        }
        if start.elapsed() > Duration::from_secs(60) {
            let _ = child.kill();
            status = child.wait().ok();
            break;
        }
        std::thread::sleep(Duration::from_millis(2));
    }
    for h in handles {
        let _ = h.join();
    }
    let exit = match status.and_then(|s| s.code()) {
        Some(c) => format!("x{c}"),
        None => "xsig".into(),
    };
    // ---- the line
    let mut recs = std::mem::take(&mut *records.lock().unwrap());
    recs.sort_by_key(|r| r.order);
    let mut uids: Vec<String> = files.iter().map(|f| f.ts.clone()).collect();
    for rec in &recs {
        uids.extend(rec.accepted.iter().map(|p| p.2.clone()));
    }
    let mut s = format!("bin {mode} {} {} {} {exit} F {}", ign as u8, never as u8, ff as u8, files.len());
    for f in &files {
        s.push_str(&format!(" {} {} {}", hexs(&f.sop), hexs(&f.ts), hexs(&f.inst)));
    }
    s.push(' ');
    s.push_str(&reg_section(&uids));
    match recs.first().and_then(|r| r.proposed.as_ref()) {
        Some(p) => {
            s.push_str(&format!(" Q {}", p.len()));
            for (a, t) in p {
                s.push_str(&format!(" {} {}", hexs(a), hexs(t)));
            }
        }
        None => s.push_str(" Q x"),
    }
    s.push_str(&format!(" A {}", recs.len()));
    for rec in &recs {
        s.push_str(&format!(" P {}", rec.accepted.len()));
        for (id, a, t) in &rec.accepted {
            s.push_str(&format!(" {} {} {}", id, hexs(a), hexs(t)));
        }
        s.push_str(&format!(" S {}", rec.stores.len()));
        for (id, same, cls, inst, data) in &rec.stores {
            let ctx_ts = rec.accepted.iter().find(|p| p.0 == *id).map(|p| p.2.clone());
            let dsv = match (files.iter().find(|f| &f.inst == inst), ctx_ts) {
                (Some(f), Some(ts)) => dataset_verdict(f, &ts, data),
                (None, _) => "nofile",
                (_, None) => "noctx",
            };
            s.push_str(&format!(" {} {} {} {} {}", id, *same as u8, hexs(cls), hexs(inst), dsv));
        }
        s.push(' ');
        s.push_str(rec.end);
    }
    s
}
