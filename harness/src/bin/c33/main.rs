//! C33 — the storage SCU sends each file on a matching presentation context.
//!
//! Two kinds of cases (mixed in one stream, see `kind_of`):
//!
//! * `hook` — the real `check_presentation_contexts` of `/repo/storescu/src/main.rs`, called
//!   in-process through the cfg-gated wrapper `check_presentation_contexts_for_verif`
//!   (the tool's crate root linked as a library by `harness/shims/storescu`).  The first indices
//!   enumerate a small universe exhaustively (file syntax x flags x every list of <= 2 (quick) /
//!   <= 3 (thorough) contexts over 2 SOP classes x 7 syntaxes), the rest are random.
//!   `hook <ign> <never> <fsop> <fts> R k (raw known codecfree decodeall canon)* P n (id asx ts)* <res>`
//!   with `<res>` = `ok id asx ts tsel` | `err:unsupfts` | `err:nopc` | `err:nonegts` | `err:other`.
//!
//! * `bin` — the REAL `dicom-storescu` binary (`$VERIF_TOOLS/dicom-storescu`) sends generated
//!   files over loopback to a recording acceptor (module `acceptor`): the real `dicom-ul` server
//!   API for product policies, the real PDU reader/writer for per-(class, syntax) policies.
//!   `bin <mode> <ign> <never> <ff> <exit> F n (sop ts inst)* R k (...)* Q q (asx ts)* A m`
//!   then per association `P n (id asx ts)* S s (pcid same cmdsop inst dsv)* <end>`.
//!   `dsv` is the harness' comparison of the received data set (decoded by dicom-object in the
//!   context's transfer syntax) with the file's data set: `eq|neq|undec|nofile`.
//!
//! Strings are hex of UTF-8.
mod acceptor;
mod files;

use dicom_encoding::transfer_syntax::TransferSyntaxIndex;
use dicom_transfer_syntax_registry::TransferSyntaxRegistry;
use std::collections::BTreeMap;
use std::sync::atomic::{AtomicUsize, Ordering};
use std::sync::Mutex;
use verif_harness::util::*;

pub const IVRLE: &str = "1.2.840.10008.1.2";
pub const EVRLE: &str = "1.2.840.10008.1.2.1";
pub const EVRBE: &str = "1.2.840.10008.1.2.2";
pub const DEFL: &str = "1.2.840.10008.1.2.1.99";
pub const ENCU: &str = "1.2.840.10008.1.2.1.98";
pub const J2K: &str = "1.2.840.10008.1.2.4.90";
pub const RLE: &str = "1.2.840.10008.1.2.5";
pub const JPEGB: &str = "1.2.840.10008.1.2.4.50";
pub const UNK: &str = "1.2.3.4";

pub const CT: &str = "1.2.840.10008.5.1.4.1.1.2";
pub const MR: &str = "1.2.840.10008.5.1.4.1.1.4";
pub const SC: &str = "1.2.840.10008.5.1.4.1.1.7";
pub const PDF: &str = "1.2.840.10008.5.1.4.1.1.104.1";

/// the universe of the exhaustive part
const U_TS: [&str; 7] = [IVRLE, EVRLE, EVRBE, DEFL, ENCU, J2K, UNK];
const U_SOP: [&str; 2] = [CT, MR];
const U_CTX: u64 = 14; // U_SOP x U_TS

fn exh_size(thorough: bool) -> u64 {
    let lists = if thorough { 1 + U_CTX + U_CTX * U_CTX + U_CTX * U_CTX * U_CTX } else { 1 + U_CTX + U_CTX * U_CTX };
    7 * 4 * lists
}

/// registry facts about the given transfer syntax texts, from the real registry
pub fn reg_section(uids: &[String]) -> String {
    let mut seen: Vec<&String> = vec![];
    for u in uids {
        if !seen.contains(&u) {
            seen.push(u);
        }
    }
    let mut s = format!("R {}", seen.len());
    for u in seen {
        match TransferSyntaxRegistry.get(u) {
            Some(ts) => s.push_str(&format!(
                " {} 1 {} {} {}",
                hexs(u),
                ts.is_codec_free() as u8,
                ts.can_decode_all() as u8,
                hexs(ts.uid())
            )),
            None => s.push_str(&format!(" {} 0 0 0 -", hexs(u))),
        }
    }
    s
}

fn hook_line(ign: bool, never: bool, fsop: &str, fts: &str, pcs: &[(u8, String, String)]) -> String {
    let mut uids = vec![fts.to_string()];
    uids.extend(pcs.iter().map(|p| p.2.clone()));
    let (fsop_s, fts_s, pcs_v) = (fsop.to_string(), fts.to_string(), pcs.to_vec());
    let res = catch(move || storescu_shim::check_presentation_contexts_for_verif(fsop_s, fts_s, pcs_v, ign, never));
    let res = match res {
        Err(_) => "panic".to_string(),
        Ok(Ok(((id, asx, ts), tsel))) => format!("ok {} {} {} {}", id, hexs(&asx), hexs(&ts), hexs(&tsel)),
        Ok(Err(m)) => {
            if m.starts_with("Unsupported file transfer syntax") {
                "err:unsupfts".into()
            } else if m.starts_with("No matching presentation contexts") {
                "err:nopc".into()
            } else if m.starts_with("No TransferSyntax") {
                "err:nonegts".into()
            } else {
                "err:other".into()
            }
        }
    };
    let mut s = format!("hook {} {} {} {} {} P {}", ign as u8, never as u8, hexs(fsop), hexs(fts), reg_section(&uids), pcs.len());
    for (id, a, t) in pcs {
        s.push_str(&format!(" {} {} {}", id, hexs(a), hexs(t)));
    }
    s.push(' ');
    s.push_str(&res);
    s
}

fn exhaustive_case(mut k: u64) -> String {
    let fts = U_TS[(k % 7) as usize];
    k /= 7;
    let flags = k % 4;
    k /= 4;
    // k indexes the lists of contexts: lengths 0, 1, 2, 3 in turn
    let mut len = 0;
    let mut block = 1u64;
    while k >= block {
        k -= block;
        block *= U_CTX;
        len += 1;
    }
    let mut pcs = vec![];
    for j in 0..len {
        let c = k % U_CTX;
        k /= U_CTX;
        pcs.push(((2 * j + 1) as u8, U_SOP[(c / 7) as usize].to_string(), U_TS[(c % 7) as usize].to_string()));
    }
    hook_line(flags & 1 != 0, flags & 2 != 0, CT, fts, &pcs)
}

fn pad(r: &mut Rng, s: &str) -> String {
    match r.below(40) {
        0 => format!("{s} "),
        1 => format!("{s}\0"),
        2 => format!("{s}\u{a0}"),
        3 => format!("{s} \0"),
        _ => s.to_string(),
    }
}

fn random_hook_case(r: &mut Rng) -> String {
    const TS: [&str; 9] = [IVRLE, EVRLE, EVRBE, DEFL, ENCU, J2K, RLE, JPEGB, UNK];
    const SOPS: [&str; 4] = [CT, MR, SC, PDF];
    let nsop = r.usize(1, 4);
    let fsop = SOPS[r.usize(0, nsop - 1)];
    // a narrow syntax palette makes collisions (the interesting cases) frequent
    let nts = r.usize(2, 9);
    let mut pal: Vec<&str> = TS.to_vec();
    for i in 0..pal.len() {
        let j = r.usize(i, pal.len() - 1);
        pal.swap(i, j);
    }
    pal.truncate(nts);
    if r.chance(1, 2) && !pal.contains(&IVRLE) {
        pal.push(IVRLE);
    }
    let f0: &str = TS[r.usize(0, TS.len() - 1)];
    let fts = if r.chance(1, 10) { pad(r, f0) } else { f0.to_string() };
    let n = match r.below(6) {
        0 => r.usize(0, 1),
        1 => r.usize(9, 16),
        _ => r.usize(2, 8),
    };
    let mut pcs = vec![];
    let mut id = 1u32;
    for _ in 0..n {
        let asx = SOPS[r.usize(0, nsop - 1)].to_string();
        let t0 = pal[r.usize(0, pal.len() - 1)];
        let ts = pad(r, t0);
        pcs.push((id as u8, asx, ts));
        id += 2 * r.range(1, 3) as u32;
    }
    // acceptors may answer in any order
    if r.chance(1, 3) {
        for i in 0..pcs.len() {
            let j = r.usize(i, pcs.len() - 1);
            pcs.swap(i, j);
        }
    }
    hook_line(r.chance(1, 4), r.chance(1, 3), fsop, &fts, &pcs)
}

#[derive(Clone, Copy, PartialEq)]
enum Kind {
    Exh(u64),
    Hook,
    Bin,
}

fn kind_of(i: u64, thorough: bool) -> Kind {
    let e = exh_size(thorough);
    if i < e {
        Kind::Exh(i)
    } else if (i - e) % (if thorough { 10 } else { 15 }) == 0 {
        Kind::Bin
    } else {
        Kind::Hook
    }
}

fn main() {
    let a = parse_args();
    quiet_panics();
    let idx: Vec<u64> = case_indices(&a).collect();
    // the binary cases are independent of each other: run them on a few threads
    let bins: Vec<u64> = idx.iter().copied().filter(|&i| kind_of(i, a.thorough) == Kind::Bin).collect();
    let results: Mutex<BTreeMap<u64, String>> = Mutex::new(BTreeMap::new());
    let next = AtomicUsize::new(0);
    let workers = std::env::var("C33_WORKERS").ok().and_then(|s| s.parse().ok()).unwrap_or(6usize).max(1);
    let work = std::env::var("VERIF_WORK").unwrap_or_else(|_| "/tmp".into());
    let base = std::path::PathBuf::from(work).join(format!("c33-files-{}", std::process::id()));
    std::thread::scope(|s| {
        for _ in 0..workers.min(bins.len().max(1)) {
            s.spawn(|| loop {
                let k = next.fetch_add(1, Ordering::SeqCst);
                if k >= bins.len() {
                    break;
                }
                let i = bins[k];
                let dir = base.join(format!("c{i}"));
                let line = match catch(std::panic::AssertUnwindSafe(|| acceptor::bin_case(a.seed, i, &dir))) {
                    Ok(l) => l,
                    Err(m) => format!("bin harness-panic {}", hexs(&m)),
                };
                let _ = std::fs::remove_dir_all(&dir);
                results.lock().unwrap().insert(i, line);
            });
        }
    });
    let _ = std::fs::remove_dir_all(&base);
    let results = results.into_inner().unwrap();
    let mut out = Out::new();
    for i in idx {
        let line = match kind_of(i, a.thorough) {
            Kind::Exh(k) => exhaustive_case(k),
            Kind::Hook => random_hook_case(&mut Rng::for_case(a.seed, i)),
            Kind::Bin => results.get(&i).cloned().unwrap_or_else(|| "bin missing".into()),
        };
        out.line(&format!("#{} {}", i, line));
    }
}
