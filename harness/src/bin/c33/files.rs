//! Generated DICOM files for the `bin` cases and the comparison of data sets.
use super::*;
use dicom_core::value::{DataSetSequence, PixelFragmentSequence, Value};
use dicom_core::{dicom_value, DataElement, PrimitiveValue, VR};
use dicom_dictionary_std::tags;
use dicom_object::{FileMetaTableBuilder, InMemDicomObject};
use std::path::{Path, PathBuf};

pub struct GenFile {
    pub path: PathBuf,
    pub sop: String,
    pub ts: String,
    pub inst: String,
    /// what the tool reads: the file's data set as dicom-object opens it
    pub obj: Option<InMemDicomObject>,
    /// native pixel data (concatenated frames) when the file's pixel data is encapsulated
    /// and can be decoded
    pub native: Option<Vec<u8>>,
    pub bits: u16,
}

pub fn encapsulated(ts: &str) -> bool {
    !matches!(ts, IVRLE | EVRLE | EVRBE | DEFL)
}

/// one element per value kind that is sensitive to the data set encoding (byte order, VR, padding)
fn base_object(r: &mut Rng, sop: &str, inst: &str, k: usize) -> InMemDicomObject {
    let mut o = InMemDicomObject::new_empty();
    o.put(DataElement::new(tags::SPECIFIC_CHARACTER_SET, VR::CS, dicom_value!(Str, "ISO_IR 100")));
    if r.chance(1, 2) {
        o.put(DataElement::new(tags::IMAGE_TYPE, VR::CS, dicom_value!(Strs, ["ORIGINAL", "PRIMARY", "AXIAL"])));
    }
    o.put(DataElement::new(tags::SOP_CLASS_UID, VR::UI, dicom_value!(Str, sop)));
    o.put(DataElement::new(tags::SOP_INSTANCE_UID, VR::UI, dicom_value!(Str, inst)));
    o.put(DataElement::new(tags::STUDY_DATE, VR::DA, dicom_value!(Str, "20240229")));
    o.put(DataElement::new(tags::MODALITY, VR::CS, dicom_value!(Str, *r.pick(&["CT", "MR", "OT", "DOC"]))));
    o.put(DataElement::new(tags::PATIENT_NAME, VR::PN, dicom_value!(Str, format!("Doe^File{k}"))));
    o.put(DataElement::new(tags::PATIENT_ID, VR::LO, dicom_value!(Str, format!("ID{}", r.below(100000)))));
    if r.chance(2, 3) {
        let n = r.usize(1, 2);
        let items: Vec<InMemDicomObject> = (0..n)
            .map(|j| {
                InMemDicomObject::from_element_iter([
                    DataElement::new(tags::REFERENCED_SOP_CLASS_UID, VR::UI, dicom_value!(Str, MR)),
                    DataElement::new(tags::REFERENCED_SOP_INSTANCE_UID, VR::UI, dicom_value!(Str, format!("1.2.3.{}.{j}", r.below(1000)))),
                    DataElement::new(tags::REFERENCED_FRAME_NUMBER, VR::IS, dicom_value!(Str, "1")),
                ])
            })
            .collect();
        o.put(DataElement::new(tags::REFERENCED_IMAGE_SEQUENCE, VR::SQ, Value::from(DataSetSequence::from(items))));
    }
    o.put(DataElement::new(tags::SLICE_THICKNESS, VR::DS, dicom_value!(Str, "1.25")));
    o.put(DataElement::new(tags::INSTANCE_NUMBER, VR::IS, dicom_value!(Str, format!("{}", r.below(1000)))));
    if r.chance(1, 2) {
        // FD, FL, UL, SS: multi-byte binary values
        o.put(DataElement::new(tags::RECOMMENDED_DISPLAY_FRAME_RATE_IN_FLOAT, VR::FL, dicom_value!(F32, [r.below(500) as f32 / 8.0])));
        o.put(DataElement::new(tags::DIFFUSION_B_VALUE, VR::FD, dicom_value!(F64, [r.below(5000) as f64 / 4.0])));
        o.put(DataElement::new(tags::DIFFUSION_GRADIENT_ORIENTATION, VR::FD, dicom_value!(F64, [1.5, -2.25, 0.125])));
        o.put(DataElement::new(tags::IN_STACK_POSITION_NUMBER, VR::UL, dicom_value!(U32, [r.next_u32()])));
        o.put(DataElement::new(tags::TAG_ANGLE_SECOND_AXIS, VR::SS, dicom_value!(I16, [-(r.below(300) as i16)])));
    }
    o
}

/// Build and write one file. Image classes carry pixel data, the PDF class an encapsulated document.
pub fn gen_file(r: &mut Rng, dir: &Path, k: usize, sop: &str, ts: &str, inst: &str, big: bool) -> GenFile {
    let mut o = base_object(r, sop, inst, k);
    let mut native = None;
    let mut bits = 0u16;
    if sop == PDF {
        let n = 2 * r.usize(1, if big { 20000 } else { 300 });
        o.put(DataElement::new(tags::MIME_TYPE_OF_ENCAPSULATED_DOCUMENT, VR::LO, dicom_value!(Str, "application/pdf")));
        o.put(DataElement::new(tags::ENCAPSULATED_DOCUMENT, VR::OB, PrimitiveValue::from(r.bytes(n))));
    } else {
        bits = if r.chance(1, 2) { 8 } else { 16 };
        let spp: u16 = if bits == 8 && r.chance(1, 3) { 3 } else { 1 };
        let rows = if big { r.range(60, 110) } else { r.range(1, 12) } as u16;
        let cols = 2 * if big { r.range(40, 60) } else { r.range(1, 8) } as u16;
        let frames = r.usize(1, 3);
        o.put(DataElement::new(tags::SAMPLES_PER_PIXEL, VR::US, dicom_value!(U16, [spp])));
        o.put(DataElement::new(
            tags::PHOTOMETRIC_INTERPRETATION,
            VR::CS,
            dicom_value!(Str, if spp == 3 { "RGB" } else { "MONOCHROME2" }),
        ));
        if spp == 3 {
            o.put(DataElement::new(tags::PLANAR_CONFIGURATION, VR::US, dicom_value!(U16, [0])));
        }
        if frames > 1 {
            o.put(DataElement::new(tags::NUMBER_OF_FRAMES, VR::IS, dicom_value!(Str, format!("{frames}"))));
        }
        o.put(DataElement::new(tags::ROWS, VR::US, dicom_value!(U16, [rows])));
        o.put(DataElement::new(tags::COLUMNS, VR::US, dicom_value!(U16, [cols])));
        o.put(DataElement::new(tags::BITS_ALLOCATED, VR::US, dicom_value!(U16, [bits])));
        o.put(DataElement::new(tags::BITS_STORED, VR::US, dicom_value!(U16, [bits])));
        o.put(DataElement::new(tags::HIGH_BIT, VR::US, dicom_value!(U16, [bits - 1])));
        o.put(DataElement::new(tags::PIXEL_REPRESENTATION, VR::US, dicom_value!(U16, [0])));
        let frame_len = rows as usize * cols as usize * spp as usize * (bits as usize / 8);
        let px = r.bytes(frame_len * frames);
        if ts == ENCU {
            let frags: Vec<Vec<u8>> = px.chunks(frame_len).map(|c| c.to_vec()).collect();
            o.put(DataElement::new(tags::PIXEL_DATA, VR::OB, Value::from(PixelFragmentSequence::new(vec![], frags))));
            native = Some(px);
        } else if encapsulated(ts) {
            // a compressed syntax: opaque fragments (this build cannot decode JPEG 2000)
            let frags: Vec<Vec<u8>> = (0..frames).map(|_| { let n = 2 * r.usize(1, 200); r.bytes(n) }).collect();
            o.put(DataElement::new(tags::PIXEL_DATA, VR::OB, Value::from(PixelFragmentSequence::new(vec![], frags))));
        } else if bits == 8 {
            o.put(DataElement::new(tags::PIXEL_DATA, VR::OB, PrimitiveValue::from(px)));
        } else {
            let words: Vec<u16> = px.chunks(2).map(|c| u16::from_le_bytes([c[0], c[1]])).collect();
            o.put(DataElement::new(tags::PIXEL_DATA, VR::OW, PrimitiveValue::U16(words.into())));
        }
    }
    let path = dir.join(format!("f{k}.dcm"));
    let meta = FileMetaTableBuilder::new()
        .media_storage_sop_class_uid(sop)
        .media_storage_sop_instance_uid(inst)
        .transfer_syntax(ts);
    o.with_meta(meta).expect("meta").write_to_file(&path).expect("write file");
    let obj = dicom_object::open_file(&path).ok().map(|f| f.into_inner());
    GenFile { path, sop: sop.to_string(), ts: ts.to_string(), inst: inst.to_string(), obj, native, bits }
}

/// encoding-independent form of a data set: tags and value bytes (binary values in little endian),
/// without value representations and lengths
pub fn canon(o: &InMemDicomObject, native: Option<(&[u8], u16)>, out: &mut Vec<u8>) {
    for e in o.iter() {
        let t = e.header().tag;
        out.extend_from_slice(&t.0.to_be_bytes());
        out.extend_from_slice(&t.1.to_be_bytes());
        match e.value() {
            Value::Primitive(p) => {
                let b = p.to_bytes();
                out.push(b'P');
                out.extend_from_slice(&(b.len() as u32).to_be_bytes());
                out.extend_from_slice(&b);
            }
            Value::Sequence(s) => {
                out.push(b'S');
                out.extend_from_slice(&(s.items().len() as u32).to_be_bytes());
                for it in s.items() {
                    canon(it, None, out);
                    out.push(b'.');
                }
            }
            Value::PixelSequence(ps) => match (t == tags::PIXEL_DATA, native) {
                (true, Some((px, _bits))) => {
                    out.push(b'P');
                    out.extend_from_slice(&(px.len() as u32).to_be_bytes());
                    out.extend_from_slice(px);
                }
                _ => {
                    out.push(b'F');
                    out.extend_from_slice(&(ps.fragments().len() as u32).to_be_bytes());
                    for f in ps.fragments() {
                        out.extend_from_slice(&(f.len() as u32).to_be_bytes());
                        out.extend_from_slice(f);
                    }
                }
            },
        }
    }
}

/// `eq` iff `bytes`, read by dicom-object in transfer syntax `ctx_ts`, is the file's data set
/// (pixel data decoded to native when the file's is encapsulated and `ctx_ts` is not).
pub fn dataset_verdict(f: &GenFile, ctx_ts: &str, bytes: &[u8]) -> &'static str {
    let Some(ts) = TransferSyntaxRegistry.get(ctx_ts) else { return "undec" };
    let rx = match InMemDicomObject::read_dataset_with_ts(bytes, ts) {
        Ok(o) => o,
        Err(_) => return "undec",
    };
    let Some(obj) = &f.obj else { return "nofile" };
    let mut a = vec![];
    canon(&rx, None, &mut a);
    let mut b = vec![];
    let native = if encapsulated(&f.ts) && !encapsulated(ts.uid()) { f.native.as_deref().map(|p| (p, f.bits)) } else { None };
    canon(obj, native, &mut b);
    if a == b {
        "eq"
    } else {
        "neq"
    }
}
