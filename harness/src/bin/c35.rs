//! C35 — fromimage / toimage round-trip pixel values.
//!
//! Random PNG (1..=64 px, gray8/gray16/rgb8/rgb16, written with the `image` crate re-exported by
//! dicom-pixeldata) → REAL `dicom-fromimage` on a generated base DICOM file → intermediate DICOM
//! file (attributes + pixel bytes printed) → REAL `dicom-toimage` (`--unwrap`, and PNG decoding for
//! RGB) → output printed.
//!
//! Line: `#i <color> <w> <h> <samples> B <basekind> F <exit> A <pi> <lut> <spp> <planar> <cols>
//!        <rows> <ba> <bs> <hb> <pr> <nof> <vr> <pixel> <ts> U <exit> <bytes> P <exit> <color> <w> <h> <samples>`
//! samples: 8-bit → one byte each, 16-bit → two bytes each, big endian (hex).
use dicom_core::{dicom_value, DataElement, PrimitiveValue, VR};
use dicom_dictionary_std::{tags, uids};
use dicom_object::{FileMetaTableBuilder, InMemDicomObject};
use dicom_pixeldata::image::{self, DynamicImage, ImageBuffer, Luma, Rgb};
use std::path::{Path, PathBuf};
use std::process::{Command, Stdio};
use verif_harness::util::*;

fn tool(name: &str) -> PathBuf {
    let dir = std::env::var("VERIF_TOOLS").unwrap_or_else(|_| "/verif/.target/repo-tools/release".into());
    Path::new(&dir).join(name)
}

fn dim(r: &mut Rng) -> u32 {
    match r.below(10) {
        0 => 1,
        1 => 2,
        2 => 64,
        3 => 63,
        4 => r.range(1, 8) as u32,
        _ => r.range(1, 64) as u32,
    }
}

fn sample(r: &mut Rng, bits: u32, style: u64) -> u16 {
    let max = if bits == 8 { 255u16 } else { 65535 };
    match style {
        0 => 0,
        1 => max,
        2 => *r.pick(&[0, 1, max, max - 1, 0x80, 0x7f, 0x100 & max, 0xff, 0x8000 & max, 0x7fff & max]),
        _ => (r.next_u32() as u16) & max,
    }
}

fn hex_samples(bits: u32, s: &[u16]) -> String {
    let mut b = Vec::with_capacity(s.len() * 2);
    for &x in s {
        if bits == 16 {
            b.push((x >> 8) as u8);
        }
        b.push(x as u8);
    }
    hex(&b)
}

fn write_base(r: &mut Rng, path: &Path, i: u64) -> String {
    let mut o = InMemDicomObject::new_empty();
    o.put(DataElement::new(tags::SOP_CLASS_UID, VR::UI, dicom_value!(Str, uids::SECONDARY_CAPTURE_IMAGE_STORAGE)));
    o.put(DataElement::new(tags::SOP_INSTANCE_UID, VR::UI, dicom_value!(Str, format!("1.2.826.0.1.3680043.9.35.{i}"))));
    o.put(DataElement::new(tags::MODALITY, VR::CS, dicom_value!(Str, "OT")));
    o.put(DataElement::new(tags::PATIENT_NAME, VR::PN, dicom_value!(Str, format!("Base^N{i}"))));
    let kind = r.below(4);
    let name = match kind {
        0 => "bare",
        1 => {
            // an old monochrome image with intensity transform attributes and several frames
            o.put(DataElement::new(tags::SAMPLES_PER_PIXEL, VR::US, dicom_value!(U16, [1])));
            o.put(DataElement::new(tags::PHOTOMETRIC_INTERPRETATION, VR::CS, dicom_value!(Str, "MONOCHROME1")));
            o.put(DataElement::new(tags::NUMBER_OF_FRAMES, VR::IS, dicom_value!(Str, "3")));
            o.put(DataElement::new(tags::ROWS, VR::US, dicom_value!(U16, [2])));
            o.put(DataElement::new(tags::COLUMNS, VR::US, dicom_value!(U16, [3])));
            o.put(DataElement::new(tags::BITS_ALLOCATED, VR::US, dicom_value!(U16, [16])));
            o.put(DataElement::new(tags::BITS_STORED, VR::US, dicom_value!(U16, [12])));
            o.put(DataElement::new(tags::HIGH_BIT, VR::US, dicom_value!(U16, [11])));
            o.put(DataElement::new(tags::PIXEL_REPRESENTATION, VR::US, dicom_value!(U16, [1])));
            o.put(DataElement::new(tags::SMALLEST_IMAGE_PIXEL_VALUE, VR::US, dicom_value!(U16, [5])));
            o.put(DataElement::new(tags::LARGEST_IMAGE_PIXEL_VALUE, VR::US, dicom_value!(U16, [9])));
            o.put(DataElement::new(tags::PIXEL_DATA, VR::OW, PrimitiveValue::U16(vec![7u16; 18].into())));
            "oldmono"
        }
        2 => {
            // an old planar colour image
            o.put(DataElement::new(tags::SAMPLES_PER_PIXEL, VR::US, dicom_value!(U16, [3])));
            o.put(DataElement::new(tags::PHOTOMETRIC_INTERPRETATION, VR::CS, dicom_value!(Str, "YBR_FULL")));
            o.put(DataElement::new(tags::PLANAR_CONFIGURATION, VR::US, dicom_value!(U16, [1])));
            o.put(DataElement::new(tags::ROWS, VR::US, dicom_value!(U16, [1])));
            o.put(DataElement::new(tags::COLUMNS, VR::US, dicom_value!(U16, [2])));
            o.put(DataElement::new(tags::BITS_ALLOCATED, VR::US, dicom_value!(U16, [8])));
            o.put(DataElement::new(tags::BITS_STORED, VR::US, dicom_value!(U16, [8])));
            o.put(DataElement::new(tags::HIGH_BIT, VR::US, dicom_value!(U16, [7])));
            o.put(DataElement::new(tags::PIXEL_REPRESENTATION, VR::US, dicom_value!(U16, [0])));
            o.put(DataElement::new(tags::PIXEL_DATA, VR::OB, PrimitiveValue::U8(vec![9u8; 6].into())));
            "oldplanar"
        }
        _ => {
            o.put(DataElement::new(tags::ROWS, VR::US, dicom_value!(U16, [700])));
            o.put(DataElement::new(tags::COLUMNS, VR::US, dicom_value!(U16, [900])));
            "olddims"
        }
    };
    let ts = if r.chance(1, 3) { uids::IMPLICIT_VR_LITTLE_ENDIAN } else { uids::EXPLICIT_VR_LITTLE_ENDIAN };
    let f = o.with_meta(FileMetaTableBuilder::new().transfer_syntax(ts)).expect("meta");
    f.write_to_file(path).expect("write base");
    format!("{name}-{}", if ts == uids::IMPLICIT_VR_LITTLE_ENDIAN { "implicit" } else { "explicit" })
}

fn run(cmd: &mut Command) -> i32 {
    match cmd.stdin(Stdio::null()).stdout(Stdio::null()).stderr(Stdio::null()).status() {
        Ok(s) => s.code().unwrap_or(-999),
        Err(_) => -998,
    }
}

fn main() {
    let a = parse_args();
    quiet_panics();
    let work = std::env::var("VERIF_WORK").unwrap_or_else(|_| "/verif/.work/c35-manual".into());
    let nanos = std::time::SystemTime::now().duration_since(std::time::UNIX_EPOCH).unwrap().subsec_nanos();
    let dir = Path::new(&work).join(format!("c35-{}-{}", std::process::id(), nanos));
    std::fs::create_dir_all(&dir).unwrap();
    let mut out = Out::new();
    for i in case_indices(&a) {
        let mut r = Rng::for_case(a.seed, i);
        let ck = r.below(4);
        let (cname, bits, spp) = [("l8", 8u32, 1usize), ("l16", 16, 1), ("rgb8", 8, 3), ("rgb16", 16, 3)][ck as usize];
        let (w, h) = (dim(&mut r), dim(&mut r));
        let style = r.below(6);
        let samples: Vec<u16> = (0..(w * h) as usize * spp).map(|_| sample(&mut r, bits, style)).collect();
        let png = dir.join(format!("in{i}.png"));
        let s8: Vec<u8> = samples.iter().map(|&x| x as u8).collect();
        let img = match ck {
            0 => DynamicImage::ImageLuma8(ImageBuffer::<Luma<u8>, _>::from_raw(w, h, s8).unwrap()),
            1 => DynamicImage::ImageLuma16(ImageBuffer::<Luma<u16>, _>::from_raw(w, h, samples.clone()).unwrap()),
            2 => DynamicImage::ImageRgb8(ImageBuffer::<Rgb<u8>, _>::from_raw(w, h, s8).unwrap()),
            _ => DynamicImage::ImageRgb16(ImageBuffer::<Rgb<u16>, _>::from_raw(w, h, samples.clone()).unwrap()),
        };
        img.save(&png).expect("save png");
        let base = dir.join(format!("base{i}.dcm"));
        let bk = write_base(&mut r, &base, i);
        let mid = dir.join(format!("mid{i}.dcm"));
        let mut line = format!("{cname} {w} {h} {} B {bk}", hex_samples(bits, &samples));
        // ---- import
        let fx = run(Command::new(tool("dicom-fromimage")).arg(&base).arg(&png).arg("-o").arg(&mid));
        line += &format!(" F {fx}");
        let attrs = match dicom_object::open_file(&mid) {
            Err(_) => "A unreadable".to_string(),
            Ok(f) => {
                let s = |t| f.get(t).and_then(|e| e.to_str().ok().map(|x| hexs(x.trim_end()))).unwrap_or("none".into());
                let n = |t| f.get(t).and_then(|e| e.to_int::<u32>().ok()).map(|v| v.to_string()).unwrap_or("none".into());
                let (vr, px) = match f.get(tags::PIXEL_DATA) {
                    Some(e) => (e.vr().to_string().to_string(), e.to_bytes().map(|b| hex(&b)).unwrap_or("nobytes".into())),
                    None => ("none".into(), "none".into()),
                };
                format!(
                    "A {} {} {} {} {} {} {} {} {} {} {} {} {} {}",
                    s(tags::PHOTOMETRIC_INTERPRETATION),
                    s(tags::PRESENTATION_LUT_SHAPE),
                    n(tags::SAMPLES_PER_PIXEL),
                    n(tags::PLANAR_CONFIGURATION),
                    n(tags::COLUMNS),
                    n(tags::ROWS),
                    n(tags::BITS_ALLOCATED),
                    n(tags::BITS_STORED),
                    n(tags::HIGH_BIT),
                    n(tags::PIXEL_REPRESENTATION),
                    n(tags::NUMBER_OF_FRAMES),
                    vr,
                    px,
                    hexs(f.meta().transfer_syntax())
                )
            }
        };
        line += &format!(" {attrs}");
        // ---- export: raw frame
        let data = dir.join(format!("out{i}.data"));
        let ux = run(Command::new(tool("dicom-toimage")).arg(&mid).arg("--unwrap").arg("-o").arg(&data));
        line += &format!(" U {ux} {}", std::fs::read(&data).map(|b| hex(&b)).unwrap_or("none".into()));
        // ---- export: decoded image (no intensity transform exists for 3-sample images)
        if spp == 3 {
            let opng = dir.join(format!("out{i}.png"));
            let px = run(Command::new(tool("dicom-toimage")).arg(&mid).arg("-o").arg(&opng));
            let res = match image::open(&opng) {
                Err(_) => "none 0 0 -".to_string(),
                Ok(DynamicImage::ImageLuma8(b)) => format!("l8 {} {} {}", b.width(), b.height(), hex(b.as_raw())),
                Ok(DynamicImage::ImageRgb8(b)) => format!("rgb8 {} {} {}", b.width(), b.height(), hex(b.as_raw())),
                Ok(DynamicImage::ImageLuma16(b)) => format!("l16 {} {} {}", b.width(), b.height(), hex_samples(16, b.as_raw())),
                Ok(DynamicImage::ImageRgb16(b)) => format!("rgb16 {} {} {}", b.width(), b.height(), hex_samples(16, b.as_raw())),
                Ok(_) => "other 0 0 -".to_string(),
            };
            line += &format!(" P {px} {res}");
            let _ = std::fs::remove_file(&opng);
        }
        for p in [&png, &base, &mid, &data] {
            let _ = std::fs::remove_file(p);
        }
        out.line(&format!("#{} {}", i, line));
    }
    drop(out);
    let _ = std::fs::remove_dir_all(&dir);
}
