//! C11 — numeric value conversions, extend_*, truncate on the real `dicom_core` types.
//!
//! Lines (see `fmt_pv` for the value syntax):
//!   `conv <level> <value> <20 results>`
//!        level p|v|e = called on PrimitiveValue | Value | DataElement;
//!        results: for T in u8 i8 u16 i16 u32 i32 u64 i64: to_int::<T>, to_multi_int::<T>;
//!        then to_float32, to_multi_float32, to_float64, to_multi_float64
//!        (`ok:<n>` / `ok:<n,n,…>` / `err`; floats as bit patterns)
//!   `hist <level> <value0> (<op> <res> <value>)*`
//!        a history of extend_* / truncate calls, the value after every call
//!        (level p = PrimitiveValue, v = Value::truncate only)
use dicom_core::header::{DataElement, HasLength, Length, Tag, VR};
use dicom_core::value::{
    DataSetSequence, DicomDate, DicomDateTime, DicomTime, PixelFragmentSequence, PrimitiveValue, Value, C,
};
use verif_harness::util::*;

#[derive(Debug, Clone, PartialEq)]
struct It(u32);
impl HasLength for It {
    fn length(&self) -> Length {
        Length(0)
    }
}
type Val = Value<It, u32>;

fn list<T, F: Fn(&T) -> String>(xs: &[T], f: F) -> String {
    xs.iter().map(f).collect::<Vec<_>>().join(",")
}

fn fmt_pv(v: &PrimitiveValue) -> String {
    use PrimitiveValue::*;
    match v {
        Empty => "E".into(),
        Str(s) => format!("S:{}", hexs(s)),
        Strs(l) => format!("SS:{}", list(l, |s| hexs(s))),
        Tags(l) => format!("T:{}", list(l, |t| hexs(&format!("{:04X}{:04X}", t.0, t.1)))),
        U8(l) => format!("U8:{}", list(l, |x| x.to_string())),
        I16(l) => format!("I16:{}", list(l, |x| x.to_string())),
        U16(l) => format!("U16:{}", list(l, |x| x.to_string())),
        I32(l) => format!("I32:{}", list(l, |x| x.to_string())),
        U32(l) => format!("U32:{}", list(l, |x| x.to_string())),
        I64(l) => format!("I64:{}", list(l, |x| x.to_string())),
        U64(l) => format!("U64:{}", list(l, |x| x.to_string())),
        F32(l) => format!("F32:{}", list(l, |x| x.to_bits().to_string())),
        F64(l) => format!("F64:{}", list(l, |x| x.to_bits().to_string())),
        Date(l) => format!("DA:{}", list(l, |x| hexs(&x.to_encoded()))),
        DateTime(l) => format!("DT:{}", list(l, |x| hexs(&x.to_encoded()))),
        Time(l) => format!("TM:{}", list(l, |x| hexs(&x.to_encoded()))),
    }
}

fn fmt_val(v: &Val) -> String {
    match v {
        Value::Primitive(p) => fmt_pv(p),
        Value::Sequence(s) => format!("SQ:{}", list(s.items(), |i| i.0.to_string())),
        Value::PixelSequence(p) => format!(
            "PX:{}/{}",
            list(p.offset_table(), |x| x.to_string()),
            list(p.fragments(), |x| x.to_string())
        ),
    }
}

const PAD: &[&str] = &[" ", "  ", "\0", "\0\0", " \0", "\t", "\n", "\r\n", "\u{00A0}", "\u{3000}", "\u{2003}", "\0 \0"];
const NOT_PAD: &[&str] = &["\u{200B}", "\u{FEFF}", "_", "\u{1}", "\u{7f}"];
const BAD_INT: &[&str] = &[
    "", "+", "-", "1 2", "1_000", "0x10", "1.0", "1e3", "\u{0661}\u{0662}", "--1", "+-1", "-+1", "1-", "1+", "+ 1",
    "- 1", "1\u{0}2", "\u{ff11}", "1,2", "1\\2", "٣", "0b1", "1u8", "abc", "²",
];
const FLOATS_TXT: &[&str] = &[
    "1.5", "-6.75", "1e10", "1E-3", "inf", "-inf", "+inf", "NaN", "nan", "infinity", "-Infinity", ".5", "5.", ".", "e5",
    "1e", "1e+", "0x1p3", "1_0.0", "1.5f", "1.5 2", "+.5e+2", "-.e1", "1.e1", "1e400", "1e-400", "3.4028236e38",
    "16777217", "9007199254740993", "0.1", "-0", "-0.0", "+", "-", "in", "infinit", "nane", "1.2.3", "1d5", "١.٥",
    "123456789012345678901234567890", "4.9e-324", "2.2250738585072011e-308",
];

fn int_text(r: &mut Rng) -> String {
    // magnitude: boundary of some width, or random, or beyond 64 bits
    let mag: String = match r.below(12) {
        0 => "0".into(),
        1 => {
            let bits = *r.pick(&[7u32, 8, 15, 16, 31, 32, 63, 64]);
            let m: u128 = 1u128 << bits;
            let d = r.below(3) as u128; // 2^b - 1, 2^b, 2^b + 1
            (m + d - 1).to_string()
        }
        2 => "18446744073709551616".into(),
        3 => "99999999999999999999999999".into(),
        4 => "340282366920938463463374607431768211456".into(),
        5 => r.below(300).to_string(),
        _ => {
            let bits = *r.pick(&[4u32, 8, 16, 32, 64]);
            r.edgy(bits).to_string()
        }
    };
    let zeros = match r.below(8) {
        0 => "0",
        1 => "000",
        2 => "0000000000000000000000000000",
        _ => "",
    };
    let sign = match r.below(6) {
        0 | 1 => "-",
        2 => "+",
        _ => "",
    };
    format!("{sign}{zeros}{mag}")
}

fn num_text(r: &mut Rng, floaty: bool) -> String {
    let core: String = match r.below(14) {
        0 => r.pick(BAD_INT).to_string(),
        1 | 2 if floaty => r.pick(FLOATS_TXT).to_string(),
        3 => r.pick(FLOATS_TXT).to_string(),
        4 => format!("{}{}", int_text(r), r.pick(NOT_PAD)),
        5 => format!("{}{}", r.pick(NOT_PAD), int_text(r)),
        6 => format!("-{}", "0".repeat(r.usize(1, 4))),
        _ => int_text(r),
    };
    let mut s = core;
    if r.chance(1, 3) {
        s.push_str(*r.pick(PAD));
    }
    if r.chance(1, 5) {
        s.insert_str(0, *r.pick(PAD));
    }
    if r.chance(1, 40) {
        s = r.pick(PAD).to_string();
    }
    s
}

fn f32_bits(r: &mut Rng) -> u32 {
    const E: &[u32] = &[
        0, 0x8000_0000, 0x3f80_0000, 0xbf80_0000, 0x7f7f_ffff, 0xff7f_ffff, 0x7f80_0000, 0xff80_0000, 0x7fc0_0000,
        0xffc0_0001, 0x0000_0001, 0x0080_0000, 0x4b80_0000, 0x4f00_0000, 0xcf00_0000, 0x4f80_0000, 0x5f00_0000,
        0xdf00_0000, 0x5f80_0000, 0x437f_0000, 0x4380_0000, 0x42fe_0000, 0x4300_0000, 0xc300_0000, 0xc301_0000,
        0x477f_ff00, 0x4780_0000, 0x46ff_fe00, 0x4700_0000, 0xc700_0000, 0x3f00_0000, 0xbf00_0000, 0x3fc0_0000,
        0x7f80_0001,
    ];
    match r.below(4) {
        0 | 1 => *r.pick(E),
        2 => ((r.edgy(16) as i64 - if r.chance(1, 2) { 40000 } else { 0 }) as f32).to_bits(),
        _ => r.next_u32(),
    }
}

fn f32_val(r: &mut Rng) -> f32 {
    match r.below(6) {
        0 => (r.edgy(32) as i64 - if r.chance(1, 2) { 1 << 31 } else { 0 }) as f32,
        1 => (r.edgy(64) as i64) as f32 + if r.chance(1, 2) { 0.5 } else { 0.0 },
        2 => (r.edgy(8) as f32) + *r.pick(&[0.0f32, 0.5, -0.5, 0.99, -300.0]),
        _ => f32::from_bits(f32_bits(r)),
    }
}

fn f64_val(r: &mut Rng) -> f64 {
    const E: &[u64] = &[
        0,
        0x8000_0000_0000_0000,
        0x3ff0_0000_0000_0000,
        0x7fef_ffff_ffff_ffff,
        0xffef_ffff_ffff_ffff,
        0x7ff0_0000_0000_0000,
        0xfff0_0000_0000_0000,
        0x7ff8_0000_0000_0000,
        0xfff8_0000_0000_0001,
        0x7ff0_0000_0000_0001,
        0x0000_0000_0000_0001,
        0x0010_0000_0000_0000,
        0x47ef_ffff_e000_0000, // f32::MAX
        0x47ef_ffff_f000_0000, // halfway to overflow in f32
        0x47f0_0000_0000_0000,
        0x36a0_0000_0000_0000, // f32 min subnormal
        0x3690_0000_0000_0000,
        0x4170_0000_1000_0000, // 16777217
        0x43e0_0000_0000_0000, // 2^63
        0xc3e0_0000_0000_0000,
        0x43f0_0000_0000_0000, // 2^64
        0x41e0_0000_0000_0000, // 2^31
        0xc1e0_0000_0020_0000,
        0x41ef_ffff_ffe0_0000, // u32::MAX
        0x3fb9_9999_9999_999a,
        0x7e37_e43c_8800_759c, // 1e300
    ];
    match r.below(6) {
        0 => (r.edgy(64) as i64) as f64,
        1 => (r.edgy(32) as i64 - if r.chance(1, 2) { 1 << 31 } else { 0 }) as f64 + *r.pick(&[0.0f64, 0.5, -0.5, 0.999]),
        2 => f32_val(r) as f64,
        3 => f64::from_bits(r.next_u64()),
        _ => f64::from_bits(*r.pick(E)),
    }
}

fn gen_len(r: &mut Rng) -> usize {
    match r.below(10) {
        0 | 1 => 0,
        2 | 3 | 4 => 1,
        5 | 6 => 2,
        _ => r.usize(3, 6),
    }
}

fn sgn(r: &mut Rng, bits: u32) -> i64 {
    // a signed `bits`-bit number biased to the boundaries
    let u = r.edgy(bits);
    if bits == 64 {
        u as i64
    } else {
        let half = 1u64 << (bits - 1);
        if u >= half {
            u as i64 - (1i64 << bits)
        } else {
            u as i64
        }
    }
}

fn gen_date(r: &mut Rng) -> DicomDate {
    let y = r.range(1900, 2100) as u16;
    match r.below(3) {
        0 => DicomDate::from_y(y).unwrap(),
        1 => DicomDate::from_ym(y, r.range(1, 12) as u8).unwrap(),
        _ => DicomDate::from_ymd(y, r.range(1, 12) as u8, r.range(1, 28) as u8).unwrap(),
    }
}
fn gen_time(r: &mut Rng) -> DicomTime {
    match r.below(3) {
        0 => DicomTime::from_h(r.below(24) as u8).unwrap(),
        1 => DicomTime::from_hm(r.below(24) as u8, r.below(60) as u8).unwrap(),
        _ => DicomTime::from_hms(r.below(24) as u8, r.below(60) as u8, r.below(60) as u8).unwrap(),
    }
}

fn gen_pv(r: &mut Rng) -> PrimitiveValue {
    use PrimitiveValue::*;
    let n = gen_len(r);
    match r.below(20) {
        0 => Empty,
        1 | 2 => {
            let fl = r.chance(1, 3);
            Str(num_text(r, fl))
        }
        3 | 4 | 5 => {
            let fl = r.chance(1, 3);
            Strs((0..n).map(|_| num_text(r, fl)).collect())
        }
        6 => Tags((0..n).map(|_| Tag(r.edgy(16) as u16, r.edgy(16) as u16)).collect()),
        7 => U8((0..n).map(|_| r.edgy(8) as u8).collect()),
        8 => I16((0..n).map(|_| sgn(r, 16) as i16).collect()),
        9 => U16((0..n).map(|_| r.edgy(16) as u16).collect()),
        10 => I32((0..n).map(|_| sgn(r, 32) as i32).collect()),
        11 => U32((0..n).map(|_| r.edgy(32) as u32).collect()),
        12 => I64((0..n).map(|_| sgn(r, 64)).collect()),
        13 => U64((0..n).map(|_| r.edgy(64)).collect()),
        14 | 15 => F32((0..n).map(|_| f32_val(r)).collect()),
        16 | 17 => F64((0..n).map(|_| f64_val(r)).collect()),
        18 => Date((0..n).map(|_| gen_date(r)).collect()),
        _ => {
            if r.chance(1, 2) {
                Time((0..n).map(|_| gen_time(r)).collect())
            } else {
                DateTime((0..n).map(|_| DicomDateTime::from_date(gen_date(r))).collect())
            }
        }
    }
}

fn gen_val(r: &mut Rng) -> Val {
    match r.below(12) {
        0 => {
            let n = gen_len(r);
            Value::Sequence(DataSetSequence::new(
                (0..n).map(|_| It(r.below(100) as u32)).collect::<C<It>>(),
                Length::UNDEFINED,
            ))
        }
        1 => {
            let n = gen_len(r);
            let m = gen_len(r);
            Value::PixelSequence(PixelFragmentSequence::new(
                (0..m).map(|_| r.below(1000) as u32).collect::<C<u32>>(),
                (0..n).map(|_| r.below(100) as u32).collect::<C<u32>>(),
            ))
        }
        _ => Value::Primitive(gen_pv(r)),
    }
}

fn one<T: ToString>(x: Option<T>) -> String {
    match x {
        Some(v) => format!("ok:{}", v.to_string()),
        None => "err".into(),
    }
}
fn many<T: ToString>(x: Option<Vec<T>>) -> String {
    match x {
        Some(v) => format!("ok:{}", list(&v, |y| y.to_string())),
        None => "err".into(),
    }
}
fn guard(f: impl FnOnce() -> String) -> String {
    match catch(std::panic::AssertUnwindSafe(f)) {
        Ok(s) => s,
        Err(_) => "panic".into(),
    }
}

/// all 20 conversions of `$c` (a PrimitiveValue, Value or DataElement)
macro_rules! conv_all {
    ($c:expr) => {{
        let c = $c;
        let mut out: Vec<String> = Vec::new();
        macro_rules! ints_of {
            ($t:ty) => {
                out.push(guard(|| one(c.to_int::<$t>().ok())));
                out.push(guard(|| many(c.to_multi_int::<$t>().ok())));
            };
        }
        ints_of!(u8);
        ints_of!(i8);
        ints_of!(u16);
        ints_of!(i16);
        ints_of!(u32);
        ints_of!(i32);
        ints_of!(u64);
        ints_of!(i64);
        out.push(guard(|| one(c.to_float32().ok().map(|x| x.to_bits()))));
        out.push(guard(|| many(c.to_multi_float32().ok().map(|v| v.into_iter().map(|x| x.to_bits()).collect()))));
        out.push(guard(|| one(c.to_float64().ok().map(|x| x.to_bits()))));
        out.push(guard(|| many(c.to_multi_float64().ok().map(|v| v.into_iter().map(|x| x.to_bits()).collect()))));
        out.join(" ")
    }};
}

fn mod_res(r: Result<(), dicom_core::value::ModifyValueError>) -> &'static str {
    use dicom_core::value::ModifyValueError::*;
    match r {
        Ok(()) => "ok",
        Err(IncompatibleStringType { .. }) => "err:str",
        Err(IncompatibleNumberType { .. }) => "err:num",
        #[allow(unreachable_patterns)]
        Err(_) => "err:other",
    }
}

/// apply one random operation, return its token and result token
fn gen_op(r: &mut Rng, v: &mut PrimitiveValue) -> (String, &'static str) {
    let n = match r.below(6) {
        0 => 0,
        1 | 2 => 1,
        _ => r.usize(2, 4),
    };
    match r.below(9) {
        0 => {
            let xs: Vec<String> = (0..n).map(|_| num_text(r, true)).collect();
            let tok = format!("xs:{}", list(&xs, |s| hexs(s)));
            (tok, mod_res(v.extend_str(xs)))
        }
        1 => {
            let xs: Vec<u16> = (0..n).map(|_| r.edgy(16) as u16).collect();
            (format!("xu16:{}", list(&xs, |x| x.to_string())), mod_res(v.extend_u16(xs)))
        }
        2 => {
            let xs: Vec<i16> = (0..n).map(|_| sgn(r, 16) as i16).collect();
            (format!("xi16:{}", list(&xs, |x| x.to_string())), mod_res(v.extend_i16(xs)))
        }
        3 => {
            let xs: Vec<i32> = (0..n).map(|_| sgn(r, 32) as i32).collect();
            (format!("xi32:{}", list(&xs, |x| x.to_string())), mod_res(v.extend_i32(xs)))
        }
        4 => {
            let xs: Vec<u32> = (0..n).map(|_| r.edgy(32) as u32).collect();
            (format!("xu32:{}", list(&xs, |x| x.to_string())), mod_res(v.extend_u32(xs)))
        }
        5 => {
            let xs: Vec<f32> = (0..n).map(|_| f32_val(r)).collect();
            let tok = format!("xf32:{}", list(&xs, |x| format!("{}/{}", x.to_bits(), hexs(&x.to_string()))));
            (tok, mod_res(v.extend_f32(xs)))
        }
        6 => {
            let xs: Vec<f64> = (0..n).map(|_| f64_val(r)).collect();
            let tok = format!("xf64:{}", list(&xs, |x| format!("{}/{}", x.to_bits(), hexs(&x.to_string()))));
            (tok, mod_res(v.extend_f64(xs)))
        }
        _ => {
            let lim = match r.below(5) {
                0 => 0,
                1 => usize::MAX,
                _ => r.usize(0, 7),
            };
            v.truncate(lim);
            (format!("tr:{}", lim), "-")
        }
    }
}

fn main() {
    let a = parse_args();
    quiet_panics();
    let mut out = Out::new();
    for i in case_indices(&a) {
        let mut r = Rng::for_case(a.seed, i);
        let line = match r.below(10) {
            0..=5 => {
                // conversions
                let val = gen_val(&mut r);
                let level = match &val {
                    Value::Primitive(_) => *r.pick(&["p", "v", "e"]),
                    _ => *r.pick(&["v", "e"]),
                };
                let res = match level {
                    "p" => conv_all!(val.primitive().unwrap()),
                    "v" => conv_all!(&val),
                    _ => {
                        let e: DataElement<It, u32> = DataElement::new(Tag(0x0009, 0x1001), VR::UN, val.clone());
                        conv_all!(&e)
                    }
                };
                format!("conv {} {} {}", level, fmt_val(&val), res)
            }
            6 => {
                // Value::truncate on any kind of value
                let mut val = gen_val(&mut r);
                let mut s = format!("hist v {}", fmt_val(&val));
                for _ in 0..r.usize(1, 4) {
                    let lim = match r.below(5) {
                        0 => 0,
                        1 => usize::MAX,
                        _ => r.usize(0, 7),
                    };
                    val.truncate(lim);
                    s.push_str(&format!(" tr:{} - {}", lim, fmt_val(&val)));
                }
                s
            }
            _ => {
                let mut v = gen_pv(&mut r);
                let mut s = format!("hist p {}", fmt_pv(&v));
                let steps = if a.thorough { r.usize(1, 40) } else { r.usize(1, 10) };
                for _ in 0..steps {
                    let (tok, res) = gen_op(&mut r, &mut v);
                    s.push_str(&format!(" {} {} {}", tok, res, fmt_pv(&v)));
                }
                // the appended numbers as seen through the conversions
                s.push_str(&format!(" end {}", conv_all!(&v)));
                s
            }
        };
        out.line(&format!("#{} {}", i, line));
    }
}
