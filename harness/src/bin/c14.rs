//! C14 — tags, keywords and attribute selectors have a lossless text syntax.
//! Calls the real `dicom_core` (`Tag: Display + FromStr`, `AttributeSelector: Display`) and
//! `StandardDataDictionary::{parse_tag, parse_selector}`.
//!
//! Stage 2 of `driver gen | harness run | driver check`: stdin carries one `kw <hex>` line per
//! dictionary keyword (from the generated table, produced by the Lean driver); the generated cases
//! follow. Case lines:
//!   tagrt <g> <e> <display hex> <form> <case> <text hex> <res>     text = form of the tag; res of `text.parse::<Tag>()`
//!   str <text hex> <res>                                          arbitrary / near-miss text
//!   sel <k> (<g> <e> <item>)*k <g> <e> <printed hex> <sres>        selector, its Display, parse_selector(printed)
//!   seltext <text hex> <sres>                                     arbitrary selector text
//!   kw <keyword hex> <parse_tag res> <item> <sel text hex> <sres>  keyword alone and inside a selector
//! res  = `ok <g> <e>` | `err` | `panic`;  sres = `ok <k> (<g> <e> <item>)*k <g> <e>` | `err` | `panic`
use dicom_core::dictionary::DataDictionary;
use dicom_core::ops::{AttributeSelector, AttributeSelectorStep};
use dicom_core::Tag;
use dicom_dictionary_std::StandardDataDictionary;
use std::io::BufRead;
use verif_harness::util::*;

fn tag_res(s: &str) -> String {
    let s2 = s.to_string();
    match catch(move || s2.parse::<Tag>()) {
        Ok(Ok(t)) => format!("ok {} {}", t.0, t.1),
        Ok(Err(_)) => "err".into(),
        Err(_) => "panic".into(),
    }
}

fn key_res(s: &str) -> String {
    let s2 = s.to_string();
    match catch(move || StandardDataDictionary.parse_tag(&s2)) {
        Ok(Some(t)) => format!("ok {} {}", t.0, t.1),
        Ok(None) => "none".into(),
        Err(_) => "panic".into(),
    }
}

fn show_sel(sel: &AttributeSelector) -> String {
    let steps: Vec<&AttributeSelectorStep> = sel.iter().collect();
    let mut out = format!("{}", steps.len() - 1);
    for st in steps {
        match st {
            AttributeSelectorStep::Nested { tag, item } => out.push_str(&format!(" {} {} {}", tag.0, tag.1, item)),
            AttributeSelectorStep::Tag(tag) => out.push_str(&format!(" {} {}", tag.0, tag.1)),
        }
    }
    out
}

fn sel_res(s: &str) -> String {
    let s2 = s.to_string();
    match catch(move || StandardDataDictionary.parse_selector(&s2)) {
        Ok(Ok(sel)) => format!("ok {}", show_sel(&sel)),
        Ok(Err(_)) => "err".into(),
        Err(_) => "panic".into(),
    }
}

fn gen_tag(r: &mut Rng) -> Tag {
    const B: &[u16] = &[0, 1, 2, 8, 9, 0x10, 0xFF, 0x100, 0x7FE0, 0x7FFF, 0x8000, 0xFFFE, 0xFFFF, 0xABCD, 0xFACE, 0xbeef, 0x00A0, 0x0A00];
    let g = if r.chance(1, 3) { *r.pick(B) } else { r.next_u32() as u16 };
    let e = if r.chance(1, 3) { *r.pick(B) } else { r.next_u32() as u16 };
    Tag(g, e)
}

/// text of a tag in form 0 `(G,E)`, 1 `G,E`, 2 `GE`; case 0 upper, 1 lower, 2 mixed per digit
fn tag_text(r: &mut Rng, t: Tag, form: u64, case: u64) -> String {
    let digits = format!("{:04X}{:04X}", t.0, t.1);
    let d: String = digits
        .chars()
        .map(|c| match case {
            0 => c,
            1 => c.to_ascii_lowercase(),
            _ => {
                if r.chance(1, 2) {
                    c.to_ascii_lowercase()
                } else {
                    c
                }
            }
        })
        .collect();
    match form {
        0 => format!("({},{})", &d[..4], &d[4..]),
        1 => format!("{},{}", &d[..4], &d[4..]),
        _ => d,
    }
}

const PALETTE: &[char] = &[
    '0', '1', '7', '9', 'a', 'f', 'A', 'F', 'g', 'G', 'x', 'Z', '(', ')', ',', '.', '[', ']', ' ', '+', '-', '\t', '\0', '/', ':', '@', '`',
    '\u{e9}', '\u{df}', '\u{3a9}', '\u{20ac}', '\u{ff11}', '\u{ff21}', '\u{1F600}', '\u{10FFFF}', '\u{80}', '\u{7ff}', '\u{800}', '\u{ffff}',
];

fn gen_string(r: &mut Rng) -> String {
    match r.below(6) {
        // arbitrary Unicode strings of 0–16 chars
        0 | 1 => {
            let n = r.usize(0, 16);
            (0..n).map(|_| *r.pick(PALETTE)).collect()
        }
        // strings whose *byte* length is exactly 8, 9 or 11, with multi-byte chars inside
        2 => {
            let want = *r.pick(&[8usize, 9, 11]);
            let mut s = String::new();
            while s.len() < want {
                let c = if r.chance(1, 3) { *r.pick(PALETTE) } else { *r.pick(&['0', 'a', 'F', '(', ',', ')']) };
                if s.len() + c.len_utf8() <= want {
                    s.push(c);
                }
            }
            s
        }
        // near-miss mutations of a valid form
        _ => {
            let t = gen_tag(r);
            let (form, case) = (r.below(3), r.below(3));
            let mut cs: Vec<char> = tag_text(r, t, form, case).chars().collect();
            let k = r.usize(0, cs.len() - 1);
            match r.below(7) {
                0 => cs[k] = *r.pick(PALETTE),
                1 => {
                    cs.remove(k);
                }
                2 => cs.insert(k, *r.pick(PALETTE)),
                3 => {
                    let n = cs.len();
                    cs.swap(k, (k + 1) % n)
                }
                4 => cs[k] = *r.pick(&['g', 'G', ' ', '\u{e9}', '+', 'x']),
                5 => {
                    // wrong separators / brackets
                    for c in cs.iter_mut() {
                        if *c == ',' && r.chance(1, 2) {
                            *c = *r.pick(&['.', ';', ' ', ':']);
                        } else if *c == '(' && r.chance(1, 2) {
                            *c = '[';
                        } else if *c == ')' && r.chance(1, 2) {
                            *c = ']';
                        }
                    }
                }
                _ => {
                    // another whole valid form appended / prefixed
                    if r.chance(1, 2) {
                        cs.push(' ')
                    } else {
                        cs.insert(0, ' ')
                    }
                }
            }
            cs.into_iter().collect()
        }
    }
}

const ITEMS: &[&str] = &["[0]", "[1]", "[12]", "[+3]", "[ 1]", "[]", "[4294967295]", "[4294967296]", "[-1]", "[007]", "[1", "1]", "[1]]", "[[1]", "[x]", "[１]", "]"];

fn gen_seltext(r: &mut Rng, kws: &[String]) -> String {
    let n = r.usize(1, 4);
    let mut parts: Vec<String> = vec![];
    for i in 0..n {
        let mut key = match r.below(8) {
            0 | 1 if !kws.is_empty() => r.pick(kws).clone(),
            2 => gen_string(r),
            _ => {
                let t = gen_tag(r);
                let (form, case) = (r.below(3), r.below(3));
                tag_text(r, t, form, case)
            }
        };
        let last = i + 1 == n;
        if (!last && r.chance(3, 4)) || (last && r.chance(1, 8)) {
            if r.chance(3, 4) {
                key.push_str(&format!("[{}]", r.edgy(32)));
            } else {
                key.push_str(*r.pick(ITEMS));
            }
        }
        parts.push(key);
    }
    let mut s = parts.join(".");
    match r.below(12) {
        0 => s.push('.'),
        1 => s.insert(0, '.'),
        2 => s = s.replace('.', ".."),
        3 => s.clear(),
        _ => {}
    }
    s
}

fn main() {
    let a = parse_args();
    quiet_panics();
    let mut out = Out::new();
    // dictionary keywords from the Lean side
    let mut kws: Vec<String> = vec![];
    for l in std::io::stdin().lock().lines() {
        let l = l.unwrap();
        let t: Vec<&str> = l.split(' ').filter(|x| !x.is_empty()).collect();
        if t.len() == 3 && t[1] == "kw" {
            if let Ok(s) = String::from_utf8(unhex(t[2])) {
                kws.push(s);
            }
        }
    }
    // generated cases
    for i in case_indices(&a) {
        if i >= a.count {
            break;
        }
        let mut r = Rng::for_case(a.seed, i);
        let line = match r.below(10) {
            0 | 1 | 2 => {
                let t = gen_tag(&mut r);
                let (form, case) = (r.below(3), r.below(3));
                let text = tag_text(&mut r, t, form, case);
                format!("tagrt {} {} {} {} {} {} {}", t.0, t.1, hexs(&t.to_string()), form, case, hexs(&text), tag_res(&text))
            }
            3 | 4 | 5 => {
                let s = gen_string(&mut r);
                format!("str {} {}", hexs(&s), tag_res(&s))
            }
            6 | 7 => {
                let depth = match r.below(6) {
                    0 => 1,
                    1 => 2,
                    2 => 3,
                    3 => 4,
                    4 => r.usize(5, 12),
                    _ => r.usize(1, 4),
                };
                let mut steps: Vec<AttributeSelectorStep> = vec![];
                let mut desc = format!("{}", depth - 1);
                for _ in 0..depth - 1 {
                    let t = gen_tag(&mut r);
                    let item = r.edgy(32) as u32;
                    desc.push_str(&format!(" {} {} {}", t.0, t.1, item));
                    steps.push(AttributeSelectorStep::Nested { tag: t, item });
                }
                let t = gen_tag(&mut r);
                desc.push_str(&format!(" {} {}", t.0, t.1));
                steps.push(AttributeSelectorStep::Tag(t));
                match AttributeSelector::new(steps) {
                    Some(sel) => {
                        let printed = sel.to_string();
                        format!("sel {} {} {}", desc, hexs(&printed), sel_res(&printed))
                    }
                    None => format!("sel {} - new-failed", desc),
                }
            }
            _ => {
                let s = gen_seltext(&mut r, &kws);
                format!("seltext {} {}", hexs(&s), sel_res(&s))
            }
        };
        out.line(&format!("#{} {}", i, line));
    }
    // exhaustive sweep: every ASCII byte (0..=127, control characters included) in every digit position of
    // every accepted layout ("accepts exactly these forms": only the 22 hexadecimal digits may be accepted)
    {
        let bases = ["(0028,0A1f)", "0028,0A1f", "00280A1f"];
        let mut j = 0u64;
        for base in bases {
            for (pos, ch) in base.char_indices() {
                if !ch.is_ascii_hexdigit() {
                    continue;
                }
                for b in 0u8..=127 {
                    let id = 1_000_000_000 + j;
                    j += 1;
                    if let Some(only) = a.only {
                        if only != id {
                            continue;
                        }
                    }
                    let mut bytes = base.as_bytes().to_vec();
                    bytes[pos] = b;
                    let s = String::from_utf8(bytes).expect("ascii");
                    out.line(&format!("#{} str {} {}", id, hexs(&s), tag_res(&s)));
                }
            }
        }
    }
    // every dictionary keyword: alone (parse_tag) and inside a selector `kw[item].kw`
    for (j, k) in kws.iter().enumerate() {
        let id = a.count + j as u64;
        if let Some(only) = a.only {
            if only != id {
                continue;
            }
        }
        let mut r = Rng::for_case(a.seed, id);
        let item = r.edgy(32) as u32;
        let text = if r.chance(1, 4) { format!("{}.{}", k, k) } else { format!("{}[{}].{}", k, item, k) };
        out.line(&format!("#{} kw {} {} {} {} {}", id, hexs(k), key_res(k), item, hexs(&text), sel_res(&text)));
    }
}
