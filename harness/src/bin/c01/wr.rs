//! Shared by c01 / c04: the real write calls (all three API routes), deflate handling and the
//! construction of the object under test. Include next to `mod gen;` with `#[path = "c01/wr.rs"] mod wr;`.
#![allow(dead_code)]
use crate::gen::*;
use dicom_encoding::transfer_syntax::{Codec, TransferSyntaxIndex};
use dicom_encoding::TransferSyntax;
use dicom_object::InMemDicomObject;
use dicom_parser::dataset::write::{DataSetWriterOptions, ExplicitLengthSqItemStrategy};
use dicom_transfer_syntax_registry::TransferSyntaxRegistry;
use std::io::Read;
use verif_harness::util::*;

pub const TS_UIDS: [&str; 4] = ["1.2.840.10008.1.2", "1.2.840.10008.1.2.1", "1.2.840.10008.1.2.2", "1.2.840.10008.1.2.1.99"];

pub fn ts_of(k: u8) -> &'static TransferSyntax {
    TransferSyntaxRegistry.get(TS_UIDS[k as usize]).expect("transfer syntax registered")
}

/// inflate with dicom-rs' own adapter; None when the stream is not a complete deflate stream
pub fn inflate(ts: &TransferSyntax, raw: &[u8]) -> Option<Vec<u8>> {
    if let Codec::Dataset(Some(adapter)) = ts.codec() {
        let mut r = adapter.adapt_reader(Box::new(raw));
        let mut out = Vec::new();
        match r.read_to_end(&mut out) {
            Ok(_) => Some(out),
            Err(_) => None,
        }
    } else {
        None
    }
}

pub fn show(ts_k: u8, res: Result<Result<Vec<u8>, ()>, String>) -> String {
    match res {
        Err(_) => "panic".into(),
        Ok(Err(())) => "err".into(),
        Ok(Ok(raw)) => {
            // `ok:<raw bytes>:<inflated bytes or ->` (inflation attempted for the deflated syntax only)
            let inf = if ts_k == 3 { inflate(ts_of(3), &raw) } else { None };
            match inf {
                Some(i) => format!("ok:{}:{}", hex(&raw), hex(&i)),
                None => format!("ok:{}:x", hex(&raw)),
            }
        }
    }
}

/// the three write calls: default API, options API with SetUndefined, options API with NoChange
pub fn write_all_ways(obj: &InMemDicomObject, ts_k: u8) -> [String; 3] {
    let ts = ts_of(ts_k);
    let a = catch(std::panic::AssertUnwindSafe(|| {
        let mut out = Vec::new();
        obj.write_dataset_with_ts(&mut out, ts).map(|_| out).map_err(|_| ())
    }));
    let mk = |strat| {
        catch(std::panic::AssertUnwindSafe(|| {
            let mut out = Vec::new();
            let opts = DataSetWriterOptions::default().explicit_length_sq_item_strategy(strat);
            obj.write_dataset_with_ts_options(&mut out, ts, opts).map(|_| out).map_err(|_| ())
        }))
    };
    let b = mk(ExplicitLengthSqItemStrategy::SetUndefined);
    let c = mk(ExplicitLengthSqItemStrategy::NoChange);
    [show(ts_k, a), show(ts_k, b), show(ts_k, c)]
}

/// object for a case: path A (constructors) or path B (consistent explicit lengths, via the
/// reference encoder + dicom-rs reader in the same syntax)
/// `Err((syntax, generated nodes, bytes))`: the real reader did not accept the independent reference
/// encoding of the generated data set (never on a correct reader; reported, not silently replaced by path A)
pub fn case_object(r: &mut Rng, ts_k: u8, depth: u32) -> Result<(InMemDicomObject, &'static str), (u8, Vec<Node>, Vec<u8>)> {
    let path_b = r.chance(1, 3);
    // (a zero-length fragment does not survive reading, so explicit lengths read back would be stale)
    let o = GenOpts { max_depth: depth, empty_frags: !path_b, ..Default::default() };
    let nodes = gen_dataset(r, 0, &o);
    if path_b {
        let mode = r.below(3);
        let seed = r.next_u64();
        let explicit = move |d: u32, k: usize| -> (bool, bool) {
            let h = seed.wrapping_mul(0x9E3779B97F4A7C15 ^ ((d as u64) << 32 | k as u64)).rotate_left(17);
            match mode {
                0 => (true, true),
                1 => (h & 1 == 1, h & 2 == 2),
                _ => (h & 1 == 1, true),
            }
        };
        let enc_ts = if ts_k == 3 { 1 } else { ts_k };
        let bytes = ref_encode(&nodes, enc_ts, &explicit, 0);
        // read with the uncompressed syntax (Deflated = Explicit VR LE after inflation)
        return match catch(std::panic::AssertUnwindSafe(|| InMemDicomObject::read_dataset_with_ts(&bytes[..], ts_of(enc_ts)))) {
            Ok(Ok(obj)) => Ok((obj, "B")),
            _ => Err((enc_ts, nodes, bytes)),
        };
    }
    Ok((to_object(&nodes), "A"))
}

/// fixed witness (index 0): Explicit VR LE, a sequence whose first item holds an encapsulated Pixel Data
/// element and whose second item has an explicit length and contains a defined-length sequence
pub const WITNESS_PIXEL_THEN_ITEM: &[u8] = &[
    0x08, 0x00, 0x40, 0x11, b'S', b'Q', 0, 0, 0xff, 0xff, 0xff, 0xff, // (0008,1140) SQ undefined
    0xfe, 0xff, 0x00, 0xe0, 0xff, 0xff, 0xff, 0xff, // item, undefined
    0xe0, 0x7f, 0x10, 0x00, b'O', b'B', 0, 0, 0xff, 0xff, 0xff, 0xff, // (7FE0,0010) OB undefined
    0xfe, 0xff, 0x00, 0xe0, 0, 0, 0, 0, // empty offset table
    0xfe, 0xff, 0xdd, 0xe0, 0, 0, 0, 0, // sequence delimiter
    0xfe, 0xff, 0x0d, 0xe0, 0, 0, 0, 0, // item delimiter
    0xfe, 0xff, 0x00, 0xe0, 20, 0, 0, 0, // item, length 20
    0x08, 0x00, 0x40, 0x11, b'S', b'Q', 0, 0, 8, 0, 0, 0, // (0008,1140) SQ length 8
    0xfe, 0xff, 0x00, 0xe0, 0, 0, 0, 0, // item, length 0
    0xfe, 0xff, 0xdd, 0xe0, 0, 0, 0, 0, // sequence delimiter
];

