//! Shared data-set generator and line-protocol serialiser (used by c01, c04 and, via
//! `#[path = "../c01/gen.rs"] mod gen;`, by other runners).
//!
//! * `Node` — a plain tree mirror of an in-memory data set (element / sequence / pixel sequence)
//!   with the *recorded* lengths (`0xFFFF_FFFF` = undefined).
//! * `gen_dataset(rng, depth)` — random well-formed data set: all 34 VRs with values valid for the VR
//!   (textual, binary, date/time typed values, numbers in DS/IS), multi-valued, empty, nested sequences
//!   up to `depth`, pixel fragment sequences, private / unknown tags, optional Specific Character Set.
//! * `to_object(nodes)` — builds the `InMemDicomObject` through the public constructors
//!   (item lengths are then undefined; sequence lengths as recorded in the node).
//! * `ref_encode(nodes, ts, explicit)` — small independent PS3.5 encoder (used only to obtain objects
//!   with *consistent explicit* sequence/item lengths by reading its output back with dicom-rs).
//! * `from_object(obj)` — walks the object the real writer is going to receive back into `Node`s.
//! * `sexpr(nodes)` — the S-expression token form of the line protocol:
//!     `( el GGGGEEEE VR len <val> )`   `( sq GGGGEEEE len ( it len … ) … )`   `( px ( bot n,n ) ( fr hex ) … )`
//!   `<val>` = `e` | `s:<hex>,…` (Strs) | `t:<hex>` (Str) | `tags:GGGGEEEE,…` | `u8:<hex>` |
//!   `u16:` `i16:` `u32:` `i32:` `u64:` `i64:` decimal lists | `f32:<bits>/<display-hex>,…` `f64:` |
//!   `da:<to_encoded hex>,…` `dt:` `tm:` ; after the value: `bl=<calculate_byte_len()>`.
#![allow(dead_code)]
use dicom_core::chrono::FixedOffset;
use dicom_core::dictionary::{DataDictionary, DataDictionaryEntry, VirtualVr};
use dicom_core::header::{DataElement, HasLength, Header, Length};
use dicom_core::value::{DataSetSequence, DicomDate, DicomDateTime, DicomTime, PixelFragmentSequence, Value, C};
use dicom_core::{PrimitiveValue, Tag, VR};
use dicom_dictionary_std::StandardDataDictionary;
use dicom_object::mem::InMemElement;
use dicom_object::InMemDicomObject;
use std::collections::BTreeMap;
use std::sync::OnceLock;
use verif_harness::util::*;

pub const UNDEF: u32 = 0xFFFF_FFFF;

#[derive(Clone, Debug)]
pub enum Node {
    El { tag: Tag, vr: VR, len: u32, val: PrimitiveValue },
    /// items: (recorded item length, elements)
    Sq { tag: Tag, len: u32, items: Vec<(u32, Vec<Node>)> },
    Px { bot: Vec<u32>, frags: Vec<Vec<u8>> },
}

impl Node {
    pub fn tag(&self) -> Tag {
        match self {
            Node::El { tag, .. } | Node::Sq { tag, .. } => *tag,
            Node::Px { .. } => Tag(0x7FE0, 0x0010),
        }
    }
}

pub const VRS: [VR; 34] = [
    VR::AE, VR::AS, VR::AT, VR::CS, VR::DA, VR::DS, VR::DT, VR::FL, VR::FD, VR::IS, VR::LO, VR::LT,
    VR::OB, VR::OD, VR::OF, VR::OL, VR::OV, VR::OW, VR::PN, VR::SH, VR::SL, VR::SQ, VR::SS, VR::ST,
    VR::SV, VR::TM, VR::UC, VR::UI, VR::UL, VR::UN, VR::UR, VR::US, VR::UT, VR::UV,
];

pub fn vrn(v: VR) -> String {
    format!("{:?}", v)
}

/// standard tags by (exact) dictionary VR, from a scan of common groups
fn pool() -> &'static BTreeMap<String, Vec<Tag>> {
    static P: OnceLock<BTreeMap<String, Vec<Tag>>> = OnceLock::new();
    P.get_or_init(|| {
        let mut m: BTreeMap<String, Vec<Tag>> = BTreeMap::new();
        for g in [
            0x0008u16, 0x0010, 0x0012, 0x0014, 0x0018, 0x0020, 0x0022, 0x0024, 0x0028, 0x0032, 0x0038, 0x003A, 0x0040, 0x0042,
            0x0044, 0x0046, 0x0048, 0x0050, 0x0052, 0x0054, 0x0060, 0x0062, 0x0064, 0x0066, 0x0068, 0x0070, 0x0072, 0x0074,
            0x0076, 0x0078, 0x0080, 0x0082, 0x0088, 0x0100, 0x0400, 0x2050, 0x3002, 0x3004, 0x3006, 0x3008, 0x300A, 0x300C,
            0x4010, 0x4FFE, 0x5200, 0x5400, 0x5600, 0x7FE0,
        ] {
            for e in 0u32..=0xFFFF {
                let t = Tag(g, e as u16);
                if t == Tag(0x0008, 0x0005) || t == Tag(0x0028, 0x0103) || t == Tag(0x7FE0, 0x0010) || e == 0 {
                    continue;
                }
                if let Some(en) = StandardDataDictionary.by_tag(t) {
                    // exact single-tag entries only (no ranges / virtual VRs)
                    if let VirtualVr::Exact(vr) = en.vr() {
                        if en.tag() == t {
                            m.entry(vrn(vr)).or_default().push(t);
                        }
                    }
                }
            }
        }
        m
    })
}

pub fn dict_vr(tag: Tag) -> Option<VR> {
    StandardDataDictionary.by_tag(tag).map(|e| e.vr().relaxed())
}

const UPPER: &[u8] = b"ABCDEFGHIJKLMNOPQRSTUVWXYZ0123456789_ ";
const TEXT: &[u8] = b"abcdefghijklmnopqrstuvwxyzABCDEFGHIJKLMNOPQRSTUVWXYZ0123456789 .,-_/()'+";
const DIGITS: &[u8] = b"0123456789";

fn gen_len(r: &mut Rng, max: usize) -> usize {
    match r.below(8) {
        0 => 1,
        1 => 2,
        2 => max,
        3 => 3,
        _ => r.usize(1, max),
    }
}

fn trimmed(mut s: String) -> String {
    // generated text carries no leading/trailing blanks (they are padding, not content)
    while s.ends_with(' ') {
        s.pop();
    }
    while s.starts_with(' ') {
        s.remove(0);
    }
    if s.is_empty() {
        s.push('X');
    }
    s
}

fn multiplicity(r: &mut Rng) -> usize {
    match r.below(10) {
        0..=4 => 1,
        5..=6 => 2,
        7 => 3,
        8 => 4,
        _ => r.usize(1, 7),
    }
}

fn gen_date(r: &mut Rng) -> DicomDate {
    let y = r.range(1900, 2100) as u16;
    let m = r.range(1, 12) as u8;
    let d = r.range(1, 28) as u8;
    match r.below(4) {
        0 => DicomDate::from_y(y).unwrap(),
        1 => DicomDate::from_ym(y, m).unwrap(),
        _ => DicomDate::from_ymd(y, m, d).unwrap(),
    }
}

fn gen_time(r: &mut Rng) -> DicomTime {
    let h = r.below(24) as u8;
    let mi = r.below(60) as u8;
    let s = r.below(60) as u8;
    match r.below(6) {
        0 => DicomTime::from_h(h).unwrap(),
        1 => DicomTime::from_hm(h, mi).unwrap(),
        2 => DicomTime::from_hms(h, mi, s).unwrap(),
        3 => DicomTime::from_hms_milli(h, mi, s, r.below(1000) as u32).unwrap(),
        _ => DicomTime::from_hms_micro(h, mi, s, r.below(1_000_000) as u32).unwrap(),
    }
}

fn gen_datetime(r: &mut Rng) -> DicomDateTime {
    let tz = if r.chance(1, 3) {
        let secs = (r.range(0, 26) as i32 - 12) * 3600 + if r.chance(1, 4) { 1800 } else { 0 };
        Some(FixedOffset::east_opt(secs.clamp(-12 * 3600, 14 * 3600)).unwrap())
    } else {
        None
    };
    if r.chance(1, 4) {
        let d = gen_date(r);
        match tz {
            Some(o) => DicomDateTime::from_date_with_time_zone(d, o),
            None => DicomDateTime::from_date(d),
        }
    } else {
        let d = DicomDate::from_ymd(r.range(1900, 2100) as u16, r.range(1, 12) as u8, r.range(1, 28) as u8).unwrap();
        let t = gen_time(r);
        match tz {
            Some(o) => DicomDateTime::from_date_and_time_with_time_zone(d, t, o).unwrap(),
            None => DicomDateTime::from_date_and_time(d, t).unwrap(),
        }
    }
}

fn strs(v: Vec<String>) -> PrimitiveValue {
    PrimitiveValue::Strs(v.into_iter().collect::<C<String>>())
}

/// a value valid for `vr` (never a sequence); a single string is as often a `Str` as a one-element `Strs`
pub fn gen_value(r: &mut Rng, vr: VR) -> PrimitiveValue {
    let v = gen_value0(r, vr);
    // multi-valued text with EMPTY components (legal: `\\AXIAL`, `A\\\\B`), most often the first one
    let v = match v {
        PrimitiveValue::Strs(mut s)
            if s.len() >= 2 && matches!(vr, VR::AE | VR::CS | VR::LO | VR::SH | VR::PN | VR::UI | VR::UC) && r.chance(1, 4) =>
        {
            let k = if r.chance(1, 2) { 0 } else { r.usize(0, s.len() - 2) };
            s[k] = String::new();
            if r.chance(1, 3) && s.len() >= 3 {
                s[1] = String::new();
            }
            PrimitiveValue::Strs(s)
        }
        v => v,
    };
    match v {
        PrimitiveValue::Strs(ref s) if s.len() == 1 && r.chance(1, 2) => PrimitiveValue::Str(s[0].clone()),
        v => v,
    }
}

fn gen_value0(r: &mut Rng, vr: VR) -> PrimitiveValue {
    if r.chance(1, 12) {
        return if r.chance(1, 2) { PrimitiveValue::Empty } else { empty_of(vr) };
    }
    let n = multiplicity(r);
    macro_rules! many {
        ($e:expr) => {
            (0..n).map(|_| $e).collect::<Vec<_>>()
        };
    }
    match vr {
        VR::AE => strs(many!({
            let k = gen_len(r, 16);
            trimmed(r.ascii_from(UPPER, k))
        })),
        VR::AS => strs(many!(format!("{:03}{}", r.below(1000), *r.pick(&['D', 'W', 'M', 'Y'])))),
        VR::CS => strs(many!({
            let k = gen_len(r, 16);
            trimmed(r.ascii_from(UPPER, k))
        })),
        VR::DA => {
            if r.chance(1, 2) {
                PrimitiveValue::Date(many!(gen_date(r)).into_iter().collect())
            } else {
                strs(many!(gen_date(r).to_encoded()))
            }
        }
        VR::TM => {
            if r.chance(1, 2) {
                PrimitiveValue::Time(many!(gen_time(r)).into_iter().collect())
            } else {
                strs(many!(gen_time(r).to_encoded()))
            }
        }
        VR::DT => {
            if r.chance(1, 2) {
                PrimitiveValue::DateTime(many!(gen_datetime(r)).into_iter().collect())
            } else {
                strs(many!(gen_datetime(r).to_encoded()))
            }
        }
        VR::DS => match r.below(6) {
            0 => PrimitiveValue::F64(many!(gen_f64(r)).into_iter().collect()),
            1 => PrimitiveValue::F32(many!(gen_f64(r) as f32).into_iter().collect()),
            2 => PrimitiveValue::I32(many!(r.edgy(32) as u32 as i32).into_iter().collect()),
            _ => strs(many!({
                let a = r.below(100000);
                match r.below(4) {
                    0 => format!("{}", a),
                    1 => format!("-{}.{}", a, r.below(1000)),
                    2 => format!("{}.{}e{}", r.below(10), r.below(1000), r.below(20)),
                    _ => format!("{}.{}", a, r.below(100)),
                }
            })),
        },
        VR::IS => match r.below(6) {
            0 => PrimitiveValue::I32(many!(r.edgy(32) as u32 as i32).into_iter().collect()),
            1 => PrimitiveValue::U16(many!(r.edgy(16) as u16).into_iter().collect()),
            2 => PrimitiveValue::I64(many!(r.edgy(31) as i64 - (1 << 30)).into_iter().collect()),
            _ => strs(many!({
                let k = gen_len(r, 9);
                let s = r.ascii_from(DIGITS, k);
                if r.chance(1, 3) {
                    format!("-{}", s)
                } else {
                    s
                }
            })),
        },
        VR::LO | VR::SH | VR::PN | VR::UC => strs(many!({
            let max = match vr {
                VR::SH => 16,
                VR::UC => 40,
                _ => 30,
            };
            let k = gen_len(r, max);
            let mut s = trimmed(r.ascii_from(TEXT, k));
            if vr == VR::PN && r.chance(1, 2) {
                s = s.replace('/', "^");
                s.insert(s.len() / 2, '^');
            }
            s
        })),
        VR::UI => strs(many!({
            let k = r.usize(1, 6);
            let mut s = String::from("1.2");
            for _ in 0..k {
                s.push('.');
                s.push_str(&r.below(100000).to_string());
            }
            s
        })),
        VR::LT | VR::ST | VR::UT | VR::UR => {
            let k = gen_len(r, 60);
            let s = trimmed(r.ascii_from(if vr == VR::UR { b"abcdefghijklmnopqrstuvwxyz0123456789:/.-_?=&" } else { TEXT }, k));
            if r.chance(1, 5) {
                strs(vec![s])
            } else {
                PrimitiveValue::Str(s)
            }
        }
        VR::AT => PrimitiveValue::Tags(many!(Tag(r.edgy(16) as u16, r.edgy(16) as u16)).into_iter().collect()),
        VR::FL | VR::OF => PrimitiveValue::F32(many!(gen_f32(r)).into_iter().collect()),
        VR::FD | VR::OD => PrimitiveValue::F64(many!(gen_f64(r)).into_iter().collect()),
        VR::OB | VR::UN => {
            let k = match r.below(4) {
                0 => 1,
                1 => 2,
                _ => r.usize(1, 24),
            };
            PrimitiveValue::U8(r.bytes(k).into_iter().collect())
        }
        VR::OW if r.chance(1, 3) => {
            // 8-bit samples held as bytes under OW (legal: e.g. 8-bit Pixel Data in OW)
            let k = r.usize(1, 12);
            PrimitiveValue::U8(r.bytes(k).into_iter().collect())
        }
        VR::OW | VR::US => PrimitiveValue::U16(many!(r.edgy(16) as u16).into_iter().collect()),
        VR::SS => PrimitiveValue::I16(many!(r.edgy(16) as u16 as i16).into_iter().collect()),
        VR::UL | VR::OL => PrimitiveValue::U32(many!(r.edgy(32) as u32).into_iter().collect()),
        VR::SL => PrimitiveValue::I32(many!(r.edgy(32) as u32 as i32).into_iter().collect()),
        VR::UV | VR::OV => PrimitiveValue::U64(many!(r.edgy(64)).into_iter().collect()),
        VR::SV => PrimitiveValue::I64(many!(r.edgy(64) as i64).into_iter().collect()),
        VR::SQ => PrimitiveValue::Empty,
    }
}

fn empty_of(vr: VR) -> PrimitiveValue {
    match vr {
        VR::AE | VR::AS | VR::CS | VR::DA | VR::DS | VR::DT | VR::IS | VR::LO | VR::PN | VR::SH | VR::TM | VR::UC | VR::UI => {
            PrimitiveValue::Strs(C::new())
        }
        VR::LT | VR::ST | VR::UT | VR::UR => PrimitiveValue::Str(String::new()),
        VR::AT => PrimitiveValue::Tags(C::new()),
        VR::FL | VR::OF => PrimitiveValue::F32(C::new()),
        VR::FD | VR::OD => PrimitiveValue::F64(C::new()),
        VR::OB | VR::UN => PrimitiveValue::U8(C::new()),
        VR::OW | VR::US => PrimitiveValue::U16(C::new()),
        VR::SS => PrimitiveValue::I16(C::new()),
        VR::UL | VR::OL => PrimitiveValue::U32(C::new()),
        VR::SL => PrimitiveValue::I32(C::new()),
        VR::UV | VR::OV => PrimitiveValue::U64(C::new()),
        VR::SV => PrimitiveValue::I64(C::new()),
        VR::SQ => PrimitiveValue::Empty,
    }
}

fn gen_f64(r: &mut Rng) -> f64 {
    match r.below(6) {
        0 => 0.0,
        1 => 1.5,
        2 => -(r.below(100000) as f64) / 8.0,
        3 => f64::from_bits(r.next_u64() & 0x7FEF_FFFF_FFFF_FFFF), // finite
        _ => (r.below(2_000_000) as f64 - 1_000_000.0) / 1000.0,
    }
}

fn gen_f32(r: &mut Rng) -> f32 {
    match r.below(5) {
        0 => 0.0,
        1 => -2.25,
        2 => f32::from_bits(r.next_u32() & 0x7F7F_FFFF),
        _ => (r.below(200000) as f32 - 100000.0) / 100.0,
    }
}

/// a tag for `vr`: a standard attribute of that VR, a private one, or an unknown one
pub fn gen_tag(r: &mut Rng, vr: VR) -> Tag {
    let p = pool().get(&vrn(vr));
    // private / unknown tags carry the VR index in the element number, so that one tag never
    // appears with two different VRs inside a data set
    let vi = VRS.iter().position(|v| *v == vr).unwrap() as u16;
    match (r.below(10), p) {
        (0..=6, Some(p)) if !p.is_empty() => *r.pick(p),
        (7, _) | (8, _) => {
            // private: odd group, element >= 0x1000 (0x0010-0x00FF are creator slots)
            let g = (r.range(0x0009, 0x7FDF) as u16) | 1;
            Tag(g, 0x1000 + (vi << 8) + r.below(256) as u16)
        }
        _ => {
            // unknown to the dictionary (even group with no entries) or a private creator slot
            // (a creator slot (gggg,0010-00FF) is LO by definition)
            if vr != VR::LO || r.chance(1, 2) {
                Tag(0x0ACE, ((vi + 1) << 8) + r.below(256) as u16)
            } else {
                Tag((r.range(0x0009, 0x7FDF) as u16) | 1, r.range(0x0010, 0x00FF) as u16)
            }
        }
    }
}

/// replace one character of some LO/SH/PN/UC/LT/ST/UT values by a 2-, 3- or 4-byte character (recorded length updated)
fn utf8_text(r: &mut Rng, nodes: &mut [Node]) {
    let swap = |r: &mut Rng, t: &str| -> String {
        let mut cs: Vec<char> = t.chars().collect();
        if cs.is_empty() {
            return t.to_string();
        }
        let k = r.usize(0, cs.len() - 1);
        if cs[k] != '\\' && cs[k] != '^' && cs[k] != '=' {
            cs[k] = *r.pick(&['é', 'Ж', '€', '乗', '😀']);
        }
        cs.into_iter().collect()
    };
    for n in nodes.iter_mut() {
        match n {
            Node::El { vr, len, val, .. } if matches!(*vr, VR::LO | VR::SH | VR::PN | VR::UC | VR::LT | VR::ST | VR::UT) && r.chance(1, 2) => {
                let new = match &*val {
                    PrimitiveValue::Str(t) => Some(PrimitiveValue::Str(swap(r, t))),
                    PrimitiveValue::Strs(ts) => Some(PrimitiveValue::Strs(ts.iter().map(|t| if r.chance(1, 2) { swap(r, t) } else { t.clone() }).collect())),
                    _ => None,
                };
                if let Some(v) = new {
                    *len = v.calculate_byte_len() as u32;
                    *val = v;
                }
            }
            Node::Sq { items, .. } => {
                for (_, els) in items.iter_mut() {
                    utf8_text(r, els);
                }
            }
            _ => {}
        }
    }
}

#[derive(Clone, Copy, Debug)]
pub struct GenOpts {
    pub max_depth: u32,
    /// allow Specific Character Set, pixel sequences
    pub pixel: bool,
    pub charset: bool,
    /// allow zero-length pixel fragments
    pub empty_frags: bool,
}

impl Default for GenOpts {
    fn default() -> Self {
        GenOpts { max_depth: 4, pixel: true, charset: true, empty_frags: true }
    }
}

/// random data set (list of nodes with distinct tags, ascending)
pub fn gen_dataset(r: &mut Rng, depth: u32, o: &GenOpts) -> Vec<Node> {
    let n = match r.below(12) {
        0 => 0,
        1 => 1,
        _ => r.usize(1, if depth == 0 { 8 } else { 4 }),
    };
    let mut m: BTreeMap<Tag, Node> = BTreeMap::new();
    for _ in 0..n {
        let vr = if depth < o.max_depth && r.chance(1, 6) { VR::SQ } else { *r.pick(&VRS) };
        if vr == VR::SQ {
            if depth >= o.max_depth {
                continue;
            }
            let tag = gen_tag(r, VR::SQ);
            let k = match r.below(6) {
                0 => 0,
                1 | 2 => 1,
                3 | 4 => 2,
                _ => 3,
            };
            let items = (0..k).map(|_| (UNDEF, gen_dataset(r, depth + 1, o))).collect();
            m.insert(tag, Node::Sq { tag, len: UNDEF, items });
        } else {
            let tag = gen_tag(r, vr);
            let val = gen_value(r, vr);
            let len = val.calculate_byte_len() as u32;
            m.insert(tag, Node::El { tag, vr, len, val });
        }
    }
    if o.charset && depth == 0 && r.chance(1, 8) {
        let tag = Tag(0x0008, 0x0005);
        let code = r.pick(&["ISO_IR 100", "ISO_IR 192", "ISO_IR 6"]).to_string();
        if code == "ISO_IR 192" {
            // UTF-8 declared: text under the VRs governed by Specific Character Set may leave ASCII, at every depth
            // (the encoded bytes are the UTF-8 bytes, so the byte-level models apply unchanged)
            let mut vals: Vec<Node> = m.values().cloned().collect();
            utf8_text(r, &mut vals);
            for n in vals {
                m.insert(n.tag(), n);
            }
        }
        let val = strs(vec![code]);
        let len = val.calculate_byte_len() as u32;
        m.insert(tag, Node::El { tag, vr: VR::CS, len, val });
    }
    if o.pixel && r.chance(1, if depth == 0 { 6 } else { 14 }) {
        let nf = r.usize(0, 3);
        let frags: Vec<Vec<u8>> = (0..nf)
            .map(|_| {
                let k = match r.below(4) {
                    0 if o.empty_frags => 0,
                    1 => r.usize(0, 6) * 2 + 1,
                    _ => r.usize(1, 10) * 2,
                };
                r.bytes(k)
            })
            .collect();
        let bot: Vec<u32> = if r.chance(1, 2) { vec![] } else { (0..nf.max(1)).map(|i| (i * 16) as u32).collect() };
        m.insert(Tag(0x7FE0, 0x0010), Node::Px { bot, frags });
    } else if depth == 0 && r.chance(1, 10) {
        // native pixel data
        let tag = Tag(0x7FE0, 0x0010);
        let (vr, val) = if r.chance(1, 4) {
            let k = r.usize(1, 9);
            (VR::OW, PrimitiveValue::U8(r.bytes(k).into_iter().collect()))
        } else if r.chance(1, 2) {
            (VR::OW, PrimitiveValue::U16((0..r.usize(1, 8)).map(|_| r.next_u32() as u16).collect()))
        } else {
            let k = r.usize(1, 9);
            (VR::OB, PrimitiveValue::U8(r.bytes(k).into_iter().collect()))
        };
        let len = val.calculate_byte_len() as u32;
        m.insert(tag, Node::El { tag, vr, len, val });
    }
    m.into_values().collect()
}

/// object built through the public constructors (`DataElement::new_with_len`, `DataSetSequence::new`,
/// `PixelFragmentSequence::new`, `InMemDicomObject::from_element_iter`): item lengths are undefined
pub fn to_object(nodes: &[Node]) -> InMemDicomObject {
    InMemDicomObject::from_element_iter(nodes.iter().map(to_element))
}

fn to_element(n: &Node) -> InMemElement {
    match n {
        Node::El { tag, vr, len, val } => DataElement::new_with_len(*tag, *vr, Length(*len), Value::Primitive(val.clone())),
        Node::Sq { tag, len, items } => {
            let objs: Vec<InMemDicomObject> = items.iter().map(|(_, els)| to_object(els)).collect();
            DataElement::new_with_len(*tag, VR::SQ, Length(*len), Value::Sequence(DataSetSequence::new(objs, Length(*len))))
        }
        Node::Px { bot, frags } => DataElement::new(
            Tag(0x7FE0, 0x0010),
            VR::OB,
            Value::PixelSequence(PixelFragmentSequence::new(bot.clone(), frags.clone())),
        ),
    }
}

/// the data set as the writer will see it
pub fn from_object(o: &InMemDicomObject) -> Vec<Node> {
    o.iter()
        .map(|e| match e.value() {
            Value::Primitive(v) => Node::El { tag: e.tag(), vr: e.vr(), len: e.header().len.0, val: v.clone() },
            Value::Sequence(s) => Node::Sq {
                tag: e.tag(),
                len: e.header().len.0,
                items: s.items().iter().map(|it| (it.length().0, from_object(it))).collect(),
            },
            Value::PixelSequence(p) => Node::Px {
                bot: p.offset_table().to_vec(),
                frags: p.fragments().iter().map(|f| f.to_vec()).collect(),
            },
        })
        .collect()
}

fn dec<T: std::fmt::Display>(xs: impl IntoIterator<Item = T>) -> String {
    xs.into_iter().map(|x| x.to_string()).collect::<Vec<_>>().join(",")
}

pub fn value_token(v: &PrimitiveValue) -> String {
    use PrimitiveValue::*;
    let body = match v {
        Empty => "e".to_string(),
        Strs(s) => format!("s:{}", s.iter().map(|x| hexs(x)).collect::<Vec<_>>().join(",")),
        Str(s) => format!("t:{}", hexs(s)),
        Tags(t) => format!("tags:{}", t.iter().map(|t| format!("{:04x}{:04x}", t.0, t.1)).collect::<Vec<_>>().join(",")),
        U8(b) => format!("u8:{}", hex(b)),
        U16(x) => format!("u16:{}", dec(x.iter())),
        I16(x) => format!("i16:{}", dec(x.iter())),
        U32(x) => format!("u32:{}", dec(x.iter())),
        I32(x) => format!("i32:{}", dec(x.iter())),
        U64(x) => format!("u64:{}", dec(x.iter())),
        I64(x) => format!("i64:{}", dec(x.iter())),
        F32(x) => format!("f32:{}", x.iter().map(|f| format!("{}/{}", f.to_bits(), hexs(&f.to_string()))).collect::<Vec<_>>().join(",")),
        F64(x) => format!("f64:{}", x.iter().map(|f| format!("{}/{}", f.to_bits(), hexs(&f.to_string()))).collect::<Vec<_>>().join(",")),
        Date(x) => format!("da:{}", x.iter().map(|d| hexs(&d.to_encoded())).collect::<Vec<_>>().join(",")),
        DateTime(x) => format!("dt:{}", x.iter().map(|d| hexs(&d.to_encoded())).collect::<Vec<_>>().join(",")),
        Time(x) => format!("tm:{}", x.iter().map(|d| hexs(&d.to_encoded())).collect::<Vec<_>>().join(",")),
    };
    body
}

pub fn sexpr(nodes: &[Node]) -> String {
    let mut s = String::new();
    sexpr_into(nodes, &mut s);
    s.trim_end().to_string()
}

fn sexpr_into(nodes: &[Node], s: &mut String) {
    for n in nodes {
        match n {
            Node::El { tag, vr, len, val } => {
                s.push_str(&format!(
                    "( el {:04x}{:04x} {} {} {} bl={} ) ",
                    tag.0,
                    tag.1,
                    vrn(*vr),
                    len,
                    value_token(val),
                    val.calculate_byte_len()
                ));
            }
            Node::Sq { tag, len, items } => {
                s.push_str(&format!("( sq {:04x}{:04x} {} ", tag.0, tag.1, len));
                for (il, els) in items {
                    s.push_str(&format!("( it {} ", il));
                    sexpr_into(els, s);
                    s.push_str(") ");
                }
                s.push_str(") ");
            }
            Node::Px { bot, frags } => {
                s.push_str(&format!("( px ( bot {} ) ", if bot.is_empty() { "-".to_string() } else { dec(bot.iter()) }));
                for f in frags {
                    s.push_str(&format!("( fr {} ) ", hex(f)));
                }
                s.push_str(") ");
            }
        }
    }
}

// ---------------------------------------------------------------------------------------------
// independent reference encoder (PS3.5 §7), used to manufacture inputs with explicit lengths

fn short_vr(vr: VR) -> bool {
    matches!(
        vr,
        VR::AE | VR::AS | VR::AT | VR::CS | VR::DA | VR::DS | VR::DT | VR::FL | VR::FD | VR::IS | VR::LO | VR::LT | VR::PN
            | VR::SH | VR::SL | VR::SS | VR::ST | VR::TM | VR::UI | VR::UL | VR::US
    )
}

fn p16(out: &mut Vec<u8>, be: bool, v: u16) {
    out.extend_from_slice(&if be { v.to_be_bytes() } else { v.to_le_bytes() })
}
fn p32(out: &mut Vec<u8>, be: bool, v: u32) {
    out.extend_from_slice(&if be { v.to_be_bytes() } else { v.to_le_bytes() })
}
fn p64(out: &mut Vec<u8>, be: bool, v: u64) {
    out.extend_from_slice(&if be { v.to_be_bytes() } else { v.to_le_bytes() })
}

fn ref_header(out: &mut Vec<u8>, ts: u8, tag: Tag, vr: VR, len: u32) {
    let be = ts == 2;
    p16(out, be, tag.0);
    p16(out, be, tag.1);
    if ts == 0 {
        p32(out, false, len);
    } else {
        out.extend_from_slice(vrn(vr).as_bytes());
        if short_vr(vr) {
            p16(out, be, len as u16);
        } else {
            out.extend_from_slice(&[0, 0]);
            p32(out, be, len);
        }
    }
}

/// raw value bytes (padded to even length per PS3.5 §6.2 / §7.1.1)
pub fn ref_value(ts: u8, vr: VR, v: &PrimitiveValue) -> Vec<u8> {
    use PrimitiveValue::*;
    let be = ts == 2;
    let mut o = Vec::new();
    let text = |parts: Vec<String>| parts.join("\\").into_bytes();
    let mut textual = false;
    match v {
        Empty => {}
        Strs(s) => {
            o = text(s.iter().cloned().collect());
            textual = true
        }
        Str(s) => {
            o = s.clone().into_bytes();
            textual = true
        }
        Date(x) => {
            o = text(x.iter().map(|d| d.to_encoded()).collect());
            textual = true
        }
        DateTime(x) => {
            o = text(x.iter().map(|d| d.to_encoded()).collect());
            textual = true
        }
        Time(x) => {
            o = text(x.iter().map(|d| d.to_encoded()).collect());
            textual = true
        }
        Tags(t) => {
            for t in t.iter() {
                p16(&mut o, be, t.0);
                p16(&mut o, be, t.1)
            }
        }
        U8(b) => o.extend_from_slice(b),
        _ if vr == VR::DS || vr == VR::IS => {
            o = v.to_str().as_bytes().to_vec();
            textual = true
        }
        U16(x) => x.iter().for_each(|v| p16(&mut o, be, *v)),
        I16(x) => x.iter().for_each(|v| p16(&mut o, be, *v as u16)),
        U32(x) => x.iter().for_each(|v| p32(&mut o, be, *v)),
        I32(x) => x.iter().for_each(|v| p32(&mut o, be, *v as u32)),
        U64(x) => x.iter().for_each(|v| p64(&mut o, be, *v)),
        I64(x) => x.iter().for_each(|v| p64(&mut o, be, *v as u64)),
        F32(x) => x.iter().for_each(|v| p32(&mut o, be, v.to_bits())),
        F64(x) => x.iter().for_each(|v| p64(&mut o, be, v.to_bits())),
    }
    if o.len() % 2 == 1 {
        o.push(if textual && vr != VR::UI { b' ' } else { 0 });
    }
    o
}

/// `explicit(depth, index)` decides per sequence / item whether its length is written explicitly
pub fn ref_encode(nodes: &[Node], ts: u8, explicit: &dyn Fn(u32, usize) -> (bool, bool), depth: u32) -> Vec<u8> {
    let be = ts == 2;
    let mut out = Vec::new();
    for (k, n) in nodes.iter().enumerate() {
        match n {
            Node::El { tag, vr, val, .. } => {
                let v = ref_value(ts, *vr, val);
                ref_header(&mut out, ts, *tag, *vr, v.len() as u32);
                out.extend_from_slice(&v);
            }
            Node::Sq { tag, items, .. } => {
                let (seq_explicit, item_explicit) = explicit(depth, k);
                let mut body = Vec::new();
                for (_, els) in items {
                    let inner = ref_encode(els, ts, explicit, depth + 1);
                    p16(&mut body, be, 0xFFFE);
                    p16(&mut body, be, 0xE000);
                    if item_explicit {
                        p32(&mut body, be, inner.len() as u32);
                        body.extend_from_slice(&inner);
                    } else {
                        p32(&mut body, be, UNDEF);
                        body.extend_from_slice(&inner);
                        p16(&mut body, be, 0xFFFE);
                        p16(&mut body, be, 0xE00D);
                        p32(&mut body, be, 0);
                    }
                }
                if seq_explicit {
                    ref_header(&mut out, ts, *tag, VR::SQ, body.len() as u32);
                    out.extend_from_slice(&body);
                } else {
                    ref_header(&mut out, ts, *tag, VR::SQ, UNDEF);
                    out.extend_from_slice(&body);
                    p16(&mut out, be, 0xFFFE);
                    p16(&mut out, be, 0xE0DD);
                    p32(&mut out, be, 0);
                }
            }
            Node::Px { bot, frags } => {
                ref_header(&mut out, ts, Tag(0x7FE0, 0x0010), VR::OB, UNDEF);
                p16(&mut out, be, 0xFFFE);
                p16(&mut out, be, 0xE000);
                p32(&mut out, be, (bot.len() * 4) as u32);
                bot.iter().for_each(|v| p32(&mut out, be, *v));
                for f in frags {
                    p16(&mut out, be, 0xFFFE);
                    p16(&mut out, be, 0xE000);
                    let l = f.len() + f.len() % 2;
                    p32(&mut out, be, l as u32);
                    out.extend_from_slice(f);
                    if f.len() % 2 == 1 {
                        out.push(0)
                    }
                }
                p16(&mut out, be, 0xFFFE);
                p16(&mut out, be, 0xE0DD);
                p32(&mut out, be, 0);
            }
        }
    }
    out
}

/// dictionary VRs (as the Implicit VR decoder resolves them) of all tags in the tree: `tag=VR,…`
pub fn dict_token(nodes: &[Node]) -> String {
    let mut m: BTreeMap<Tag, Option<VR>> = BTreeMap::new();
    fn walk(ns: &[Node], m: &mut BTreeMap<Tag, Option<VR>>) {
        for n in ns {
            m.insert(n.tag(), dict_vr(n.tag()));
            if let Node::Sq { items, .. } = n {
                for (_, els) in items {
                    walk(els, m)
                }
            }
        }
    }
    walk(nodes, &mut m);
    if m.is_empty() {
        return "-".into();
    }
    m.iter()
        .map(|(t, v)| format!("{:04x}{:04x}={}", t.0, t.1, v.map(vrn).unwrap_or("none".into())))
        .collect::<Vec<_>>()
        .join(",")
}
