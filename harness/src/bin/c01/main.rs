//! C01 — write-then-read round trip of data sets in the four writable data-set transfer syntaxes
//! and both explicit-length strategies, on the real `InMemDicomObject::write_dataset_with_ts(_options)`
//! / `read_dataset_with_ts`.
//!
//! line: `rt <ts> <path> D <tag=VR,…> T <tree> | <call> <write result> R <read result> | …` (3 calls)
//!   write result = `ok:<raw hex>:<inflated hex|x>` | `err` | `panic`
//!   read  result = `ok ( tree )` | `err` | `panic` | `-` (nothing written)
mod gen;
mod wr;

use dicom_object::InMemDicomObject;
use gen::*;
use verif_harness::util::*;
use wr::*;

fn read_back(ts_k: u8, w: &str) -> String {
    let Some(rest) = w.strip_prefix("ok:") else { return "-".into() };
    let raw = unhex(rest.split(':').next().unwrap());
    let ts = ts_of(ts_k);
    match catch(std::panic::AssertUnwindSafe(|| InMemDicomObject::read_dataset_with_ts(&raw[..], ts))) {
        Err(_) => "panic".into(),
        Ok(Err(_)) => "err".into(),
        Ok(Ok(obj)) => format!("ok {}", sexpr(&from_object(&obj))),
    }
}

fn rt_case(r: &mut Rng, thorough: bool, index: u64) -> String {
    let ts_k = r.below(4) as u8;
    let depth = if thorough { r.below(9) as u32 } else { r.below(5) as u32 };
    let (obj, path) = if index == 0 {
        (InMemDicomObject::read_dataset_with_ts(WITNESS_PIXEL_THEN_ITEM, ts_of(1)).unwrap(), "B")
    } else if index == 1 {
        // fixed witness: 8-bit samples held as bytes under OW, Explicit VR Big Endian
        let el = Node::El {
            tag: dicom_core::Tag(0x7FE0, 0x0010),
            vr: dicom_core::VR::OW,
            len: 4,
            val: dicom_core::PrimitiveValue::U8([1u8, 2, 3, 4].as_ref().into()),
        };
        (to_object(&[el]), "A")
    } else {
        match case_object(r, ts_k, depth) {
            Ok(x) => x,
            // line: `refread <ts> D <tag=VR,…> B <hex>`: reference encoding (explicit / undefined lengths mixed) rejected
            Err((ts, nodes, bytes)) => return format!("refread {} D {} B {}", ts, dict_token(&nodes), hex(&bytes)),
        }
    };
    let ts_k = match index {
        0 => 1,
        1 => 2,
        _ => ts_k,
    };
    let nodes = from_object(&obj);
    let w = write_all_ways(&obj, ts_k);
    let calls = ["default", "set-undefined", "no-change"];
    let mut s = format!("rt {} {} D {} T {}", ts_k, path, dict_token(&nodes), sexpr(&nodes));
    for k in 0..3 {
        s.push_str(&format!(" | {} {} R {}", calls[k], w[k], read_back(ts_k, &w[k])));
    }
    s
}

fn main() {
    let a = parse_args();
    quiet_panics();
    let mut out = Out::new();
    for i in case_indices(&a) {
        let mut r = Rng::for_case(a.seed, i);
        let line = rt_case(&mut r, a.thorough, i);
        out.line(&format!("#{} {}", i, line));
    }
}
