//! C21 — native pixel data frames. Builds a DICOM object with native (uncompressed) pixel data and
//! calls the real `PixelDecoder::decode_pixel_data`, `decode_pixel_data_frame` and
//! `DecodedPixelData::frame_data`.
//!
//! Line: `nat <bits> <spp> <rows> <cols> <frames> <form> <kind> <stored pixel data hex>
//!        W <whole> F <frame 0> … <frame n-1> <frame n> S <slice 0> … <slice n>`
//! with results `ok:<hex>` | `err` | `panic`; a slice equal to the frame result of the same index
//! is abbreviated `=`.
use dicom_core::{DataElement, PrimitiveValue, VR};
use dicom_dictionary_std::{tags, uids};
use dicom_object::{FileDicomObject, FileMetaTableBuilder, InMemDicomObject};
use dicom_pixeldata::PixelDecoder;
use verif_harness::util::*;

const NSHAPES: u64 = 3 * 2 * 17 * 17 * 7;

fn shape(k: u64) -> (u16, u16, u16, u16, u32) {
    let bits = [1u16, 8, 16][(k % 3) as usize];
    let k = k / 3;
    let spp = [1u16, 3][(k % 2) as usize];
    let k = k / 2;
    let rows = (k % 17) as u16 + 1;
    let k = k / 17;
    let cols = (k % 17) as u16 + 1;
    let k = k / 17;
    let frames = (k % 7) as u32 + 1;
    (bits, spp, rows, cols, frames)
}

fn build(
    bits: u16,
    spp: u16,
    rows: u16,
    cols: u16,
    frames: u32,
    form: &str,
    data: &[u8],
) -> Result<FileDicomObject<InMemDicomObject>, ()> {
    let mut obj = InMemDicomObject::new_empty();
    obj.put(DataElement::new(tags::SOP_CLASS_UID, VR::UI, uids::SECONDARY_CAPTURE_IMAGE_STORAGE));
    obj.put(DataElement::new(tags::SOP_INSTANCE_UID, VR::UI, "1.2.3.4"));
    obj.put(DataElement::new(tags::SAMPLES_PER_PIXEL, VR::US, PrimitiveValue::from(spp)));
    obj.put(DataElement::new(
        tags::PHOTOMETRIC_INTERPRETATION,
        VR::CS,
        if spp == 3 { "RGB" } else { "MONOCHROME2" },
    ));
    if spp == 3 {
        obj.put(DataElement::new(tags::PLANAR_CONFIGURATION, VR::US, PrimitiveValue::from(0u16)));
    }
    if form != "nonf" {
        obj.put(DataElement::new(tags::NUMBER_OF_FRAMES, VR::IS, frames.to_string()));
    }
    obj.put(DataElement::new(tags::ROWS, VR::US, PrimitiveValue::from(rows)));
    obj.put(DataElement::new(tags::COLUMNS, VR::US, PrimitiveValue::from(cols)));
    obj.put(DataElement::new(tags::BITS_ALLOCATED, VR::US, PrimitiveValue::from(bits)));
    obj.put(DataElement::new(tags::BITS_STORED, VR::US, PrimitiveValue::from(bits)));
    obj.put(DataElement::new(tags::HIGH_BIT, VR::US, PrimitiveValue::from(bits - 1)));
    obj.put(DataElement::new(tags::PIXEL_REPRESENTATION, VR::US, PrimitiveValue::from(0u16)));
    let px = if form == "ow" && data.len() % 2 == 0 {
        let words: Vec<u16> = data.chunks(2).map(|c| u16::from_le_bytes([c[0], c[1]])).collect();
        DataElement::new(tags::PIXEL_DATA, VR::OW, PrimitiveValue::U16(words.into()))
    } else {
        DataElement::new(tags::PIXEL_DATA, VR::OB, PrimitiveValue::U8(data.to_vec().into()))
    };
    obj.put(px);
    let file = obj
        .with_meta(
            FileMetaTableBuilder::new()
                .transfer_syntax(uids::EXPLICIT_VR_LITTLE_ENDIAN)
                .media_storage_sop_class_uid(uids::SECONDARY_CAPTURE_IMAGE_STORAGE)
                .media_storage_sop_instance_uid("1.2.3.4"),
        )
        .map_err(|_| ())?;
    if form == "file" {
        // through the file format: the value is padded to even length as in every real file
        let mut buf = Vec::new();
        file.write_all(&mut buf).map_err(|_| ())?;
        dicom_object::from_reader(&buf[..]).map_err(|_| ())
    } else {
        Ok(file)
    }
}

fn show(r: Result<Result<Vec<u8>, ()>, String>) -> String {
    match r {
        Ok(Ok(v)) => format!("ok:{}", hex(&v)),
        Ok(Err(())) => "err".into(),
        Err(_) => "panic".into(),
    }
}

fn main() {
    let a = parse_args();
    quiet_panics();
    let mut out = Out::new();
    for i in case_indices(&a) {
        let mut r = Rng::for_case(a.seed, i);
        let (bits, spp, rows, cols, frames) = shape((i.wrapping_mul(7919)) % NSHAPES);
        let npix = rows as usize * cols as usize;
        let nsamp = npix * spp as usize * frames as usize;
        let exact = if bits == 1 { nsamp.div_ceil(8) } else { nsamp * (bits as usize / 8) };
        // how the stored value relates to the exact size
        let kind = match r.below(20) {
            0 => "short",
            1 => "long",
            _ => "exact",
        };
        let len = match kind {
            "short" => r.usize(0, exact.saturating_sub(1)),
            "long" => exact + r.usize(1, 4),
            _ => exact,
        };
        let mut data = match r.below(4) {
            0 => (0..len).map(|k| (k as u8).wrapping_mul(37).wrapping_add(1)).collect::<Vec<u8>>(),
            _ => r.bytes(len),
        };
        if bits == 1 && kind == "exact" && nsamp % 8 != 0 && r.chance(1, 2) {
            // unused bits of the last byte are arbitrary
            let last = data.len() - 1;
            data[last] |= 0xffu8 << (nsamp % 8);
        }
        let form = match r.below(8) {
            0 | 1 => "file",
            2 => "ow",
            3 if frames == 1 => "nonf",
            _ => "mem",
        };
        let res = catch(std::panic::AssertUnwindSafe(|| {
            let obj = match build(bits, spp, rows, cols, frames, form, &data) {
                Ok(o) => o,
                Err(()) => return None,
            };
            let stored = obj
                .element(tags::PIXEL_DATA)
                .ok()
                .and_then(|e| e.value().primitive().map(|p| p.to_bytes().to_vec()));
            let whole_px = catch(std::panic::AssertUnwindSafe(|| obj.decode_pixel_data()));
            let whole = show(match &whole_px {
                Ok(Ok(px)) => Ok(Ok(px.data().to_vec())),
                Ok(Err(_)) => Ok(Err(())),
                Err(e) => Err(e.clone()),
            });
            let mut fr = Vec::new();
            let mut sl = Vec::new();
            for f in 0..=frames {
                let x = show(catch(std::panic::AssertUnwindSafe(|| {
                    obj.decode_pixel_data_frame(f).map(|px| px.data().to_vec()).map_err(|_| ())
                })));
                let s = match &whole_px {
                    Ok(Ok(px)) => show(catch(std::panic::AssertUnwindSafe(|| {
                        px.frame_data(f).map(|d| d.to_vec()).map_err(|_| ())
                    }))),
                    _ => "none".to_string(),
                };
                sl.push(if s == x { "=".to_string() } else { s });
                fr.push(x);
            }
            Some((stored, whole, fr, sl))
        }));
        let line = match res {
            Ok(Some((Some(stored), whole, fr, sl))) => format!(
                "nat {} {} {} {} {} {} {} {} W {} F {} S {}",
                bits,
                spp,
                rows,
                cols,
                frames,
                form,
                kind,
                hex(&stored),
                whole,
                fr.join(" "),
                sl.join(" ")
            ),
            _ => format!("nat {} {} {} {} {} {} {} build-failed", bits, spp, rows, cols, frames, form, kind),
        };
        out.line(&format!("#{} {}", i, line));
    }
}
