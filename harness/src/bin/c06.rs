//! C06 — the lazy reader and the collector agree with the eager reader.
//!
//! One case = one generated FILE (preamble, DICM, file meta group written by the real `FileMetaTable`
//! writer, data set in one of the three uncompressed syntaxes: the real data set writer on a generated
//! object, or an independent reference encoding with explicit sequence / item lengths; encapsulated pixel
//! data with empty / non-empty offset tables and zero-length fragments), random ascending stop tags.
//!
//! line: `f <ts> D <tag=VR,…> B <data set hex>`
//!   `E <eager tokens> ;`      DataSetReader over the data set bytes
//!   `L <lazy tokens> ;`       LazyDataSetReader, every token materialised with `into_owned`
//!   `M <ts uid hex> <ts uid hex>`   transfer syntax in the meta group: collector.read_file_meta / from_reader
//!   `W ok ( tree ) ;`         whole file opened with `from_reader`
//!   `C <stop,stop,…> ok ( portion ) ok ( portion ) … ;`   collector: read_dataset_up_to(stop)… then read_dataset_to_end
//!   `A ok ( tree ) ;`         collector: read_dataset_to_end in one go
//!   `F <bot result> <fragment results…> ;`   collector: read_basic_offset_table, then read_next_fragment until None
//!   `G <fragment results…> ;`                collector: read_next_fragment only (offset table = first fragment)
//!   `U <tag> ok ( tree ) ;`   OpenFileOptions::read_until(tag)
//!   `T <tag> ok ( tree ) ;`   OpenFileOptions::read_to(tag)
//! token syntax: `eh:ggggeeee:VR:len` `pv:<value>` `ss:ggggeeee:len` `ps` `se` `is:len` `ie` `iv:<hex>` `ot:n,n|-`
//!   then `end` | `err` | `panic`.
#[path = "c01/gen.rs"]
mod gen;
#[path = "c01/wr.rs"]
mod wr;

use dicom_core::{Tag, VR};
use dicom_object::{DicomCollector, FileMetaTableBuilder, InMemDicomObject, OpenFileOptions};
use dicom_parser::dataset::lazy_read::LazyDataSetReader;
use dicom_parser::dataset::read::DataSetReader;
use dicom_parser::dataset::DataToken;
use gen::*;
use std::io::{BufReader, Cursor};
use verif_harness::util::*;
use wr::*;

fn tok_str(t: &DataToken) -> String {
    match t {
        DataToken::ElementHeader(h) => format!("eh:{:04x}{:04x}:{}:{}", h.tag.0, h.tag.1, vrn(h.vr), h.len.0),
        DataToken::SequenceStart { tag, len } => format!("ss:{:04x}{:04x}:{}", tag.0, tag.1, len.0),
        DataToken::PixelSequenceStart => "ps".into(),
        DataToken::SequenceEnd => "se".into(),
        DataToken::ItemStart { len } => format!("is:{}", len.0),
        DataToken::ItemEnd => "ie".into(),
        DataToken::PrimitiveValue(v) => format!("pv:{}", value_token(v)),
        DataToken::ItemValue(b) => format!("iv:{}", hex(b)),
        DataToken::OffsetTable(t) => {
            format!("ot:{}", if t.is_empty() { "-".to_string() } else { t.iter().map(|x| x.to_string()).collect::<Vec<_>>().join(",") })
        }
    }
}

fn eager_tokens(ds: &[u8], ts_k: u8) -> String {
    let r = catch(std::panic::AssertUnwindSafe(|| {
        let mut out: Vec<String> = Vec::new();
        let rd = match DataSetReader::new_with_ts(ds, ts_of(ts_k)) {
            Ok(r) => r,
            Err(_) => return "err".to_string(),
        };
        let mut last = "end";
        for t in rd {
            match t {
                Ok(t) => out.push(tok_str(&t)),
                Err(_) => {
                    last = "err";
                    break;
                }
            }
        }
        out.push(last.into());
        out.join(" ")
    }));
    r.unwrap_or_else(|_| "panic".into())
}

fn lazy_tokens(ds: &[u8], ts_k: u8) -> String {
    let r = catch(std::panic::AssertUnwindSafe(|| {
        let mut out: Vec<String> = Vec::new();
        let mut rd = match LazyDataSetReader::new_with_ts(Cursor::new(ds), ts_of(ts_k)) {
            Ok(r) => r,
            Err(_) => return "err".to_string(),
        };
        let mut last = "end";
        while let Some(t) = rd.advance() {
            match t {
                Ok(t) => match t.into_owned() {
                    Ok(t) => out.push(tok_str(&t)),
                    Err(_) => {
                        last = "err";
                        break;
                    }
                },
                Err(_) => {
                    last = "err";
                    break;
                }
            }
        }
        out.push(last.into());
        out.join(" ")
    }));
    r.unwrap_or_else(|_| "panic".into())
}

fn tree(o: &InMemDicomObject) -> String {
    let s = sexpr(&from_object(o));
    if s.is_empty() {
        "ok".to_string()
    } else {
        format!("ok {}", s)
    }
}

fn collector(file: &[u8]) -> DicomCollector<BufReader<Cursor<&[u8]>>> {
    DicomCollector::new(BufReader::new(Cursor::new(file)))
}

fn res<T>(r: Result<Result<T, ()>, String>, f: impl FnOnce(T) -> String) -> String {
    match r {
        Err(_) => "panic".into(),
        Ok(Err(())) => "err".into(),
        Ok(Ok(v)) => f(v),
    }
}

fn case(r: &mut Rng, i: u64, thorough: bool) -> String {
    let ts_k = r.below(3) as u8;
    let depth = if thorough { r.below(6) as u32 } else { r.below(4) as u32 };
    // a pixel data element in most cases: this property is about fragments
    let o = GenOpts { max_depth: depth, pixel: true, charset: false, empty_frags: true };
    let mut nodes = gen_dataset(r, 0, &o);
    let want_px = i % 3 != 0;
    if want_px && !nodes.iter().any(|n| matches!(n, Node::Px { .. })) {
        nodes.retain(|n| n.tag() != Tag(0x7FE0, 0x0010));
        let nf = r.usize(0, 4);
        let frags: Vec<Vec<u8>> = (0..nf)
            .map(|_| match r.below(8) {
                0 => vec![],
                _ => {
                    let k = r.usize(1, 8) * 2;
                    r.bytes(k)
                }
            })
            .collect();
        let bot: Vec<u32> = match r.below(6) {
            0 => vec![],
            _ => (0..nf.max(1)).map(|k| (k * 16) as u32).collect(),
        };
        nodes.push(Node::Px { bot, frags });
        nodes.sort_by_key(|n| n.tag());
    }
    // sometimes an element after Pixel Data (Data Set Trailing Padding)
    if nodes.iter().any(|n| n.tag() == Tag(0x7FE0, 0x0010)) && r.chance(1, 6) {
        let k = r.usize(1, 4) * 2;
        let v = dicom_core::PrimitiveValue::U8(r.bytes(k).into_iter().collect());
        nodes.push(Node::El { tag: Tag(0xFFFC, 0xFFFC), vr: VR::OB, len: k as u32, val: v });
    }
    // data set bytes: the real writer on the object, or the reference encoding with explicit lengths
    let explicit_mode = r.below(3);
    let ds: Vec<u8> = if explicit_mode == 0 {
        let seed = r.next_u64();
        let explicit = move |d: u32, k: usize| -> (bool, bool) {
            let h = seed.wrapping_mul(0x9E3779B97F4A7C15 ^ ((d as u64) << 32 | k as u64)).rotate_left(17);
            (h & 1 == 1, h & 2 == 2)
        };
        ref_encode(&nodes, ts_k, &explicit, 0)
    } else {
        let obj = to_object(&nodes);
        let mut out = Vec::new();
        if obj.write_dataset_with_ts(&mut out, ts_of(ts_k)).is_err() {
            return "skip".into();
        }
        out
    };
    // the file: preamble + DICM + meta group by the real writer, then the data set
    let mut file = Vec::new();
    let meta_obj = InMemDicomObject::new_empty().with_meta(
        FileMetaTableBuilder::new()
            .transfer_syntax(TS_UIDS[ts_k as usize])
            .media_storage_sop_class_uid("1.2.840.10008.5.1.4.1.1.7")
            .media_storage_sop_instance_uid(format!("1.2.3.{}", i)),
    );
    match meta_obj {
        Ok(m) => {
            if m.write_all(&mut file).is_err() {
                return "skip".into();
            }
        }
        Err(_) => return "skip".into(),
    }
    file.extend_from_slice(&ds);
    let file = &file[..];

    let mut s = format!("f {} D {} B {}", ts_k, dict_token(&nodes), hex(&ds));
    s.push_str(&format!(" E {} ;", eager_tokens(&ds, ts_k)));
    s.push_str(&format!(" L {} ;", lazy_tokens(&ds, ts_k)));

    // whole file
    let whole = catch(std::panic::AssertUnwindSafe(|| dicom_object::from_reader(file).map_err(|_| ())));
    let whole_ts = match &whole {
        Ok(Ok(o)) => hexs(o.meta().transfer_syntax()),
        _ => "x".into(),
    };
    // collector: meta
    let cmeta = catch(std::panic::AssertUnwindSafe(|| {
        let mut c = collector(file);
        c.read_file_meta().map(|m| hexs(m.transfer_syntax())).map_err(|_| ())
    }));
    s.push_str(&format!(" M {} {}", res(cmeta, |x| x), whole_ts));
    s.push_str(&format!(" W {} ;", res(whole, |o| tree(&o))));

    // stop tags: ascending, drawn from the tags present, their neighbours, and arbitrary ones
    let tags: Vec<Tag> = nodes.iter().map(|n| n.tag()).collect();
    let pick_tag = |r: &mut Rng| -> Tag {
        match (r.below(5), tags.is_empty()) {
            (0, _) | (_, true) => Tag(r.edgy(16) as u16, r.edgy(16) as u16),
            (1, false) => {
                let t = *r.pick(&tags);
                Tag(t.0, t.1.wrapping_add(1))
            }
            (2, false) => Tag(0x7FE0, 0x0010),
            _ => *r.pick(&tags),
        }
    };
    let n_stops = r.usize(0, 3);
    let mut stops: Vec<Tag> = (0..n_stops).map(|_| pick_tag(r)).collect();
    stops.sort();
    let portions = catch(std::panic::AssertUnwindSafe(|| {
        let mut c = collector(file);
        let mut out: Vec<String> = Vec::new();
        if c.read_file_meta().is_err() {
            return "err".to_string();
        }
        for st in &stops {
            let mut o = InMemDicomObject::new_empty();
            match c.read_dataset_up_to(*st, &mut o) {
                Ok(()) => out.push(tree(&o)),
                Err(_) => {
                    out.push("err".into());
                    return out.join(" ");
                }
            }
        }
        let mut o = InMemDicomObject::new_empty();
        match c.read_dataset_to_end(&mut o) {
            Ok(()) => out.push(tree(&o)),
            Err(_) => out.push("err".into()),
        }
        out.join(" ")
    }));
    let stops_s = if stops.is_empty() { "-".to_string() } else { stops.iter().map(|t| format!("{:04x}{:04x}", t.0, t.1)).collect::<Vec<_>>().join(",") };
    s.push_str(&format!(" C {} {} ;", stops_s, portions.unwrap_or_else(|_| "panic".into())));
    let all = catch(std::panic::AssertUnwindSafe(|| {
        let mut c = collector(file);
        c.read_file_meta().map_err(|_| ())?;
        let mut o = InMemDicomObject::new_empty();
        c.read_dataset_to_end(&mut o).map_err(|_| ())?;
        Ok::<_, ()>(o)
    }));
    s.push_str(&format!(" A {} ;", res(all, |o| tree(&o))));

    // fragments one by one
    let frag_loop = |with_bot: bool| -> String {
        catch(std::panic::AssertUnwindSafe(|| {
            let mut c = collector(file);
            let mut out: Vec<String> = Vec::new();
            if with_bot {
                let mut t: Vec<u32> = Vec::new();
                match c.read_basic_offset_table(&mut t) {
                    Ok(Some(n)) => out.push(format!("bot:{}:{}", n, if t.is_empty() { "-".to_string() } else { t.iter().map(|x| x.to_string()).collect::<Vec<_>>().join(",") })),
                    Ok(None) => out.push("bot:none".into()),
                    Err(_) => {
                        out.push("err".into());
                        return out.join(" ");
                    }
                }
            }
            for _ in 0..64 {
                let mut b: Vec<u8> = Vec::new();
                match c.read_next_fragment(&mut b) {
                    Ok(Some(n)) => out.push(format!("fr:{}:{}", n, hex(&b))),
                    Ok(None) => {
                        out.push("none".into());
                        break;
                    }
                    Err(_) => {
                        out.push("err".into());
                        break;
                    }
                }
            }
            out.join(" ")
        }))
        .unwrap_or_else(|_| "panic".into())
    };
    s.push_str(&format!(" F {} ;", frag_loop(true)));
    s.push_str(&format!(" G {} ;", frag_loop(false)));

    // read_until / read_to
    let ut = pick_tag(r);
    let tt = pick_tag(r);
    let ru = catch(std::panic::AssertUnwindSafe(|| OpenFileOptions::new().read_until(ut).from_reader(file).map_err(|_| ())));
    s.push_str(&format!(" U {:04x}{:04x} {} ;", ut.0, ut.1, res(ru, |o| tree(&o))));
    let rt = catch(std::panic::AssertUnwindSafe(|| OpenFileOptions::new().read_to(tt).from_reader(file).map_err(|_| ())));
    s.push_str(&format!(" T {:04x}{:04x} {} ;", tt.0, tt.1, res(rt, |o| tree(&o))));
    s
}

/// `c06 wit <data set hex, Explicit VR LE>`: the whole-file / collector / fragment outputs for one hand-written data set
fn witness(ds: &[u8]) -> String {
    let mut file = Vec::new();
    let m = InMemDicomObject::new_empty()
        .with_meta(
            FileMetaTableBuilder::new()
                .transfer_syntax(TS_UIDS[1])
                .media_storage_sop_class_uid("1.2.840.10008.5.1.4.1.1.7")
                .media_storage_sop_instance_uid("1.2.3"),
        )
        .expect("meta");
    m.write_all(&mut file).expect("write");
    file.extend_from_slice(ds);
    let file = &file[..];
    let whole = dicom_object::from_reader(file).map(|o| tree(&o)).unwrap_or("err".into());
    let mut c = collector(file);
    let mut o = InMemDicomObject::new_empty();
    let coll = match c.read_file_meta().is_ok() && c.read_dataset_to_end(&mut o).is_ok() {
        true => tree(&o),
        false => "err".into(),
    };
    let mut frs = Vec::new();
    let mut c = collector(file);
    for _ in 0..8 {
        let mut b = Vec::new();
        match c.read_next_fragment(&mut b) {
            Ok(Some(n)) => frs.push(format!("fr:{}:{}", n, hex(&b))),
            Ok(None) => {
                frs.push("none".into());
                break;
            }
            Err(_) => {
                frs.push("err".into());
                break;
            }
        }
    }
    format!("whole: {}\ncollector.read_dataset_to_end: {}\nread_next_fragment…: {}", whole, coll, frs.join(" "))
}

fn main() {
    let a = parse_args();
    quiet_panics();
    if a.mode == "wit" {
        println!("{}", witness(&unhex(&a.extra[0])));
        return;
    }
    let mut out = Out::new();
    for i in case_indices(&a) {
        let mut r = Rng::for_case(a.seed, i);
        let line = case(&mut r, i, a.thorough);
        out.line(&format!("#{} {}", i, line));
    }
    let _ = (VR::OB, Tag(0, 0));
}
