//! Shared by c07 / c08: the token stream of the real `DataSetReader` in line-protocol form.
//! One whitespace-free word per token:
//!   `H:GGGGEEEE:VR:len` `S:GGGGEEEE:len` `P` `s` `I:len` `i` `V:<val>` `F:<hex>` `O:<n,n|->` `E:<kind>` `D`
//!   `<val>` = `e` | `b:<hex>` | `n:<kind>:<n,n|->` (unsigned bit patterns) | `t:<ggggeeee,…|->` |
//!             `ss:<hex,hex>` (UTF-8 of every component) | `st:<hex>` | `x:<kind>:<count>` (parsed from text)
#![allow(dead_code)]
use dicom_core::{PrimitiveValue, VR};
use dicom_parser::dataset::read::Error;
use dicom_parser::dataset::DataToken;
use verif_harness::util::*;

fn list<T: ToString>(xs: impl IntoIterator<Item = T>) -> String {
    let v: Vec<String> = xs.into_iter().map(|x| x.to_string()).collect();
    if v.is_empty() {
        "-".into()
    } else {
        v.join(",")
    }
}

/// `mode`: 0 interpreted, 1 preserved, 2 raw. `vr` = VR of the element header the value belongs to.
pub fn val_word(vr: Option<VR>, mode: u8, v: &PrimitiveValue) -> String {
    use PrimitiveValue::*;
    let interp = mode == 0;
    match v {
        Empty => "e".into(),
        U8(b) => format!("b:{}", hex(b)),
        U16(x) => format!("n:u16:{}", list(x.iter())),
        I16(x) => format!("n:i16:{}", list(x.iter().map(|v| *v as u16))),
        U32(x) => format!("n:u32:{}", list(x.iter())),
        I32(x) if interp && vr == Some(VR::IS) => format!("x:i32:{}", x.len()),
        I32(x) => format!("n:i32:{}", list(x.iter().map(|v| *v as u32))),
        U64(x) => format!("n:u64:{}", list(x.iter())),
        I64(x) => format!("n:i64:{}", list(x.iter().map(|v| *v as u64))),
        F32(x) => format!("n:f32:{}", list(x.iter().map(|f| f.to_bits()))),
        F64(x) if interp && vr == Some(VR::DS) => format!("x:f64:{}", x.len()),
        F64(x) => format!("n:f64:{}", list(x.iter().map(|f| f.to_bits()))),
        Tags(t) => format!("t:{}", list(t.iter().map(|t| format!("{:04x}{:04x}", t.0, t.1)))),
        Strs(s) => format!("ss:{}", list(s.iter().map(|x| hexs(x)))),
        Str(s) => format!("st:{}", hexs(s)),
        Date(x) => format!("x:date:{}", x.len()),
        DateTime(x) => format!("x:dateTime:{}", x.len()),
        Time(x) => format!("x:time:{}", x.len()),
    }
}

pub fn err_word(e: &Error) -> &'static str {
    match e {
        Error::CreateDecoder { .. } => "E:createDecoder",
        Error::ReadItemHeader { .. } => "E:readItemHeader",
        Error::ReadHeader { .. } => "E:readHeader",
        Error::ReadValue { .. } => "E:readValue",
        Error::ReadItemValue { .. } => "E:readItemValue",
        Error::InconsistentSequenceEnd { .. } => "E:inconsistentSequenceEnd",
        Error::UnexpectedItemTag { .. } => "E:unexpectedItemTag",
        Error::UnexpectedItemHeader { .. } => "E:unexpectedItemHeader",
        Error::UndefinedItemLength => "E:undefinedItemLength",
        Error::InvalidElementLength { .. } => "E:invalidElementLength",
        Error::InvalidItemLength { .. } => "E:invalidItemLength",
        _ => "E:other",
    }
}

/// word of a token; `last_vr` tracks the VR of the latest element header
pub fn tok_word(t: &DataToken, last_vr: &mut Option<VR>, mode: u8) -> String {
    match t {
        DataToken::ElementHeader(h) => {
            *last_vr = Some(h.vr);
            format!("H:{:04x}{:04x}:{:?}:{}", h.tag.0, h.tag.1, h.vr, h.len.0)
        }
        DataToken::SequenceStart { tag, len } => format!("S:{:04x}{:04x}:{}", tag.0, tag.1, len.0),
        DataToken::PixelSequenceStart => "P".into(),
        DataToken::SequenceEnd => "s".into(),
        DataToken::ItemStart { len } => format!("I:{}", len.0),
        DataToken::ItemEnd => "i".into(),
        DataToken::PrimitiveValue(v) => format!("V:{}", val_word(*last_vr, mode, v)),
        DataToken::ItemValue(b) => format!("F:{}", hex(b)),
        DataToken::OffsetTable(t) => format!("O:{}", list(t.iter())),
    }
}

/// maximum number of `next()` calls per run (the Lean driver uses the same cap)
pub const CAP: usize = 3000;
