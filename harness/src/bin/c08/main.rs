//! C08 — flexible VR decoding agrees with the correct decoder.
//!
//! `run`: generated data sets (shared generator), written by the real dicom-rs writer (or by the
//!   reference encoder, for explicit sequence / item lengths) in Implicit VR LE, Explicit VR LE or
//!   Explicit VR BE, optionally with a crafted first element (length bytes spelling VR codes, VR codes
//!   disagreeing with the dictionary, unknown codes, stray delimiters). Each byte string is read by the
//!   real `DataSetReader` twice: `flexible_decoding(true)` (declared syntax: either LE syntax) and with
//!   the decoder of the syntax it was really encoded in. Both token streams are printed.
//!     `ds <enc i|e|b> <declared 0|1|2> <mode> <cut 0|1> <bytes> | <flex words…> | <fixed words…>`
//! `compat`: exhaustive probe of `vr_compatible_with_virtual` through `decode_header` with a one-entry
//!   dictionary: every probed VR × every `VirtualVr` (34 × 38).
//!     `compat <probed VR> <dict vvr> <explicit|implicit> <vr> <len> <bytes_read>`
#[path = "../c01/gen.rs"]
mod gen;
mod tok;

use dicom_core::dictionary::{DataDictionary, DataDictionaryEntryRef, TagRange, VirtualVr};
use dicom_core::header::HasLength;
use dicom_core::{Tag, VR};
use dicom_encoding::decode::adaptive_le::AdaptiveVRLittleEndianDecoder;
use dicom_encoding::decode::Decode;
use dicom_encoding::transfer_syntax::TransferSyntaxIndex;
use dicom_encoding::TransferSyntax;
use dicom_parser::dataset::read::{DataSetReader, DataSetReaderOptions, ValueReadStrategy};
use dicom_transfer_syntax_registry::TransferSyntaxRegistry;
use gen::*;
use tok::*;
use verif_harness::util::*;

const TS_UIDS: [&str; 3] = ["1.2.840.10008.1.2", "1.2.840.10008.1.2.1", "1.2.840.10008.1.2.2"];

fn ts_of(k: u8) -> &'static TransferSyntax {
    TransferSyntaxRegistry.get(TS_UIDS[k as usize]).expect("transfer syntax registered")
}

fn mode_of(m: u8) -> ValueReadStrategy {
    match m {
        0 => ValueReadStrategy::Interpreted,
        1 => ValueReadStrategy::Preserved,
        _ => ValueReadStrategy::Raw,
    }
}

/// the whole token stream of the real reader, up to the first error / end / `CAP` tokens
fn read_words(bytes: &[u8], ts_k: u8, flexible: bool, mode: u8) -> String {
    let res = catch(std::panic::AssertUnwindSafe(|| {
        let mut o = DataSetReaderOptions::default().flexible_decoding(flexible);
        o.value_read = mode_of(mode);
        let mut words: Vec<String> = Vec::new();
        let mut rd = match DataSetReader::new_with_ts_options(bytes, ts_of(ts_k), o) {
            Ok(r) => r,
            Err(e) => return err_word(&e).to_string(),
        };
        let mut last_vr = None;
        for _ in 0..CAP {
            match rd.next() {
                None => {
                    words.push("D".into());
                    break;
                }
                Some(Err(e)) => {
                    words.push(err_word(&e).into());
                    break;
                }
                Some(Ok(t)) => words.push(tok_word(&t, &mut last_vr, mode)),
            }
        }
        words.join(" ")
    }));
    res.unwrap_or_else(|_| "panic".into())
}

/// tags with all kinds of dictionary entries
const TAGS: &[(u16, u16)] = &[
    (0x0008, 0x0005), // CS
    (0x0008, 0x0008), // CS
    (0x0008, 0x0016), // UI
    (0x0008, 0x0018), // UI
    (0x0008, 0x0020), // DA
    (0x0008, 0x0030), // TM
    (0x0008, 0x002A), // DT
    (0x0008, 0x0050), // SH
    (0x0008, 0x0060), // CS
    (0x0008, 0x0070), // LO
    (0x0008, 0x0090), // PN
    (0x0008, 0x1140), // SQ
    (0x0008, 0x1150), // UI
    (0x0008, 0x0000), // group length: UL
    (0x0008, 0x0001), // retired UL
    (0x0009, 0x0010), // private creator: LO
    (0x0009, 0x1001), // private: no entry
    (0x0ACE, 0x0101), // no entry
    (0x0010, 0x0010), // PN
    (0x0010, 0x1010), // AS
    (0x0018, 0x0050), // DS
    (0x0020, 0x0013), // IS
    (0x0028, 0x0010), // US
    (0x0028, 0x0106), // xs
    (0x0028, 0x0107), // xs
    (0x0028, 0x1201), // OW
    (0x0028, 0x3006), // lt
    (0x5400, 0x1010), // ox
    (0x6000, 0x3000), // overlay data: ox, OW in Implicit VR
    (0x7FE0, 0x0010), // px
    (0x0018, 0x9087), // FD
    (0x0018, 0x1310), // US
    (0x0008, 0x1190), // UR
    (0x0020, 0x9157), // UL
    (0x0020, 0x4000), // LT
    (0x0040, 0xA124), // UI
    (0x0072, 0x0026), // AT
];

fn relaxed(tag: Tag) -> Option<VR> {
    dict_vr(tag)
}

fn code_of(r: &mut Rng, tag: Tag) -> [u8; 2] {
    match r.below(10) {
        // the dictionary's own VR (ambiguous length bytes)
        0..=3 => match relaxed(tag) {
            Some(vr) => {
                let s = vrn(vr);
                [s.as_bytes()[0], s.as_bytes()[1]]
            }
            None => *b"UN",
        },
        // any VR code
        4..=7 => {
            let s = vrn(*r.pick(&VRS));
            [s.as_bytes()[0], s.as_bytes()[1]]
        }
        // near misses: not a VR code
        8 => *r.pick(&[*b"XX", *b"ob", *b"U\0", *b"uL", *b"SQ", [0xC3, 0xA9], [0x80, 0x41], *b"OX", *b"  ", [0, 0], [2, 0]]),
        _ => [r.next_u64() as u8, r.next_u64() as u8],
    }
}

/// a first element whose header is built by hand
fn crafted_first(r: &mut Rng, enc: u8, cut: &mut bool, allow_cut: bool) -> Vec<u8> {
    let (g, e) = *r.pick(TAGS);
    let tag = Tag(g, e);
    let mut out = Vec::new();
    let be = enc == 2;
    let p16 = |o: &mut Vec<u8>, v: u16| o.extend_from_slice(&if be { v.to_be_bytes() } else { v.to_le_bytes() });
    let p32 = |o: &mut Vec<u8>, v: u32| o.extend_from_slice(&if be { v.to_be_bytes() } else { v.to_le_bytes() });
    p16(&mut out, g);
    p16(&mut out, e);
    let code = code_of(r, tag);
    if enc == 0 {
        // Implicit VR: 32-bit length whose two low bytes are `code`
        // (never huge: a declared length is allocated before it is read)
        let hi: u16 = match r.below(12) {
            0 => 1,
            1 => r.below(16) as u16,
            _ => 0,
        };
        let hi = if allow_cut { hi } else { 0 };
        let len = u32::from(code[0]) | u32::from(code[1]) << 8 | u32::from(hi) << 16;
        out.extend_from_slice(&len.to_le_bytes());
        let full = !allow_cut || (hi == 0 && r.chance(2, 3));
        let n = if full { len as usize } else { r.usize(0, 24) };
        *cut |= n < len as usize;
        // value bytes are small numbers: when the element is taken for explicit VR they are read as a
        // length, and a declared length is allocated (and zeroed) before it is read
        if r.chance(1, 4) {
            out.extend((0..n).map(|_| *r.pick(&[0u8, 0, 0, 1, 2])));
        } else {
            let fill = *r.pick(&[0u8, 0, 1, 2]);
            out.extend(std::iter::repeat(fill).take(n));
        }
    } else {
        // Explicit VR: the VR code as written; 16-bit length form for the PS3.5 short VRs
        out.extend_from_slice(&code);
        let short = std::str::from_utf8(&code).ok().and_then(|s| s.parse::<VR>().ok()).map_or(false, |vr| {
            matches!(
                vr,
                VR::AE | VR::AS | VR::AT | VR::CS | VR::DA | VR::DS | VR::DT | VR::FL | VR::FD | VR::IS | VR::LO | VR::LT
                    | VR::PN | VR::SH | VR::SL | VR::SS | VR::ST | VR::TM | VR::UI | VR::UL | VR::US
            )
        });
        let is_sq = &code == b"SQ";
        let n = if is_sq { 0 } else { r.usize(0, 6) * 2 };
        if short {
            p16(&mut out, n as u16);
        } else {
            out.extend_from_slice(&[0, 0]);
            p32(&mut out, n as u32);
        }
        let fill = *r.pick(&[b'1', b' ', 0u8, b'A']);
        out.extend(std::iter::repeat(fill).take(n));
    }
    out
}

fn encode(r: &mut Rng, nodes: &[Node], enc: u8) -> Vec<u8> {
    if r.chance(2, 3) {
        // the real writer
        let obj = to_object(nodes);
        let mut out = Vec::new();
        if obj.write_dataset_with_ts(&mut out, ts_of(enc)).is_ok() {
            return out;
        }
    }
    let mode = r.below(3);
    let seed = r.next_u64();
    let explicit = move |d: u32, k: usize| -> (bool, bool) {
        let h = seed.wrapping_mul(0x9E37_79B9_7F4A_7C15 ^ ((d as u64) << 32 | k as u64)).rotate_left(17);
        match mode {
            0 => (true, true),
            1 => (false, false),
            _ => (h & 1 == 1, h & 2 == 2),
        }
    };
    ref_encode(nodes, enc, &explicit, 0)
}

fn ds_case(r: &mut Rng, thorough: bool) -> String {
    let kind = r.below(100);
    let enc: u8 = if kind < 3 { 2 } else { r.below(2) as u8 };
    let depth = if thorough { r.below(5) as u32 } else { r.below(3) as u32 };
    let o = GenOpts { max_depth: depth, ..Default::default() };
    let nodes = gen_dataset(r, 0, &o);
    let body = encode(r, &nodes, enc);
    let mut bytes = Vec::new();
    // whether the byte string is (possibly) not a complete data set
    let mut cut = false;
    match kind {
        3..=34 => bytes.extend(crafted_first(r, enc, &mut cut, true)),
        35..=37 => {
            // stray item delimiters before the first element
            for _ in 0..r.usize(1, 3) {
                bytes.extend_from_slice(&[0xFE, 0xFF, 0x0D, 0xE0, 0, 0, 0, 0]);
            }
            if r.chance(1, 2) {
                bytes.extend(crafted_first(r, enc, &mut cut, true));
            }
        }
        38 => {
            // a data element in the delimiter group (not a valid data set)
            let el = *r.pick(&[0x0000u16, 0x0010, 0xE000, 0xE0DD]);
            bytes.extend_from_slice(&[0xFE, 0xFF]);
            bytes.extend_from_slice(&el.to_le_bytes());
            bytes.extend_from_slice(&[4, 0, 0, 0, 1, 2, 3, 4]);
        }
        _ => {}
    }
    bytes.extend(body);
    if r.chance(1, if enc == 0 { 12 } else { 6 }) {
        // later elements whose VR code disagrees with the dictionary (explicit) / whose length spells a
        // VR code (implicit): only the first element may decide
        for _ in 0..r.usize(1, if enc == 0 { 1 } else { 2 }) {
            bytes.extend(crafted_first(r, enc, &mut cut, false));
        }
    }
    if r.chance(1, 40) && !bytes.is_empty() {
        // truncated somewhere
        let k = r.usize(0, bytes.len() - 1);
        bytes.truncate(k);
        cut = true;
    }
    let declared = if enc == 2 { 2 } else { r.below(2) as u8 };
    // (the interpreted strategy only on uncrafted data sets: what the date / number parsers accept is
    // C11/C12's subject, the generator's values are valid)
    let mode = match r.below(10) {
        0 | 1 => 2,
        2 if !(3..=38).contains(&kind) && !cut => 0,
        _ => 1,
    };
    let flex = read_words(&bytes, declared, true, mode);
    let fixed = read_words(&bytes, enc, false, mode);
    format!("ds {} {} {} {} {} | {} | {}", ["i", "e", "b"][enc as usize], declared, mode, cut as u8, hex(&bytes), flex, fixed)
}

// ---------------------------------------------------------------------------------------------
// exhaustive probe of the compatibility table

#[derive(Debug, Clone, Copy)]
struct OneEntryDict(VirtualVr);

impl DataDictionary for OneEntryDict {
    type Entry = DataDictionaryEntryRef<'static>;
    fn by_name(&self, _: &str) -> Option<&Self::Entry> {
        None
    }
    fn by_tag(&self, tag: Tag) -> Option<&Self::Entry> {
        if tag != Tag(0x0011, 0x2233) {
            return None;
        }
        // the entry has to outlive the call: leak one per distinct VR (38 in total)
        let e: &'static DataDictionaryEntryRef<'static> =
            Box::leak(Box::new(DataDictionaryEntryRef { tag: TagRange::Single(tag), alias: "Probe", vr: self.0 }));
        Some(e)
    }
}

/// case identifiers of the exhaustive table probe start here
const COMPAT_BASE: u64 = 1_000_000;

fn compat_cases(out: &mut Out, only: Option<u64>) {
    let mut vvrs: Vec<(String, VirtualVr)> = VRS.iter().map(|v| (vrn(*v), VirtualVr::Exact(*v))).collect();
    vvrs.push(("xs".into(), VirtualVr::Xs));
    vvrs.push(("ox".into(), VirtualVr::Ox));
    vvrs.push(("px".into(), VirtualVr::Px));
    vvrs.push(("lt".into(), VirtualVr::Lt));
    let mut i = 0u64;
    for probed in VRS.iter() {
        for (name, vvr) in vvrs.iter() {
            let idx = i;
            i += 1;
            if only.map_or(false, |o| o != idx) {
                continue;
            }
            let dec = AdaptiveVRLittleEndianDecoder::with_dict(OneEntryDict(*vvr));
            // tag, two probed bytes, then 0x0000 0x00000002: explicit reading gives length 0 (short form)
            // or 2 (long form), implicit reading gives a length with the code in its low half
            let code = vrn(*probed);
            let mut bytes = vec![0x11, 0x00, 0x33, 0x22, code.as_bytes()[0], code.as_bytes()[1], 0, 0, 2, 0, 0, 0];
            bytes.extend_from_slice(&[0; 4]);
            let mut src: &[u8] = &bytes;
            let line = match dec.decode_header(&mut src) {
                Ok((h, n)) => {
                    // second header tells the state the decoder locked to
                    let mut second: &[u8] = &[0x11, 0x00, 0x33, 0x22, b'U', b'N', 0, 0, 6, 0, 0, 0];
                    let locked = match dec.decode_header(&mut second) {
                        Ok((_, 12)) => "explicit",
                        Ok((_, 8)) => "implicit",
                        _ => "unknown",
                    };
                    format!("{} {:?} {} {}", locked, h.vr(), h.length().0, n)
                }
                Err(_) => "err".into(),
            };
            out.line(&format!("#{} compat {} {} {}", COMPAT_BASE + idx, code, name, line));
        }
    }
}

fn main() {
    let a = parse_args();
    quiet_panics();
    let mut out = Out::new();
    if a.mode == "bytes" {
        // `c08 bytes <enc 0|1|2> <hex>`: both readings of a given byte string (for findings)
        let enc: u8 = a.extra[0].parse().unwrap();
        let bytes = unhex(&a.extra[1]);
        let flex = read_words(&bytes, enc, true, 1);
        let fixed = read_words(&bytes, enc, false, 1);
        out.line(&format!("#0 ds {} {} 1 0 {} | {} | {}", ["i", "e", "b"][enc as usize], enc, hex(&bytes), flex, fixed));
        return;
    }
    match a.only {
        None => compat_cases(&mut out, None),
        Some(i) if i >= COMPAT_BASE => {
            compat_cases(&mut out, Some(i - COMPAT_BASE));
            return;
        }
        _ => {}
    }
    for i in case_indices(&a) {
        let mut r = Rng::for_case(a.seed, i);
        let t0 = std::time::Instant::now();
        let line = ds_case(&mut r, a.thorough);
        if std::env::var_os("VERIF_TIMING").is_some() && t0.elapsed().as_millis() > 100 {
            eprintln!("slow case {} {} ms: {}", i, t0.elapsed().as_millis(), &line[..line.len().min(200)]);
        }
        out.line(&format!("#{} {}", i, line));
    }
}
