//! C16 — shared by the two runners (`c16`: registry built with rle+jpeg+deflate as the tools use;
//! `c16d` in harness/shims/c16d: registry crate with its default feature set).
//! Everything printed here is observed on the real `TransferSyntaxRegistry`.
use super::util::*;
use dicom_core::header::{DataElementHeader, Length};
use dicom_core::{Tag, VR};
use dicom_encoding::transfer_syntax::{Codec, Endianness, TransferSyntax, TransferSyntaxIndex};
use dicom_transfer_syntax_registry::TransferSyntaxRegistry;
use std::io::{Read, Write};

static ILE: [u8; 8] = [0x08, 0x00, 0x05, 0x00, 0x02, 0x00, 0x00, 0x00];
static ELE: [u8; 8] = [0x08, 0x00, 0x05, 0x00, b'C', b'S', 0x02, 0x00];
static EBE: [u8; 8] = [0x00, 0x08, 0x00, 0x05, b'C', b'S', 0x00, 0x02];

fn probe_header() -> DataElementHeader {
    DataElementHeader::new(Tag(0x0008, 0x0005), VR::CS, Length(2))
}

/// which of the three data set encodings the offered encoder really produces
fn encoder_kind(ts: &TransferSyntax) -> &'static str {
    match ts.encoder() {
        None => "none",
        Some(enc) => {
            let mut v: Vec<u8> = Vec::new();
            let w: &mut dyn Write = &mut v;
            match enc.encode_element_header(w, probe_header()) {
                Err(_) => "other",
                Ok(_) => {
                    if v == ILE {
                        "ile"
                    } else if v == ELE {
                        "ele"
                    } else if v == EBE {
                        "ebe"
                    } else {
                        "other"
                    }
                }
            }
        }
    }
}

/// which of the three encodings of the probe header the offered decoder reads back correctly
fn decoder_kind(ts: &TransferSyntax) -> &'static str {
    match ts.decoder() {
        None => "none",
        Some(dec) => {
            let mut hits = vec![];
            for (name, bytes) in [("ile", &ILE), ("ele", &ELE), ("ebe", &EBE)] {
                let mut src: &[u8] = &bytes[..];
                let r: &mut dyn Read = &mut src;
                if let Ok((h, n)) = dec.decode_header(r) {
                    if h.tag == Tag(0x0008, 0x0005) && h.vr == VR::CS && h.len == Length(2) && n == 8 {
                        hits.push(name);
                    }
                }
            }
            if hits.len() == 1 { hits[0] } else { "other" }
        }
    }
}

fn b(x: bool) -> char {
    if x { '1' } else { '0' }
}

fn endian(e: Endianness) -> &'static str {
    match e {
        Endianness::Little => "le",
        Endianness::Big => "be",
    }
}

pub fn row(cfg: &str, ts: &TransferSyntax) -> String {
    use dicom_encoding::decode::basic::BasicDecoder;
    use dicom_encoding::decode::BasicDecode;
    let codec = match ts.codec() {
        Codec::None => "none".to_string(),
        Codec::EncapsulatedPixelData(r, w) => format!("encap{}{}", b(r.is_some()), b(w.is_some())),
        Codec::Dataset(d) => format!("ds{}", b(d.is_some())),
    };
    let q: String = [
        ts.is_fully_supported(),
        ts.is_codec_free(),
        ts.is_unsupported(),
        ts.is_encapsulated_pixel_data(),
        ts.is_unsupported_pixel_encapsulation(),
        ts.can_decode_all(),
        ts.can_decode_dataset(),
    ]
    .iter()
    .map(|x| b(*x))
    .collect();
    let enc = encoder_kind(ts);
    let dec = decoder_kind(ts);
    // the explicit-VR flag has no getter: it is observed through the encoder the entry offers
    let explicit = matches!(enc, "ele" | "ebe");
    let bd: BasicDecoder = ts.basic_decoder();
    format!(
        "row {} {} {} {} {} {} {} {} {} {} {} {}",
        cfg,
        hexs(ts.uid()),
        hexs(ts.name()),
        endian(ts.endianness()),
        b(explicit),
        codec,
        q,
        dec,
        enc,
        b(ts.pixel_data_reader().is_some()),
        b(ts.pixel_data_writer().is_some()),
        endian(bd.endianness()),
    )
}

fn sorted_entries() -> Vec<&'static TransferSyntax> {
    let mut v: Vec<&'static TransferSyntax> = dicom_transfer_syntax_registry::TransferSyntaxRegistry.iter().collect();
    // sorted by uid, then by name so that even a registry with duplicated uids prints stably
    v.sort_by(|a, b| (a.uid(), a.name()).cmp(&(b.uid(), b.name())));
    v
}

const PAD_NS: &[char] = &['\0', ' '];
const PAD_WS: &[char] = &[
    '\0', ' ', '\t', '\n', '\u{b}', '\u{c}', '\r', '\u{85}', '\u{a0}', '\u{1680}', '\u{2000}', '\u{2003}', '\u{200a}',
    '\u{2028}', '\u{2029}', '\u{202f}', '\u{205f}', '\u{3000}',
];
/// characters that look like padding but are not trimmed by `get`
const NOT_PAD: &[char] = &[
    '\u{1c}', '\u{1f}', '\u{1}', '\u{7f}', '\u{180e}', '\u{200b}', '\u{200c}', '\u{2060}', '\u{feff}', '\u{84}', '\u{86}',
    '\u{9f}', '\u{a1}', '\u{167f}', '\u{1681}', '\u{1fff}', '\u{200b}', '\u{2027}', '\u{202a}', '\u{202e}', '\u{2030}',
    '\u{205e}', '\u{2060}', '\u{2fff}', '\u{3001}', 'x', '0', '.', '_',
];

fn pad_from(r: &mut Rng, set: &[char], lo: usize, hi: usize) -> String {
    let n = r.usize(lo, hi);
    (0..n).map(|_| *r.pick(set)).collect()
}

fn get_case(cfg: &str, r: &mut Rng, entries: &[&'static TransferSyntax], which: usize) -> String {
    let base = entries[which % entries.len()].uid().to_string();
    let (kind, reg, query): (&str, bool, String) = match r.below(12) {
        0 => ("exact", true, base.clone()),
        1 | 2 => ("pad-ns", true, format!("{}{}", base, pad_from(r, PAD_NS, 1, 6))),
        3 => ("pad-ws", true, format!("{}{}", base, pad_from(r, PAD_WS, 1, 5))),
        4 => {
            let cut = r.usize(1, 2).min(base.len());
            ("near-trunc", true, format!("{}{}", &base[..base.len() - cut], pad_from(r, PAD_NS, 0, 2)))
        }
        5 => {
            let ext = *r.pick(&[".1", "0", ".0", "1", ".", ".99"]);
            ("near-ext", true, format!("{}{}{}", base, ext, pad_from(r, PAD_NS, 0, 2)))
        }
        6 => ("lead", true, format!("{}{}{}", pad_from(r, PAD_WS, 1, 2), base, pad_from(r, PAD_NS, 0, 2))),
        7 => {
            let k = r.usize(1, base.len() - 1);
            ("mid", true, format!("{}{}{}", &base[..k], pad_from(r, PAD_WS, 1, 2), &base[k..]))
        }
        8 | 9 => {
            let np = *r.pick(NOT_PAD);
            let q = if r.chance(1, 2) {
                format!("{}{}{}", base, pad_from(r, PAD_WS, 0, 2), np)
            } else {
                format!("{}{}{}", base, np, pad_from(r, PAD_WS, 0, 3))
            };
            ("trail-nonpad", true, q)
        }
        10 => ("only-pad", false, pad_from(r, PAD_WS, 0, 4)),
        _ => {
            let n = r.usize(1, 5);
            let mut s = String::from("1.2.840.10008.1.2");
            for _ in 0..n {
                s.push('.');
                s.push_str(&r.below(300).to_string());
            }
            let is_reg = entries.iter().any(|e| e.uid() == s);
            return finish_get(cfg, "uid-like", is_reg, &s.clone(), &format!("{}{}", s, pad_from(r, PAD_NS, 0, 3)));
        }
    };
    finish_get(cfg, kind, reg, &base, &query)
}

fn finish_get(cfg: &str, kind: &str, reg: bool, base: &str, query: &str) -> String {
    let q = query.to_string();
    let res = catch(move || TransferSyntaxRegistry.get(&q).map(|t| format!("some:{}:{}", hexs(t.uid()), hexs(t.name()))));
    let res = match res {
        Ok(Some(s)) => s,
        Ok(None) => "none".to_string(),
        Err(_) => "panic".to_string(),
    };
    format!("get {} {} {} {} {} {}", cfg, kind, b(reg), hexs(base), hexs(query), res)
}

/// `parity`: this runner answers the case indices with `index % 2 == parity`
pub fn main_for(cfg: &str, parity: u64) {
    let a = parse_args();
    quiet_panics();
    let mut out = Out::new();
    let entries = sorted_entries();
    if a.mode == "dump" {
        for ts in &entries {
            out.line(&row(cfg, ts));
        }
        return;
    }
    let n = entries.len() as u64;
    for i in case_indices(&a) {
        if i % 2 != parity {
            continue;
        }
        let k = i / 2;
        let line = if k < n {
            row(cfg, entries[k as usize])
        } else if k == n {
            let mut s = format!("uids {} {}", cfg, n);
            for e in &entries {
                s.push(' ');
                s.push_str(&hexs(e.uid()));
            }
            s
        } else {
            let mut r = Rng::for_case(a.seed, i);
            get_case(cfg, &mut r, &entries, (k - n - 1) as usize)
        };
        out.line(&format!("#{} {}", i, line));
    }
}
