//! C16 — every registered transfer syntax is described consistently.
//! This runner is linked against the registry with the features the tools use (rle, jpeg, deflate)
//! and answers the even case indices; the odd ones are answered by the sibling runner `c16d`
//! (harness/shims/c16d, registry crate with its default feature set), whose output is relayed.
use verif_harness::util;
mod cases;

fn main() {
    cases::main_for("tools", 0);
    let args: Vec<String> = std::env::args().skip(1).collect();
    if args.first().map(|s| s.as_str()) == Some("dump") {
        return;
    }
    // sibling: <target>/release/c16  ->  <target>/c16d/release/c16d
    let exe = std::env::current_exe().expect("current_exe");
    let sib = exe.parent().and_then(|p| p.parent()).map(|p| p.join("c16d").join("release").join("c16d"));
    let ok = match sib {
        Some(p) if p.exists() => std::process::Command::new(p).args(&args).status().map(|s| s.success()).unwrap_or(false),
        _ => false,
    };
    if !ok {
        // makes the run fail loudly (the driver answers BAD-LINE)
        println!("#1 sibling-runner-c16d-missing-or-failed");
    }
}
