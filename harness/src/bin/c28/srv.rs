//! The acceptor fixture shared by the C28/C29/C30 runners: access-control and negotiation
//! policies (mirrored in `lean/DicomModel/Model/AssocLine.lean`) and the dispatch from a
//! run-time configuration to the statically typed `ServerAssociationOptions`.
#![allow(dead_code)]
use super::gen::*;
use super::wire::*;
use dicom_ul::association::server::*;
use dicom_ul::association::Association;
use dicom_ul::pdu::*;
use std::net::TcpStream;
use std::time::Duration;
use verif_harness::util::*;

pub type SrvResult = Result<ServerAssociation<TcpStream>, dicom_ul::association::Error>;

pub struct AcceptCalling(String);
impl AccessControl for AcceptCalling {
    fn check_access(&self, _this: &str, calling: &str, _called: &str, _id: Option<&UserIdentity>) -> Result<(), AssociationRJServiceUserReason> {
        if calling == self.0 {
            Ok(())
        } else {
            Err(AssociationRJServiceUserReason::CallingAETitleNotRecognized)
        }
    }
}
/// clearance for user "alice" only; no identity: no-reason-given; someone else: calling-not-recognized
pub struct RequireIdentity;
impl AccessControl for RequireIdentity {
    fn check_access(&self, _this: &str, _calling: &str, _called: &str, id: Option<&UserIdentity>) -> Result<(), AssociationRJServiceUserReason> {
        match id {
            None => Err(AssociationRJServiceUserReason::NoReasonGiven),
            Some(u) if u.primary_field() == b"alice" => Ok(()),
            Some(_) => Err(AssociationRJServiceUserReason::CallingAETitleNotRecognized),
        }
    }
}
pub struct Neg(pub u8);
impl Negotiation for Neg {
    fn extended_negotiation(&self, uid: &str, input: &[u8]) -> Option<Vec<u8>> {
        match self.0 {
            1 => {
                if uid.starts_with("1.2.840.10008.5.1.4") {
                    Some(input.iter().take(3).map(|b| b & 1).collect())
                } else {
                    None
                }
            }
            _ => Some(vec![]),
        }
    }
    fn negotiate_roles(&self, uid: &str, scu: bool, _scp: bool) -> Option<RequestorRoles> {
        match self.0 {
            1 => {
                if uid.ends_with('7') {
                    None
                } else {
                    Some(RequestorRoles { scu, scp: false })
                }
            }
            _ => Some(RequestorRoles { scu: true, scp: true }),
        }
    }
}

pub fn srv_tok<S: std::io::Read + std::io::Write + dicom_ul::association::CloseSocket>(r: &Result<ServerAssociation<S>, dicom_ul::association::Error>) -> String {
    match r {
        Ok(a) => format!(
            "ok {} {} {} {} {} {}",
            a.requestor_max_pdu_length(),
            a.acceptor_max_pdu_length(),
            hexs(a.peer_ae_title()),
            hexs(a.called_ae_title()),
            negotiated_tok(Association::presentation_contexts(a)),
            uvs_tok(Association::user_variables(a))
        ),
        Err(e) => err_tok(e).to_string(),
    }
}

/// something to do with the statically typed options
pub trait Act {
    type Out;
    fn run<A: AccessControl, N: Negotiation>(self, o: ServerAssociationOptions<'static, A, N>) -> Self::Out;
}
fn step_neg<A: AccessControl, T: Act>(o: ServerAssociationOptions<'static, A, DefaultNegotiation>, neg: u8, act: T) -> T::Out {
    if neg == 0 {
        act.run(o)
    } else {
        act.run(o.with_negotiation(Neg(neg)))
    }
}
pub fn options(c: &Cfg) -> ServerAssociationOptions<'static, AcceptAny, DefaultNegotiation> {
    let mut o = ServerAssociationOptions::new()
        .ae_title(c.ae.clone())
        .promiscuous(c.prom)
        .strict(c.strict)
        .max_pdu_length(c.maxpdu)
        .read_timeout(Duration::from_secs(60));
    for a in &c.abs {
        o = o.with_abstract_syntax(a.clone());
    }
    for t in &c.ts {
        o = o.with_transfer_syntax(t.clone());
    }
    o
}
pub fn dispatch<T: Act>(c: &Cfg, act: T) -> T::Out {
    let o = options(c);
    match &c.ac {
        Ac::Any => step_neg(o.accept_any(), c.neg, act),
        Ac::Called => step_neg(o.accept_called_ae_title(), c.neg, act),
        Ac::Calling(x) => step_neg(o.ae_access_control(AcceptCalling(x.clone())), c.neg, act),
        Ac::Ident => step_neg(o.ae_access_control(RequireIdentity), c.neg, act),
    }
}

struct Establish(TcpStream);
impl Act for Establish {
    type Out = SrvResult;
    fn run<A: AccessControl, N: Negotiation>(self, o: ServerAssociationOptions<'static, A, N>) -> SrvResult {
        o.establish(self.0)
    }
}
/// run the real `establish` for this configuration on an accepted connection
pub fn establish_cfg(c: &Cfg, s: TcpStream) -> SrvResult {
    dispatch(c, Establish(s))
}

struct Process(Pdu);
impl Act for Process {
    type Out = (Pdu, String);
    fn run<A: AccessControl, N: Negotiation>(self, o: ServerAssociationOptions<'static, A, N>) -> (Pdu, String) {
        match dicom_ul::verif_hooks::process_a_association_rq(&o, self.0) {
            Ok((reply, n, called)) => {
                let t = format!(
                    "ok {} - {} {} {} {}",
                    n.peer_max_pdu_length,
                    hexs(&n.peer_ae_title),
                    hexs(&called),
                    negotiated_tok(&n.presentation_contexts),
                    uvs_tok(&n.user_variables)
                );
                (reply, t)
            }
            Err((reply, e)) => (reply, err_tok(&e).to_string()),
        }
    }
}
/// the real `process_a_association_rq`, in-process through the verification hook:
/// (answer PDU tokens, negotiated state tokens; the acceptor's own maximum is not part of it: `-`)
pub fn process_cfg(c: &Cfg, first: Pdu) -> (String, String) {
    let (reply, t) = dispatch(c, Process(first));
    (pdu_tok(&reply), t)
}
/// same, keeping the answer PDU
pub fn process_cfg_pdu(c: &Cfg, first: Pdu) -> (Pdu, String) {
    dispatch(c, Process(first))
}

pub fn serve(c: &Cfg, s: TcpStream) -> String {
    srv_tok(&establish_cfg(c, s))
}
