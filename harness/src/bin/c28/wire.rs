//! Token printers for PDUs and association state, and loopback helpers, shared by the
//! C28/C29/C30 runners (`#[path = "../c28/wire.rs"] mod wire;`).
#![allow(dead_code)]
use dicom_ul::pdu::*;
use std::io::{Read, Write};
use std::net::TcpStream;
use verif_harness::util::*;

pub fn uv_tok(u: &UserVariableItem) -> String {
    match u {
        UserVariableItem::Unknown(t, d) => format!("uk:{}:{}", t, hex(d)),
        UserVariableItem::MaxLength(n) => format!("ml:{}", n),
        UserVariableItem::ImplementationClassUID(s) => format!("ic:{}", hexs(s)),
        UserVariableItem::ImplementationVersionName(s) => format!("iv:{}", hexs(s)),
        UserVariableItem::SopClassExtendedNegotiationSubItem(s, d) => format!("xn:{}:{}", hexs(s), hex(d)),
        UserVariableItem::ScuScpRoleSelectionSubItem(s, r) => format!("rs:{}:{}:{}", hexs(s), r.scu as u8, r.scp as u8),
        UserVariableItem::UserIdentityItem(u) => format!(
            "ui:{}:{}:{}:{}",
            u.positive_response_requested() as u8,
            match u.identity_type() {
                UserIdentityType::Username => 1,
                UserIdentityType::UsernamePassword => 2,
                UserIdentityType::KerberosServiceTicket => 3,
                UserIdentityType::SamlAssertion => 4,
                UserIdentityType::Jwt => 5,
                _ => 0,
            },
            hex(&u.primary_field()),
            hex(&u.secondary_field())
        ),
    }
}

pub fn uvs_tok(uvs: &[UserVariableItem]) -> String {
    let mut s = format!("{}", uvs.len());
    for u in uvs {
        s.push(' ');
        s.push_str(&uv_tok(u));
    }
    s
}

pub fn reason_code(r: &PresentationContextResultReason) -> u8 {
    match r {
        PresentationContextResultReason::Acceptance => 0,
        PresentationContextResultReason::UserRejection => 1,
        PresentationContextResultReason::NoReason => 2,
        PresentationContextResultReason::AbstractSyntaxNotSupported => 3,
        PresentationContextResultReason::TransferSyntaxesNotSupported => 4,
    }
}

pub fn rj_codes(rj: &AssociationRJ) -> (u8, u8, u8) {
    let res = match rj.result {
        AssociationRJResult::Permanent => 1,
        AssociationRJResult::Transient => 2,
    };
    let (s, r) = match &rj.source {
        AssociationRJSource::ServiceUser(r) => (
            1,
            match r {
                AssociationRJServiceUserReason::NoReasonGiven => 1,
                AssociationRJServiceUserReason::ApplicationContextNameNotSupported => 2,
                AssociationRJServiceUserReason::CallingAETitleNotRecognized => 3,
                AssociationRJServiceUserReason::CalledAETitleNotRecognized => 7,
                AssociationRJServiceUserReason::Reserved(c) => *c,
            },
        ),
        AssociationRJSource::ServiceProviderASCE(r) => (
            2,
            match r {
                AssociationRJServiceProviderASCEReason::NoReasonGiven => 1,
                AssociationRJServiceProviderASCEReason::ProtocolVersionNotSupported => 2,
            },
        ),
        AssociationRJSource::ServiceProviderPresentation(r) => (
            3,
            match r {
                AssociationRJServiceProviderPresentationReason::TemporaryCongestion => 1,
                AssociationRJServiceProviderPresentationReason::LocalLimitExceeded => 2,
                AssociationRJServiceProviderPresentationReason::Reserved(c) => *c,
            },
        ),
    };
    (res, s, r)
}

pub fn abort_codes(s: &AbortRQSource) -> (u8, u8) {
    match s {
        AbortRQSource::ServiceUser => (0, 0),
        AbortRQSource::Reserved => (1, 0),
        AbortRQSource::ServiceProvider(r) => (
            2,
            match r {
                AbortRQServiceProviderReason::ReasonNotSpecified => 0,
                AbortRQServiceProviderReason::UnrecognizedPdu => 1,
                AbortRQServiceProviderReason::UnexpectedPdu => 2,
                AbortRQServiceProviderReason::Reserved => 3,
                AbortRQServiceProviderReason::UnrecognizedPduParameter => 4,
                AbortRQServiceProviderReason::UnexpectedPduParameter => 5,
                AbortRQServiceProviderReason::InvalidPduParameter => 6,
            },
        ),
    }
}

/// `rq <pv> <calling> <called> <appctx> <n> {<id> <as> <nts> <ts>…} <nuv> {uv}`
pub fn rq_tok(rq: &AssociationRQ) -> String {
    let mut s = format!(
        "rq {} {} {} {} {}",
        rq.protocol_version,
        hexs(&rq.calling_ae_title),
        hexs(&rq.called_ae_title),
        hexs(&rq.application_context_name),
        rq.presentation_contexts.len()
    );
    for pc in &rq.presentation_contexts {
        s.push_str(&format!(" {} {} {}", pc.id, hexs(&pc.abstract_syntax), pc.transfer_syntaxes.len()));
        for t in &pc.transfer_syntaxes {
            s.push(' ');
            s.push_str(&hexs(t));
        }
    }
    s.push(' ');
    s.push_str(&uvs_tok(&rq.user_variables));
    s
}

/// any PDU as tokens (`rq …`, `ac …`, `rj a b c`, `ab s r`, `rlrq`, `rlrp`, `pd <n pdvs> <total data bytes>`, `unk <type>`)
pub fn pdu_tok(p: &Pdu) -> String {
    match p {
        Pdu::AssociationRQ(rq) => rq_tok(rq),
        Pdu::AssociationAC(ac) => {
            let mut s = format!(
                "ac {} {} {} {} {}",
                ac.protocol_version,
                hexs(&ac.calling_ae_title),
                hexs(&ac.called_ae_title),
                hexs(&ac.application_context_name),
                ac.presentation_contexts.len()
            );
            for pc in &ac.presentation_contexts {
                s.push_str(&format!(" {} {} {}", pc.id, reason_code(&pc.reason), hexs(&pc.transfer_syntax)));
            }
            s.push(' ');
            s.push_str(&uvs_tok(&ac.user_variables));
            s
        }
        Pdu::AssociationRJ(rj) => {
            let (a, b, c) = rj_codes(rj);
            format!("rj {} {} {}", a, b, c)
        }
        Pdu::AbortRQ { source } => {
            let (a, b) = abort_codes(source);
            format!("ab {} {}", a, b)
        }
        Pdu::ReleaseRQ => "rlrq".into(),
        Pdu::ReleaseRP => "rlrp".into(),
        Pdu::PData { data } => format!("pd {} {}", data.len(), data.iter().map(|d| d.data.len()).sum::<usize>()),
        Pdu::Unknown { pdu_type, .. } => format!("unk {}", pdu_type),
    }
}

pub fn negotiated_tok(pcs: &[PresentationContextNegotiated]) -> String {
    let mut s = format!("{}", pcs.len());
    for pc in pcs {
        s.push_str(&format!(
            " {} {} {} {}",
            pc.id,
            reason_code(&pc.reason),
            hexs(&pc.transfer_syntax),
            hexs(&pc.abstract_syntax)
        ));
    }
    s
}

/// class of an association error (never the message)
pub fn err_tok(e: &dicom_ul::association::Error) -> &'static str {
    use dicom_ul::association::Error as E;
    match e {
        E::MissingAbstractSyntax { .. } => "err:missing-abstract-syntax",
        E::Rejected { .. } => "err:rejected",
        E::Aborted { .. } => "err:aborted",
        E::UnexpectedPdu { .. } => "err:unexpected-pdu",
        E::UnknownPdu { .. } => "err:unknown-pdu",
        E::ProtocolVersionMismatch { .. } => "err:protocol-version",
        E::NoAcceptedPresentationContexts { .. } => "err:none-accepted",
        E::SendTooLongPdu { .. } => "err:too-long",
        E::ConnectionClosed { .. } => "err:closed",
        E::ReceivePdu { .. } => "err:receive",
        E::SendPdu { .. } => "err:send-pdu",
        E::WireSend { .. } => "err:wire-send",
        E::WireRead { .. } => "err:wire-read",
        E::Timeout { .. } => "err:timeout",
        E::Close { .. } => "err:close",
        _ => "err:other",
    }
}

/// read one PDU from a socket with the public codec (lenient: largest maximum, non-strict);
/// `Ok(None)` = the peer closed the connection at a PDU boundary
pub fn read_one(sock: &mut TcpStream, buf: &mut Vec<u8>) -> Result<Option<Pdu>, &'static str> {
    loop {
        {
            let mut cur = std::io::Cursor::new(&buf[..]);
            match read_pdu(&mut cur, MAXIMUM_PDU_SIZE, false) {
                Ok(Some(p)) => {
                    let n = cur.position() as usize;
                    buf.drain(..n);
                    return Ok(Some(p));
                }
                Ok(None) => {}
                Err(_) => return Err("err:decode"),
            }
        }
        let mut tmp = [0u8; 16384];
        match sock.read(&mut tmp) {
            Ok(0) => return if buf.is_empty() { Ok(None) } else { Err("err:truncated") },
            Ok(n) => buf.extend_from_slice(&tmp[..n]),
            Err(e) if e.kind() == std::io::ErrorKind::ConnectionReset => {
                return if buf.is_empty() { Ok(None) } else { Err("err:truncated") }
            }
            Err(_) => return Err("err:io"),
        }
    }
}

pub fn write_one(sock: &mut TcpStream, p: &Pdu) -> bool {
    let mut b = Vec::new();
    if write_pdu(&mut b, p).is_err() {
        return false;
    }
    sock.write_all(&b).is_ok()
}

/// the PDU as the peer's decoder will deliver it (public writer + public reader)
pub fn through_codec(p: &Pdu) -> Option<(Pdu, usize)> {
    let mut b = Vec::new();
    write_pdu(&mut b, p).ok()?;
    let mut cur = std::io::Cursor::new(&b[..]);
    match read_pdu(&mut cur, MAXIMUM_PDU_SIZE, false) {
        Ok(Some(q)) if cur.position() as usize == b.len() => Some((q, b.len())),
        _ => None,
    }
}
