//! Acceptor configurations and first PDUs: the bounded universe of the property (exhaustive
//! blocks, addressed by case index) followed by a random stream.
#![allow(dead_code)]
use dicom_ul::pdu::*;
use verif_harness::util::*;

#[derive(Clone, Debug)]
pub enum Ac {
    Any,
    Called,
    Calling(String),
    Ident,
}

#[derive(Clone, Debug)]
pub struct Cfg {
    pub ae: String,
    pub prom: bool,
    pub strict: bool,
    /// as passed to `max_pdu_length`
    pub maxpdu: u32,
    pub ac: Ac,
    pub neg: u8,
    /// as passed to `with_abstract_syntax` / `with_transfer_syntax`
    pub abs: Vec<String>,
    pub ts: Vec<String>,
}

impl Cfg {
    pub fn base() -> Cfg {
        Cfg { ae: "THIS-SCP".into(), prom: false, strict: true, maxpdu: DEFAULT_MAX_PDU, ac: Ac::Any, neg: 0, abs: vec![], ts: vec![] }
    }
}

pub fn cfg_tok(c: &Cfg) -> String {
    let ac = match &c.ac {
        Ac::Any => "any".to_string(),
        Ac::Called => "called".to_string(),
        Ac::Calling(x) => format!("calling:{}", hexs(x)),
        Ac::Ident => "ident".to_string(),
    };
    let mut s = format!("{} {} {} {} {} {} {}", hexs(&c.ae), c.prom as u8, c.strict as u8, c.maxpdu, ac, c.neg, c.abs.len());
    for a in &c.abs {
        s.push(' ');
        s.push_str(&hexs(a));
    }
    s.push_str(&format!(" {}", c.ts.len()));
    for t in &c.ts {
        s.push(' ');
        s.push_str(&hexs(t));
    }
    s
}

pub const APP_CTX: &str = "1.2.840.10008.3.1.1.1";
pub const A_VERIF: &str = "1.2.840.10008.1.1";
pub const A_SC: &str = "1.2.840.10008.5.1.4.1.1.7";
pub const T_IMPL: &str = "1.2.840.10008.1.2";
pub const T_EXPL: &str = "1.2.840.10008.1.2.1";
pub const T_UNKNOWN: &str = "1.2.3.4.5.6";

pub struct Universe {
    pub thorough: bool,
    a: Vec<String>,
    t: Vec<String>,
    /// all injective sequences over the 4 transfer syntaxes, by maximal length
    lists4: Vec<Vec<usize>>,
    lists2: Vec<Vec<usize>>,
    cfgs: Vec<Cfg>,
    /// (abstract syntax index, ts list) kinds for the 3- and 4-context blocks
    kinds: Vec<(usize, Vec<usize>)>,
    blocks: Vec<(u64, Block)>,
    pub all_ts: Vec<String>,
    pub unsupported: Vec<String>,
}

#[derive(Clone, Copy, Debug)]
enum Block {
    Ctx(usize, u8), // number of contexts, alphabet: 0 = full (3*65), 1 = mid (3*17), 2 = kinds
    ReqLevel,
}

fn seqs(n: usize, maxlen: usize) -> Vec<Vec<usize>> {
    let mut out = vec![vec![]];
    let mut frontier = vec![vec![]];
    for _ in 0..maxlen {
        let mut next = vec![];
        for s in &frontier {
            for x in 0..n {
                if !s.contains(&x) {
                    let mut v: Vec<usize> = s.clone();
                    v.push(x);
                    next.push(v);
                }
            }
        }
        out.extend(next.iter().cloned());
        frontier = next;
    }
    out
}

pub fn default_uvs(max: Option<u32>) -> Vec<UserVariableItem> {
    let mut v = vec![];
    if let Some(m) = max {
        v.push(UserVariableItem::MaxLength(m));
    }
    v.push(UserVariableItem::ImplementationClassUID("1.2.826.0.1.3680043.9.7433.1.1".into()));
    v.push(UserVariableItem::ImplementationVersionName("VERIF-SCU".into()));
    v
}

impl Universe {
    pub fn new(thorough: bool) -> Universe {
        use dicom_transfer_syntax_registry::TransferSyntaxRegistry;
        let mut all_ts: Vec<String> = TransferSyntaxRegistry.iter().map(|t| t.uid().to_string()).collect();
        all_ts.sort();
        let mut unsupported: Vec<String> = TransferSyntaxRegistry.iter().filter(|t| t.is_unsupported()).map(|t| t.uid().to_string()).collect();
        unsupported.sort();
        // a transfer syntax the registry knows but cannot decode (a stub); an unknown one otherwise
        let t_unsup = unsupported.first().cloned().unwrap_or_else(|| "1.2.840.10008.1.2.4.999".to_string());
        let a = vec![A_VERIF.to_string(), A_SC.to_string(), format!("{}\0", A_VERIF)];
        let t = vec![T_IMPL.to_string(), format!("{}\0", T_EXPL), t_unsup.clone(), T_UNKNOWN.to_string()];
        let asprom: Vec<(Vec<String>, bool)> = vec![
            (vec![A_VERIF.into()], false),
            (vec![A_VERIF.into()], true),
            (vec![], true),
            (vec![format!("{}\0", A_VERIF), A_SC.into()], false),
        ];
        let tscfg: Vec<Vec<String>> = vec![
            vec![],
            vec![T_IMPL.into()],
            vec![format!("{}\0", T_EXPL)],
            vec![T_EXPL.into(), t_unsup.clone(), T_UNKNOWN.into()],
        ];
        let mut cfgs = vec![];
        for (abs, prom) in &asprom {
            for ts in &tscfg {
                cfgs.push(Cfg { abs: abs.clone(), prom: *prom, ts: ts.clone(), ..Cfg::base() });
            }
        }
        let mut kinds: Vec<(usize, Vec<usize>)> = vec![
            (0, vec![0]),
            (1, vec![0]),
            (2, vec![1, 0]),
            (0, vec![3, 2]),
            (0, vec![]),
            (2, vec![2, 1]),
        ];
        if thorough {
            kinds.extend(vec![(1, vec![1]), (0, vec![2, 0]), (2, vec![3]), (1, vec![3, 2, 1, 0]), (0, vec![1]), (2, vec![0, 1])]);
        }
        let plan: Vec<Block> = if thorough {
            vec![Block::Ctx(0, 0), Block::Ctx(1, 0), Block::ReqLevel, Block::Ctx(2, 0), Block::Ctx(3, 1), Block::Ctx(4, 2)]
        } else {
            vec![Block::Ctx(0, 0), Block::Ctx(1, 0), Block::ReqLevel, Block::Ctx(2, 1), Block::Ctx(3, 2), Block::Ctx(4, 2)]
        };
        let mut u = Universe { thorough, a, t, lists4: seqs(4, 4), lists2: seqs(4, 2), cfgs, kinds, blocks: vec![], all_ts, unsupported };
        let mut start = 0u64;
        for b in plan {
            u.blocks.push((start, b));
            start += u.block_size(b);
        }
        u.blocks.push((start, Block::ReqLevel)); // sentinel: end of the exhaustive part
        u
    }

    fn alpha_size(&self, alpha: u8) -> u64 {
        match alpha {
            0 => (self.a.len() * self.lists4.len()) as u64,
            1 => (self.a.len() * self.lists2.len()) as u64,
            _ => self.kinds.len() as u64,
        }
    }
    fn block_size(&self, b: Block) -> u64 {
        match b {
            Block::Ctx(n, alpha) => self.cfgs.len() as u64 * self.alpha_size(alpha).pow(n as u32),
            Block::ReqLevel => (PVS.len() * APPS.len() * 8 * MAXLENS) as u64,
        }
    }
    pub fn exhaustive_total(&self) -> u64 {
        self.blocks.last().unwrap().0
    }

    fn pc(&self, alpha: u8, k: u64, id: u8) -> PresentationContextProposed {
        let (ai, tl): (usize, Vec<usize>) = match alpha {
            0 => ((k as usize) % 3, self.lists4[(k as usize) / 3].clone()),
            1 => ((k as usize) % 3, self.lists2[(k as usize) / 3].clone()),
            _ => self.kinds[k as usize].clone(),
        };
        PresentationContextProposed { id, abstract_syntax: self.a[ai].clone(), transfer_syntaxes: tl.iter().map(|&x| self.t[x].clone()).collect() }
    }

    /// (configuration, first PDU, eligible for the in-process path)
    pub fn case(&self, seed: u64, i: u64) -> (Cfg, Pdu, bool) {
        let total = self.exhaustive_total();
        if i >= total {
            let mut r = Rng::for_case(seed, i);
            return self.random(&mut r);
        }
        let bi = self.blocks.iter().rposition(|(s, _)| *s <= i).unwrap();
        let (start, b) = self.blocks[bi];
        let mut k = i - start;
        match b {
            Block::Ctx(n, alpha) => {
                let c = self.cfgs[(k % self.cfgs.len() as u64) as usize].clone();
                k /= self.cfgs.len() as u64;
                let asz = self.alpha_size(alpha);
                let mut pcs = vec![];
                for j in 0..n {
                    pcs.push(self.pc(alpha, k % asz, (2 * j + 1) as u8));
                    k /= asz;
                }
                let rq = AssociationRQ {
                    protocol_version: 1,
                    calling_ae_title: "VERIF-SCU".into(),
                    called_ae_title: "THIS-SCP".into(),
                    application_context_name: APP_CTX.into(),
                    presentation_contexts: pcs,
                    user_variables: default_uvs(Some(16384)),
                };
                (c, Pdu::AssociationRQ(rq), true)
            }
            Block::ReqLevel => {
                let pv = PVS[(k % PVS.len() as u64) as usize];
                k /= PVS.len() as u64;
                let app = APPS[(k % APPS.len() as u64) as usize];
                k /= APPS.len() as u64;
                let acv = k % 8;
                k /= 8;
                let ml = k as usize;
                let mut c = Cfg { abs: vec![A_VERIF.into()], ..Cfg::base() };
                let mut calling = "VERIF-SCU".to_string();
                let mut called = "THIS-SCP".to_string();
                let mut uvs = maxlen_variant(ml);
                match acv {
                    0 => c.ac = Ac::Any,
                    1 => c.ac = Ac::Called,
                    2 => {
                        c.ac = Ac::Called;
                        called = "OTHER-SCP".into()
                    }
                    3 => c.ac = Ac::Calling("VERIF-SCU".into()),
                    4 => {
                        c.ac = Ac::Calling("VERIF-SCU".into());
                        calling = "INTRUDER".into()
                    }
                    5 => c.ac = Ac::Ident,
                    6 => {
                        c.ac = Ac::Ident;
                        uvs.push(UserVariableItem::UserIdentityItem(UserIdentity::new(false, UserIdentityType::Username, b"alice".to_vec(), vec![])))
                    }
                    _ => {
                        c.ac = Ac::Ident;
                        uvs.push(UserVariableItem::UserIdentityItem(UserIdentity::new(false, UserIdentityType::Username, b"alice".to_vec(), vec![])));
                        uvs.push(UserVariableItem::UserIdentityItem(UserIdentity::new(true, UserIdentityType::UsernamePassword, b"bob".to_vec(), b"pw".to_vec())))
                    }
                }
                let rq = AssociationRQ {
                    protocol_version: pv,
                    calling_ae_title: calling,
                    called_ae_title: called,
                    application_context_name: app.into(),
                    presentation_contexts: vec![PresentationContextProposed { id: 1, abstract_syntax: A_VERIF.into(), transfer_syntaxes: vec![T_EXPL.into(), T_IMPL.into()] }],
                    user_variables: uvs,
                };
                (c, Pdu::AssociationRQ(rq), true)
            }
        }
    }

    pub fn uid_variant(&self, r: &mut Rng, base: &str) -> String {
        match r.below(12) {
            0 => format!("{}\0", base),
            1 => format!("{}\0\0", base),
            2 => format!("{} \0", base),
            3 => format!("{}\0 ", base), // ends with a space: trim_uid leaves it alone
            4 => format!("{} ", base),
            5 => format!("{}.1", base),
            _ => base.to_string(),
        }
    }
    pub fn rand_ts(&self, r: &mut Rng) -> String {
        let base = match r.below(10) {
            0 | 1 | 2 => T_IMPL.to_string(),
            3 | 4 => T_EXPL.to_string(),
            5 => {
                if self.unsupported.is_empty() {
                    T_UNKNOWN.to_string()
                } else {
                    r.pick(&self.unsupported).clone()
                }
            }
            6 => T_UNKNOWN.to_string(),
            _ => r.pick(&self.all_ts).clone(),
        };
        self.uid_variant(r, &base)
    }
    pub fn rand_as(&self, r: &mut Rng) -> String {
        const POOL: &[&str] = &[A_VERIF, A_SC, "1.2.840.10008.5.1.4.1.1.2", "1.2.840.10008.5.1.4.1.2.2.1", "1.2.840.10008.5.1.4.1.1.4", "1.2.9"];
        let b = r.pick(POOL).to_string();
        self.uid_variant(r, &b)
    }
    pub fn rand_ae(r: &mut Rng) -> String {
        let n = r.usize(1, 16);
        let s = r.ascii_from(b"ABCDEFGHIJKLMNOPQRSTUVWXYZ0123456789_-", n);
        s
    }

    pub fn random_cfg(&self, r: &mut Rng) -> Cfg {
        let mut c = Cfg::base();
        if r.chance(1, 3) {
            c.ae = Self::rand_ae(r);
        }
        c.prom = r.chance(1, 3);
        for _ in 0..r.below(4) {
            c.abs.push(self.rand_as(r));
        }
        if c.abs.is_empty() && !c.prom && r.chance(9, 10) {
            c.abs.push(A_VERIF.into());
        }
        if r.chance(1, 2) {
            for _ in 0..r.range(1, 4) {
                c.ts.push(self.rand_ts(r));
            }
        }
        c.neg = r.below(3) as u8;
        c.ac = match r.below(16) {
            0 | 1 => Ac::Called,
            2 => Ac::Calling("VERIF-SCU".into()),
            3 => Ac::Ident,
            _ => Ac::Any,
        };
        c.maxpdu = match r.below(40) {
            0 => MINIMUM_PDU_SIZE,
            1 => MINIMUM_PDU_SIZE - 1,
            2 => 0,
            3 => u32::MAX,
            4 => MAXIMUM_PDU_SIZE,
            5 => r.edgy(32) as u32,
            6 | 7 | 8 => r.range(MINIMUM_PDU_SIZE as u64, 3000) as u32,
            _ => r.range(4096, 70000) as u32,
        };
        c.strict = !r.chance(1, 4);
        c
    }

    fn random(&self, r: &mut Rng) -> (Cfg, Pdu, bool) {
        let c = self.random_cfg(r);
        // a first PDU that is not an association request
        if r.chance(1, 25) {
            let p = match r.below(7) {
                0 => Pdu::ReleaseRQ,
                1 => Pdu::ReleaseRP,
                2 => Pdu::AbortRQ { source: AbortRQSource::ServiceUser },
                3 => Pdu::PData { data: vec![PDataValue { presentation_context_id: 1, value_type: PDataValueType::Command, is_last: true, data: r.bytes(8) }] },
                4 => Pdu::AssociationRJ(AssociationRJ { result: AssociationRJResult::Permanent, source: AssociationRJSource::ServiceUser(AssociationRJServiceUserReason::NoReasonGiven) }),
                5 => Pdu::Unknown { pdu_type: *r.pick(&[0u8, 8, 9, 0x10, 0xff]), data: r.bytes(4) },
                _ => Pdu::AssociationAC(AssociationAC {
                    protocol_version: 1,
                    calling_ae_title: "A".into(),
                    called_ae_title: "B".into(),
                    application_context_name: APP_CTX.into(),
                    presentation_contexts: vec![],
                    user_variables: vec![],
                }),
            };
            return (c, p, true);
        }
        let n = match r.below(20) {
            0 => 0,
            1 => r.usize(13, 40),
            2 => r.usize(120, 135),
            _ => r.usize(1, 12),
        };
        let mut pcs = vec![];
        for j in 0..n {
            let id = match r.below(6) {
                0 => r.below(256) as u8,
                1 => 1,
                _ => (2 * j + 1) as u8,
            };
            let mut tss = vec![];
            for _ in 0..(if r.chance(1, 12) { 0 } else { r.range(1, 5) }) {
                tss.push(self.rand_ts(r));
            }
            pcs.push(PresentationContextProposed { id, abstract_syntax: self.rand_as(r), transfer_syntaxes: tss });
        }
        let mut uvs = vec![];
        let order = r.below(4);
        if order != 0 {
            uvs.extend(maxlen_variant(r.below(MAXLENS as u64) as usize));
        }
        for _ in 0..r.below(3) {
            let n = r.usize(0, 6);
            uvs.push(UserVariableItem::SopClassExtendedNegotiationSubItem(self.rand_as(r).trim_end_matches(['\0', ' ']).to_string(), r.bytes(n)));
        }
        for _ in 0..r.below(3) {
            uvs.push(UserVariableItem::ScuScpRoleSelectionSubItem(
                self.rand_as(r).trim_end_matches(['\0', ' ']).to_string(),
                RequestorRoles { scu: r.chance(1, 2), scp: r.chance(1, 2) },
            ));
        }
        if r.chance(1, 3) {
            let who: &[u8] = if r.chance(2, 3) { b"alice" } else { b"mallory" };
            uvs.push(UserVariableItem::UserIdentityItem(UserIdentity::new(r.chance(1, 2), UserIdentityType::UsernamePassword, who.to_vec(), b"secret".to_vec())));
        }
        if r.chance(1, 8) {
            let n = r.usize(0, 5);
            uvs.push(UserVariableItem::Unknown(*r.pick(&[0x57u8, 0x60, 0x7f]), r.bytes(n)));
        }
        if r.chance(1, 6) {
            uvs.push(UserVariableItem::MaxLength(r.edgy(32) as u32));
        }
        let rq = AssociationRQ {
            protocol_version: if r.chance(1, 15) { *r.pick(&PVS) } else { 1 },
            calling_ae_title: if r.chance(1, 4) { Self::rand_ae(r) } else { "VERIF-SCU".into() },
            called_ae_title: if r.chance(1, 4) { Self::rand_ae(r) } else { c.ae.clone() },
            application_context_name: if r.chance(1, 15) { r.pick(&APPS).to_string() } else { APP_CTX.into() },
            presentation_contexts: pcs,
            user_variables: uvs,
        };
        (c, Pdu::AssociationRQ(rq), true)
    }
}

pub const PVS: [u16; 5] = [1, 0, 2, 3, 0xffff];
pub const APPS: [&str; 3] = [APP_CTX, "1.2.840.10008.3.1.1.2", "1.2.840.10008.3.1.1.1\0"];
pub const MAXLENS: usize = 10;
/// user variables with the Maximum Length item absent / 0 / boundary values / repeated
pub fn maxlen_variant(k: usize) -> Vec<UserVariableItem> {
    match k {
        0 => default_uvs(None),
        1 => default_uvs(Some(0)),
        2 => default_uvs(Some(1)),
        3 => default_uvs(Some(MINIMUM_PDU_SIZE)),
        4 => default_uvs(Some(DEFAULT_MAX_PDU)),
        5 => default_uvs(Some(MAXIMUM_PDU_SIZE)),
        6 => default_uvs(Some(MAXIMUM_PDU_SIZE + 1)),
        7 => default_uvs(Some(u32::MAX)),
        8 => {
            let mut v = default_uvs(Some(5000));
            v.push(UserVariableItem::MaxLength(0));
            v
        }
        _ => {
            let mut v = default_uvs(Some(0));
            v.push(UserVariableItem::MaxLength(7000));
            v
        }
    }
}
