//! C28 — the association acceptor negotiates presentation contexts by the rules.
//!
//! Every case drives the real `ServerAssociationOptions`: over loopback TCP
//! (`establish` in one thread, hand-written PDUs through the public `write_pdu`/`read_pdu` in the
//! other) and, when the cfg-gated hook is present, `process_a_association_rq` in-process.
//! First line: the real transfer syntax registry's supported set and the implementation
//! identification constants. Then one line per case: configuration, the first PDU as the
//! acceptor's decoder delivers it, the PDU it answered, and the acceptor's resulting state.
mod wire;
mod gen;
mod srv;
use dicom_ul::pdu::*;
use gen::*;
use std::net::{TcpListener, TcpStream};
use std::sync::Arc;
use std::time::Duration;
use verif_harness::util::*;
use srv::*;
use wire::*;

type Obs = (String, String); // (reply tokens, acceptor state tokens)

/// one acceptor thread per worker: receives a configuration, accepts one connection, establishes
pub struct Acceptor {
    port: u16,
    jobs: std::sync::mpsc::Sender<Cfg>,
    results: std::sync::mpsc::Receiver<String>,
}
impl Acceptor {
    pub fn new() -> Acceptor {
        let listener = TcpListener::bind("0.0.0.0:0").unwrap();
        let port = listener.local_addr().unwrap().port();
        let (jtx, jrx) = std::sync::mpsc::channel::<Cfg>();
        let (rtx, rrx) = std::sync::mpsc::channel::<String>();
        std::thread::spawn(move || {
            for cc in jrx {
                let (s, _) = listener.accept().unwrap();
                let r = catch(std::panic::AssertUnwindSafe(|| serve(&cc, s))).unwrap_or_else(|_| "panic".into());
                if rtx.send(r).is_err() {
                    break;
                }
            }
        });
        Acceptor { port, jobs: jtx, results: rrx }
    }
}

fn loopback(acc: &Acceptor, c: &Cfg, first: &Pdu, k: u64) -> Obs {
    acc.jobs.send(c.clone()).unwrap();
    // spread the connections over 127.0.0.0/8 so that closed connections never collide
    let ip = std::net::Ipv4Addr::new(127, 0, (k / 250 % 250) as u8, (k % 250 + 1) as u8);
    let mut sock = TcpStream::connect((ip, acc.port)).unwrap();
    sock.set_read_timeout(Some(Duration::from_secs(60))).unwrap();
    let _ = sock.set_nodelay(true);
    let sent = write_one(&mut sock, first);
    let mut buf = Vec::new();
    let reply = if !sent {
        "unsent".to_string()
    } else {
        match read_one(&mut sock, &mut buf) {
            Ok(Some(p)) => pdu_tok(&p),
            Ok(None) => "none".into(),
            Err(e) => e.into(),
        }
    };
    let srv = acc.results.recv().unwrap_or_else(|_| "panic".into());
    (reply, srv)
}

fn registry_line() -> String {
    use dicom_transfer_syntax_registry::TransferSyntaxRegistry;
    let mut sup: Vec<String> = TransferSyntaxRegistry.iter().filter(|t| !t.is_unsupported()).map(|t| t.uid().to_string()).collect();
    sup.sort();
    let mut s = format!(
        "#reg reg {} {} {}",
        hexs(dicom_ul::IMPLEMENTATION_CLASS_UID),
        hexs(dicom_ul::IMPLEMENTATION_VERSION_NAME),
        sup.len()
    );
    for u in &sup {
        s.push(' ');
        s.push_str(&hexs(u));
    }
    s
}

fn run_case(uni: &Universe, acc: &Acceptor, seed: u64, i: u64, force_tcp: bool) -> String {
    let (c, first, _want_inproc) = uni.case(seed, i);
    // what the acceptor's decoder delivers (the wire codec is C25's business, not this property's)
    let Some((seen, wire_len)) = through_codec(&first) else {
        return format!("#{} skip unencodable", i);
    };
    // the bulk goes in-process through the hook; every 8th exhaustive case and every other random
    // case travels over loopback TCP through the real `establish`
    let exhaustive = i < uni.exhaustive_total();
    let tcp = force_tcp || if exhaustive { i % 8 == 0 } else { i % 2 == 0 };
    let (mode, shown, (reply, srv)) = if tcp {
        ("tcp", seen, loopback(acc, &c, &first, i))
    } else {
        let r = catch(std::panic::AssertUnwindSafe(|| process_cfg(&c, first.clone()))).unwrap_or_else(|_| ("panic".into(), "panic".into()));
        ("hook", first.clone(), r)
    };
    format!("#{} case {} {} {} | {} | {} | {}", i, mode, wire_len - 6, cfg_tok(&c), pdu_tok(&shown), reply, srv)
}

fn main() {
    let a = parse_args();
    quiet_panics();
    let mut out = Out::new();
    out.line(&registry_line());
    let uni = Arc::new(Universe::new(a.thorough));
    // `--from N` (manual runs): start at case N instead of 0
    let from: u64 = a.extra.iter().position(|x| x == "--from").and_then(|k| a.extra.get(k + 1)).and_then(|x| x.parse().ok()).unwrap_or(0);
    let idx: Vec<u64> = case_indices(&a).map(|i| if a.only.is_some() { i } else { i + from }).collect();
    let idx = Arc::new(idx);
    let next = Arc::new(std::sync::atomic::AtomicUsize::new(0));
    let (tx, rx) = std::sync::mpsc::sync_channel::<(usize, String)>(4096);
    let workers = if idx.len() < 8 { 1 } else { 8 };
    let force_tcp = a.extra.iter().any(|x| x == "--tcp");
    for _ in 0..workers {
        let (uni, idx, next, tx, seed) = (uni.clone(), idx.clone(), next.clone(), tx.clone(), a.seed);
        std::thread::spawn(move || {
            let acc = Acceptor::new();
            loop {
                let k = next.fetch_add(1, std::sync::atomic::Ordering::SeqCst);
                if k >= idx.len() {
                    break;
                }
                let line = run_case(&uni, &acc, seed, idx[k], force_tcp);
                if tx.send((k, line)).is_err() {
                    break;
                }
            }
        });
    }
    drop(tx);
    // print in case order
    let mut pending = std::collections::BTreeMap::new();
    let mut want = 0usize;
    for (k, line) in rx {
        pending.insert(k, line);
        while let Some(l) = pending.remove(&want) {
            out.line(&l);
            want += 1;
        }
    }
}
