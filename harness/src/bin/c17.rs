//! C17 — person names: `PersonName::to_dicom_string` / `from_text` on the real `dicom_core` type.
//!
//! Lines:
//!   `rt <family> <given> <middle> <prefix> <suffix> <text> <pf> <pg> <pm> <pp> <ps>`
//!       name built with the builder from the five components (`none` | `some:<hex>`), the text
//!       written by `to_dicom_string`, and the components of `from_text(text)`
//!   `txt <text> <pf> <pg> <pm> <pp> <ps>`   arbitrary text parsed by `from_text`
use dicom_core::value::person_name::{PersonName, PersonNameBuilder};
use verif_harness::util::*;

const PLAIN: &[&str] = &[
    "A", "B", "d", "e", "n", "o", "s", "z", "M", "J", "r", ".", "-", "'", ",", "0", "9",
];
const INNER: &[&str] = &[" ", "  ", "é", "ü", "山", "田", "Ω", "\u{1F600}", "\u{00A0}x", "=", "\\"];
const WS: &[&str] = &[" ", "\t", "\n", "\r", "\u{000B}", "\u{000C}", "\u{0085}", "\u{00A0}", "\u{1680}", "\u{2003}", "\u{2028}", "\u{202F}", "\u{205F}", "\u{3000}", "  "];
// not white space for `char::is_whitespace`, although they look like it
const NOT_WS: &[&str] = &["\u{200B}", "\u{FEFF}", "\u{001F}", "\u{0000}", "\u{180E}"];

fn gen_comp(r: &mut Rng) -> String {
    let n = match r.below(8) {
        0 => 1,
        1 => 2,
        _ => r.usize(1, 10),
    };
    let mut parts: Vec<&str> = Vec::new();
    for k in 0..n {
        let inner = k > 0 && k + 1 < n;
        if inner && r.chance(1, 5) {
            parts.push(*r.pick(INNER));
        } else {
            parts.push(*r.pick(PLAIN));
        }
    }
    let mut s: String = parts.concat();
    match r.below(40) {
        0 => s = String::new(),
        1 => s.insert_str(0, *r.pick(WS)),
        2 => s.push_str(*r.pick(WS)),
        3 => {
            // separator inside / at an end
            let cs: Vec<char> = s.chars().collect();
            let k = r.usize(0, cs.len());
            let mut t: String = cs[..k].iter().collect();
            t.push('^');
            t.extend(cs[k..].iter());
            s = t
        }
        4 => s.insert_str(0, *r.pick(NOT_WS)),
        5 => s.push_str(*r.pick(NOT_WS)),
        6 => s = r.pick(WS).to_string(),
        7 => s.push('='),
        _ => {}
    }
    s
}

fn show(c: Option<&str>) -> String {
    match c {
        None => "none".into(),
        Some(s) => format!("some:{}", hexs(s)),
    }
}

fn parsed(p: &PersonName) -> String {
    format!(
        "{} {} {} {} {}",
        show(p.family()),
        show(p.given()),
        show(p.middle()),
        show(p.prefix()),
        show(p.suffix())
    )
}

fn gen_text(r: &mut Rng) -> String {
    let nparts = match r.below(6) {
        0 => 0,
        1 => r.usize(6, 9),
        _ => r.usize(1, 5),
    };
    let mut t = String::new();
    for k in 0..nparts {
        if k > 0 {
            t.push('^');
        }
        if !r.chance(1, 3) {
            t.push_str(&gen_comp(r));
        }
    }
    match r.below(8) {
        0 => t.insert_str(0, *r.pick(WS)),
        1 => t.push_str(*r.pick(WS)),
        2 => {
            t.insert_str(0, *r.pick(WS));
            t.push_str(*r.pick(WS))
        }
        3 => t.push('^'),
        4 => t = format!("{t}={}", gen_comp(r)),
        _ => {}
    }
    t
}

fn main() {
    let a = parse_args();
    quiet_panics();
    let mut out = Out::new();
    for i in case_indices(&a) {
        let mut r = Rng::for_case(a.seed, i);
        let line = if r.chance(1, 5) {
            let t = gen_text(&mut r);
            let p = PersonName::from_text(&t);
            format!("txt {} {}", hexs(&t), parsed(&p))
        } else {
            // the presence pattern cycles through all 32 combinations
            let pat = (i % 32) as u8;
            let comps: Vec<Option<String>> =
                (0..5).map(|k| if pat >> k & 1 == 1 { Some(gen_comp(&mut r)) } else { None }).collect();
            let mut b = PersonNameBuilder::new();
            if let Some(s) = &comps[0] {
                b.with_family(s.clone());
            }
            if let Some(s) = &comps[1] {
                b.with_given(s.clone());
            }
            if let Some(s) = &comps[2] {
                b.with_middle(s.clone());
            }
            if let Some(s) = &comps[3] {
                b.with_prefix(s.clone());
            }
            if let Some(s) = &comps[4] {
                b.with_suffix(s.clone());
            }
            let p = b.build();
            let text = p.to_dicom_string();
            let q = PersonName::from_text(&text);
            let cs: Vec<String> = comps.iter().map(|c| show(c.as_deref())).collect();
            format!("rt {} {} {}", cs.join(" "), hexs(&text), parsed(&q))
        };
        out.line(&format!("#{} {}", i, line));
    }
}
