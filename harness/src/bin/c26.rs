//! C26 — P-DATA fragmentation and reassembly under any schedule.
//!
//! Drives the real `PDataWriter` (over a scripted `Write`), `AsyncPDataWriter` (over a scripted
//! `AsyncWrite`: partial writes, Pending, errors) and `PDataReader` (sync `read` and async
//! `poll_read` over a segmented source with the shared `read_buffer`).
//!
//! Case lines (after `#<index>`):
//!   sw  <max> <ctx> <chunks> <tscript>            | <status> <emitted>
//!   aw  <max> <ctx> <chunks> <script>             | <status> <emitted> <events-used> <sync-status> <sync-emitted>
//!   rd  <max> <rb0> <segs> <receives> <kspec>     | (<status> <data>){receives} <rb-left> <segs-used>
//!   rda … same, through `AsyncRead` (segments may be `p` = the source answers Pending once)
//! lists are comma-joined (`.` = empty list, `-` = empty byte string);
//! script entries: `r<n>` partial write of at most n bytes, `p` Pending, `e` error.
use bytes::BytesMut;
use dicom_ul::association::{AsyncPDataWriter, PDataReader, PDataWriter};
use std::cell::{Cell, RefCell};
use std::collections::VecDeque;
use std::io::{Read, Write};
use std::pin::Pin;
use std::rc::Rc;
use std::task::{Context, Poll};
use tokio::io::{AsyncReadExt, AsyncWriteExt};
use verif_harness::util::*;

const MINIMUM: u32 = dicom_ul::pdu::MINIMUM_PDU_SIZE;
const MAXIMUM: u32 = dicom_ul::pdu::MAXIMUM_PDU_SIZE;

#[derive(Clone, Copy, Debug, PartialEq)]
enum Ev {
    Ready(usize),
    Pending,
    Err,
}

#[derive(Clone, Debug)]
enum Seg {
    Data(Vec<u8>),
    Pending,
}

#[derive(Clone, Debug)]
enum KSpec {
    ToEnd,
    Const(usize),
}

#[derive(Clone, Debug)]
enum Spec {
    Sync { max: u32, ctx: u8, chunks: Vec<Vec<u8>>, tscript: Vec<usize> },
    Async { max: u32, ctx: u8, chunks: Vec<Vec<u8>>, script: Vec<Ev> },
    Read { max: u32, rb0: Vec<u8>, segs: Vec<Seg>, receives: usize, ks: KSpec, is_async: bool },
}

// ---------------------------------------------------------------- transports

struct SyncT {
    out: Rc<RefCell<Vec<u8>>>,
    script: VecDeque<usize>,
}
impl Write for SyncT {
    fn write(&mut self, buf: &[u8]) -> std::io::Result<usize> {
        let n = match self.script.pop_front() {
            Some(n) => n.min(buf.len()),
            None => buf.len(),
        };
        self.out.borrow_mut().extend_from_slice(&buf[..n]);
        Ok(n)
    }
    fn flush(&mut self) -> std::io::Result<()> {
        Ok(())
    }
}

struct AsyncT {
    out: Rc<RefCell<Vec<u8>>>,
    script: VecDeque<Ev>,
    used: Rc<Cell<usize>>,
}
impl tokio::io::AsyncWrite for AsyncT {
    fn poll_write(mut self: Pin<&mut Self>, cx: &mut Context<'_>, buf: &[u8]) -> Poll<std::io::Result<usize>> {
        match self.script.pop_front() {
            Some(Ev::Ready(n)) => {
                self.used.set(self.used.get() + 1);
                let n = n.min(buf.len());
                self.out.borrow_mut().extend_from_slice(&buf[..n]);
                Poll::Ready(Ok(n))
            }
            Some(Ev::Pending) => {
                self.used.set(self.used.get() + 1);
                cx.waker().wake_by_ref();
                Poll::Pending
            }
            Some(Ev::Err) => {
                self.used.set(self.used.get() + 1);
                Poll::Ready(Err(std::io::Error::new(std::io::ErrorKind::ConnectionReset, "scripted")))
            }
            None => {
                self.out.borrow_mut().extend_from_slice(buf);
                Poll::Ready(Ok(buf.len()))
            }
        }
    }
    fn poll_flush(self: Pin<&mut Self>, _cx: &mut Context<'_>) -> Poll<std::io::Result<()>> {
        Poll::Ready(Ok(()))
    }
    fn poll_shutdown(self: Pin<&mut Self>, _cx: &mut Context<'_>) -> Poll<std::io::Result<()>> {
        Poll::Ready(Ok(()))
    }
}

/// segmented source: one segment per `read` (the reader's BufReader asks for 8 KiB; segments are shorter)
struct Src {
    segs: VecDeque<Seg>,
    used: Rc<Cell<usize>>,
}
impl Read for Src {
    fn read(&mut self, buf: &mut [u8]) -> std::io::Result<usize> {
        loop {
            match self.segs.pop_front() {
                None => return Ok(0),
                Some(Seg::Pending) => continue,
                Some(Seg::Data(s)) => {
                    assert!(s.len() <= buf.len(), "segment longer than the reader's fill buffer");
                    self.used.set(self.used.get() + 1);
                    buf[..s.len()].copy_from_slice(&s);
                    return Ok(s.len());
                }
            }
        }
    }
}
impl tokio::io::AsyncRead for Src {
    fn poll_read(mut self: Pin<&mut Self>, cx: &mut Context<'_>, buf: &mut tokio::io::ReadBuf<'_>) -> Poll<std::io::Result<()>> {
        match self.segs.pop_front() {
            None => Poll::Ready(Ok(())),
            Some(Seg::Pending) => {
                cx.waker().wake_by_ref();
                Poll::Pending
            }
            Some(Seg::Data(s)) => {
                assert!(s.len() <= buf.remaining(), "segment longer than the reader's fill buffer");
                self.used.set(self.used.get() + 1);
                buf.put_slice(&s);
                Poll::Ready(Ok(()))
            }
        }
    }
}

fn err_class(e: &std::io::Error) -> &'static str {
    match e.kind() {
        std::io::ErrorKind::WriteZero => "err:writezero",
        std::io::ErrorKind::BrokenPipe => "err:brokenpipe",
        _ => "err:io",
    }
}

// ---------------------------------------------------------------- running the real code

fn run_sync(max: u32, ctx: u8, chunks: &[Vec<u8>], tscript: &[usize]) -> (String, Vec<u8>) {
    let out = Rc::new(RefCell::new(Vec::new()));
    let t = SyncT { out: out.clone(), script: tscript.iter().copied().collect() };
    let r = catch(std::panic::AssertUnwindSafe(|| {
        let mut w = PDataWriter::new_for_verif(t, ctx, max);
        for c in chunks {
            if let Err(e) = w.write_all(c) {
                // the writer is dropped here: Drop sends what is buffered
                return err_class(&e);
            }
        }
        match w.finish() {
            Ok(()) => "ok",
            Err(e) => err_class(&e),
        }
    }));
    let status = match r {
        Ok(s) => s.to_string(),
        Err(_) => "panic".to_string(),
    };
    let bytes = out.borrow().clone();
    (status, bytes)
}

fn run_async(rt: &tokio::runtime::Runtime, max: u32, ctx: u8, chunks: &[Vec<u8>], script: &[Ev]) -> (String, Vec<u8>, usize) {
    let out = Rc::new(RefCell::new(Vec::new()));
    let used = Rc::new(Cell::new(0usize));
    let t = AsyncT { out: out.clone(), script: script.iter().copied().collect(), used: used.clone() };
    let status = rt.block_on(async {
        let mut w = AsyncPDataWriter::new_for_verif(t, ctx, max);
        for c in chunks {
            if let Err(e) = w.write_all(c).await {
                // dropped here: Drop blocks on finish_impl
                return err_class(&e);
            }
        }
        match w.finish().await {
            Ok(()) => "ok",
            Err(e) => err_class(&e),
        }
    });
    let bytes = out.borrow().clone();
    (status.to_string(), bytes, used.get())
}

fn run_read(rt: &tokio::runtime::Runtime, max: u32, rb0: &[u8], segs: &[Seg], receives: usize, ks: &KSpec, is_async: bool) -> String {
    let used = Rc::new(Cell::new(0usize));
    let mut src = Src { segs: segs.iter().cloned().collect(), used: used.clone() };
    let mut rb = BytesMut::from(rb0);
    let mut s = String::new();
    for _ in 0..receives {
        let mut data = Vec::new();
        let status;
        if is_async {
            status = rt.block_on(async {
                let mut reader = PDataReader::new(&mut src, max, &mut rb);
                match ks {
                    KSpec::ToEnd => match AsyncReadExt::read_to_end(&mut reader, &mut data).await {
                        Ok(_) => "eof",
                        Err(_) => "err",
                    },
                    KSpec::Const(k) => {
                        let mut buf = vec![0u8; *k];
                        loop {
                            match AsyncReadExt::read(&mut reader, &mut buf).await {
                                Ok(0) => break "eof",
                                Ok(n) => data.extend_from_slice(&buf[..n]),
                                Err(_) => break "err",
                            }
                        }
                    }
                }
            });
        } else {
            let mut reader = PDataReader::new(&mut src, max, &mut rb);
            status = match ks {
                KSpec::ToEnd => match Read::read_to_end(&mut reader, &mut data) {
                    Ok(_) => "eof",
                    Err(_) => "err",
                },
                KSpec::Const(k) => {
                    let mut buf = vec![0u8; *k];
                    loop {
                        match Read::read(&mut reader, &mut buf) {
                            Ok(0) => break "eof",
                            Ok(n) => data.extend_from_slice(&buf[..n]),
                            Err(_) => break "err",
                        }
                    }
                }
            };
        }
        s.push_str(&format!("{} {} ", status, hex(&data)));
    }
    s.push_str(&format!("{} {}", hex(&rb[..]), used.get()));
    s
}

// ---------------------------------------------------------------- printing

fn list<T>(xs: &[T], f: impl Fn(&T) -> String) -> String {
    if xs.is_empty() {
        ".".to_string()
    } else {
        xs.iter().map(f).collect::<Vec<_>>().join(",")
    }
}
fn ev_s(e: &Ev) -> String {
    match e {
        Ev::Ready(n) => format!("r{}", n),
        Ev::Pending => "p".into(),
        Ev::Err => "e".into(),
    }
}
fn seg_s(s: &Seg) -> String {
    match s {
        Seg::Data(d) => hex(d),
        Seg::Pending => "p".into(),
    }
}

fn run_spec(rt: &tokio::runtime::Runtime, sp: &Spec) -> String {
    match sp {
        Spec::Sync { max, ctx, chunks, tscript } => {
            let (st, bytes) = run_sync(*max, *ctx, chunks, tscript);
            format!("sw {} {} {} {} {} {}", max, ctx, list(chunks, |c| hex(c)), list(tscript, |n| n.to_string()), st, hex(&bytes))
        }
        Spec::Async { max, ctx, chunks, script } => {
            let (st, bytes, used) = run_async(rt, *max, *ctx, chunks, script);
            let (sst, sbytes) = run_sync(*max, *ctx, chunks, &[]);
            format!(
                "aw {} {} {} {} {} {} {} {} {}",
                max, ctx, list(chunks, |c| hex(c)), list(script, ev_s), st, hex(&bytes), used, sst, hex(&sbytes)
            )
        }
        Spec::Read { max, rb0, segs, receives, ks, is_async } => {
            let res = run_read(rt, *max, rb0, segs, *receives, ks, *is_async);
            let k = match ks {
                KSpec::ToEnd => "e".to_string(),
                KSpec::Const(k) => format!("k{}", k),
            };
            format!("{} {} {} {} {} {} {}", if *is_async { "rda" } else { "rd" }, max, hex(rb0), list(segs, seg_s), receives, k, res)
        }
    }
}

// ---------------------------------------------------------------- generators

fn pattern(n: usize, salt: usize) -> Vec<u8> {
    (0..n).map(|i| ((i * 7 + 3 + salt * 31) & 0xff) as u8).collect()
}

/// composition of `payload` given by the cut mask (bit j-1 set = cut after byte j)
fn compose(payload: &[u8], mask: u64) -> Vec<Vec<u8>> {
    let mut chunks = Vec::new();
    let mut cur = Vec::new();
    for (j, b) in payload.iter().enumerate() {
        cur.push(*b);
        if j + 1 < payload.len() && (mask >> j) & 1 == 1 {
            chunks.push(std::mem::take(&mut cur));
        }
    }
    if !cur.is_empty() {
        chunks.push(cur);
    }
    chunks
}

fn cut_at(payload: &[u8], cuts: &[usize]) -> Vec<Vec<u8>> {
    let mut chunks = Vec::new();
    let mut prev = 0;
    for &c in cuts {
        if c > prev && c < payload.len() {
            chunks.push(payload[prev..c].to_vec());
            prev = c;
        }
    }
    if prev < payload.len() {
        chunks.push(payload[prev..].to_vec());
    }
    chunks
}

/// all scripts over `alphabet` of length ≤ n
fn all_scripts(alphabet: &[Ev], n: usize) -> Vec<Vec<Ev>> {
    let mut res = vec![vec![]];
    let mut layer = vec![vec![]];
    for _ in 0..n {
        let mut next = Vec::new();
        for s in &layer {
            for e in alphabet {
                let mut t: Vec<Ev> = s.clone();
                t.push(*e);
                next.push(t);
            }
        }
        res.extend(next.iter().cloned());
        layer = next;
    }
    res
}

/// independent encoder of one P-DATA-TF PDU with the given values (ctx, control, data)
fn enc_pdu(values: &[(u8, u8, Vec<u8>)]) -> Vec<u8> {
    let mut body = Vec::new();
    for (ctx, ctrl, data) in values {
        body.extend_from_slice(&((data.len() as u32 + 2).to_be_bytes()));
        body.push(*ctx);
        body.push(*ctrl);
        body.extend_from_slice(data);
    }
    let mut v = vec![0x04, 0x00];
    v.extend_from_slice(&(body.len() as u32).to_be_bytes());
    v.extend(body);
    v
}

/// a message as the writer fragments it: blocks of `d` data bytes, the final block marked last
fn enc_message(payload: &[u8], d: usize, ctx: u8) -> Vec<u8> {
    let mut v = Vec::new();
    if payload.is_empty() {
        return enc_pdu(&[(ctx, 2, vec![])]);
    }
    let blocks: Vec<&[u8]> = payload.chunks(d).collect();
    for (i, b) in blocks.iter().enumerate() {
        v.extend(enc_pdu(&[(ctx, if i + 1 == blocks.len() { 2 } else { 0 }, b.to_vec())]));
    }
    v
}

fn split_segments(stream: &[u8], cuts: &[usize]) -> Vec<Seg> {
    cut_at(stream, cuts).into_iter().map(Seg::Data).collect()
}

fn enumerated(thorough: bool) -> Vec<Spec> {
    let mut v = Vec::new();
    // A. sync writer, tiny maximum lengths: every payload length, every chunking
    let (amax, alen) = if thorough { (11u32, 11usize) } else { (9u32, 7usize) };
    for max in 7..=amax {
        for l in 0..=alen {
            let p = pattern(l, max as usize);
            let n_masks = if l <= 1 { 1 } else { 1u64 << (l - 1) };
            for m in 0..n_masks {
                v.push(Spec::Sync { max, ctx: 1 + 2 * (l as u8), chunks: compose(&p, m), tscript: vec![] });
            }
        }
    }
    // chunk lists with empty chunks, and transports that take a few bytes at a time
    for max in [7u32, 8] {
        for l in 0..=4usize {
            let p = pattern(l, 5);
            for m in 0..(if l <= 1 { 1 } else { 1u64 << (l - 1) }) {
                let mut chunks = compose(&p, m);
                chunks.insert(0, vec![]);
                chunks.push(vec![]);
                v.push(Spec::Sync { max, ctx: 3, chunks: chunks.clone(), tscript: vec![1, 2, 3, 1, 1, 5] });
            }
        }
    }
    // B. sync writer at and next to the minimum maximum length: cuts around the block boundaries
    for max in [MINIMUM, MINIMUM + 1] {
        let d = (max - 6) as usize;
        let lens: Vec<usize> = if thorough {
            vec![d - 1, d, d + 1, 2 * d - 1, 2 * d, 2 * d + 1, 3 * d]
        } else {
            vec![d, d + 1, 2 * d, 2 * d + 1]
        };
        for l in lens {
            let p = pattern(l, 11);
            let cand: Vec<usize> = [1, d - 1, d, d + 1, 2 * d - 1, 2 * d, 2 * d + 1].iter().copied().filter(|c| *c < l).collect();
            let cand = if thorough || max == MINIMUM { cand } else { cand.into_iter().filter(|c| c % d == 0).collect() };
            for m in 0..(1u64 << cand.len()) {
                let cuts: Vec<usize> = cand.iter().enumerate().filter(|(j, _)| (m >> j) & 1 == 1).map(|(_, c)| *c).collect();
                v.push(Spec::Sync { max, ctx: 201, chunks: cut_at(&p, &cuts), tscript: if m % 3 == 0 { vec![500, 1, 600] } else { vec![] } });
            }
        }
    }
    // C. async writer, tiny maximum lengths: every chunking x every transport script up to a bound
    let alphabet = [Ev::Ready(1), Ev::Ready(2), Ev::Ready(64), Ev::Pending];
    let scripts = all_scripts(&alphabet, if thorough { 5 } else { 3 });
    for max in [7u32, 8] {
        for l in 0..=(if thorough { 5usize } else { 4 }) {
            let p = pattern(l, 2 * max as usize);
            for m in 0..(if l <= 1 { 1 } else { 1u64 << (l - 1) }) {
                for s in &scripts {
                    v.push(Spec::Async { max, ctx: 5, chunks: compose(&p, m), script: s.clone() });
                }
            }
        }
    }
    // scripts with failures (outside the theorems' hypotheses; model comparison only)
    let faulty = all_scripts(&[Ev::Ready(1), Ev::Ready(0), Ev::Pending, Ev::Err], 3);
    for s in &faulty {
        if s.iter().any(|e| matches!(e, Ev::Err | Ev::Ready(0))) {
            for chunks in [vec![pattern(3, 1)], vec![pattern(1, 1), pattern(2, 2)], vec![]] {
                v.push(Spec::Async { max: 7, ctx: 9, chunks, script: s.clone() });
            }
        }
    }
    // D. reader: messages as the writer emits them, followed by what comes next; every single cut,
    // byte-by-byte delivery, one piece; leftovers of a previous receive in the shared buffer
    let rests: Vec<Vec<u8>> = vec![
        vec![],
        vec![0x04],
        vec![0x04, 0x00, 0x00, 0x00, 0x00, 0x09, 0x00],
        enc_message(&pattern(3, 9), 2, 7),
    ];
    for l in 0..=(if thorough { 6usize } else { 4 }) {
        for d in 1..=3usize {
            if l > 0 && d > l {
                continue;
            }
            for (ri, rest) in rests.iter().enumerate() {
                let p = pattern(l, d + ri);
                let mut stream = enc_message(&p, d, 33);
                let mlen = stream.len();
                stream.extend_from_slice(rest);
                let receives = if ri == 3 { 2 } else { 1 };
                let kss = [KSpec::ToEnd, KSpec::Const(1), KSpec::Const(2)];
                let mut n = 0usize;
                let mut push = |rb0: Vec<u8>, segs: Vec<Seg>, v: &mut Vec<Spec>| {
                    n += 1;
                    v.push(Spec::Read { max: MINIMUM + (n as u32 % 2) * 7, rb0, segs, receives, ks: kss[n % 3].clone(), is_async: false });
                };
                push(vec![], vec![Seg::Data(stream.clone())], &mut v);
                push(stream.clone(), vec![], &mut v);
                push(vec![], stream.iter().map(|b| Seg::Data(vec![*b])).collect(), &mut v);
                for c in 1..stream.len() {
                    if !thorough && c > mlen + 2 && c + 2 < stream.len() {
                        continue;
                    }
                    push(vec![], split_segments(&stream, &[c]), &mut v);
                    push(stream[..c].to_vec(), vec![Seg::Data(stream[c..].to_vec())], &mut v);
                    if thorough {
                        for c2 in (c + 1)..stream.len() {
                            push(vec![], split_segments(&stream, &[c, c2]), &mut v);
                        }
                    }
                }
            }
        }
    }
    v
}

fn gen_max(r: &mut Rng) -> u32 {
    match r.below(10) {
        0..=2 => r.range(7, 40) as u32,
        3..=5 => r.range(MINIMUM as u64, MINIMUM as u64 + 40) as u32,
        6 => 16378,
        // around 2^16: the PDU length and the PDV item length no longer fit 16 bits
        7 if r.chance(1, 3) => r.range(65530, 65545) as u32,
        7 => r.range(2000, 9000) as u32,
        _ => r.range(7, 2000) as u32,
    }
}

fn gen_chunks(r: &mut Rng, max: u32) -> Vec<Vec<u8>> {
    let d = (max.max(7) - 6) as usize;
    let big = max >= 60000 && max <= 70000;
    let d_eff = if big { d } else { d.min(3000) };
    let total = match r.below(8) {
        _ if big => *r.pick(&[d, d + 1, d - 1, d - 2, d + 7, 2 * d, 2 * d + 1]),
        0 => 0,
        1 => d_eff,
        2 => d_eff + 1,
        3 => 2 * d_eff,
        4 => d_eff.saturating_sub(1),
        _ => r.usize(0, 3 * d_eff + 2),
    };
    let payload = r.bytes(total);
    let mut cuts: Vec<usize> = Vec::new();
    let n_cuts = r.usize(0, 6);
    for _ in 0..n_cuts {
        let c = match r.below(4) {
            0 => d_eff * r.usize(1, 3),
            1 => d_eff * r.usize(1, 3) + 1,
            2 => (d_eff * r.usize(1, 3)).saturating_sub(1),
            _ => r.usize(0, total.max(1)),
        };
        cuts.push(c);
    }
    cuts.sort();
    cuts.dedup();
    let mut chunks = cut_at(&payload, &cuts);
    if r.chance(1, 10) {
        let k = r.usize(0, chunks.len());
        chunks.insert(k, vec![]);
    }
    chunks
}

fn gen_script(r: &mut Rng, max: u32, faulty: bool) -> Vec<Ev> {
    let n = r.usize(0, 12);
    let big = (max as usize + 6).min(5000);
    (0..n)
        .map(|_| match r.below(if faulty { 12 } else { 10 }) {
            0..=2 => Ev::Pending,
            3 => Ev::Ready(1),
            4 => Ev::Ready(big),
            5 => Ev::Ready(big - 1),
            6 => Ev::Ready(12),
            10 => Ev::Err,
            11 => Ev::Ready(0),
            _ => Ev::Ready(r.usize(1, big)),
        })
        .collect()
}

fn gen_segments(r: &mut Rng, stream: &[u8], pendings: bool) -> Vec<Seg> {
    let mut cuts = Vec::new();
    match r.below(5) {
        0 => {}
        1 => cuts = (1..stream.len()).collect(),
        _ => {
            for _ in 0..r.usize(1, 8) {
                cuts.push(r.usize(0, stream.len()));
            }
            cuts.sort();
            cuts.dedup();
        }
    }
    // segments stay below the reader's 8 KiB fill buffer
    let mut segs = Vec::new();
    for s in cut_at(stream, &cuts) {
        for piece in s.chunks(4096) {
            if pendings && r.chance(1, 3) {
                segs.push(Seg::Pending);
            }
            segs.push(Seg::Data(piece.to_vec()));
        }
    }
    segs
}

fn random_spec(r: &mut Rng) -> Spec {
    match r.below(20) {
        0..=4 => {
            let max = gen_max(r);
            let chunks = gen_chunks(r, max);
            let tscript = if r.chance(1, 2) { let n = r.usize(0, 6); (0..n).map(|_| r.usize(1, 2000)).collect() } else { vec![] };
            let ctx = r.below(256) as u8;
            Spec::Sync { max, ctx, chunks, tscript }
        }
        5 => {
            // outside the precondition: maximum below the header size, and at the top of u32
            let max = *r.pick(&[0u32, 1, 5, 6, MAXIMUM, MAXIMUM + 1, u32::MAX]);
            let n = r.usize(0, 3);
            let chunks = (0..n).map(|_| { let k = r.usize(0, 5); r.bytes(k) }).collect();
            Spec::Sync { max, ctx: 1, chunks, tscript: vec![] }
        }
        6..=11 => {
            let max = gen_max(r);
            let chunks = gen_chunks(r, max);
            let faulty = r.chance(1, 6);
            let ctx = r.below(256) as u8;
            Spec::Async { max, ctx, chunks, script: gen_script(r, max, faulty) }
        }
        12..=17 => {
            // end to end: what the real writer emits, then the start of what follows
            let wmax = gen_max(r);
            let chunks = gen_chunks(r, wmax);
            let ctx = (r.below(128) * 2 + 1) as u8;
            let (_, mut stream) = run_sync(wmax, ctx, &[chunks.concat()], &[]);
            let two = r.chance(1, 3);
            if two {
                let n2 = r.usize(0, 40);
                let (_, s2) = run_sync(wmax, ctx, &[r.bytes(n2)], &[]);
                stream.extend(s2);
            }
            match r.below(4) {
                0 => {}
                1 => { let k = r.usize(1, 5); stream.extend(r.bytes(k)) }
                2 => { let b = r.bytes(7); stream.extend(enc_pdu(&[(ctx, 0, b)])) }
                _ => stream.extend_from_slice(&[0x04, 0x00, 0x00, 0x00]),
            }
            let is_async = r.chance(1, 3);
            let pre = if r.chance(1, 4) { r.usize(0, stream.len().min(30)) } else { 0 };
            let segs = gen_segments(r, &stream[pre..], is_async);
            let ks = match r.below(4) {
                0 => KSpec::Const(1 + r.usize(0, 2) * 500),
                1 => KSpec::Const(r.usize(1, 5000)),
                _ => KSpec::ToEnd,
            };
            let rmax = if r.chance(1, 8) { *r.pick(&[0u32, 1017, MAXIMUM + 1]) } else { r.range(MINIMUM as u64, 70000) as u32 };
            Spec::Read { max: rmax, rb0: stream[..pre].to_vec(), segs, receives: if two { 2 } else { 1 }, ks, is_async }
        }
        _ => {
            // streams the writer never emits: several values per PDU, empty fragments, other PDU
            // types, broken item lengths, truncated input
            let mut stream = Vec::new();
            let n = r.usize(1, 4);
            for i in 0..n {
                let nv = r.usize(0, 3);
                let values: Vec<(u8, u8, Vec<u8>)> = (0..nv)
                    .map(|_| {
                        let k = if r.chance(1, 4) { 0 } else { r.usize(0, 12) };
                        (r.below(4) as u8 * 2 + 1, if i + 1 == n { 2 } else { *r.pick(&[0u8, 0, 0, 1, 2, 3]) }, r.bytes(k))
                    })
                    .collect();
                stream.extend(enc_pdu(&values));
            }
            match r.below(6) {
                0 => stream.truncate(r.usize(0, stream.len())),
                1 => {
                    let k = r.usize(0, stream.len() - 1);
                    stream[k] ^= 1 << r.below(8);
                }
                2 => stream.splice(0..0, [0x05, 0x00, 0x00, 0x00, 0x00, 0x04, 0, 0, 0, 0]).for_each(drop),
                _ => {}
            }
            let is_async = r.chance(1, 3);
            let segs = gen_segments(r, &stream, is_async);
            Spec::Read { max: MINIMUM, rb0: vec![], segs, receives: 1, ks: if r.chance(1, 2) { KSpec::ToEnd } else { KSpec::Const(r.usize(1, 9)) }, is_async }
        }
    }
}

fn main() {
    let a = parse_args();
    quiet_panics();
    let rt = tokio::runtime::Builder::new_multi_thread().worker_threads(1).build().unwrap();
    let fixed = enumerated(a.thorough);
    let mut out = Out::new();
    for i in case_indices(&a) {
        let sp = if (i as usize) < fixed.len() {
            fixed[i as usize].clone()
        } else {
            let mut r = Rng::for_case(a.seed, i);
            random_spec(&mut r)
        };
        out.line(&format!("#{} {}", i, run_spec(&rt, &sp)));
    }
}
