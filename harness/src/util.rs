//! PRNG, argument handling and line-protocol helpers shared by all runners.
//!
//! Every case is generated from `(seed, index)` alone, so one case replays exactly
//! (`--only <index>`), independent of the cases before it.

use std::io::Write;

#[derive(Clone, Debug)]
pub struct Rng(u64);

impl Rng {
    pub fn new(seed: u64) -> Self {
        let mut r = Rng(seed ^ 0x9E37_79B9_7F4A_7C15);
        r.next_u64();
        r
    }
    /// independent stream for case `index` of run `seed`
    pub fn for_case(seed: u64, index: u64) -> Self {
        let mut r = Rng::new(seed.wrapping_mul(0xD6E8_FEB8_6659_FD93) ^ index.wrapping_mul(0xA076_1D64_78BD_642F));
        r.next_u64();
        r.next_u64();
        r
    }
    pub fn next_u64(&mut self) -> u64 {
        // splitmix64
        self.0 = self.0.wrapping_add(0x9E37_79B9_7F4A_7C15);
        let mut z = self.0;
        z = (z ^ (z >> 30)).wrapping_mul(0xBF58_476D_1CE4_E5B9);
        z = (z ^ (z >> 27)).wrapping_mul(0x94D0_49BB_1331_11EB);
        z ^ (z >> 31)
    }
    pub fn next_u32(&mut self) -> u32 {
        (self.next_u64() >> 32) as u32
    }
    /// uniform in 0..n (n > 0)
    pub fn below(&mut self, n: u64) -> u64 {
        if n == 0 {
            0
        } else {
            self.next_u64() % n
        }
    }
    /// uniform in lo..=hi
    pub fn range(&mut self, lo: u64, hi: u64) -> u64 {
        lo + self.below(hi - lo + 1)
    }
    pub fn usize(&mut self, lo: usize, hi: usize) -> usize {
        self.range(lo as u64, hi as u64) as usize
    }
    pub fn chance(&mut self, num: u64, den: u64) -> bool {
        self.below(den) < num
    }
    pub fn pick<'a, T>(&mut self, xs: &'a [T]) -> &'a T {
        &xs[self.below(xs.len() as u64) as usize]
    }
    pub fn bytes(&mut self, n: usize) -> Vec<u8> {
        (0..n).map(|_| self.next_u64() as u8).collect()
    }
    /// a number biased towards boundary values of a `bits`-bit quantity
    pub fn edgy(&mut self, bits: u32) -> u64 {
        let max = if bits >= 64 { u64::MAX } else { (1u64 << bits) - 1 };
        match self.below(8) {
            0 => 0,
            1 => 1,
            2 => max,
            3 => max - 1,
            4 => max / 2,
            5 => max / 2 + 1,
            _ => self.next_u64() & max,
        }
    }
    pub fn ascii_from(&mut self, alphabet: &[u8], n: usize) -> String {
        (0..n).map(|_| *self.pick(alphabet) as char).collect()
    }
}

pub fn hex(b: &[u8]) -> String {
    if b.is_empty() {
        return "-".to_string();
    }
    let mut s = String::with_capacity(b.len() * 2);
    for x in b {
        s.push_str(&format!("{:02x}", x));
    }
    s
}

pub fn unhex(s: &str) -> Vec<u8> {
    if s == "-" {
        return vec![];
    }
    (0..s.len() / 2)
        .map(|i| u8::from_str_radix(&s[2 * i..2 * i + 2], 16).unwrap())
        .collect()
}

/// hex of the UTF-8 bytes of a string (strings never travel raw: they may contain spaces)
pub fn hexs(s: &str) -> String {
    hex(s.as_bytes())
}

#[derive(Clone, Debug)]
pub struct Args {
    pub mode: String,
    pub seed: u64,
    pub count: u64,
    pub thorough: bool,
    pub only: Option<u64>,
    pub extra: Vec<String>,
}

/// `<bin> <mode> --seed S --count N --tier quick|thorough [--only I] [extra…]`
pub fn parse_args() -> Args {
    let mut a = Args { mode: "run".into(), seed: 1, count: 1000, thorough: false, only: None, extra: vec![] };
    let v: Vec<String> = std::env::args().skip(1).collect();
    let mut i = 0;
    let mut first = true;
    while i < v.len() {
        match v[i].as_str() {
            "--seed" => {
                a.seed = v[i + 1].parse().unwrap();
                i += 1
            }
            "--count" => {
                a.count = v[i + 1].parse().unwrap();
                i += 1
            }
            "--tier" => {
                a.thorough = v[i + 1] == "thorough";
                i += 1
            }
            "--only" => {
                a.only = Some(v[i + 1].parse().unwrap());
                i += 1
            }
            s if first && !s.starts_with("--") => a.mode = s.to_string(),
            s => a.extra.push(s.to_string()),
        }
        first = false;
        i += 1;
    }
    a
}

/// iterate over the case indices selected by the arguments
pub fn case_indices(a: &Args) -> Box<dyn Iterator<Item = u64>> {
    match a.only {
        Some(i) => Box::new(std::iter::once(i)),
        None => Box::new(0..a.count),
    }
}

/// run `f`, mapping a panic to `Err(message)`
pub fn catch<T>(f: impl FnOnce() -> T + std::panic::UnwindSafe) -> Result<T, String> {
    match std::panic::catch_unwind(f) {
        Ok(v) => Ok(v),
        Err(e) => {
            let m = if let Some(s) = e.downcast_ref::<&str>() {
                s.to_string()
            } else if let Some(s) = e.downcast_ref::<String>() {
                s.clone()
            } else {
                "panic".to_string()
            };
            Err(m.replace(|c: char| c.is_whitespace(), "_"))
        }
    }
}

/// silence the default panic printer (panics are outcomes here, reported on the case line)
pub fn quiet_panics() {
    std::panic::set_hook(Box::new(|_| {}));
}

pub struct Out(std::io::BufWriter<std::io::Stdout>);
impl Out {
    pub fn new() -> Self {
        Out(std::io::BufWriter::with_capacity(1 << 20, std::io::stdout()))
    }
    pub fn line(&mut self, s: &str) {
        debug_assert!(!s.contains('\n'));
        self.0.write_all(s.as_bytes()).unwrap();
        self.0.write_all(b"\n").unwrap();
    }
}
impl Default for Out {
    fn default() -> Self {
        Self::new()
    }
}
impl Drop for Out {
    fn drop(&mut self) {
        let _ = self.0.flush();
    }
}
