-- This module serves as the root of the `DicomModel` library.
-- Import modules here that should be built as part of the library.
import DicomModel.Basic
