def hello := "world"
