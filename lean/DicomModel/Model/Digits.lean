/-
Decimal text over byte lists (`Nat` bytes): Rust's `{:0w}` / `to_string()` for unsigned integers and
`dicom_core::value::deserialize::read_number`.  Shared by every model that prints or parses
fixed-width decimal fields (DA/TM/DT, IS, UIDs, …).  Lemmas: `DicomModel/Lemmas/Digits.lean`.
-/
import DicomModel.Model.Util
namespace Dicom.Digits

/-- `u8::is_ascii_digit` -/
def isDigit (b : Nat) : Bool := 48 ≤ b && b ≤ 57

/-- the last `w` decimal digits of `n`, most significant first, as ASCII bytes
(= `format!("{:0w}", n)` whenever `n < 10^w`, see `fmtPad_eq_fixed`) -/
def fixed : Nat → Nat → Bytes
  | 0, _ => []
  | w + 1, n => fixed w (n / 10) ++ [48 + n % 10]

def toDecAux : Nat → Nat → Bytes
  | 0, _ => []
  | fuel + 1, n => if n < 10 then [48 + n] else toDecAux fuel (n / 10) ++ [48 + n % 10]

/-- `n.to_string()` for an unsigned integer: no leading zeros, `"0"` for zero -/
def toDec (n : Nat) : Bytes := toDecAux (n + 1) n

/-- `format!("{:0w}", n)` for an unsigned integer: zero-padded to *at least* `w` characters -/
def fmtPad (w n : Nat) : Bytes :=
  let d := toDec n
  List.replicate (w - d.length) 48 ++ d

/-- `read_number_unchecked`: left fold starting from the first digit -/
def readUnchecked : Bytes → Nat
  | [] => 0
  | b :: rest => rest.foldl (fun acc v => acc * 10 + (v - 48)) (b - 48)

/-- `read_number`: 1 to 9 ASCII digits, anything else is an error.
(The Rust function is generic in the integer type; every call site in the modelled code reads at
most 2 digits into `u8`, 4 into `u16`, 6 into `u32`, so the accumulator cannot overflow.) -/
def readNumber (text : Bytes) : Option Nat :=
  if text.isEmpty || text.length > 9 then none
  else if text.any (fun b => !isDigit b) then none
  else some (readUnchecked text)

/-- number of leading ASCII digits (`buf.iter().position(|b| !b.is_ascii_digit()).unwrap_or(len)`) -/
def leadingDigits : Bytes → Nat
  | [] => 0
  | b :: rest => if isDigit b then leadingDigits rest + 1 else 0

end Dicom.Digits
