/-
Model of `ul/src/association/pdata.rs`:

* `setup_pdata_header`, `PDataWriter::{new, write, flush, dispatch_pdu, finish_impl, finish, Drop}`
  driven by `std::io::Write::write_all` (one call per chunk);
* `AsyncPDataWriter::{new, poll_write, finish_impl, finish, Drop}` with its `WriteState`, against a
  scripted transport (`Ev`: `Ready n` partial write | `Pending` | `Err`), driven by tokio's
  `write_all`;
* `PDataReader::read` over a chunked source and the shared `read_buffer`, with the P-DATA branch
  of `read_pdu` (`ul/src/pdu/reader.rs`).

Bytes are `Nat`s, `u32` arithmetic is written with explicit `% 2^32`, Rust panics are explicit
results (`none` / `Res.panic`). Constants come from `Gen/UlConsts.lean` (regenerated from the source).
An independent parser of P-DATA-TF byte streams (`parseFrags`, `specOk`) is the property's oracle.
-/
import DicomModel.Model.Bytes
import DicomModel.Gen.UlConsts
namespace Dicom.PData
open Dicom.Gen.Ul

/-- 2^32 -/
def u32 : Nat := 4294967296

/-- outcome classes of an I/O operation of the writers -/
inductive Res
  | ok
  | writeZero    -- `ErrorKind::WriteZero`
  | brokenPipe   -- `finish` while a PDU write is in flight
  | io           -- error of the transport
  | panic
deriving DecidableEq, Repr

/-! ## header set-up -/

/-- the buffer made by `PDataWriter::new` / `AsyncPDataWriter::new` -/
def initBuf (ctx : Nat) : Bytes := [4, 0, 255, 255, 255, 255, 255, 255, 255, 255, ctx, 255]

/-- `setup_pdata_header(buffer, is_last)`: bytes 2..5 := PDU length, 6..9 := PDV length,
11 := message control header; `none` = panic (buffer shorter than the two headers). -/
def setupHeader (buf : Bytes) (isLast : Bool) : Option Bytes :=
  if buf.length < pduPdvHeaderSize ∨ buf.length < 12 then none
  else
    let dataLen := (buf.length - pduPdvHeaderSize) % u32
    let pduLen := (dataLen + 4 + 2) % u32
    let pdvLen := (dataLen + 2) % u32
    some (buf.take 2 ++ be32 pduLen ++ be32 pdvLen ++ (buf.drop 10).take 1
          ++ [if isLast then 2 else 0] ++ buf.drop 12)

/-! ## synchronous writer -/

/-- `PDataWriter`: its buffer, and everything handed to the stream so far -/
structure SW where
  buf : Bytes
  out : Bytes
deriving DecidableEq, Repr

/-- `dispatch_pdu` (the stream takes everything: `write_all` on an accepting transport) -/
def dispatch (s : SW) : Option SW :=
  match setupHeader s.buf false with
  | none => none
  | some b => some ⟨b.take pduPdvHeaderSize, s.out ++ b⟩

/-- `total_len` of `write` / `poll_write`: `(max_pdu_length + PDU_HEADER_SIZE) as usize`, u32 sum -/
def totalLen (max : Nat) : Nat := (max + pduHeaderSize) % u32

/-- `refill_after_dispatch(buffer, total_len, taken, buf)`: called when a full PDU has been sent and
the buffer is back to its headers. If no byte of the caller's `buf` went into that PDU (the buffer
was already full), the next PDU is started with bytes of `buf`. Gives the new buffer and the
number of bytes the write call reports as consumed. -/
def refill (max : Nat) (hdr : Bytes) (taken : Nat) (chunk : Bytes) : Bytes × Nat :=
  if taken > 0 then (hdr, taken)
  else
    let k := min chunk.length (totalLen max - hdr.length)
    (hdr ++ chunk.take k, k)

/-- `<PDataWriter as Write>::write`: new state and number of bytes taken; `none` = panic
(`total_len - self.buffer.len()` underflows when `max_pdu_length` is below the PDV header size). -/
def write (max : Nat) (s : SW) (chunk : Bytes) : Option (SW × Nat) :=
  if s.buf.length + chunk.length ≤ totalLen max then
    some (⟨s.buf ++ chunk, s.out⟩, chunk.length)
  else if totalLen max < s.buf.length then none
  else
    let n := totalLen max - s.buf.length
    match dispatch ⟨s.buf ++ chunk.take n, s.out⟩ with
    | none => none
    | some s' => some (⟨(refill max s'.buf n chunk).1, s'.out⟩, (refill max s'.buf n chunk).2)

/-- `finish_impl` (also what `Drop` runs) -/
def finishImpl (s : SW) : Option SW :=
  if s.buf.isEmpty then some s
  else match setupHeader s.buf true with
    | none => none
    | some b => some ⟨[], s.out ++ b⟩

/-- `std::io::Write::write_all(chunk)` over `write`: `Ok(0)` is `WriteZero` -/
def writeAll (max : Nat) (s : SW) (chunk : Bytes) : SW × Res :=
  if h : chunk = [] then (s, .ok)
  else match write max s chunk with
    | none => (s, .panic)
    | some (s', 0) => (s', .writeZero)
    | some (s', n + 1) => writeAll max s' (chunk.drop (n + 1))
termination_by chunk.length
decreasing_by
  have : 0 < chunk.length := List.length_pos_iff.mpr h
  simp only [List.length_drop]; omega

/-- one `write_all` per chunk, stopping at the first failure -/
def writeChunks (max : Nat) (s : SW) : List Bytes → SW × Res
  | [] => (s, .ok)
  | c :: cs =>
    match writeAll max s c with
    | (s', .ok) => writeChunks max s' cs
    | r => r

/-- A later non-empty chunk starts when the buffer holds exactly one full PDU (`d` = data bytes per
PDU, `p` = bytes written before): the situation in which the unrepaired `write` answered `Ok(0)`
(finding C26-write-zero-after-full-buffer). Used to classify cases. -/
def stalls (d : Nat) : Nat → List Bytes → Bool
  | _, [] => false
  | p, c :: cs =>
    if c.isEmpty then stalls d p cs
    else (decide (p > 0) && p % d == 0) || stalls d (p + c.length) cs

/-- A whole session: `new`, `write_all` per chunk, then `finish()` (after a failure the writer is
dropped instead, which runs the same `finish_impl`). Result: all bytes given to the stream, status. -/
def runSync (max ctx : Nat) (chunks : List Bytes) : Bytes × Res :=
  match writeChunks max ⟨initBuf ctx, []⟩ chunks with
  | (s, r) =>
    match finishImpl s with
    | some s' => (s'.out, r)
    | none => (s.out, .panic)

/-! ## asynchronous writer against a scripted transport -/

/-- one answer of the transport's `poll_write` -/
inductive Ev
  | ready (n : Nat)   -- accepts `min n len` bytes
  | pending
  | err
deriving DecidableEq, Repr

/-- result of the inner `loop { stream.poll_write(cx, &buffer[pos..]) }` of `poll_write` -/
inductive Drain
  | done (out : Bytes) (rest : List Ev)
  | susp (pos : Nat) (out : Bytes) (rest : List Ev)
  | fail (r : Res) (out : Bytes) (rest : List Ev)

/-- The inner loop: send `buf[pos..]`; an exhausted script is a transport that takes everything. -/
def drain (buf : Bytes) : Nat → Bytes → List Ev → Drain
  | pos, out, [] => .done (out ++ buf.drop pos) []
  | pos, out, .ready n :: s =>
    let k := min n (buf.length - pos)
    if k = 0 then .fail .writeZero out s
    else if pos + k = buf.length then .done (out ++ (buf.drop pos).take k) s
    else drain buf (pos + k) (out ++ (buf.drop pos).take k) s
  | pos, out, .pending :: s => .susp pos out s
  | _, out, .err :: s => .fail .io out s

/-- `AsyncPDataWriter`: buffer, `WriteState` (`none` = `Ready`, `some (pos, consumed)` =
`Writing(pos, consumed)`), bytes accepted by the transport so far -/
structure AW where
  buf : Bytes
  st : Option (Nat × Nat)
  out : Bytes
deriving DecidableEq, Repr

inductive Poll
  | ready (n : Nat)
  | pending
  | fail (r : Res)
deriving DecidableEq, Repr

/-- the sending loop shared by both states of `poll_write`: continue with `b[pos..]`; `keep` is the
`WriteState` left behind when the transport fails; `chunk` is the caller's buffer of this poll -/
def pollSend (max : Nat) (b : Bytes) (pos consumed : Nat) (keep : Option (Nat × Nat)) (out : Bytes)
    (chunk : Bytes) (s : List Ev) : AW × Poll × List Ev :=
  match drain b pos out s with
  | .done out s' =>
    (⟨(refill max (b.take pduPdvHeaderSize) consumed chunk).1, none, out⟩,
     .ready (refill max (b.take pduPdvHeaderSize) consumed chunk).2, s')
  | .susp pos' out s' => (⟨b, some (pos', consumed), out⟩, .pending, s')
  | .fail r out s' => (⟨b, keep, out⟩, .fail r, s')

/-- `<AsyncPDataWriter as AsyncWrite>::poll_write(cx, chunk)` — one poll. -/
def pollWrite (max : Nat) (w : AW) (chunk : Bytes) (s : List Ev) : AW × Poll × List Ev :=
  match w.st with
  | none =>
    if w.buf.length + chunk.length ≤ totalLen max then
      (⟨w.buf ++ chunk, none, w.out⟩, .ready chunk.length, s)
    else if totalLen max < w.buf.length then (w, .fail .panic, s)
    else
      match setupHeader (w.buf ++ chunk.take (totalLen max - w.buf.length)) false with
      | none => (w, .fail .panic, s)
      | some b => pollSend max b 0 (totalLen max - w.buf.length) none w.out chunk s
  | some (pos, consumed) => pollSend max w.buf pos consumed (some (pos, consumed)) w.out chunk s

/-- number of script entries a drain leaves is at most what it got -/
def Drain.rest : Drain → List Ev
  | .done _ r => r
  | .susp _ _ r => r
  | .fail _ _ r => r

theorem drain_rest_le (buf : Bytes) (pos : Nat) (out : Bytes) (s : List Ev) :
    (drain buf pos out s).rest.length ≤ s.length := by
  induction s generalizing pos out with
  | nil => simp [drain, Drain.rest]
  | cons e s ih =>
    cases e with
    | ready n =>
      simp only [drain]
      split
      · simp [Drain.rest]
      · split
        · simp [Drain.rest]
        · exact Nat.le_trans (ih _ _) (by simp)
    | pending => simp [drain, Drain.rest]
    | err => simp [drain, Drain.rest]

theorem drain_susp_lt {buf : Bytes} {pos : Nat} {out : Bytes} {s : List Ev} {p o r} :
    drain buf pos out s = .susp p o r → r.length < s.length := by
  induction s generalizing pos out with
  | nil => simp [drain]
  | cons e s ih =>
    cases e with
    | ready n =>
      simp only [drain]
      split
      · simp
      · split
        · simp
        · intro h; exact Nat.lt_trans (ih h) (by simp)
    | pending => simp only [drain]; intro h; cases h; simp
    | err => simp [drain]

theorem pollSend_rest_le (max : Nat) (b : Bytes) (pos consumed : Nat) (keep : Option (Nat × Nat))
    (out chunk : Bytes) (s : List Ev) :
    (pollSend max b pos consumed keep out chunk s).2.2.length ≤ s.length := by
  have := drain_rest_le b pos out s
  unfold pollSend
  split <;> rename_i h <;> rw [h] at this <;> simpa [Drain.rest] using this

theorem pollSend_pending_lt {max : Nat} {b : Bytes} {pos consumed : Nat}
    {keep : Option (Nat × Nat)} {out chunk : Bytes} {s : List Ev} {w' s'} :
    pollSend max b pos consumed keep out chunk s = (w', .pending, s') → s'.length < s.length := by
  unfold pollSend
  split <;> rename_i h
  · simp
  · intro e; simp only [Prod.mk.injEq] at e; rw [← e.2.2]; exact drain_susp_lt h
  · simp

theorem pollWrite_rest_le (max : Nat) (w : AW) (chunk : Bytes) (s : List Ev) :
    (pollWrite max w chunk s).2.2.length ≤ s.length := by
  unfold pollWrite
  split
  · split
    · simp
    · split
      · simp
      · split
        · simp
        · exact pollSend_rest_le ..
  · exact pollSend_rest_le ..

theorem pollWrite_pending_lt {max : Nat} {w : AW} {chunk : Bytes} {s : List Ev} {w' s'} :
    pollWrite max w chunk s = (w', .pending, s') → s'.length < s.length := by
  unfold pollWrite
  split
  · split
    · simp
    · split
      · simp
      · split
        · simp
        · exact pollSend_pending_lt
  · exact pollSend_pending_lt

/-- tokio's `write_all(chunk)` future polled to completion: every `Pending` is followed by another
poll with the same chunk; `Ready(Ok(0))` is `WriteZero`. -/
def writeAllA (max : Nat) (w : AW) (chunk : Bytes) (s : List Ev) : AW × Res × List Ev :=
  if h : chunk = [] then (w, .ok, s)
  else match hp : pollWrite max w chunk s with
    | (w', .fail r, s') => (w', r, s')
    | (w', .ready 0, s') => (w', .writeZero, s')
    | (w', .ready (n + 1), s') => writeAllA max w' (chunk.drop (n + 1)) s'
    | (w', .pending, s') => writeAllA max w' chunk s'
termination_by s.length + chunk.length
decreasing_by
  · have h1 : 0 < chunk.length := List.length_pos_iff.mpr h
    have h2 := pollWrite_rest_le max w chunk s
    rw [hp] at h2
    simp only [List.length_drop]; simp only at h2; omega
  · have := pollWrite_pending_lt hp
    omega

/-- tokio's `write_all` on the transport itself (used by `finish_impl`): `Pending` → polled again -/
def sendAll (buf : Bytes) : Nat → Bytes → List Ev → Bytes × Res × List Ev
  | pos, out, [] => (out ++ buf.drop pos, .ok, [])
  | pos, out, .ready n :: s =>
    let k := min n (buf.length - pos)
    if k = 0 then (out, .writeZero, s)
    else if pos + k = buf.length then (out ++ (buf.drop pos).take k, .ok, s)
    else sendAll buf (pos + k) (out ++ (buf.drop pos).take k) s
  | pos, out, .pending :: s => sendAll buf pos out s
  | _, out, .err :: s => (out, .io, s)

/-- `AsyncPDataWriter::finish_impl` -/
def finishA (w : AW) (s : List Ev) : AW × Res × List Ev :=
  match w.st with
  | some _ => (w, .brokenPipe, s)
  | none =>
    if w.buf.isEmpty then (w, .ok, s)
    else match setupHeader w.buf true with
      | none => (w, .panic, s)
      | some b =>
        match sendAll b 0 w.out s with
        | (out, .ok, s') => (⟨[], none, out⟩, .ok, s')
        | (out, r, s') => (⟨b, none, out⟩, r, s')

def writeChunksA (max : Nat) (w : AW) : List Bytes → List Ev → AW × Res × List Ev
  | [], s => (w, .ok, s)
  | c :: cs, s =>
    match writeAllA max w c s with
    | (w', .ok, s') => writeChunksA max w' cs s'
    | r => r

/-- status of a session whose writer was dropped after result `r`, the drop's `finish_impl` giving
`rDrop`: errors of the drop are swallowed, a panic is not -/
def dropStatus (r rDrop : Res) : Res := if rDrop = .panic then .panic else r

/-- A whole asynchronous session: `new`, `write_all(chunk).await` per chunk, `finish().await`, drop.
After a failed `write_all` the writer is dropped, which runs `finish_impl`; after a failed `finish`
the drop runs `finish_impl` once more. Result: bytes accepted by the transport, status of the
session, script left. -/
def runAsync (max ctx : Nat) (chunks : List Bytes) (s : List Ev) : Bytes × Res × List Ev :=
  match writeChunksA max ⟨initBuf ctx, none, []⟩ chunks s with
  | (w, .ok, s1) =>
    match finishA w s1 with
    | (w2, .ok, s2) => (w2.out, .ok, s2)
    | (w2, r, s2) =>
      match finishA w2 s2 with
      | (w3, r3, s3) => (w3.out, dropStatus r r3, s3)
  | (w, r, s1) =>
    match finishA w s1 with
    | (w2, r2, s2) => (w2.out, dropStatus r r2, s2)

/-! ## the P-DATA branch of `read_pdu`, and the reader -/

/-- one presentation data value: context id, message control header, data -/
structure Pdv where
  ctx : Nat
  ctrl : Nat
  data : Bytes
deriving DecidableEq, Repr

/-- `is_last = (header & 0x02) > 0` -/
def Pdv.isLast (v : Pdv) : Bool := v.ctrl / 2 % 2 == 1

/-- the `while bytes.has_remaining()` loop of the `0x04` arm of `read_pdu`; `none` = an error -/
def parsePdvs (bs : Bytes) : Option (List Pdv) :=
  match bs with
  | [] => some []
  | a :: b :: c :: d :: ctx :: ctrl :: r =>
    let il := 16777216 * a + 65536 * b + 256 * c + d
    if il < 2 then none
    else if r.length < il - 2 then none
    else match parsePdvs (r.drop (il - 2)) with
      | some vs => some (⟨ctx, ctrl, r.take (il - 2)⟩ :: vs)
      | none => none
  | _ => none
termination_by bs.length
decreasing_by simp only [List.length_drop, List.length_cons]; omega

inductive PduRes
  | incomplete                        -- `Ok(None)`
  | err                               -- any `Err`, or a PDU that is not P-DATA-TF
  | pdata (vs : List Pdv) (used : Nat)
deriving DecidableEq, Repr

/-- `read_pdu(buf, max_pdu_length, strict = false)` as the P-DATA reader uses it: the max-length
range check, the 6-byte header, "not all there yet", then the P-DATA arm. Every other PDU type ends
in an error of `PDataReader::read` either way (`read_pdu` fails or "Unexpected PDU type"). -/
def readPdu (max : Nat) (bs : Bytes) : PduRes :=
  if max < minimumPduSize ∨ maximumPduSize < max then .err
  else match bs with
    | ty :: _ :: a :: b :: c :: d :: r =>
      let len := 16777216 * a + 65536 * b + 256 * c + d
      if r.length < len then .incomplete
      else if ty = 4 then
        match parsePdvs (r.take len) with
        | some vs => .pdata vs (6 + len)
        | none => .err
      else .err
    | _ => .incomplete

/-- `PDataReader`: `buffer` (bytes decoded, not yet handed out), `last_pdu`, the shared
`read_buffer`, and the segments the source will deliver (one per `fill_buf`; none left = EOF) -/
structure RS where
  q : Bytes
  last : Bool
  rb : Bytes
  src : List Bytes
deriving DecidableEq, Repr

inductive Fetch
  | ok (vs : List Pdv) (rb : Bytes) (src : List Bytes)
  | err (rb : Bytes) (src : List Bytes)
deriving DecidableEq, Repr

/-- the `let msg = loop { … }` of `read`: try to parse from `read_buffer`, otherwise append the
next segment of the source; an empty read is "Connection closed by peer" -/
def fetch (max : Nat) : Bytes → List Bytes → Fetch
  | rb, [] =>
    match readPdu max rb with
    | .pdata vs n => .ok vs (rb.drop n) []
    | .err => .err rb []
    | .incomplete => .err rb []
  | rb, seg :: rest =>
    match readPdu max rb with
    | .pdata vs n => .ok vs (rb.drop n) (seg :: rest)
    | .err => .err rb (seg :: rest)
    | .incomplete => if seg.isEmpty then .err rb rest else fetch max (rb ++ seg) rest

inductive ReadOut
  | data (bs : Bytes)
  | err
deriving DecidableEq, Repr

/-- `<PDataReader as Read>::read(buf)` with `buf.len() = k` -/
def read (max : Nat) (rs : RS) (k : Nat) : RS × ReadOut :=
  if !rs.q.isEmpty then (⟨rs.q.drop k, rs.last, rs.rb, rs.src⟩, .data (rs.q.take k))
  else if rs.last then (rs, .data [])
  else match fetch max rs.rb rs.src with
    | .ok vs rb src =>
      let q := vs.flatMap (·.data)
      let last := match vs.getLast? with
        | some v => v.isLast
        | none => rs.last
      (⟨q.drop k, last, rb, src⟩, .data (q.take k))
    | .err rb src => (⟨[], rs.last, rb, src⟩, .err)

inductive Status
  | eof    -- a read returned 0 bytes
  | more   -- the schedule of reads ended first
  | err
deriving DecidableEq, Repr

/-- a caller issuing reads with buffer sizes `ks` until one returns 0 bytes or fails
(`read_to_end` is such a caller) -/
def readLoop (max : Nat) : RS → List Nat → Bytes → RS × Bytes × Status
  | rs, [], acc => (rs, acc, .more)
  | rs, k :: ks, acc =>
    match read max rs k with
    | (rs', .err) => (rs', acc, .err)
    | (rs', .data []) => (rs', acc, .eof)
    | (rs', .data (b :: bs)) => readLoop max rs' ks (acc ++ b :: bs)

/-! ## independent parser of an emitted byte stream (the oracle) -/

/-- one P-DATA-TF PDU that carries exactly one presentation data value -/
structure Frag where
  pduLen : Nat
  ctx : Nat
  ctrl : Nat
  data : Bytes
deriving DecidableEq, Repr

/-- Parse one PDU of type 04H whose PDU length covers exactly one PDV item; gives the fragment and
the number of bytes of the whole PDU. -/
def parseFrag : Bytes → Option (Frag × Nat)
  | ty :: _ :: a :: b :: c :: d :: e :: f :: g :: h :: ctx :: ctrl :: r =>
    let pl := 16777216 * a + 65536 * b + 256 * c + d
    let il := 16777216 * e + 65536 * f + 256 * g + h
    if ty = 4 ∧ il + 4 = pl ∧ 2 ≤ il ∧ il - 2 ≤ r.length then
      some (⟨pl, ctx, ctrl, r.take (il - 2)⟩, pl + 6)
    else none
  | _ => none

/-- the whole stream as a sequence of such PDUs (nothing left over) -/
def parseFrags (bs : Bytes) : Option (List Frag) :=
  if bs.isEmpty then some []
  else match parseFrag bs with
    | none => none
    | some (f, n) =>
      match parseFrags (bs.drop (n - 1 + 1)) with
      | some fs => some (f :: fs)
      | none => none
termination_by bs.length
decreasing_by
  have : bs ≠ [] := by intro h; simp_all
  have : 0 < bs.length := List.length_pos_iff.mpr this
  simp only [List.length_drop]; omega

/-- The property's clauses on a parsed stream: at least one PDU, every PDU length ≤ max, every
value in the given presentation context, message control header 0 (data, not last) on all but the
final PDU and 2 (data, last) on the final one, payloads concatenate to the input. -/
def specOk (max ctx : Nat) (payload : Bytes) (fs : List Frag) : Bool :=
  !fs.isEmpty
  && fs.all (fun f => decide (f.pduLen ≤ max) && f.ctx == ctx)
  && fs.dropLast.all (fun f => f.ctrl == 0)
  && (fs.getLast?.map (·.ctrl)) == some 2
  && fs.flatMap (·.data) == payload

/-- A message in a byte stream as the reader's property sees it: PDUs with one value each, message
control 0 and non-empty data up to the first PDU marked last; gives the fragments and what follows. -/
def splitMessage (bs : Bytes) : Option (List Frag × Bytes) :=
  match hp : parseFrag bs with
  | none => none
  | some (f, n) =>
    if f.ctrl / 2 % 2 = 1 then some ([f], bs.drop n)
    else if f.data.isEmpty then none
    else match splitMessage (bs.drop (n - 1 + 1)) with
      | some (fs, rest) => some (f :: fs, rest)
      | none => none
termination_by bs.length
decreasing_by
  have : bs ≠ [] := by intro h; subst h; simp [parseFrag] at hp
  have : 0 < bs.length := List.length_pos_iff.mpr this
  simp only [List.length_drop]; omega

end Dicom.PData
