/-
Model of primitive values and their encoding:
  core/src/value/primitive.rs   PrimitiveValue (variants), calculate_byte_len, to_str (numeric variants)
  encoding/src/encode/mod.rs    BasicEncode::encode_primitive (+ encode_collection_delimited), returned count
  parser/src/stateful/encode.rs StatefulEncoder: even_len, encode_element_header, encode_item_header,
                                delimiters, write_bytes, write_raw_bytes, encode_offset_table,
                                encode_primitive_element (text path, DS/IS-as-text path, binary path + padding)

=== API (namespace `Dicom`) ===
  PValue                    the variants of `PrimitiveValue` as typed lists (see below)
  PValue.calculateByteLen   `calculate_byte_len`
  encodePrimitive be v      `encode_primitive`: (bytes written, returned count)
  evenLen n                 `even_len`
  Enc                       StatefulEncoder state: output so far and `bytes_written`, syntax
  Enc.* operations          return `Except WErr Enc`; `Enc.encodePrimitiveElement` = `encode_primitive_element`
                            (= `Enc.primitiveElement` after the OW/U8 re-packing `owWords`)
Text is a list of bytes (the UTF-8 bytes of the Rust `String`); the text codecs are modelled on the
default repertoire only: encoding is the identity on bytes < 0x80 (`TextOk`), which is what every
`SpecificCharacterSet` of dicom-rs does for ASCII. Dates/times are carried as their `to_encoded()` text
(C12 models that function); floats as IEEE bit patterns plus Rust's `Display` text (used only when a
float is written as DS/IS text).
-/
import DicomModel.Model.Header
namespace Dicom

inductive PValue where
  | empty
  | strs (l : List Bytes)
  | str (s : Bytes)
  | tags (l : List Tag)
  | u8 (l : List Nat)
  | i16 (l : List Int)
  | u16 (l : List Nat)
  | i32 (l : List Int)
  | u32 (l : List Nat)
  | i64 (l : List Int)
  | u64 (l : List Nat)
  /-- bit pattern and Rust `Display` text of each value -/
  | f32 (l : List (Nat × Bytes))
  | f64 (l : List (Nat × Bytes))
  /-- `to_encoded()` of each `DicomDate` / `DicomDateTime` / `DicomTime` -/
  | date (l : List Bytes)
  | dateTime (l : List Bytes)
  | time (l : List Bytes)
deriving DecidableEq, Repr, Inhabited

/-- `x & !1` -/
def clearBit0 (n : Nat) : Nat := n - n % 2

def sumLenPlus1 (l : List Bytes) : Nat := (l.map fun s => s.length + 1).sum

/-- `PrimitiveValue::calculate_byte_len` (`da/tm/dt_byte_len` = length of the encoded text) -/
def PValue.calculateByteLen : PValue → Nat
  | .empty => 0
  | .u8 c => c.length
  | .i16 c => c.length * 2
  | .u16 c => c.length * 2
  | .u32 c => c.length * 4
  | .i32 c => c.length * 4
  | .u64 c => c.length * 8
  | .i64 c => c.length * 8
  | .f32 c => c.length * 4
  | .f64 c => c.length * 8
  | .tags c => c.length * 4
  | .str s => s.length
  | .strs c => clearBit0 (sumLenPlus1 c)
  | .date c => clearBit0 (sumLenPlus1 c)
  | .time c => clearBit0 (sumLenPlus1 c)
  | .dateTime c => clearBit0 (sumLenPlus1 c)

/-- two's complement of a signed integer in `bits` bits (`v as uN`) -/
def twos (bits : Nat) (v : Int) : Nat := (v % (2 ^ bits : Nat)).toNat

/-- `encode_collection_delimited`: items joined by a backslash; returns bytes and the count `acc` -/
def joinBackslash : List Bytes → Bytes
  | [] => []
  | [x] => x
  | x :: y :: r => x ++ 0x5C :: joinBackslash (y :: r)

def joinCount : List Bytes → Nat
  | [] => 0
  | [x] => x.length
  | x :: y :: r => x.length + 1 + joinCount (y :: r)

/-- `BasicEncode::encode_primitive`: bytes written and the returned byte count -/
def encodePrimitive (be : Bool) : PValue → Bytes × Nat
  | .empty => ([], 0)
  | .date c => (joinBackslash c, joinCount c)
  | .time c => (joinBackslash c, joinCount c)
  | .dateTime c => (joinBackslash c, joinCount c)
  | .str s => (s, s.length)
  | .strs c => (joinBackslash c, joinCount c)
  | .f32 c => (c.flatMap fun p => enc32 be p.1, c.length * 4)
  | .f64 c => (c.flatMap fun p => enc64 be p.1, c.length * 8)
  | .u64 c => (c.flatMap (enc64 be), c.length * 8)
  | .i64 c => (c.flatMap fun v => enc64 be (twos 64 v), c.length * 8)
  | .u32 c => (c.flatMap (enc32 be), c.length * 4)
  | .i32 c => (c.flatMap fun v => enc32 be (twos 32 v), c.length * 4)
  | .u16 c => (c.flatMap (enc16 be), c.length * 2)
  | .i16 c => (c.flatMap fun v => enc16 be (twos 16 v), c.length * 2)
  | .u8 c => (c, c.length)
  | .tags c => (c.flatMap fun t => enc16 be t.group ++ enc16 be t.elem, c.length * 4)

/-! ### decimal text of integers (`to_string`) -/

def natDigitsAux : Nat → Nat → Bytes → Bytes
  | 0, _, acc => acc
  | fuel + 1, n, acc =>
    if n < 10 then (48 + n) :: acc else natDigitsAux fuel (n / 10) ((48 + n % 10) :: acc)

/-- `u64::to_string` etc. -/
def natToText (n : Nat) : Bytes := natDigitsAux (n + 1) n []

def intToText (v : Int) : Bytes :=
  if v < 0 then 0x2D :: natToText v.natAbs else natToText v.toNat

/-- `PrimitiveValue::to_str` of the numeric variants: `Display` of each value joined by a backslash.
`none` for the variants the DS/IS path never passes (`unreachable!()` in the code). -/
def PValue.numText? : PValue → Option Bytes
  | .u8 c => some (joinBackslash (c.map natToText))
  | .u16 c => some (joinBackslash (c.map natToText))
  | .u32 c => some (joinBackslash (c.map natToText))
  | .u64 c => some (joinBackslash (c.map natToText))
  | .i16 c => some (joinBackslash (c.map intToText))
  | .i32 c => some (joinBackslash (c.map intToText))
  | .i64 c => some (joinBackslash (c.map intToText))
  | .f32 c => some (joinBackslash (c.map (·.2)))
  | .f64 c => some (joinBackslash (c.map (·.2)))
  | _ => none

/-! ### StatefulEncoder -/

/-- `even_len`: `(l + 1) & !1` on `u32` (wraps for `0xFFFF_FFFF`, which callers exclude) -/
def evenLen (l : Nat) : Nat := clearBit0 ((l + 1) % 4294967296)

inductive WErr where
  /-- `EncodeData { source: WriteHeaderTooLong }` -/
  | headerTooLong (len : Nat)
  /-- `UnexpectedToken`: a value token without a preceding element header -/
  | unexpectedToken
  /-- the Rust code would panic here (`unreachable!()`, index out of range) -/
  | panic
  /-- text outside the modelled (default) repertoire -/
  | text
deriving DecidableEq, Repr

/-- `StatefulEncoder`: the bytes pushed to the writer so far, the `bytes_written` counter, the syntax -/
structure Enc where
  ts : Syntax
  out : Bytes
  written : Nat
deriving DecidableEq, Repr

def Enc.new (ts : Syntax) : Enc := ⟨ts, [], 0⟩

/-- append bytes, counting `n` (what the code adds to `bytes_written`) -/
def Enc.push (e : Enc) (bs : Bytes) (n : Nat) : Enc := { e with out := e.out ++ bs, written := e.written + n }

/-- `StatefulEncoder::encode_element_header` -/
def Enc.elementHeader (e : Enc) (h : ElemHeader) : Except WErr Enc :=
  let h' : ElemHeader := if h.len = undefinedLen then h else { h with len := evenLen h.len }
  match encodeHeader e.ts h' with
  | .ok (bs, n) => .ok (e.push bs n)
  | .error (.headerTooLong l) => .error (.headerTooLong l)

/-- `encode_item_header(len)` -/
def Enc.itemHeader (e : Enc) (len : Nat) : Enc :=
  let l := if len = 0xFFFFFFFF then len else evenLen len
  e.push (encodeItemHeader e.ts.bigEndian l) 8

def Enc.itemDelimiter (e : Enc) : Enc := e.push (encodeItemDelimiter e.ts.bigEndian) 8
def Enc.seqDelimiter (e : Enc) : Enc := e.push (encodeSeqDelimiter e.ts.bigEndian) 8

/-- `write_raw_bytes` -/
def Enc.writeRaw (e : Enc) (bs : Bytes) : Enc := e.push bs bs.length

/-- `write_bytes`: pads with one zero byte when odd -/
def Enc.writeBytes (e : Enc) (bs : Bytes) : Enc :=
  let e1 := e.push bs bs.length
  if bs.length % 2 ≠ 0 then e1.push [0] 1 else e1

/-- `encode_offset_table` -/
def Enc.offsetTable (e : Enc) (t : List Nat) : Enc :=
  e.push (t.flatMap (enc32 e.ts.bigEndian)) (t.length * 4)

/-- the text codecs on the default repertoire: identity on ASCII, not modelled otherwise -/
def textEncode (s : Bytes) : Option Bytes := if s.all (· < 128) then some s else none

def textEncodeAll : List Bytes → Option (List Bytes)
  | [] => some []
  | s :: r => match textEncode s, textEncodeAll r with
    | some a, some b => some (a :: b)
    | _, _ => none

/-- pad byte of the text paths: NUL for UI, space otherwise -/
def textPad (vr : VR) : Nat := if vr = .UI then 0 else 0x20

def padTo (bs : Bytes) (pad : Nat) : Bytes := if bs.length % 2 = 1 then bs ++ [pad] else bs

/-- header with the true length, then the (already padded) value bytes -/
def Enc.headerAndValue (e : Enc) (de : ElemHeader) (v : Bytes) : Except WErr Enc :=
  match e.elementHeader { de with len := v.length % 4294967296 } with
  | .ok e1 => .ok (e1.push v v.length)
  | .error x => .error x

/-- `encode_text_element` -/
def Enc.textElement (e : Enc) (text : Bytes) (de : ElemHeader) : Except WErr Enc :=
  match textEncode text with
  | none => .error .text
  | some enc => e.headerAndValue de (padTo enc (textPad de.vr))

/-- `encode_texts_element` -/
def Enc.textsElement (e : Enc) (texts : List Bytes) (de : ElemHeader) : Except WErr Enc :=
  match textEncodeAll texts with
  | none => .error .text
  | some encs => e.headerAndValue de (padTo (joinBackslash encs) (textPad de.vr))

/-- `encode_element_as_text` (DS / IS with a non-string value) -/
def Enc.elementAsText (e : Enc) (v : PValue) (de : ElemHeader) : Except WErr Enc :=
  match v with
  | .empty => e.elementHeader { de with len := 0 }
  | _ =>
    match v.numText? with
    | none => .error .panic
    | some t =>
      match e.elementHeader { de with len := evenLen (t.length % 4294967296) } with
      | .error x => .error x
      | .ok e1 =>
        let e2 := { e1 with out := e1.out ++ t }
        if t.length % 2 = 1 then .ok { e2 with out := e2.out ++ [0x20], written := e2.written + (t.length + 1) }
        else .ok { e2 with written := e2.written + t.length }

/-- pad byte of the binary path -/
def binPad (vr : VR) : Nat := if vr = .DA ∨ vr = .DT ∨ vr = .TM then 0x20 else 0

/-- `encode_primitive_element` without its OW/U8 arm (see `Enc.encodePrimitiveElement` below) -/
def Enc.primitiveElement (e : Enc) (de : ElemHeader) (v : PValue) : Except WErr Enc :=
  match v with
  | .str text => e.textElement text de
  | .strs texts => e.textsElement texts de
  | _ =>
    if de.vr = .DS ∨ de.vr = .IS then e.elementAsText v de
    else
      match e.elementHeader { de with len := v.calculateByteLen % 4294967296 } with
      | .error x => .error x
      | .ok e1 =>
        let (bs, n) := encodePrimitive e.ts.bigEndian v
        let e2 := e1.push bs n
        if n % 2 ≠ 0 then .ok (e2.push [binPad de.vr] 1) else .ok e2

/-- `bytes.chunks(2).map(|c| u16::from_le_bytes([c[0], c.get(1).unwrap_or(0)]))` -/
def packWords : Bytes → List Nat
  | [] => []
  | [a] => [a]
  | a :: b :: r => (a + 256 * b) :: packWords r

/-- the `PrimitiveValue::U8(bytes) if de.vr == VR::OW` arm of `encode_primitive_element` (fix 457c39a):
8-bit samples held as bytes under OW are re-packed into 16-bit words, which the encoder then writes in the
byte order of the syntax; every other (VR, value) is left alone -/
def owWords (vr : VR) (v : PValue) : PValue :=
  match v with
  | .u8 bytes => if vr = .OW then .u16 (packWords bytes) else v
  | _ => v

/-- **`StatefulEncoder::encode_primitive_element`** (the whole function): the OW/U8 arm, then the arms
modelled by `Enc.primitiveElement` (Str, Strs, DS/IS-as-text, binary) -/
def Enc.encodePrimitiveElement (e : Enc) (de : ElemHeader) (v : PValue) : Except WErr Enc :=
  e.primitiveElement de (owWords de.vr v)

end Dicom
