/-
Model of `encoding/src/decode/adaptive_le.rs` (C08):
  `AdaptiveVRLittleEndianDecoder::decode_header` with its `Unknown / Explicit / Implicit` state,
  `vr_compatible_with_virtual` (arms regenerated from the source: Gen/VrCompat.lean, translators/vr_compat.py), `resolve_vr`, `decode_explicit_header`, `decode_explicit_length`
  (the short-VR list is `Gen.adaptiveShort`, regenerated from the source by translators/vr_tables.py),
  `decode_implicit_length`, `decode_item_header`;
and of how `parser/src/dataset/read.rs` plugs it in (`DataSetReaderOptions::flexible_decoding` with a
little-endian transfer syntax: the transfer syntax's own decoder is replaced, state `Unknown`).

The data dictionary is a parameter `dictV : Tag → Option VVr` (`by_tag(tag).map(|e| e.vr())`).
-/
import DicomModel.Model.DsReader
import DicomModel.Gen.VrCompat
namespace Dicom.Rd

/-- `VirtualVr` -/
inductive VVr where
  | exact (vr : VR)
  | xs | ox | px | lt
deriving DecidableEq, Repr, Inhabited

/-- `VirtualVr::relaxed` -/
def VVr.relaxed : VVr → VR
  | .exact vr => vr
  | .xs => .US
  | .ox => .OW
  | .px => .OW
  | .lt => .OW

/-- evaluation of one extracted arm of `vr_compatible_with_virtual`; `own` = the VR carried by an
`Exact` entry -/
def compatRule (r : Gen.CompatRule) (probed : VR) (own : Option VR) : Bool :=
  match r with
  | .same => own == some probed
  | .among l => l.contains probed
  | .const b => b

/-- `vr_compatible_with_virtual(probed, dict_vr)`: the arms are regenerated from the source on every check
(`Gen/VrCompat.lean`, translators/vr_compat.py) -/
def vrCompat (probed : VR) : VVr → Bool
  | .exact vr => compatRule Gen.compatExact probed (some vr)
  | .xs => compatRule Gen.compatXs probed none
  | .ox => compatRule Gen.compatOx probed none
  | .px => compatRule Gen.compatPx probed none
  | .lt => compatRule Gen.compatLt probed none

/-- `VrState` -/
inductive VrState where
  | unknown | explicit | implicit
deriving DecidableEq, Repr, Inhabited

/-- the dictionary as the Implicit VR decoder uses it: `by_tag(tag).map(|e| e.vr().relaxed())` -/
def relaxedDict (dictV : Tag → Option VVr) (t : Tag) : Option VR := (dictV t).map VVr.relaxed

/-- tag + 32-bit length with the VR resolved from the dictionary (`decode_implicit_length`, and the
two implicit branches of the probe) -/
def implicitRest (dictV : Tag → Option VVr) (t : Tag) (bs : Bytes) (r : Bytes) : HdrRes × VrState :=
  match rdLe32 r with
  | some (len, r') => (.ok ⟨t, resolveImplicitVr (relaxedDict dictV) t, len⟩ 8 r', .implicit)
  | none => (hdrOf bs none, .implicit)

/-- `decode_explicit_length` after the two VR bytes -/
def explicitLength (t : Tag) (vr : VR) (bs : Bytes) (r1 : Bytes) : HdrRes :=
  if Gen.adaptiveShort.contains vr then
    match rdLe16 r1 with
    | some (len, r') => .ok ⟨t, vr, len⟩ 8 r'
    | none => hdrOf bs none
  else match r1 with
    | _ :: _ :: r2 =>
      match rdLe32 r2 with
      | some (len, r') => .ok ⟨t, vr, len⟩ 12 r'
      | none => hdrOf bs none
    | _ => hdrOf bs none

/-- `AdaptiveVRLittleEndianDecoder::decode_header` -/
def adaptiveHeader (dictV : Tag → Option VVr) (st : VrState) (bs : Bytes) : HdrRes × VrState :=
  match decodeTag false bs with
  | none => (hdrOf bs none, st)
  | some (t, r) =>
    -- item delimiters never have VR or reserved fields
    if t.group = 0xFFFE then
      match rdLe32 r with
      | some (len, r') => (.ok ⟨t, .UN, len⟩ 8 r', st)
      | none => (hdrOf bs none, st)
    else match st with
      | .explicit =>
        match r with
        | a :: b :: r1 => (explicitLength t ((VR.fromBinary a b).getD .UN) bs r1, .explicit)
        | _ => (hdrOf bs none, .explicit)
      | .implicit => implicitRest dictV t bs r
      | .unknown =>
        -- probe: the two bytes after the tag
        match r with
        | a :: b :: r1 =>
          match VR.fromBinary a b with
          | some vr =>
            -- cross-check against the data dictionary
            if (match dictV t with | some vvr => !vrCompat vr vvr | none => false) then
              implicitRest dictV t bs r
            else (explicitLength t vr bs r1, .explicit)
          | none => implicitRest dictV t bs r
        | _ => (hdrOf bs none, .unknown)

/-- the adaptive decoder as a reader parameter -/
def adaptiveDec (dictV : Tag → Option VVr) : Dec VrState where
  header := adaptiveHeader dictV
  be := false
  itemEofGraceful := true

/-- decoder selection of `DataSetReader::new_with_ts_cs_options`, as a run over a byte string:
flexible decoding on a little-endian syntax replaces the decoder by the adaptive one -/
def readWithOptions (cfg : Cfg) (dictV : Tag → Option VVr) (ts : Syntax) (flexible : Bool)
    (cap : Nat) (bs : Bytes) : List Rec :=
  if flexible ∧ ts.bigEndian = false then readAll cfg (adaptiveDec dictV) .unknown 0 cap bs
  else readAll cfg (plainDec ts (relaxedDict dictV)) () 0 cap bs

/-- The statement's condition on the first element (`bs` starts at its tag): the two bytes after the
tag — in Implicit VR the first two length bytes — do not spell a VR compatible with the attribute's
dictionary entry. A tag without dictionary entry constrains nothing: every VR code counts as
compatible with it. -/
def unambiguous (dictV : Tag → Option VVr) (bs : Bytes) : Bool :=
  match decodeTag false bs with
  | some (t, a :: b :: _) =>
    match VR.fromBinary a b with
    | none => true
    | some vr =>
      match dictV t with
      | some vvr => !vrCompat vr vvr
      | none => false
  | _ => true

end Dicom.Rd
