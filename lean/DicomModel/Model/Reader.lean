/-
Model of data set reading:
  parser/src/stateful/decode.rs   StatefulDecoder: decode_header / decode_item_header (position accounting),
                                  read_value_preserved and the `read_value_*` helpers, read_to_vec, read_u32_to_vec
  parser/src/dataset/read.rs      DataSetReader as the `Iterator::next` state machine it is: `in_sequence`,
                                  `offset_table_next`, `delimiter_check_pending`, `seq_delimiters`, `hard_break`,
                                  `last_header`; `update_seq_delimiters`, `sanitize_length` (default options:
                                  ValueReadStrategy::Preserved, OddLengthStrategy::Accept)

=== API (namespace `Dicom`) ===
  Dec                      StatefulDecoder state: remaining input, `position`, syntax, dictionary (Implicit VR)
  Dec.readValuePreserved   `read_value_preserved` : Except RErr (PValue × Dec)
  RState / RState.next     the reader; one `next()` call returns `none` (end), `some (.error e)` or `some (.ok token)`
  readTokens fuel st       all tokens until the iterator ends; `(tokens, error?)`
Not modelled: the text codec beyond ASCII (identity), Specific Character Set switching, the Pixel
Representation → SS override of `decode_header` (no generated data set contains (0028,0103)).
-/
import DicomModel.Model.Writer
namespace Dicom

inductive RErr where
  | eof
  /-- `NonPrimitiveType` (value of VR SQ requested) -/
  | nonPrimitive
  /-- `UndefinedValueLength` -/
  | undefinedValueLength
  | undefinedItemLength
  | unexpectedItemHeader
  | unexpectedItemTag
  | inconsistentSequenceEnd
  | badItemHeader (e : ItemErr)
  /-- text outside the modelled repertoire -/
  | text
deriving DecidableEq, Repr

structure Dec where
  ts : Syntax
  dict : Tag → Option VR
  rest : Bytes
  pos : Nat

/-- `StatefulDecoder::decode_header` -/
def Dec.decodeHeader (d : Dec) : Except RErr (ElemHeader × Dec) :=
  match Dicom.decodeHeader d.ts d.dict d.rest with
  | some (h, n, r) => .ok (h, { d with rest := r, pos := d.pos + n })
  | none => .error .eof

/-- `StatefulDecoder::decode_item_header` -/
def Dec.decodeItemHeader (d : Dec) : Except RErr (ItemHeader × Dec) :=
  match Dicom.decodeItemHeader d.ts.bigEndian d.rest with
  | .ok (h, r) => .ok (h, { d with rest := r, pos := d.pos + 8 })
  | .error .eof => .error .eof
  | .error e => .error (.badItemHeader e)

/-- read exactly `n` bytes (`read_exact`) without touching `position` -/
def Dec.take (d : Dec) (n : Nat) : Except RErr (Bytes × Dec) :=
  match takeN n d.rest with
  | some (a, r) => .ok (a, { d with rest := r })
  | none => .error .eof

/-- `split(|v| *v == b'\\')` -/
def splitBackslash : Bytes → List Bytes
  | [] => [[]]
  | b :: r =>
    if b = 0x5C then [] :: splitBackslash r
    else match splitBackslash r with
      | x :: xs => (b :: x) :: xs
      | [] => [[b]]

/-- the text decoders on the default repertoire -/
def textDecode (s : Bytes) : Option Bytes := if s.all (· < 128) then some s else none

def textDecodeAll : List Bytes → Option (List Bytes)
  | [] => some []
  | s :: r => match textDecode s, textDecodeAll r with
    | some a, some b => some (a :: b)
    | _, _ => none

/-- two's complement reading (`u16 as i16` …) -/
def fromTwos (bits : Nat) (n : Nat) : Int :=
  if n < 2 ^ (bits - 1) then (n : Int) else (n : Int) - (2 ^ bits : Nat)

/-- `decode_*_into`: `n` fixed-width integers -/
def rdMany (rd : Bytes → Option (Nat × Bytes)) : Nat → Bytes → Option (List Nat × Bytes)
  | 0, bs => some ([], bs)
  | n + 1, bs => match rd bs with
    | some (v, r) => match rdMany rd n r with
      | some (vs, r') => some (v :: vs, r')
      | none => none
    | none => none

def rdTags (be : Bool) : Nat → Bytes → Option (List Tag × Bytes)
  | 0, bs => some ([], bs)
  | n + 1, bs => match decodeTag be bs with
    | some (t, r) => match rdTags be n r with
      | some (ts, r') => some (t :: ts, r')
      | none => none
    | none => none

/-- the numeric readers: `n = len >> k` values are read, the `len mod 2^k` bytes after the last whole
number are read and discarded (`discard_value_remainder`), `position += len` -/
def Dec.readNums (d : Dec) (len : Nat) (shift : Nat) (rd : Bytes → Option (Nat × Bytes))
    (mk : List Nat → PValue) : Except RErr (PValue × Dec) :=
  match rdMany rd (len / 2 ^ shift) d.rest with
  | some (vs, r) =>
    match takeN (len % 2 ^ shift) r with
    | some (_, r') => .ok (mk vs, { d with rest := r', pos := d.pos + len })
    | none => .error .eof
  | none => .error .eof

/-- `read_value_preserved` -/
def Dec.readValuePreserved (d : Dec) (h : ElemHeader) : Except RErr (PValue × Dec) :=
  if h.len = 0 then .ok (.empty, d) else
  if h.vr = .SQ then .error .nonPrimitive else
  if h.len = undefinedLen then .error .undefinedValueLength else
  let be := d.ts.bigEndian
  let len := h.len
  match h.vr with
  | .AT =>
    match rdTags be (len / 4) d.rest with
    | some (ts, r) =>
      match takeN (len % 4) r with
      | some (_, r') => .ok (.tags ts, { d with rest := r', pos := d.pos + len })
      | none => .error .eof
    | none => .error .eof
  | .AE | .AS | .PN | .SH | .LO | .UC | .UI | .IS | .DS | .DA | .TM | .DT | .CS =>
    match d.take len with
    | .error e => .error e
    | .ok (buf, d') =>
      match textDecodeAll (splitBackslash buf) with
      | some parts => .ok (.strs parts, { d' with pos := d'.pos + len })
      | none => .error .text
  | .UT | .ST | .UR | .LT =>
    match d.take len with
    | .error e => .error e
    | .ok (buf, d') =>
      match textDecode buf with
      | some s => .ok (.str s, { d' with pos := d'.pos + len })
      | none => .error .text
  | .UN | .OB =>
    match d.take len with
    | .error e => .error e
    | .ok (buf, d') => .ok (.u8 buf, { d' with pos := d'.pos + len })
  | .US | .OW => d.readNums len 1 (rd16 be) .u16
  | .SS => d.readNums len 1 (rd16 be) fun l => .i16 (l.map (fromTwos 16))
  | .FD | .OD => d.readNums len 3 (rd64 be) fun l => .f64 (l.map fun b => (b, []))
  | .FL | .OF => d.readNums len 2 (rd32 be) fun l => .f32 (l.map fun b => (b, []))
  | .SL => d.readNums len 2 (rd32 be) fun l => .i32 (l.map (fromTwos 32))
  | .OL | .UL => d.readNums len 2 (rd32 be) .u32
  | .SV => d.readNums len 3 (rd64 be) fun l => .i64 (l.map (fromTwos 64))
  | .OV | .UV => d.readNums len 3 (rd64 be) .u64
  | .SQ => .error .nonPrimitive

/-- `SeqToken` of the reader -/
structure RSeqTok where
  isItem : Bool
  len : Nat
  pixelData : Bool
  baseOffset : Nat
deriving DecidableEq, Repr

structure RState where
  dec : Dec
  inSequence : Bool
  offsetTableNext : Bool
  delimiterCheckPending : Bool
  seqDelimiters : List RSeqTok
  hardBreak : Bool
  lastHeader : Option ElemHeader

def RState.new (ts : Syntax) (dict : Tag → Option VR) (bs : Bytes) : RState :=
  ⟨⟨ts, dict, bs, 0⟩, false, false, false, [], false, none⟩

def RState.push (s : RState) (isItem : Bool) (len : Nat) (pixel : Bool) : RState :=
  { s with seqDelimiters := ⟨isItem, len, pixel, s.dec.pos⟩ :: s.seqDelimiters }

/-- `update_seq_delimiters`: `.ok (some tok)` a token is produced, `.ok none` nothing pending -/
def RState.updateSeqDelimiters (s : RState) : Except RErr (Option Token) × RState :=
  match s.seqDelimiters with
  | sd :: rest =>
    if sd.len ≠ undefinedLen then
      let eos := sd.baseOffset + sd.len
      if eos = s.dec.pos then
        if sd.isItem then (.ok (some .itemEnd), { s with inSequence := true, seqDelimiters := rest })
        else (.ok (some .sequenceEnd), { s with inSequence := false, seqDelimiters := rest })
      else if eos < s.dec.pos then (.error .inconsistentSequenceEnd, s)
      else (.ok none, { s with delimiterCheckPending := false })
    else (.ok none, { s with delimiterCheckPending := false })
  | [] => (.ok none, { s with delimiterCheckPending := false })

/-- one turn of the `loop` in `next()` after the delimiter check; `none` in the first component = `continue` -/
def RState.nextBody (s : RState) : Option (Option (Except RErr Token)) × RState :=
  if s.inSequence then
    match s.dec.decodeItemHeader with
    | .ok (.item len, d) =>
      let s1 := { s with dec := d }
      match s1.seqDelimiters with
      | [] => (some (some (.error .unexpectedItemHeader)), { s1 with inSequence := false })
      | last :: _ =>
        let s2 := ({ s1 with inSequence := false }).push true len last.pixelData
        let s3 := if len = 0 then { s2 with delimiterCheckPending := true } else s2
        (some (some (.ok (.itemStart len))), s3)
    | .ok (.itemDelim, d) =>
      (some (some (.ok .itemEnd)),
        { s with dec := d, seqDelimiters := s.seqDelimiters.drop 1, inSequence := true, delimiterCheckPending := true })
    | .ok (.seqDelim, d) =>
      (some (some (.ok .sequenceEnd)),
        { s with dec := d, seqDelimiters := s.seqDelimiters.drop 1, inSequence := false, delimiterCheckPending := true })
    | .error .eof =>
      -- EOF inside a pixel data sequence is a graceful end
      match s.seqDelimiters with
      | t :: rest =>
        if t.pixelData then (some none, { s with seqDelimiters := rest, hardBreak := true })
        else (some (some (.error .eof)), { s with seqDelimiters := rest, hardBreak := true })
      | [] => (some (some (.error .eof)), { s with hardBreak := true })
    | .error e => (some (some (.error e)), { s with hardBreak := true })
  else
    match s.seqDelimiters with
    | ⟨true, len, true, _⟩ :: _ =>
      if len = undefinedLen then (some (some (.error .undefinedItemLength)), s) else
      if s.offsetTableNext then
        let s1 := { s with offsetTableNext := false, delimiterCheckPending := true }
        match rdMany (rd32 s.dec.ts.bigEndian) (len / 4) s.dec.rest with
        | some (vs, r) =>
          -- `read_u32_to_vec`: whole numbers, then `skip_bytes(length & 3)` (which copies what is there)
          let r' := r.drop (len % 4)
          (some (some (.ok (.offsetTable vs))), { s1 with dec := { s.dec with rest := r', pos := s.dec.pos + len } })
        | none => (some (some (.error .eof)), s1)
      else
        let s1 := { s with delimiterCheckPending := true }
        -- `read_to_vec` = `io::copy(take(len))`: never fails at EOF, returns what is there, position += len
        (some (some (.ok (.itemValue (s.dec.rest.take len)))),
          { s1 with dec := { s.dec with rest := s.dec.rest.drop len, pos := s.dec.pos + len } })
    | _ =>
      match s.lastHeader with
      | some header =>
        if header.isEncapsulatedPixeldata then
          let s1 := ({ s with lastHeader := none } : RState).push false undefinedLen true
          let s1 := { s1 with lastHeader := none }
          match s1.dec.decodeItemHeader with
          | .ok (.item len, d) =>
            let s2 := ({ s1 with dec := d, inSequence := false }).push true len true
            let s3 := if len = 0 then { s2 with delimiterCheckPending := true } else { s2 with offsetTableNext := true }
            (some (some (.ok (.itemStart len))), s3)
          | .ok (.seqDelim, d) =>
            (some (some (.ok .sequenceEnd)), { s1 with dec := d, seqDelimiters := s1.seqDelimiters.drop 1, inSequence := false })
          | .ok (.itemDelim, d) => (some (some (.error .unexpectedItemTag)), { s1 with dec := d, hardBreak := true })
          | .error e => (some (some (.error e)), { s1 with hardBreak := true })
        else
          match s.dec.readValuePreserved header with
          | .ok (v, d) =>
            (some (some (.ok (.primitiveValue v))), { s with dec := d, lastHeader := none, delimiterCheckPending := true })
          | .error e => (some (some (.error e)), { s with hardBreak := true, lastHeader := none })
      | none =>
        match s.dec.decodeHeader with
        | .error _ =>
          -- EOF while reading the tag ends the data set gracefully; any other failure is an error.
          -- (the decoder fails with EOF only; "while reading the tag" = fewer than 4 bytes left)
          if s.dec.rest.length < 4 then (some none, { s with hardBreak := true })
          else (some (some (.error .eof)), { s with hardBreak := true })
        | .ok (h, d) =>
          let s1 := { s with dec := d }
          if h.vr = .SQ then
            let s2 := ({ s1 with inSequence := true }).push false h.len false
            let s3 := if h.len = 0 then { s2 with delimiterCheckPending := true } else s2
            (some (some (.ok (.sequenceStart h.tag h.len))), s3)
          else if h.tag = Tag.itemDelim then
            if s1.seqDelimiters.isEmpty then (none, s1)   -- stray delimiter: `continue`
            else (some (some (.ok .itemEnd)),
              { s1 with inSequence := true, seqDelimiters := s1.seqDelimiters.drop 1, delimiterCheckPending := true })
          else if h.isEncapsulatedPixeldata then
            (some (some (.ok .pixelSequenceStart)), { s1 with lastHeader := some h })
          else if h.len = undefinedLen then
            (some (some (.ok (.sequenceStart h.tag h.len))), ({ s1 with inSequence := true }).push false h.len false)
          else
            (some (some (.ok (.elementHeader h))), { s1 with lastHeader := some h })

/-- `Iterator::next`; the fuel bounds the `continue` loop (each `continue` consumed 8 bytes) -/
def RState.next : Nat → RState → Option (Except RErr Token) × RState
  | 0, s => (none, s)
  | fuel + 1, s =>
    if s.hardBreak then (none, s) else
    let checked : Option (Option (Except RErr Token) × RState) × RState :=
      if s.delimiterCheckPending then
        match s.updateSeqDelimiters with
        | (.error e, s') => (some (some (.error e), { s' with hardBreak := true }), s')
        | (.ok (some tok), s') => (some (some (.ok tok), s'), s')
        | (.ok none, s') => (none, s')
      else (none, s)
    match checked with
    | (some r, _) => r
    | (none, s') =>
      match s'.nextBody with
      | (some r, s'') => (r, s'')
      | (none, s'') => RState.next fuel s''

/-- run the iterator to its end: tokens produced and the error that stopped it, if any -/
def readTokens : Nat → RState → List Token × Option RErr
  | 0, _ => ([], none)
  | fuel + 1, s =>
    match s.next (s.dec.rest.length + 1) with
    | (none, _) => ([], none)
    | (some (.error e), _) => ([], some e)
    | (some (.ok t), s') =>
      let (ts, e) := readTokens fuel s'
      (t :: ts, e)

end Dicom
