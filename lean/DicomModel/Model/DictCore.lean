/-
Model of the standard data element dictionary and the SOP class dictionary
(`dictionary-std/src/data_element.rs`, `dictionary-std/src/sop_class.rs`).

* `HashMap` = association list, `insert` = cons, `get` = first match (so the latest insert of a key
  wins, as in the code); `HashSet` = list, `insert` = cons, `contains` = membership.
* `StandardDataDictionaryRegistry::index` and `init_dictionary` are folded over the entry table in
  source order, exactly as coded (every entry — also a range entry — is put in `by_tag` under its
  *inner* tag, i.e. with the open digits zeroed; range entries additionally in `repeating_ggxx` /
  `repeating_eexx`).
* `StandardDataDictionary::indexed_tag` as coded: map lookup, then the (GGxx,EEEE) mask, then the
  (GGGG,EExx) mask, then private creator, then group length.
* `specLookup` is the *statement's* precedence order, written as linear scans of the table.
A tag `(g, e)` is keyed as `g * 65536 + e`.
The tables themselves are plugged in by `Model/Dict.lean`.
-/
import DicomModel.Model.DictTypes
namespace Dicom.Dict

def tagKey (g e : Nat) : Nat := g * 65536 + e

/-- `entry.tag.inner()` of a Single / Group100 / Element100 entry -/
def Row.key (r : Row) : Nat := tagKey r.group r.elem

/-- what a dictionary query returns: nothing, a table entry, or one of the two static entries
`PRIVATE_CREATOR_ENTRY`, `GROUP_LENGTH_ENTRY` -/
inductive Ans where
  | none
  | entry (r : Row)
  | privateCreator
  | groupLength
deriving DecidableEq, Repr, Inhabited

/-- "GenericGroupLength" -/
def glAlias : Nat := 0x47656e6572696347726f75704c656e677468
/-- "PrivateCreator" -/
def pcAlias : Nat := 0x5072697661746543726561746f72
def vrUL : Nat := 0x554c
def vrLO : Nat := 0x4c4f

/-- `StandardDataDictionaryRegistry` -/
structure Registry where
  byName : List (Nat × Ans)
  byTag : List (Nat × Row)
  ggxx : List Nat
  eexx : List Nat
deriving Repr

/-- `StandardDataDictionaryRegistry::new` -/
def Registry.new : Registry := ⟨[], [], [], []⟩

/-- `StandardDataDictionaryRegistry::index` -/
def Registry.index (d : Registry) (r : Row) : Registry :=
  { byName := (r.alias, Ans.entry r) :: d.byName
    byTag := (r.key, r) :: d.byTag
    ggxx := if r.kind = 1 then r.key :: d.ggxx else d.ggxx
    eexx := if r.kind = 2 then r.key :: d.eexx else d.eexx }

/-- `init_dictionary`: index every entry in table order, then add "GenericGroupLength" to `by_name` -/
def initDictionary (entries : List Row) : Registry :=
  let d := entries.foldl Registry.index Registry.new
  { d with byName := (glAlias, Ans.groupLength) :: d.byName }

/-- `HashMap::get` -/
def mapGet {β : Type} (m : List (Nat × β)) (k : Nat) : Option β :=
  match m.find? (fun p => p.1 == k) with
  | some p => some p.2
  | none => none

/-- `HashSet::contains` -/
def setContains (s : List Nat) (k : Nat) : Bool := s.any (· == k)

/-- `StandardDataDictionary::indexed_tag` (= `by_tag`) -/
def indexedTag (d : Registry) (g e : Nat) : Ans :=
  match mapGet d.byTag (tagKey g e) with
  | some r => .entry r
  | none =>
    let viaRange : Option Row :=
      -- check tags repeating in different groups
      let groupTrimmed := tagKey (g &&& 0xFF00) e
      if setContains d.ggxx groupTrimmed then mapGet d.byTag groupTrimmed
      else
        -- check tags repeating in different elements
        let elemTrimmed := tagKey g (e &&& 0xFF00)
        if setContains d.eexx elemTrimmed then mapGet d.byTag elemTrimmed
        else none
    match viaRange with
    | some r => .entry r
    | none =>
      -- check for private creator
      if g &&& 1 = 1 ∧ 0x0010 ≤ e ∧ e ≤ 0x00FF then .privateCreator
      -- check for group length
      else if e = 0 then .groupLength
      else .none

/-- `by_name` -/
def byName (d : Registry) (alias : Nat) : Ans :=
  match mapGet d.byName alias with
  | some a => a
  | none => .none

/-! ### the specification (statement of C15) -/

/-- the tags an entry stands for: `Single` its tag; `Group100` (GGxx,EEEE); `Element100` (GGGG,EExx) -/
def Row.covers (r : Row) (g e : Nat) : Bool :=
  if r.kind = 0 then r.group == g && r.elem == e
  else if r.kind = 1 then r.group / 256 == g / 256 && r.elem == e
  else r.group == g && r.elem / 256 == e / 256

/-- "the exact entry if one exists, otherwise the repeating-group or repeating-element entry that
covers it, otherwise the private creator entry for (odd group, 0010-00FF), otherwise the generic
group length entry for element 0000, otherwise nothing" -/
def specLookup (entries : List Row) (g e : Nat) : Ans :=
  match entries.find? (fun r => r.kind == 0 && r.covers g e) with
  | some r => .entry r
  | none =>
    match entries.find? (fun r => r.kind != 0 && r.covers g e) with
    | some r => .entry r
    | none =>
      if g % 2 = 1 ∧ 0x10 ≤ e ∧ e ≤ 0xFF then .privateCreator
      else if e = 0 then .groupLength
      else .none

/-- Decidable well-formedness of an entry table (proved of the generated table in `Props/C15`,
and evaluated by the driver): 16-bit fields, known kinds, range entries have their open byte zeroed,
and no repeating-group entry overlaps a repeating-element entry. -/
def tableCheck (entries : List Row) : Bool :=
  entries.all (fun r =>
    decide (r.group < 65536) && decide (r.elem < 65536) && decide (r.kind ≤ 2) &&
    (r.kind != 1 || r.group % 256 == 0) && (r.kind != 2 || r.elem % 256 == 0)) &&
  (entries.filter (fun r => r.kind == 1)).all (fun r1 =>
    (entries.filter (fun r => r.kind == 2)).all (fun r2 =>
      !(r1.group / 256 == r2.group / 256 && r1.elem / 256 == r2.elem / 256)))

/-- One line of `tags.rs` seen three ways — the `pub const` declaration `c` (with its doc line), the
reference `ref = (constant name, 1 if written `Single(NAME)` else 0)` in the `ENTRIES` row, and the
resolved row `r` — agree: the row refers to this constant, the constant's value is the row's tag
(a plain `Tag` constant for a `Single` row, a `TagRange` constant of the same kind otherwise), and
the doc line names the same keyword and the same tag or tag range. -/
def constRowOk (c : Const) (ref : Nat × Nat) (r : Row) : Bool :=
  Nat.beq c.name ref.1 &&
  (bif Nat.beq c.kind 3 then Nat.beq ref.2 1 && Nat.beq r.kind 0
   else Nat.beq ref.2 0 && Nat.beq r.kind c.kind) &&
  Nat.beq r.group c.group && Nat.beq r.elem c.elem &&
  Nat.beq c.docAlias r.alias &&
  Nat.beq c.docGLo r.group && Nat.beq c.docELo r.elem &&
  Nat.beq c.docGHi (bif Nat.beq r.kind 1 then r.group + 255 else r.group) &&
  Nat.beq c.docEHi (bif Nat.beq r.kind 2 then r.elem + 255 else r.elem)

/-- the three tables agree line by line (and have the same length) -/
def constsCheck : List Const → List (Nat × Nat) → List Row → Bool
  | [], [], [] => true
  | c :: cs, f :: fs, r :: rs => constRowOk c f r && constsCheck cs fs rs
  | _, _, _ => false

/-- rows that a query for a tag of group `g` can possibly touch -/
def relevant (g : Nat) (r : Row) : Bool := r.group == g || r.group == (g &&& 0xFF00)

/-! ### SOP class dictionary (`sop_class.rs`) -/

structure UidRegistry where
  byKeyword : List (Nat × UidRow)
  byUid : List (Nat × UidRow)

/-- `StandardUidRegistry::index_all` (`HashMap::extend` inserts in iteration order) -/
def UidRegistry.indexAll (d : UidRegistry) (entries : List UidRow) : UidRegistry :=
  { byKeyword := entries.foldl (fun m e => (e.alias, e) :: m) d.byKeyword
    byUid := entries.foldl (fun m e => (e.uid, e) :: m) d.byUid }

def byKeyword (d : UidRegistry) (k : Nat) : Option UidRow := mapGet d.byKeyword k
def byUid (d : UidRegistry) (u : Nat) : Option UidRow := mapGet d.byUid u

end Dicom.Dict
