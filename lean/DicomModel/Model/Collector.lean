/-
Model of the collector API and of the stop options of `build_object`:
  object/src/collector.rs   DicomCollector: `collect_elements` (peek-driven loop with `read_until` / `read_to`),
                            `collect_sequence`, `build_encapsulated_data` (the `first` flag), `read_dataset_up_to`,
                            `read_dataset_to_end`, `skip_until`, `read_next_fragment`, `read_basic_offset_table`,
                            `CollectorState`
  object/src/mem.rs         `build_object` with `read_until` / `read_to` (OpenFileOptions)
The file meta group (preamble, DICM, `FileMetaTable::from_reader`) is C09's subject: the collector model
starts in state `FileMeta` on the data set bytes, with the transfer syntax the meta group names.

=== API (namespace `Dicom`) ===
  CState, CErr, Coll        collector state (lazy reader + `CollectorState`)
  Coll.collectElements fuel inItem readUntil readTo c   : Except CErr (List Elem × Coll)   (elements in stream order)
  Coll.readDatasetUpTo / readDatasetToEnd               : Except CErr (List Elem × Coll)   (the elements `extend`ed)
  Coll.readNextFragment fuel / readBasicOffsetTable fuel
  objectOf es               `InMemDicomObject::extend` / BTreeMap insertion of a list of elements
  buildObjectS              `build_object` with the two stop tags (top level)
  stopAt readUntil readTo t the stop rule shared by `build_object` and `collect_elements`
-/
import DicomModel.Model.LazyReader
import DicomModel.Model.Build
namespace Dicom

inductive CState where
  | fileMeta | inDataset | inPixelData
  /-- the last fragment (or the native value) of the pixel data element has been read (fix 4dbd2d8) -/
  | pixelDataEnd
deriving DecidableEq, Repr

inductive CErr where
  | read (e : LErr)
  | value (e : RErr)
  | unexpectedToken
  | missingValue
  | prematureEnd
  | illegalState
  /-- the model's loop fuel ran out (never with fuel ≥ number of bytes + 2) -/
  | fuel
deriving DecidableEq, Repr

structure Coll where
  rd : LState
  state : CState

def Coll.new (ts : Syntax) (dict : Tag → Option VR) (bs : Bytes) : Coll := ⟨LState.new ts dict bs, .fileMeta⟩

def Tag.le (a b : Tag) : Bool := !(b.lt a)

/-- the stop rule: `read_until.map(|t| t <= tag)` (exclusive) or `read_to.map(|t| t < tag)` (inclusive) -/
def stopAt (readUntil readTo : Option Tag) (tag : Tag) : Bool :=
  (match readUntil with | some t => t.le tag | none => false) ||
  (match readTo with | some t => t.lt tag | none => false)

/-- `BTreeMap` insertion of elements in the given order -/
def objectOf (es : List Elem) : List Elem := es.foldl (fun acc e => insertElem e acc) []

/-- `build_encapsulated_data` of the collector (after fix 1b02116): the value of the FIRST item is the basic
offset table (`offset_table.is_none()`), every other item value is a fragment; a zero-length item yields no
value token: the first one is the empty offset table, a later one an empty fragment (`hasValue` =
`item_has_value`) -/
def collBuildEncapsulated : Nat → LState → Option (List Nat) → List Bytes → Bool → Except CErr (List Nat × List Bytes × LState)
  | 0, _, _, _, _ => .error .fuel
  | fuel + 1, s, ot, fr, hasValue =>
    match s.advance with
    | (none, s') => .ok (ot.getD [], fr, s')
    | (some (.error e), _) => .error (.read e)
    | (some (.ok (.lazyItemValue len)), s') =>
      match ot with
      | none =>
        match s'.dec.readU32ToVec len with
        | .ok (t, d) => collBuildEncapsulated fuel { s' with dec := d } (some t) fr true
        | .error e => .error (.value e)
      | some t =>
        match s'.dec.readToVec len with
        | .ok (v, d) => collBuildEncapsulated fuel { s' with dec := d } (some t) (fr ++ [v]) true
        | .error e => .error (.value e)
    | (some (.ok (.tok .itemEnd)), s') =>
      match ot with
      | none => collBuildEncapsulated fuel s' (some []) fr false
      | some t => collBuildEncapsulated fuel s' (some t) (if hasValue then fr else fr ++ [[]]) false
    | (some (.ok (.tok (.itemStart _))), s') => collBuildEncapsulated fuel s' ot fr hasValue
    | (some (.ok (.tok .sequenceEnd)), s') => .ok (ot.getD [], fr, s')
    | (some (.ok _), _) => .error .unexpectedToken

/-- the tag an element-level token announces (what the stop rule is applied to) -/
def tokTag : Token → Option Tag
  | .pixelSequenceStart => some Tag.pixelData
  | .elementHeader h => some h.tag
  | .sequenceStart tag _ => some tag
  | _ => none

mutual
/-- one element of `collect_elements`, after its first token `tok` was peeked (and passed the stop rule) -/
def collectOne : Nat → Token → Coll → Except CErr (Elem × Coll)
  | 0, _, _ => .error .fuel
  | fuel + 1, tok, c =>
    match tok with
    | .pixelSequenceStart =>
      let rd2 := c.rd.advance.2
      match collBuildEncapsulated fuel rd2 none [] false with
      | .ok (ot, fr, rd3) => .ok (.pix ot fr, ⟨rd3, .inPixelData⟩)
      | .error e => .error e
    | .elementHeader h =>
      let rd2 := c.rd.advance.2
      match rd2.advance with
      | (none, _) => .error .missingValue
      | (some (.error e), _) => .error (.read e)
      | (some (.ok (.lazyValue h')), rd3) =>
        match rd3.dec.readValuePreserved h' with
        | .ok (v, d) => .ok (.prim h.tag h.vr h.len v, ⟨{ rd3 with dec := d }, .inDataset⟩)
        | .error e => .error (.value e)
      | (some (.ok (.lazyItemValue _)), _) => .error .unexpectedToken   -- `into_value` refuses an item value
      | (some (.ok (.tok _)), _) => .error .unexpectedToken
    | .sequenceStart tag len =>
      let rd2 := c.rd.advance.2
      match collectSequence fuel ⟨rd2, .inDataset⟩ [] with
      | .ok (items, c3) => .ok (.seq tag len (itemsOfList items), c3)
      | .error e => .error e
    | _ => .error .unexpectedToken
/-- `collect_elements`: peek; end of item; stop rule; one element; again -/
def collectElements : Nat → Bool → Option Tag → Option Tag → Coll → List Elem → Except CErr (List Elem × Coll)
  | 0, _, _, _, _, _ => .error .fuel
  | fuel + 1, inItem, ru, rt, c, acc =>
    match c.rd.peek with
    | (.error e, _) => .error (.read e)
    | (.ok none, rd1) => .ok (acc, { c with rd := rd1 })
    | (.ok (some tok), rd1) =>
      if tok = .itemEnd then
        (if inItem then .ok (acc, { c with rd := rd1.advance.2 }) else .error .unexpectedToken)
      else
      match tokTag tok with
      | none => .error .unexpectedToken
      | some tag =>
        if stopAt ru rt tag then .ok (acc, { c with rd := rd1 }) else
        match collectOne fuel tok { c with rd := rd1 } with
        | .ok (e, c') => collectElements fuel inItem ru rt c' (acc ++ [e])
        | .error e => .error e
/-- `collect_sequence`; every item is an object (`collect_to_object` = elements inserted into a new object) -/
def collectSequence : Nat → Coll → List (Nat × Elems) → Except CErr (List (Nat × Elems) × Coll)
  | 0, _, _ => .error .fuel
  | fuel + 1, c, acc =>
    match c.rd.advance with
    | (none, _) => .error .prematureEnd
    | (some (.error e), _) => .error (.read e)
    | (some (.ok (.tok (.itemStart _))), rd1) =>
      match collectElements fuel true none none { c with rd := rd1 } [] with
      | .ok (es, c2) =>
        -- `new_empty_with_dict` + `extend`: the recorded item length is lost (undefined)
        collectSequence fuel c2 (acc ++ [(undefinedLen, elemsOfList (objectOf es))])
      | .error e => .error e
    | (some (.ok (.tok .sequenceEnd)), rd1) => .ok (acc, { c with rd := rd1 })
    | (some (.ok _), _) => .error .unexpectedToken
end

/-- `read_dataset_up_to(stop)`: the elements collected (to be `extend`ed into the caller's object) -/
def Coll.readDatasetUpTo (fuel : Nat) (stop : Tag) (c : Coll) : Except CErr (List Elem × Coll) :=
  collectElements fuel false (some stop) none c []

/-- `read_dataset_to_end` -/
def Coll.readDatasetToEnd (fuel : Nat) (c : Coll) : Except CErr (List Elem × Coll) :=
  collectElements fuel false none none c []

/-- the predicate of `skip_until` in the two fragment functions -/
def isPixelStart : LTok → Bool
  | .tok (.elementHeader h) => h.tag = Tag.pixelData && h.len ≠ undefinedLen
  | .tok .pixelSequenceStart => true
  | _ => false

/-- `skip_until`: `(found, collector)` -/
def skipUntilPixel : Nat → Coll → Except CErr (Bool × Coll)
  | 0, _ => .error .fuel
  | fuel + 1, c =>
    match c.rd.advance with
    | (none, rd1) => .ok (false, { c with rd := rd1 })
    | (some (.error e), _) => .error (.read e)
    | (some (.ok t), rd1) =>
      if isPixelStart t then .ok (true, { c with rd := rd1 }) else
      match t.skip rd1.dec with
      | .ok d => skipUntilPixel fuel ⟨{ rd1 with dec := d }, .inDataset⟩
      | .error e => .error (.value e)

/-- the token loop of `read_next_fragment`: result, whether the pixel data element is now finished
(native value read, or `SequenceEnd` met — fix 4dbd2d8), reader -/
def nextFragmentLoop : Nat → LState → Except CErr (Option (Nat × Bytes) × Bool × LState)
  | 0, _ => .error .fuel
  | fuel + 1, s =>
    match s.advance with
    | (none, s') => .ok (none, false, s')
    | (some (.error e), _) => .error (.read e)
    | (some (.ok (.lazyValue h)), s') =>
      match s'.dec.readToVec h.len with
      | .ok (v, d) => .ok (some (h.len, v), true, { s' with dec := d })
      | .error e => .error (.value e)
    | (some (.ok (.tok .sequenceEnd)), s') => .ok (none, true, s')
    | (some (.ok (.lazyItemValue len)), s') =>
      match s'.dec.readToVec len with
      | .ok (v, d) => .ok (some (len, v), false, { s' with dec := d })
      | .error e => .error (.value e)
    | (some (.ok (.tok (.itemStart 0))), s') => .ok (some (0, []), false, s')
    | (some (.ok _), s') => nextFragmentLoop fuel s'

/-- `read_next_fragment` -/
def Coll.readNextFragment (fuel : Nat) (c : Coll) : Except CErr (Option (Nat × Bytes) × Coll) :=
  if c.state = .pixelDataEnd then .ok (none, c) else
  let pre : Except CErr Coll :=
    if c.state ≠ .inPixelData then
      match skipUntilPixel fuel c with
      | .ok (_, c1) => .ok { c1 with state := .inPixelData }
      | .error e => .error e
    else .ok c
  match pre with
  | .error e => .error e
  | .ok c1 =>
    match nextFragmentLoop fuel c1.rd with
    | .ok (r, ended, rd) => .ok (r, ⟨rd, if ended then .pixelDataEnd else c1.state⟩)
    | .error e => .error e

/-- the token loop of `read_basic_offset_table` -/
def offsetTableLoop : Nat → LState → Except CErr (Option (Nat × List Nat) × LState)
  | 0, _ => .error .fuel
  | fuel + 1, s =>
    match s.advance with
    | (none, s') => .ok (none, s')
    | (some (.error e), _) => .error (.read e)
    | (some (.ok (.lazyValue _)), s') => .ok (none, s')   -- native pixel data: no table (the value is left unread)
    | (some (.ok (.lazyItemValue len)), s') =>
      match s'.dec.readU32ToVec len with
      | .ok (t, d) => .ok (some (len, t), { s' with dec := d })
      | .error e => .error (.value e)
    | (some (.ok (.tok (.itemStart 0))), s') => .ok (some (0, []), s')
    | (some (.ok _), s') => offsetTableLoop fuel s'

/-- `read_basic_offset_table` -/
def Coll.readBasicOffsetTable (fuel : Nat) (c : Coll) : Except CErr (Option (Nat × List Nat) × Coll) :=
  if c.state = .inPixelData ∨ c.state = .pixelDataEnd then .error .illegalState else
  match skipUntilPixel fuel c with
  | .error e => .error e
  | .ok (_, c1) =>
    match offsetTableLoop fuel c1.rd with
    | .ok (r, rd) => .ok (r, ⟨rd, .inPixelData⟩)
    | .error e => .error e

/-! ### `build_object` with stop tags (OpenFileOptions::read_until / read_to) -/

/-- `build_object(dataset, …, read_until, read_to)` at the top level of a file; nested items are built with
no stop tags (`buildSequence` of Model/Build.lean) -/
def buildObjectS (ru rt : Option Tag) : Nat → List Token → List Elem → Except BErr (List Elem)
  | 0, _, _ => .error .prematureEnd
  | _ + 1, [], acc => .ok acc
  | fuel + 1, tok :: rest, acc =>
    match tok with
    | .pixelSequenceStart =>
      if stopAt ru rt Tag.pixelData then .ok acc else
      match buildEncapsulated rest none [] false with
      | .ok (ot, fr, rest') => buildObjectS ru rt fuel rest' (insertElem (.pix ot fr) acc)
      | .error e => .error e
    | .elementHeader h =>
      if stopAt ru rt h.tag then .ok acc else
      match rest with
      | [] => .error .missingElementValue
      | .primitiveValue v :: rest' => buildObjectS ru rt fuel rest' (insertElem (.prim h.tag h.vr h.len v) acc)
      | _ :: _ => .error .unexpectedToken
    | .sequenceStart tag len =>
      if stopAt ru rt tag then .ok acc else
      match buildSequence fuel rest [] with
      | .ok (items, rest') => buildObjectS ru rt fuel rest' (insertElem (.seq tag len (itemsOfList items)) acc)
      | .error e => .error e
    | _ => .error .unexpectedToken

end Dicom
