/-
Model of the Modality / VOI LUT pipeline of dicom-pixeldata:
`Rescale::apply`, `WindowLevelTransform::{new, apply}`, `window_level_linear`,
`window_level_linear_exact`, `window_level_sigmoid` (pixeldata/src/transform.rs),
`Lut::new_with_fn`, `new_rescale`, `new_rescale_and_window(_8bit)`, `new_window(_8bit)`, `get`
(pixeldata/src/lut.rs) and the sample extraction / LUT selection of
`DecodedPixelData::convert_pixel_slice` (pixeldata/src/lib.rs).

Everything numeric is written once, over a record of operations `Ops α`; it is instantiated with
`Float` (IEEE binary64, the code's `f64`) in the driver for execution and with `Rat` in
`Props/C22.lean` for the theorems. Core Lean only (no imports besides the shared model files).
-/
import DicomModel.Model.Util
namespace Dicom.Lut

/-- the operations of `f64` that the code uses -/
structure Ops (α : Type) where
  ofInt : Int → α
  half : α
  add : α → α → α
  sub : α → α → α
  mul : α → α → α
  div : α → α → α
  le : α → α → Bool
  lt : α → α → Bool
  /-- `f64::max` -/
  max : α → α → α
  exp : α → α
  /-- `as` conversion to an integer, toward zero (only used inside the target type's range) -/
  trunc : α → Int
  /-- `as f32` (rounding to single precision) -/
  toF32 : α → α

inductive VoiFn where
  | linear
  | linearExact
  | sigmoid
deriving DecidableEq, Repr

/-- `Rescale::apply`: `slope * value + intercept` -/
def rescale {α : Type} (o : Ops α) (slope intercept x : α) : α := o.add (o.mul slope x) intercept

/-- `WindowLevelTransform::new`: the width is clamped to `>= 0` (LINEAR_EXACT) or `>= 1` -/
def clampWidth {α : Type} (o : Ops α) (fn : VoiFn) (w : α) : α :=
  match fn with
  | .linearExact => o.max w (o.ofInt 0)
  | _ => o.max w (o.ofInt 1)

/-- `window_level_linear` (PS3.3 C.11.2.1.2.1, `ymin = 0`) -/
def windowLinear {α : Type} (o : Ops α) (x ww wc ymax : α) : α :=
  let lo := o.sub (o.sub wc o.half) (o.div (o.sub ww (o.ofInt 1)) (o.ofInt 2))
  let hi := o.add (o.sub wc o.half) (o.div (o.sub ww (o.ofInt 1)) (o.ofInt 2))
  if o.le x lo then o.ofInt 0
  else if o.lt hi x then ymax
  else o.mul (o.add (o.div (o.sub x (o.sub wc o.half)) (o.sub ww (o.ofInt 1))) o.half) ymax

/-- `window_level_linear_exact` (C.11.2.1.3.2) -/
def windowLinearExact {α : Type} (o : Ops α) (x ww wc ymax : α) : α :=
  let lo := o.sub wc (o.div ww (o.ofInt 2))
  let hi := o.add wc (o.div ww (o.ofInt 2))
  if o.le x lo then o.ofInt 0
  else if o.lt hi x then ymax
  else o.mul (o.add (o.div (o.sub x wc) ww) o.half) ymax

/-- `window_level_sigmoid` (C.11.2.1.3.1): `y_max / (1 + exp(-4 * (x - c) / w))` -/
def windowSigmoid {α : Type} (o : Ops α) (x ww wc ymax : α) : α :=
  o.div ymax (o.add (o.ofInt 1) (o.exp (o.div (o.mul (o.ofInt (-4)) (o.sub x wc)) ww)))

/-- `WindowLevelTransform::apply` of a transform built by `WindowLevelTransform::new` -/
def applyWindow {α : Type} (o : Ops α) (fn : VoiFn) (width center : α) (x ymax : α) : α :=
  let ww := clampWidth o fn width
  match fn with
  | .linear => windowLinear o x ww center ymax
  | .linearExact => windowLinearExact o x ww center ymax
  | .sigmoid => windowSigmoid o x ww center ymax

/-! ## The table -/

/-- `Lut::new_with_fn`: the input value of table index `i` (two's complement when `signed`) -/
def lutInput (bitsStored : Nat) (signed : Bool) (i : Nat) : Int :=
  if signed ∧ 2 ^ bitsStored / 2 ≤ i then (i : Int) - (2 ^ bitsStored : Nat) else (i : Int)

/-- `Lut::get`: `sample & sample_mask`, `sample_mask = 2^bits_stored - 1` -/
def sampleIndex (bitsStored : Nat) (sample : Nat) : Nat := sample % 2 ^ bitsStored

/-- `usize::next_power_of_two` -/
def nextPow2 (n : Nat) : Nat := if n ≤ 1 then 1 else if n ≤ 2 then 2 else if n ≤ 4 then 4
  else if n ≤ 8 then 8 else if n ≤ 16 then 16 else if n ≤ 32 then 32 else 64

/-- `y_max = (1 << bits_stored.next_power_of_two()) - 1` of `new_rescale_and_window` / `new_window` -/
def yMax (bitsStored : Nat) : Int := 2 ^ nextPow2 bitsStored - 1

/-- which constructor of `Lut` is used -/
inductive Kind where
  | rescaleOnly            -- `new_rescale`
  | rescaleWindow          -- `new_rescale_and_window`
  | windowOnly             -- `new_window`
  | rescaleWindow8         -- `Lut::<u8>::new_rescale_and_window_8bit`
  | window8                -- `Lut::<u8>::new_window_8bit`
deriving DecidableEq, Repr

structure Cfg (α : Type) where
  kind : Kind
  bitsStored : Nat
  signed : Bool
  slope : α
  intercept : α
  fn : VoiFn
  width : α
  center : α

/-- the closure passed to `new_with_fn` -/
def lutFn {α : Type} (o : Ops α) (c : Cfg α) (x : α) : α :=
  match c.kind with
  | .rescaleOnly => rescale o c.slope c.intercept x
  | .rescaleWindow =>
    applyWindow o c.fn c.width c.center (rescale o c.slope c.intercept x) (o.ofInt (yMax c.bitsStored))
  | .windowOnly => applyWindow o c.fn c.width c.center x (o.ofInt (yMax c.bitsStored))
  | .rescaleWindow8 =>
    applyWindow o c.fn c.width c.center (rescale o c.slope c.intercept x) (o.ofInt 255)
  | .window8 => applyWindow o c.fn c.width c.center x (o.ofInt 255)

/-- the value of table entry `i` before conversion to the output type -/
def lutValue {α : Type} (o : Ops α) (c : Cfg α) (i : Nat) : α :=
  lutFn o c (o.ofInt (lutInput c.bitsStored c.signed i))

/-! ## Output conversion (`NumCast::from::<f64>`) -/

inductive OutT where
  | u8 | u16 | i16 | i32 | f32 | f64
deriving DecidableEq, Repr

inductive OutVal (α : Type) where
  | int (n : Int)
  | flt (x : α)

/-- `(lo, hi)`: the cast succeeds iff `lo < value < hi` (num-traits `float_to_int`), giving
`value as T` (truncation toward zero) -/
def OutT.bounds : OutT → Option (Int × Int)
  | .u8 => some (-1, 256)
  | .u16 => some (-1, 65536)
  | .i16 => some (-32769, 32768)
  | .i32 => some (-2147483649, 2147483648)
  | .f32 => none
  | .f64 => none

/-- `T::from(value)`; `none` = `CreateLutError` -/
def convert {α : Type} (o : Ops α) (t : OutT) (v : α) : Option (OutVal α) :=
  match t.bounds with
  | some (lo, hi) =>
    if o.lt (o.ofInt lo) v ∧ o.lt v (o.ofInt hi) then some (.int (o.trunc v)) else none
  | none => if t = .f32 then some (.flt (o.toF32 v)) else some (.flt v)

/-- entry `i` of the table of `Lut<T>`, or `none` when the constructor fails there -/
def lutEntry {α : Type} (o : Ops α) (c : Cfg α) (t : OutT) (i : Nat) : Option (OutVal α) :=
  convert o t (lutValue o c i)

/-- `Lut::get(sample)` of a successfully built table -/
def lutGet {α : Type} (o : Ops α) (c : Cfg α) (t : OutT) (sample : Nat) : Option (OutVal α) :=
  lutEntry o c t (sampleIndex c.bitsStored sample)

/-! ## `convert_pixel_slice`: which table is built for an image -/

/-- bits stored handed to the `Lut` constructors: `self.bits_stored`, in the 8-bit arm clamped to
1..=8 (finding `bits-stored-ignored-8bit`, repaired: the arm used to pass the constant 8) -/
def lutBitsFor (bitsAllocated bitsStored : Nat) : Nat :=
  if bitsAllocated = 8 then (if bitsStored < 1 then 1 else if 8 < bitsStored then 8 else bitsStored)
  else bitsStored

/-- the stored value as the property reads it: the low `bitsStored` bits of the sample,
two's complement when `signed` -/
def storedValue (bitsStored : Nat) (signed : Bool) (sample : Nat) : Int :=
  let v := sample % 2 ^ bitsStored
  if signed ∧ 2 ^ (bitsStored - 1) ≤ v then (v : Int) - (2 ^ bitsStored : Nat) else (v : Int)

/-! ## `Float` instance (execution) -/

def fmax (a b : Float) : Float :=
  if a.isNaN then b else if b.isNaN then a else if a < b then b else a

def floatOps : Ops Float where
  ofInt := Float.ofInt
  half := 0.5
  add := (· + ·)
  sub := (· - ·)
  mul := (· * ·)
  div := (· / ·)
  le := fun a b => a ≤ b
  lt := fun a b => a < b
  max := fmax
  exp := Float.exp
  trunc := fun v => v.toInt64.toInt
  toF32 := fun v => v.toFloat32.toFloat

end Dicom.Lut
