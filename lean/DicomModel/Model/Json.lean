/-
DICOM JSON (crate `dicom-json`): executable model of
  * the serialiser  `json/src/ser/{mod,value}.rs`  (`toJson`), and
  * the deserialiser `json/src/de/{mod,value}.rs`   (`fromJson`),
over an abstract JSON tree `J` (what `serde_json` hands to / receives from the crate; the JSON
*text* layer is a parameter of the properties) and a typed data-set tree `Elem`.

Conventions: strings are UTF-8 byte lists; a tag is `g * 65536 + e`; floats are IEEE bit patterns
(`Model/JsonFloat.lean`); a Rust panic is the outcome `panic` (never an artefact of totality).
Date/time values are abstracted by the two texts the JSON code asks of them
(`to_encoded()` and `to_string()`); their own syntax is property C12.
-/
import DicomModel.Model.Util
import DicomModel.Model.Bytes
import DicomModel.Model.VR
import DicomModel.Model.JsonFloat
import DicomModel.Gen.JsonVrTables
namespace Dicom.Json
open Dicom.Flt

/-! ## outcomes -/

inductive Outcome (α : Type) where
  | ok (a : α)
  | err
  | panic
deriving DecidableEq, Repr

def Outcome.bind {α β : Type} (x : Outcome α) (f : α → Outcome β) : Outcome β :=
  match x with
  | .ok a => f a
  | .err => .err
  | .panic => .panic

def Outcome.map {α β : Type} (f : α → β) (x : Outcome α) : Outcome β :=
  x.bind fun a => .ok (f a)

def ofOption {α : Type} : Option α → Outcome α
  | some a => .ok a
  | none => .err

/-- `Option::expect` / `unwrap` -/
def expect {α : Type} : Option α → Outcome α
  | some a => .ok a
  | none => .panic

/-- `ensure!(c, …)` -/
def ensure (c : Bool) : Outcome Unit := if c then .ok () else .err

/-! ## JSON trees (`serde_json::Value`, plus duplicate object members as a text may have them) -/

/-- `serde_json::Number` without `arbitrary_precision`: `PosInt(u64) | NegInt(i64 < 0) | Float(f64)`.
`neg n` stands for `-n` (`n ≥ 1`). -/
inductive Num where
  | pos (n : Nat)
  | neg (n : Nat)
  | flt (bits : Nat)
deriving DecidableEq, Repr

inductive J where
  | null
  | bool (b : Bool)
  | num (n : Num)
  | str (s : Bytes)
  | arr (xs : List J)
  | obj (ms : List (Bytes × J))
deriving Repr

/-! ## data sets (`InMemDicomObject`, `InMemElement`, `PrimitiveValue`) -/

/-- `dicom_core::PrimitiveValue`.  Dates/times: per item `(to_encoded(), to_string())`. -/
inductive Prim where
  | empty
  | strs (l : List Bytes)
  | str (s : Bytes)
  | tags (l : List Nat)
  | u8 (l : List Nat)
  | i16 (l : List Int)
  | u16 (l : List Nat)
  | i32 (l : List Int)
  | u32 (l : List Nat)
  | i64 (l : List Int)
  | u64 (l : List Nat)
  | f32 (l : List Nat)
  | f64 (l : List Nat)
  | date (l : List (Bytes × Bytes))
  | dateTime (l : List (Bytes × Bytes))
  | time (l : List (Bytes × Bytes))
deriving DecidableEq, Repr

/-- a data element; a data set is the list of its elements in the iteration order of the
`BTreeMap<Tag, _>` (strictly ascending tags: `Sorted`, below). -/
inductive Elem where
  | prim (tag : Nat) (vr : VR) (p : Prim)
  | seq (tag : Nat) (vr : VR) (items : List (List Elem))
  | pix (tag : Nat) (vr : VR)
deriving Repr

abbrev DataSet := List Elem

def Elem.tag : Elem → Nat
  | .prim t _ _ => t
  | .seq t _ _ => t
  | .pix t _ => t

def Elem.vr : Elem → VR
  | .prim _ v _ => v
  | .seq _ v _ => v
  | .pix _ v => v

/-! ## text helpers -/

def ascii (s : String) : Bytes := s.toList.map Char.toNat

def hexUp (n : Nat) : Nat := if n < 10 then 48 + n else 55 + n
/-- `format!("{:04X}", n)` for a `u16` -/
def hex4 (n : Nat) : Bytes :=
  [hexUp (n / 4096 % 16), hexUp (n / 256 % 16), hexUp (n / 16 % 16), hexUp (n % 16)]
/-- `format!("{g:04X}{e:04X}")` — `Serialize for DicomJson<Tag>` -/
def tagKey (t : Nat) : Bytes := hex4 (t / 65536 % 65536) ++ hex4 (t % 65536)
/-- `Display for Tag`: `(GGGG,EEEE)` -/
def tagDisplay (t : Nat) : Bytes := [40] ++ hex4 (t / 65536 % 65536) ++ [44] ++ hex4 (t % 65536) ++ [41]

/-- `VR::to_string` -/
def vrName : VR → Bytes
  | .AE => [65, 69] | .AS => [65, 83] | .AT => [65, 84] | .CS => [67, 83] | .DA => [68, 65]
  | .DS => [68, 83] | .DT => [68, 84] | .FL => [70, 76] | .FD => [70, 68] | .IS => [73, 83]
  | .LO => [76, 79] | .LT => [76, 84] | .OB => [79, 66] | .OD => [79, 68] | .OF => [79, 70]
  | .OL => [79, 76] | .OV => [79, 86] | .OW => [79, 87] | .PN => [80, 78] | .SH => [83, 72]
  | .SL => [83, 76] | .SQ => [83, 81] | .SS => [83, 83] | .ST => [83, 84] | .SV => [83, 86]
  | .TM => [84, 77] | .UC => [85, 67] | .UI => [85, 73] | .UL => [85, 76] | .UN => [85, 78]
  | .UR => [85, 82] | .US => [85, 83] | .UT => [85, 84] | .UV => [85, 86]

def allVRs : List VR :=
  [.AE, .AS, .AT, .CS, .DA, .DS, .DT, .FL, .FD, .IS, .LO, .LT, .OB, .OD, .OF, .OL, .OV, .OW,
   .PN, .SH, .SL, .SQ, .SS, .ST, .SV, .TM, .UC, .UI, .UL, .UN, .UR, .US, .UT, .UV]

/-- `VR::from_str` -/
def parseVR (s : Bytes) : Option VR := allVRs.find? fun v => vrName v == s

/-- `n.to_string()` for a signed integer -/
def intDec (i : Int) : Bytes := if i < 0 then 45 :: toDec i.natAbs else toDec i.toNat

def dropWhileEndPad : Bytes → Bytes
  | [] => []
  | b :: r =>
    match dropWhileEndPad r with
    | [] => if b == 32 || b == 0 then [] else [b]
    | r' => b :: r'
/-- `s.trim_end_matches([' ', '\0'])` -/
def trimEnd (s : Bytes) : Bytes := dropWhileEndPad s

/-- `a.join("\\")` -/
def joinBs : List Bytes → Bytes
  | [] => []
  | [a] => a
  | a :: r => a ++ 92 :: joinBs r

/-- `s.split('\\')` (always at least one part) -/
def splitBs : Bytes → List Bytes
  | [] => [[]]
  | b :: r =>
    match splitBs r with
    | [] => [[b]]      -- not reached: `splitBs` is never empty
    | p :: ps => if b == 92 then [] :: p :: ps else (b :: p) :: ps

/-! ## `PrimitiveValue` conversions used by the serialiser (`core/src/value/primitive.rs`) -/

/-- `Display` of every item (`seq_to_str` in `to_multi_str` / `Display for PrimitiveValue`) -/
def displayItems : Prim → List Bytes
  | .empty => []
  | .strs l => l
  | .str s => [s]
  | .tags l => l.map tagDisplay
  | .u8 l => l.map toDec
  | .i16 l => l.map intDec
  | .u16 l => l.map toDec
  | .i32 l => l.map intDec
  | .u32 l => l.map toDec
  | .i64 l => l.map intDec
  | .u64 l => l.map toDec
  | .f32 l => l.map (display b32)
  | .f64 l => l.map (display b64)
  | .date l => l.map (·.2)
  | .dateTime l => l.map (·.2)
  | .time l => l.map (·.2)

/-- `PrimitiveValue::to_str` -/
def toStr : Prim → Bytes
  | .empty => []
  | .str s => trimEnd s
  | .strs l => match l with
    | [a] => trimEnd a
    | _ => joinBs (l.map trimEnd)
  | p => joinBs (displayItems p)

/-- `PrimitiveValue::to_multi_str` -/
def toMultiStr : Prim → List Bytes
  | .empty => []
  | .str s => [toStr (.str s)]
  | .strs l => splitBs (toStr (.strs l))
  | .date l => l.map (·.1)
  | .dateTime l => l.map (·.1)
  | .time l => l.map (·.1)
  | p => displayItems p

def twos (bits : Nat) (i : Int) : Nat := (i % (2 ^ bits : Nat)).toNat

/-- `PrimitiveValue::to_bytes` on a little-endian host -/
def toBytes : Prim → Bytes
  | .empty => []
  | .u8 l => l
  | .u16 l => l.flatMap le16
  | .i16 l => l.flatMap fun v => le16 (twos 16 v)
  | .u32 l => l.flatMap le32
  | .i32 l => l.flatMap fun v => le32 (twos 32 v)
  | .i64 l => l.flatMap fun v => le64 (twos 64 v)
  | .u64 l => l.flatMap le64
  | .f32 l => l.flatMap le32
  | .f64 l => l.flatMap le64
  | .str s => s
  | .strs l => match l with
    | [a] => a
    | _ => joinBs l
  | p => toStr p

/-- `PrimitiveValue::multiplicity() > 0` -/
def Prim.nonEmpty : Prim → Bool
  | .empty => false
  | .strs l => !l.isEmpty
  | .str _ => true
  | .tags l => !l.isEmpty
  | .u8 l => !l.isEmpty
  | .i16 l => !l.isEmpty
  | .u16 l => !l.isEmpty
  | .i32 l => !l.isEmpty
  | .u32 l => !l.isEmpty
  | .i64 l => !l.isEmpty
  | .u64 l => !l.isEmpty
  | .f32 l => !l.isEmpty
  | .f64 l => !l.isEmpty
  | .date l => !l.isEmpty
  | .dateTime l => !l.isEmpty
  | .time l => !l.isEmpty

/-! ## base64 (`base64::engine::general_purpose::STANDARD`) -/

def b64char (n : Nat) : Nat :=
  if n < 26 then 65 + n else if n < 52 then 71 + n else if n < 62 then n - 4
  else if n == 62 then 43 else 47

def b64val (c : Nat) : Option Nat :=
  if 65 ≤ c ∧ c ≤ 90 then some (c - 65)
  else if 97 ≤ c ∧ c ≤ 122 then some (c - 71)
  else if 48 ≤ c ∧ c ≤ 57 then some (c + 4)
  else if c = 43 then some 62
  else if c = 47 then some 63
  else none

/-- `STANDARD.encode` -/
def b64enc : Bytes → Bytes
  | a :: b :: c :: r =>
    b64char (a / 4) :: b64char (a % 4 * 16 + b / 16) :: b64char (b % 16 * 4 + c / 64)
      :: b64char (c % 64) :: b64enc r
  | [a, b] => [b64char (a / 4), b64char (a % 4 * 16 + b / 16), b64char (b % 16 * 4), 61]
  | [a] => [b64char (a / 4), b64char (a % 4 * 16), 61, 61]
  | [] => []

/-- the last quantum: `xx==`, `xxx=` or `xxxx`; trailing bits must be zero -/
def b64last (a b c d : Nat) : Option Bytes :=
  if c = 61 ∧ d = 61 then
    match b64val a, b64val b with
    | some x, some y => if y % 16 = 0 then some [x * 4 + y / 16] else none
    | _, _ => none
  else if d = 61 then
    match b64val a, b64val b, b64val c with
    | some x, some y, some z =>
      if z % 4 = 0 then some [x * 4 + y / 16, y % 16 * 16 + z / 4] else none
    | _, _, _ => none
  else
    match b64val a, b64val b, b64val c, b64val d with
    | some x, some y, some z, some w => some [x * 4 + y / 16, y % 16 * 16 + z / 4, z % 4 * 64 + w]
    | _, _, _, _ => none

/-- `STANDARD.decode`: canonical padding required, trailing bits must be zero; `none` = error -/
def b64dec : Bytes → Option Bytes
  | [] => some []
  | a :: b :: c :: d :: r =>
    if r.isEmpty then b64last a b c d
    else
      match b64val a, b64val b, b64val c, b64val d, b64dec r with
      | some x, some y, some z, some w, some rest =>
        some ((x * 4 + y / 16) :: (y % 16 * 16 + z / 4) :: (z % 4 * 64 + w) :: rest)
      | _, _, _, _, _ => none
  | _ => none

/-! ## serialiser -/

/- `SerClass`, `serClass`, `DeClass`, `deClass`: generated from the two `match vr` of the source
(`Gen/JsonVrTables.lean`, translators/json_vr_tables.py). -/

def sNaN : Bytes := [78, 97, 78]
def sInf : Bytes := [105, 110, 102]
def sNegInf : Bytes := [45, 105, 110, 102]
def kVr : Bytes := [118, 114]
def kValue : Bytes := [86, 97, 108, 117, 101]
def kInline : Bytes := [73, 110, 108, 105, 110, 101, 66, 105, 110, 97, 114, 121]
def kBulk : Bytes := [66, 117, 108, 107, 68, 97, 116, 97, 85, 82, 73]
def kAlpha : Bytes := [65, 108, 112, 104, 97, 98, 101, 116, 105, 99]
def kIdeo : Bytes := [73, 100, 101, 111, 103, 114, 97, 112, 104, 105, 99]
def kPhon : Bytes := [80, 104, 111, 110, 101, 116, 105, 99]

/-- `AsStrings` (repaired, defect #8: tags are written as `GGGGEEEE`) -/
def asStrings : Prim → J
  | .tags l => .arr (l.map fun t => .str (tagKey t))
  | p => .arr ((toMultiStr p).map .str)

/-- `AsPersonNames` -/
def asPersonNames (p : Prim) : J :=
  .arr ((toMultiStr p).map fun s => .obj [(kAlpha, .str s)])

/-- serde_json's number for a Rust signed integer -/
def intNum (i : Int) : J := if i < 0 then .num (.neg i.natAbs) else .num (.pos i.toNat)

/-- `num_traits::NumCast::from::<i32>` succeeds -/
def fitsI32 (i : Int) : Bool := -2147483648 ≤ i && i ≤ 2147483647

/-- one float item of `AsNumbers` (`widen` = `f32 as f64`, identity for `f64`) -/
def floatItem (F : Fmt) (widen : Nat → Nat) (x : Nat) : J :=
  if isFinite F x then .num (.flt (widen x))
  else if isNaN F x then .str sNaN
  else if isInf F x && !sign F x then .str sInf
  else if isInf F x && sign F x then .str sNegInf
  else .null

/-- `AsNumbers` -/
def asNumbers : Prim → Outcome J
  | .empty => .ok (.arr [])
  | .date _ => .panic
  | .dateTime _ => .panic
  | .time _ => .panic
  | .tags _ => .panic
  | .strs l => .ok (.arr (l.map .str))
  | .str s => .ok (.arr [.str s])
  | .u8 l => .ok (.arr (l.map fun n => .num (.pos n)))
  | .i16 l => .ok (.arr (l.map intNum))
  | .u16 l => .ok (.arr (l.map fun n => .num (.pos n)))
  | .i32 l => .ok (.arr (l.map intNum))
  | .u32 l => .ok (.arr (l.map fun n => .num (.pos n)))
  | .i64 l => .ok (.arr (l.map fun i => if fitsI32 i then intNum i else .str (intDec i)))
  | .u64 l => .ok (.arr (l.map fun (n : Nat) => if n ≤ 2147483647 then .num (.pos n) else .str (toDec n)))
  | .f32 l => .ok (.arr (l.map (floatItem b32 (castFF b32 b64))))
  | .f64 l => .ok (.arr (l.map (floatItem b64 id)))

/-- `InlineBinary` -/
def inlineBinary (p : Prim) : J := .str (b64enc (toBytes p))

/-- the members after `"vr"` for a primitive value; a value of multiplicity 0 (`Empty` or a
vector without items) has none (repaired finding `empty-value-has-member`) -/
def primMembers (vr : VR) (p : Prim) : Outcome (List (Bytes × J)) :=
  if !p.nonEmpty then .ok []
  else
    match serClass vr with
    | .strings => .ok [(kValue, asStrings p)]
    | .person => .ok [(kValue, asPersonNames p)]
    | .numbers => (asNumbers p).map fun j => [(kValue, j)]
    | .binary => .ok [(kInline, inlineBinary p)]
    | .sq => .panic     -- `unreachable!("unexpected VR SQ in primitive value")`

mutual
/-- `Serialize for DicomJson<&InMemElement>` -/
def elemToJson : Elem → Outcome J
  | .prim _ vr p => (primMembers vr p).map fun ms => .obj ((kVr, .str (vrName vr)) :: ms)
  | .seq _ vr items =>
    match items with
    | [] => .ok (.obj [(kVr, .str (vrName vr))])       -- a sequence without items is empty
    | items =>
      (itemsToJson items).map fun js => .obj [(kVr, .str (vrName vr)), (kValue, .arr js)]
  | .pix _ vr => .ok (.obj [(kVr, .str (vrName vr))])
/-- `Serialize for DicomJson<&[InMemDicomObject]>` -/
def itemsToJson : List (List Elem) → Outcome (List J)
  | [] => .ok []
  | d :: ds => (membersToJson d).bind fun ms => (itemsToJson ds).map fun js => .obj ms :: js
/-- the entries of `Serialize for DicomJson<&InMemDicomObject>` -/
def membersToJson : List Elem → Outcome (List (Bytes × J))
  | [] => .ok []
  | e :: es =>
    (elemToJson e).bind fun j => (membersToJson es).map fun ms => (tagKey e.tag, j) :: ms
end

/-- `dicom_json::to_value(&obj)` -/
def toJson (ds : DataSet) : Outcome J := (membersToJson ds).map .obj

/-- first member with key `k` -/
def lookup (k : Bytes) : List (Bytes × J) → Option J
  | [] => none
  | (k', v) :: ms => if k' == k then some v else lookup k ms

/-! ## deserialiser -/

/-! ### `Tag::from_str` (core/src/header.rs, repaired defect #1) on the UTF-8 bytes -/

def isCont (b : Nat) : Bool := 128 ≤ b && b < 192

/-- a (loose) UTF-8 well-formedness: lead bytes are followed by the right number of continuation
bytes.  Every Rust `String` satisfies it; the deserialiser's slicing is panic-free under it. -/
def utf8ok : Bytes → Bool
  | [] => true
  | b :: r =>
    if b < 128 then utf8ok r
    else if 192 ≤ b && b < 224 then
      match r with
      | c1 :: r' => isCont c1 && utf8ok r'
      | _ => false
    else if 224 ≤ b && b < 240 then
      match r with
      | c1 :: c2 :: r' => isCont c1 && isCont c2 && utf8ok r'
      | _ => false
    else if 240 ≤ b && b < 248 then
      match r with
      | c1 :: c2 :: c3 :: r' => isCont c1 && isCont c2 && isCont c3 && utf8ok r'
      | _ => false
    else false

/-- `str::is_char_boundary` -/
def isCharBoundary (s : Bytes) (i : Nat) : Bool :=
  if i == 0 then true
  else if i == s.length then true
  else match s[i]? with
    | some b => !isCont b
    | none => false

/-- `&s[i..]` (panics off a char boundary) -/
def sliceFrom (s : Bytes) (i : Nat) : Outcome Bytes :=
  if isCharBoundary s i then .ok (s.drop i) else .panic

/-- `s.split_at(i)` (panics off a char boundary) -/
def splitAtB (s : Bytes) (i : Nat) : Outcome (Bytes × Bytes) :=
  if isCharBoundary s i then .ok (s.take i, s.drop i) else .panic

def isHexDigit (b : Nat) : Bool :=
  (48 ≤ b && b ≤ 57) || (65 ≤ b && b ≤ 70) || (97 ≤ b && b ≤ 102)

def hexDigitVal (b : Nat) : Option Nat :=
  if 48 ≤ b && b ≤ 57 then some (b - 48)
  else if 65 ≤ b && b ≤ 70 then some (b - 55)
  else if 97 ≤ b && b ≤ 102 then some (b - 87)
  else none

/-- `u16::from_str_radix(s, 16)` for a non-empty digit string without sign -/
def parseHex : Bytes → Option Nat
  | [] => none
  | s => s.foldl (fun acc b => match acc, hexDigitVal b with
      | some a, some d => some (a * 16 + d)
      | _, _ => none) (some 0)

/-- `parse_tag_part` -/
def parseTagPart (s : Bytes) : Outcome (Nat × Bytes) :=
  (ensure (isCharBoundary s 4)).bind fun _ =>
  (splitAtB s 4).bind fun (num, rest) =>
  (ensure (num.all isHexDigit)).bind fun _ =>
  (expect (parseHex num)).map fun n => (n, rest)       -- `.expect("failed to parse tag part")`

/-- `<Tag as FromStr>::from_str` -/
def parseTag (s : Bytes) : Outcome Nat :=
  if s.length == 11 then
    (ensure (s.head? == some 40)).bind fun _ =>
    (sliceFrom s 1).bind fun s1 =>
    (parseTagPart s1).bind fun (g, rest) =>
    (ensure (rest.head? == some 44)).bind fun _ =>
    (sliceFrom rest 1).bind fun r1 =>
    (parseTagPart r1).bind fun (e, rest2) =>
    (ensure (rest2 == [41])).map fun _ => g * 65536 + e
  else if s.length == 9 then
    (parseTagPart s).bind fun (g, rest) =>
    (ensure (rest.head? == some 44)).bind fun _ =>
    (sliceFrom rest 1).bind fun r1 =>
    (parseTagPart r1).map fun (e, _) => g * 65536 + e
  else if s.length == 8 then
    (parseTagPart s).bind fun (g, rest) =>
    (parseTagPart rest).map fun (e, _) => g * 65536 + e
  else .err

/-! ### items of a `"Value"` array, per Rust target type -/

def mapM {α β : Type} (f : α → Outcome β) : List α → Outcome (List β)
  | [] => .ok []
  | a :: r => (f a).bind fun b => (mapM f r).map fun bs => b :: bs

def asStr : J → Outcome Bytes
  | .str s => .ok s
  | _ => .err

/-- `Vec<T>` out of a `serde_json::Value`: arrays only -/
def arrOf : J → Outcome (List J)
  | .arr xs => .ok xs
  | _ => .err

/-- `Option<String>` then `unwrap_or_default()` -/
def textItem : J → Outcome Bytes
  | .null => .ok []
  | .str s => .ok s
  | _ => .err

/-- serde's integer visitors on a `serde_json::Number`: range-checked, floats refused -/
def intItem (lo hi : Int) : J → Outcome Int
  | .num (.pos n) => if Int.ofNat n ≤ hi then .ok (Int.ofNat n) else .err
  | .num (.neg n) => if lo ≤ - Int.ofNat n then .ok (- Int.ofNat n) else .err
  | _ => .err

def natItem (hi : Nat) : J → Outcome Nat
  | .num (.pos n) => if n ≤ hi then .ok n else .err
  | _ => .err

/-- `NumberOrText<N>` (`#[serde(untagged)]`): a number the type `N` accepts, else a string -/
inductive NT where
  | num (n : Num)
  | text (s : Bytes)

def numOrText (accept : Num → Bool) : J → Outcome NT
  | .num n => if accept n then .ok (.num n) else .err
  | .str s => .ok (.text s)
  | _ => .err

def acceptFloat : Num → Bool := fun _ => true
def acceptI64 : Num → Bool
  | .pos n => n ≤ 9223372036854775807
  | .neg n => n ≤ 9223372036854775808
  | .flt _ => false
def acceptU (hi : Nat) : Num → Bool
  | .pos n => n ≤ hi
  | _ => false

/-- the number as the float type `F` (`visit_u64`/`visit_i64`/`visit_f64` then `as`) -/
def numToFloat (F : Fmt) : Num → Nat
  | .pos n => castNat F n
  | .neg n => castInt F (- Int.ofNat n)
  | .flt b => if F == b64 then b else castFF b64 F b

def stripPlus : Bytes → Bytes
  | 43 :: r => r
  | r => r

def splitSign : Bytes → Bool × Bytes
  | 43 :: r => (false, r)
  | 45 :: r => (true, r)
  | r => (false, r)

/-- `str::parse::<uN>()`: optional `+`, then digits, in range -/
def parseUnsigned (hi : Nat) (s : Bytes) : Option Nat :=
  let d := stripPlus s
  if d.isEmpty || !d.all isDig then none
  else if digitsVal d ≤ hi then some (digitsVal d) else none

/-- `str::parse::<iN>()`: optional `+`/`-`, then digits, in range -/
def parseSigned (lo hi : Int) (s : Bytes) : Option Int :=
  let d := (splitSign s).2
  if d.isEmpty || !d.all isDig then none
  else
    let v : Int := if (splitSign s).1 then - Int.ofNat (digitsVal d) else Int.ofNat (digitsVal d)
    if lo ≤ v && v ≤ hi then some v else none

/-- `NumberOrText::<f32|f64>::to_num` -/
def ntToFloat (F : Fmt) : NT → Outcome Nat
  | .num n => .ok (numToFloat F n)
  | .text s => ofOption (parse F s)

def ntToI64 : NT → Outcome Int
  | .num (.pos n) => .ok (Int.ofNat n)
  | .num (.neg n) => .ok (- Int.ofNat n)
  | .num (.flt _) => .err
  | .text s => ofOption (parseSigned (-9223372036854775808) 9223372036854775807 s)

def ntToU (hi : Nat) : NT → Outcome Nat
  | .num (.pos n) => .ok n
  | .num _ => .err
  | .text s => ofOption (parseUnsigned hi s)

/-- `NumberOrText::<f64>::to_string` (DS, IS keep text) -/
def ntToString : NT → Bytes
  | .num n => display b64 (numToFloat b64 n)
  | .text s => s

def optStr : J → Outcome (Option Bytes)
  | .null => .ok none
  | .str s => .ok (some s)
  | _ => .err

structure PnSt where
  a : Option Bytes := none
  i : Option (Option Bytes) := none
  p : Option (Option Bytes) := none

/-- serde-derived `visit_map` of `DicomJsonPerson`: duplicates are errors, unknown keys ignored -/
def personFields : List (Bytes × J) → PnSt → Outcome PnSt
  | [], st => .ok st
  | (k, v) :: r, st =>
    if k == kAlpha then
      if st.a.isSome then .err else (asStr v).bind fun s => personFields r { st with a := some s }
    else if k == kIdeo then
      if st.i.isSome then .err else (optStr v).bind fun s => personFields r { st with i := some s }
    else if k == kPhon then
      if st.p.isSome then .err else (optStr v).bind fun s => personFields r { st with p := some s }
    else personFields r st

/-- `Display for DicomJsonPerson` -/
def pnDisplay (a : Bytes) (i p : Option Bytes) : Bytes :=
  match i, p with
  | none, none => a
  | some i, none => a ++ 61 :: i
  | none, some p => a ++ 61 :: 61 :: p
  | some i, some p => a ++ 61 :: i ++ 61 :: p

/-- one `DicomJsonPerson` (object, or the 3-element array form serde also accepts), displayed -/
def personItem : J → Outcome Bytes
  | .obj ms =>
    (personFields ms {}).bind fun st =>
      match st.a with
      | none => .err
      | some a => .ok (pnDisplay a (st.i.getD none) (st.p.getD none))
  | .arr [a, i, p] =>
    (asStr a).bind fun a => (optStr i).bind fun i => (optStr p).map fun p => pnDisplay a i p
  | _ => .err

def atItem : J → Outcome Nat
  | .str s => parseTag s
  | _ => .err

/-- the primitive `"Value"` conversions (everything but `SQ`) -/
def convertPrim (vr : VR) (v : J) : Outcome Prim :=
  match deClass vr with
  | .un => .err                                 -- "can't parse JSON Value in UN"
  | .sq => .err                                 -- handled by the caller
  | .text => (arrOf v).bind fun xs => (mapM textItem xs).map .strs
  | .i16 => (arrOf v).bind fun xs => (mapM (intItem (-32768) 32767) xs).map .i16
  | .u16 => (arrOf v).bind fun xs => (mapM (natItem 65535) xs).map .u16
  | .i32 => (arrOf v).bind fun xs => (mapM (intItem (-2147483648) 2147483647) xs).map .i32
  | .u8 => (arrOf v).bind fun xs => (mapM (natItem 255) xs).map .u8
  | .f32 => (arrOf v).bind fun xs => (mapM (numOrText acceptFloat) xs).bind fun nts =>
      (mapM (ntToFloat b32) nts).map .f32
  | .f64 => (arrOf v).bind fun xs => (mapM (numOrText acceptFloat) xs).bind fun nts =>
      (mapM (ntToFloat b64) nts).map .f64
  | .i64 => (arrOf v).bind fun xs => (mapM (numOrText acceptI64) xs).bind fun nts =>
      (mapM ntToI64 nts).map .i64
  | .u32 => (arrOf v).bind fun xs => (mapM (numOrText (acceptU 4294967295)) xs).bind fun nts =>
      (mapM (ntToU 4294967295) nts).map .u32
  | .u64 => (arrOf v).bind fun xs =>
      (mapM (numOrText (acceptU 18446744073709551615)) xs).bind fun nts =>
      (mapM (ntToU 18446744073709551615) nts).map .u64
  | .numstr => (arrOf v).bind fun xs => (mapM (numOrText acceptFloat) xs).map fun nts =>
      .strs (nts.map ntToString)
  | .pn => (arrOf v).bind fun xs => (mapM personItem xs).map .strs
  | .at => (arrOf v).bind fun xs => (mapM atItem xs).map .tags

/-! ### `DataElementVisitor::visit_map` (repaired defect #5) and `InMemDicomObjectVisitor` -/

/-- `BTreeMap::insert` on the tag-sorted element list (`InMemDicomObject::put`) -/
def put (e : Elem) : DataSet → DataSet
  | [] => [e]
  | x :: xs =>
    if e.tag < x.tag then e :: x :: xs
    else if e.tag == x.tag then e :: xs
    else x :: put e xs

def putAll (es : List Elem) : DataSet := es.foldl (fun acc e => put e acc) []

/-- the visitor's local variables; `value` holds the raw `"Value"` together with its reading as
a list of items (used only when the VR turns out to be `SQ`) -/
structure ElSt where
  vr : Option VR := none
  value : Option (J × Outcome (List DataSet)) := none
  inline : Option Bytes := none
  bulk : Option Bytes := none

inductive ElVal where
  | prim (p : Prim)
  | seq (items : List DataSet)

/-- the code after the field loop; `none` = element skipped (BulkDataURI) -/
def finish (tag : Nat) (st : ElSt) : Outcome (Option Elem) :=
  match st.vr with
  | none => .err                                           -- "missing VR field"
  | some vr =>
    let values : Outcome (Option ElVal) :=
      match st.value with
      | none => .ok none
      | some (v, sq) =>
        if vr == .SQ then sq.map fun items => some (.seq items)
        else (convertPrim vr v).map fun p => some (.prim p)
    values.bind fun vals =>
      let value : Outcome ElVal :=
        match vals, st.inline with
        | none, none => if vr == .SQ then .ok (.seq []) else .ok (.prim .empty)
        | none, some b =>
          match b64dec b with
          | some d => .ok (.prim (.u8 d))
          | none => .err
        | some v, none => .ok v
        | some _, some _ => .panic    -- `unreachable!()` before the repair, an `Err` arm after it
      value.map fun ev =>
        if st.bulk.isSome then none
        else some (match ev with
          | .prim p => .prim tag vr p
          | .seq items => .seq tag vr items)

mutual
/-- `Deserialize for DicomJson<InMemDicomObject>` -/
def dsOfJ : J → Outcome DataSet
  | .obj ms => (elemsOfMembers ms).map putAll
  | _ => .err
/-- the entries of the data set object, in order; skipped elements dropped -/
def elemsOfMembers : List (Bytes × J) → Outcome (List Elem)
  | [] => .ok []
  | (k, v) :: ms =>
    (parseTag k).bind fun tag =>
    (elemOfJ tag v).bind fun oe =>
    (elemsOfMembers ms).map fun es => oe.toList ++ es
/-- `Deserialize for JsonDataElement` -/
def elemOfJ (tag : Nat) : J → Outcome (Option Elem)
  | .obj fs => (scanFields fs {}).bind fun st => finish tag st
  | _ => .err
/-- the `while let Some(key) = map.next_key()` loop -/
def scanFields : List (Bytes × J) → ElSt → Outcome ElSt
  | [], st => .ok st
  | (k, v) :: fs, st =>
    if k == kVr then
      if st.vr.isSome then .err
      else (asStr v).bind fun s => scanFields fs { st with vr := some ((parseVR s).getD .UN) }
    else if k == kValue then
      if st.inline.isSome || st.bulk.isSome then .err
      else scanFields fs { st with value := some (v, seqItemsOf v) }
    else if k == kInline then
      if st.value.isSome || st.bulk.isSome then .err
      else (asStr v).bind fun s => scanFields fs { st with inline := some s }
    else if k == kBulk then
      if st.value.isSome || st.inline.isSome then .err
      else (asStr v).bind fun s => scanFields fs { st with bulk := some s }
    else .err                                              -- "Unrecognized data element field"
/-- `Vec<DicomJson<InMemDicomObject>>` out of the `"Value"` of a sequence -/
def seqItemsOf : J → Outcome (List DataSet)
  | .arr xs => itemsOf xs
  | _ => .err
def itemsOf : List J → Outcome (List DataSet)
  | [] => .ok []
  | x :: xs => (dsOfJ x).bind fun d => (itemsOf xs).map fun ds => d :: ds
end

mutual
/-- every string and member name of the tree is (loosely) well-formed UTF-8 — true of every tree
that `serde_json` builds, since Rust strings are UTF-8 by type invariant -/
def J.utf8 : J → Bool
  | .str s => utf8ok s
  | .arr xs => utf8List xs
  | .obj ms => utf8Members ms
  | _ => true
def utf8List : List J → Bool
  | [] => true
  | x :: xs => x.utf8 && utf8List xs
def utf8Members : List (Bytes × J) → Bool
  | [] => true
  | (k, v) :: ms => utf8ok k && v.utf8 && utf8Members ms
end

/-! ### what `serde_json` does to duplicate members when it builds a `Value` -/

def removeKey (k : Bytes) : List (Bytes × J) → List (Bytes × J)
  | [] => []
  | (k', v) :: ms => if k' == k then removeKey k ms else (k', v) :: removeKey k ms

mutual
/-- text → `serde_json::Value` (`preserve_order`): a repeated key keeps its first position and
its last value -/
def dedup : J → J
  | .arr xs => .arr (dedupList xs)
  | .obj ms => .obj (dedupMembers ms)
  | j => j
def dedupList : List J → List J
  | [] => []
  | x :: xs => dedup x :: dedupList xs
def dedupMembers : List (Bytes × J) → List (Bytes × J)
  | [] => []
  | (k, v) :: ms =>
    let rest := dedupMembers ms
    match lookup k rest with
    | some v' => (k, v') :: removeKey k rest
    | none => (k, dedup v) :: rest
end

def dedupField : Bytes × J → Bytes × J
  | (k, v) => if k == kValue then (k, dedup v) else (k, v)
def dedupElem : J → J
  | .obj fs => .obj (fs.map dedupField)
  | j => j
/-- what `from_str` sees: the data set and attribute objects are streamed (duplicates reach the
visitors), every `"Value"` goes through a `serde_json::Value` -/
def dedupTop : J → J
  | .obj ms => .obj (ms.map fun (k, v) => (k, dedupElem v))
  | j => j

/-- `dicom_json::from_value::<InMemDicomObject>` -/
def fromValue (j : J) : Outcome DataSet := dsOfJ j
/-- `dicom_json::from_str::<InMemDicomObject>` on a text whose tree (duplicates kept) is `j` -/
def fromStr (j : J) : Outcome DataSet := dsOfJ (dedupTop j)

/-! ## the data-set invariants -/

/-- iteration order of a `BTreeMap<Tag, _>`: strictly ascending tags, at every level -/
def sortedTags : List Nat → Bool
  | [] => true
  | [_] => true
  | a :: b :: r => a < b && sortedTags (b :: r)

mutual
def Elem.wf : Elem → Bool
  | .prim t _ _ => t < 4294967296
  | .seq t _ items => t < 4294967296 && itemsWf items
  | .pix t _ => t < 4294967296
def itemsWf : List (List Elem) → Bool
  | [] => true
  | d :: ds => elemsWf d && sortedTags (tagsOf d) && itemsWf ds
def elemsWf : List Elem → Bool
  | [] => true
  | e :: es => e.wf && elemsWf es
def tagsOf : List Elem → List Nat
  | [] => []
  | e :: es => e.tag :: tagsOf es
end

/-- a data set as `InMemDicomObject` can hold it -/
def DataSet.wf (ds : DataSet) : Bool := elemsWf ds && sortedTags (tagsOf ds)

/-! ## typing of values (the scope of C23/C24) -/

def allLt (bound : Nat) (l : List Nat) : Bool := l.all (· < bound)
def allIn (lo hi : Int) (l : List Int) : Bool := l.all fun i => lo ≤ i && i ≤ hi

/-- every number fits its Rust type -/
def Prim.inRange : Prim → Bool
  | .tags l => allLt 4294967296 l
  | .u8 l => allLt 256 l
  | .i16 l => allIn (-32768) 32767 l
  | .u16 l => allLt 65536 l
  | .i32 l => allIn (-2147483648) 2147483647 l
  | .u32 l => allLt 4294967296 l
  | .i64 l => allIn (-9223372036854775808) 9223372036854775807 l
  | .u64 l => allLt 18446744073709551616 l
  | .f32 l => allLt 4294967296 l
  | .f64 l => allLt 18446744073709551616 l
  | _ => true

/-- fixed-width binary value variants -/
def Prim.binKind : Prim → Bool
  | .u8 _ | .u16 _ | .u32 _ | .u64 _ | .f32 _ | .f64 _ => true
  | _ => false

/-- the value variants that belong to a VR: what the decoders of dicom-rs produce for it, plus the
textual form (`Str`/`Strs`) for the VRs that are text in the file encoding, and raw bytes for the
binary VRs.  `Empty` belongs to every VR. -/
def kindOk : VR → Prim → Bool
  | _, .empty => true
  | .SQ, _ => false
  | .AE, .strs _ | .AE, .str _ | .AS, .strs _ | .AS, .str _ | .CS, .strs _ | .CS, .str _
  | .LO, .strs _ | .LO, .str _ | .SH, .strs _ | .SH, .str _ | .UI, .strs _ | .UI, .str _
  | .UC, .strs _ | .UC, .str _ | .PN, .strs _ | .PN, .str _ | .LT, .strs _ | .LT, .str _
  | .ST, .strs _ | .ST, .str _ | .UT, .strs _ | .UT, .str _ | .UR, .strs _ | .UR, .str _
  | .DA, .strs _ | .DA, .str _ | .DT, .strs _ | .DT, .str _ | .TM, .strs _ | .TM, .str _
  | .IS, .strs _ | .IS, .str _ | .DS, .strs _ | .DS, .str _ => true
  | .DA, .date _ | .DT, .dateTime _ | .TM, .time _ => true
  | .AT, .tags _ => true
  | .SS, .i16 _ | .US, .u16 _ | .SL, .i32 _ | .UL, .u32 _ | .SV, .i64 _ | .UV, .u64 _
  | .FL, .f32 _ | .FD, .f64 _ | .IS, .i32 _ | .DS, .f64 _ => true
  | .OB, .u8 _ | .UN, .u8 _ | .OW, .u8 _ | .OW, .u16 _ | .OL, .u8 _ | .OL, .u32 _
  | .OV, .u8 _ | .OV, .u64 _ | .OF, .u8 _ | .OF, .f32 _ | .OD, .u8 _ | .OD, .f64 _ => true
  | _, _ => false

mutual
/-- well-typed element: the value belongs to the VR and all numbers are in range; a sequence
value has VR `SQ` -/
def Elem.typed : Elem → Bool
  | .prim _ vr p => kindOk vr p && p.inRange
  | .seq _ vr items => vr == .SQ && itemsTyped items
  | .pix _ _ => true
def itemsTyped : List (List Elem) → Bool
  | [] => true
  | d :: ds => elemsTyped d && itemsTyped ds
def elemsTyped : List Elem → Bool
  | [] => true
  | e :: es => e.typed && elemsTyped es
end

mutual
/-- no value of multiplicity zero other than `Empty`, and no sequence without items -/
def Elem.full : Elem → Bool
  | .prim _ _ p => p == .empty || p.nonEmpty
  | .seq _ _ items => !items.isEmpty && itemsFull items
  | .pix _ _ => true
def itemsFull : List (List Elem) → Bool
  | [] => true
  | d :: ds => elemsFull d && itemsFull ds
def elemsFull : List Elem → Bool
  | [] => true
  | e :: es => e.full && elemsFull es
end

mutual
/-- no encapsulated pixel data (scope of C23) -/
def Elem.noPix : Elem → Bool
  | .prim _ _ _ => true
  | .seq _ _ items => itemsNoPix items
  | .pix _ _ => false
def itemsNoPix : List (List Elem) → Bool
  | [] => true
  | d :: ds => elemsNoPix d && itemsNoPix ds
def elemsNoPix : List Elem → Bool
  | [] => true
  | e :: es => e.noPix && elemsNoPix es
end

/-! ## the documented normalisations of a JSON round trip (C23) -/

/-- `"NaN".parse()` gives the canonical quiet NaN: sign and payload of a NaN are not kept -/
def canonNaN (F : Fmt) (x : Nat) : Nat := if isNaN F x then F.nanBits else x

/-- (`normPrimNE`: values with at least one item)
    * text VRs and PN: `Strs` of `to_multi_str()` — trailing spaces/NULs removed, `Str` becomes a
    one-item `Strs`, dates/times become their DICOM text;
    * IS and DS: the strings as they are, binary `I32`/`F64` become numeric strings;
    * binary VRs: the little-endian bytes as `U8`;
    * FL/FD: any NaN becomes the canonical NaN;
    * a value without items (a vector of length 0) becomes `Empty`; an empty value under VR SQ
      becomes a sequence without items;  everything else is unchanged. -/
def normPrimNE (vr : VR) (p : Prim) : Prim :=
  match serClass vr with
  | .binary => .u8 (toBytes p)
  | .strings =>
    (match p with
     | .tags l => .tags l
     | p => .strs (toMultiStr p))
  | .person => .strs (toMultiStr p)
  | .numbers =>
    (match p with
     | .strs l => .strs l
     | .str s => .strs [s]
     | .f32 l => .f32 (l.map (canonNaN b32))
     | .f64 l => if vr == .DS then .strs (l.map (display b64)) else .f64 (l.map (canonNaN b64))
     | .i32 l => if vr == .IS then .strs (l.map fun i => display b64 (castInt b64 i)) else .i32 l
     | p => p)
  | .sq => p

def normPrim (vr : VR) (p : Prim) : Prim :=
  if !p.nonEmpty then .empty else normPrimNE vr p

mutual
def normElem : Elem → Elem
  | .prim t vr p => if vr == .SQ && !p.nonEmpty then .seq t vr [] else .prim t vr (normPrim vr p)
  | .seq t vr items => .seq t vr (normItems items)
  | .pix t vr => .pix t vr
def normItems : List (List Elem) → List (List Elem)
  | [] => []
  | d :: ds => normDs d :: normItems ds
def normDs : List Elem → List Elem
  | [] => []
  | e :: es => normElem e :: normDs es
end

/-! ## PS3.18 Annex F validator (independent of `toJson`; evaluated on the real output) -/

def isUpperHex (b : Nat) : Bool := (48 ≤ b && b ≤ 57) || (65 ≤ b && b ≤ 70)
def isTagKey (s : Bytes) : Bool := s.length == 8 && s.all isUpperHex

/-- byte-wise lexicographic `<` (keys are ASCII, so this is the order of the key strings) -/
def bytesLt : Bytes → Bytes → Bool
  | [], [] => false
  | [], _ :: _ => true
  | _ :: _, [] => false
  | a :: r, b :: s => a < b || (a == b && bytesLt r s)

def keysAscending : List Bytes → Bool
  | [] => true
  | [_] => true
  | a :: b :: r => bytesLt a b && keysAscending (b :: r)

def isStr : J → Bool
  | .str _ => true
  | _ => false
def isStrOrNull : J → Bool
  | .str _ => true
  | .null => true
  | _ => false
def isNumber : J → Bool
  | .num _ => true
  | _ => false
def isDecimal (s : Bytes) : Bool :=
  match s with
  | 45 :: r => !r.isEmpty && r.all isDig
  | r => !r.isEmpty && r.all isDig

def intOfNum : Num → Option Int
  | .pos n => some (Int.ofNat n)
  | .neg n => some (- Int.ofNat n)
  | .flt _ => none

def isIntIn (lo hi : Int) : J → Bool
  | .num n => match intOfNum n with
    | some i => lo ≤ i && i ≤ hi
    | none => false
  | _ => false

def isFloatItem : J → Bool
  | .num _ => true
  | .str s => s == sNaN || s == sInf || s == sNegInf
  | _ => false

def isBigIntItem (lo hi : Int) : J → Bool
  | .num n => match intOfNum n with
    | some i => lo ≤ i && i ≤ hi
    | none => false
  | .str s => isDecimal s
  | _ => false

def isNumOrStr : J → Bool
  | .num _ => true
  | .str _ => true
  | _ => false

def isPersonName : J → Bool
  | .obj ms =>
    (match lookup kAlpha ms with
     | some (.str _) => true
     | _ => false) &&
    ms.all fun (k, v) => (k == kAlpha || k == kIdeo || k == kPhon) && isStr v
  | _ => false

def isAtItem : J → Bool
  | .str s => isTagKey s
  | _ => false

/-- the Annex F class of a VR (F.2.3, table F.2.3-1) -/
inductive FClass where
  | text | at | pn | float | int (lo hi : Int) | bigint (lo hi : Int) | numstr | binary | sq

def fClass : VR → FClass
  | .AE | .AS | .CS | .DA | .DT | .LO | .LT | .SH | .ST | .TM | .UC | .UI | .UR | .UT => .text
  | .AT => .at
  | .PN => .pn
  | .FL | .FD => .float
  | .SS => .int (-32768) 32767
  | .US => .int 0 65535
  | .SL => .int (-2147483648) 2147483647
  | .UL => .int 0 4294967295
  | .SV => .bigint (-9223372036854775808) 9223372036854775807
  | .UV => .bigint 0 18446744073709551615
  | .DS | .IS => .numstr
  | .OB | .OD | .OF | .OL | .OV | .OW | .UN => .binary
  | .SQ => .sq

def validB64 (s : Bytes) : Bool := (b64dec s).isSome

def valuesF (lax : Bool) (c : FClass) : J → Bool
  | .arr xs => (lax || !xs.isEmpty) &&
    (match c with
     | .text => xs.all isStrOrNull
     | .at => xs.all isAtItem
     | .pn => xs.all isPersonName
     | .float => xs.all isFloatItem
     | .int lo hi => xs.all (isIntIn lo hi)
     | .bigint lo hi => xs.all (isBigIntItem lo hi)
     | .numstr => xs.all isNumOrStr
     | .binary => false
     | .sq => false)
  | _ => false

/- `lax = true` drops only the clause "an empty value has no Value/InlineBinary member"
(used by the driver to name that failure); the property is `annexF = annexFWith false`. -/
mutual
/-- a DICOM JSON data set object -/
def annexFWith (lax : Bool) : J → Bool
  | .obj ms => keysAscending (keysOf ms) && membersF lax ms
  | _ => false
def keysOf : List (Bytes × J) → List Bytes
  | [] => []
  | (k, _) :: ms => k :: keysOf ms
def membersF (lax : Bool) : List (Bytes × J) → Bool
  | [] => true
  | (k, v) :: ms => isTagKey k && elementF lax v && membersF lax ms
/-- a DICOM JSON attribute object -/
def elementF (lax : Bool) : J → Bool
  | .obj fs =>
    match fs with
    | (k, .str vrs) :: rest =>
      k == kVr &&
      (match parseVR vrs with
       | none => false
       | some vr =>
         match rest with
         | [] => true                                   -- empty value: no Value member
         | [(k2, v)] =>
           (match fClass vr with
            | .binary => k2 == kInline &&
                (match v with
                 | .str s => validB64 s && (lax || !s.isEmpty)
                 | _ => false)
            | .sq => k2 == kValue && itemsF lax v
            | c => k2 == kValue && valuesF lax c v)
         | _ => false)
    | _ => false
  | _ => false
def itemsF (lax : Bool) : J → Bool
  | .arr xs => (lax || !xs.isEmpty) && allF lax xs
  | _ => false
def allF (lax : Bool) : List J → Bool
  | [] => true
  | x :: xs => annexFWith lax x && allF lax xs
end

/-- PS3.18 Annex F conformance of a serialised data set (property C24) -/
def annexF (j : J) : Bool := annexFWith false j

end Dicom.Json
