/-
Model of the transfer syntax registry:
* `encoding/src/transfer_syntax/mod.rs`: `Codec`, `TransferSyntax` and its capability queries
  (`is_fully_supported` … `can_decode_dataset`, `decoder_for`, `encoder_for`,
  `pixel_data_reader/writer`), all of them functions of the codec *shape* (which adapters are
  present) and of `(byte_order, explicit_vr)`;
* `transfer-syntax-registry/src/lib.rs`: `TransferSyntaxRegistryImpl::get` (trim trailing
  whitespace/NUL, then map lookup) and `register` (insert, or replace under the precedence rules).

Strings are lists of Unicode scalar values (`Nat`), so that table-level facts reduce in the kernel.
The hash map is an association list keyed by UID with unique keys (an invariant proved in
`Props/C16.lean`), vacant keys are appended at the end.
-/
namespace Dicom.Registry

/-- a string as its Unicode scalar values -/
abbrev Str := List Nat

/-- `Codec<D, R, W>` up to the presence of the adapters. -/
inductive Codec where
  /-- `Codec::None` -/
  | none
  /-- `Codec::EncapsulatedPixelData(reader, writer)` -/
  | encap (reader writer : Bool)
  /-- `Codec::Dataset(adapter)` -/
  | dataset (adapter : Bool)
deriving DecidableEq, Repr

/-- the three data set encodings there is an encoder/decoder for; `other` is what the runner
reports when an offered encoder/decoder behaves like none of them (never predicted by the model) -/
inductive Coder where
  | ile | ele | ebe | other
deriving DecidableEq, Repr

structure Ts where
  uid : Str
  name : Str
  /-- `byte_order == Endianness::Big` -/
  big : Bool
  explicit : Bool
  codec : Codec
deriving DecidableEq, Repr

namespace Codec
def isFullySupported : Codec → Bool
  | .none => true | .dataset true => true | .encap true true => true | _ => false
def isCodecFree : Codec → Bool
  | .none => true | _ => false
def isUnsupported : Codec → Bool
  | .dataset false => true | _ => false
def isEncapsulatedPixelData : Codec → Bool
  | .encap _ _ => true | _ => false
def isUnsupportedPixelEncapsulation : Codec → Bool
  | .dataset false => true | .encap false false => true | _ => false
def canDecodeAll : Codec → Bool
  | .none => true | .dataset true => true | .encap true _ => true | _ => false
def canDecodeDataset : Codec → Bool
  | .none => true | .dataset true => true | .encap _ _ => true | _ => false
def hasPixelReader : Codec → Bool
  | .encap r _ => r | _ => false
def hasPixelWriter : Codec → Bool
  | .encap _ w => w | _ => false
end Codec

/-- results of the seven boolean capability queries, in the order the runner prints them -/
structure Queries where
  fullySupported : Bool
  codecFree : Bool
  unsupported : Bool
  encapsulated : Bool
  unsupportedPixel : Bool
  decodeAll : Bool
  decodeDataset : Bool
deriving DecidableEq, Repr

def Codec.queries (c : Codec) : Queries :=
  ⟨c.isFullySupported, c.isCodecFree, c.isUnsupported, c.isEncapsulatedPixelData,
   c.isUnsupportedPixelEncapsulation, c.canDecodeAll, c.canDecodeDataset⟩

/-- `decoder_for` / `encoder_for`: chosen by `(byte_order, explicit_vr)` alone;
implicit VR big endian has neither. -/
def coderOf (big explicit : Bool) : Option Coder :=
  match big, explicit with
  | false, false => some .ile
  | false, true => some .ele
  | true, true => some .ebe
  | true, false => none

def Ts.coder (t : Ts) : Option Coder := coderOf t.big t.explicit

/-- One line of the run-time dump: the entry and everything the real code answered about it. -/
structure Row where
  ts : Ts
  q : Queries
  dec : Option Coder
  enc : Option Coder
  pixelReader : Bool
  pixelWriter : Bool
  /-- `basic_decoder().endianness() == Big` -/
  basicBig : Bool
deriving DecidableEq, Repr

/-- what the model predicts for an entry -/
def Ts.row (t : Ts) : Row :=
  ⟨t, t.codec.queries, t.coder, t.coder, t.codec.hasPixelReader, t.codec.hasPixelWriter, t.big⟩

/-! ### `get`: trimming and lookup -/

/-- Rust `char::is_whitespace` (Unicode `White_Space`). -/
def isWhitespace (c : Nat) : Bool :=
  (9 ≤ c && c ≤ 13) || c == 0x20 || c == 0x85 || c == 0xA0 || c == 0x1680 ||
  (0x2000 ≤ c && c ≤ 0x200A) || c == 0x2028 || c == 0x2029 || c == 0x202F || c == 0x205F ||
  c == 0x3000

/-- the predicate of `trim_end_matches` in `get` -/
def isPad (c : Nat) : Bool := isWhitespace c || c == 0

/-- `str::trim_end_matches(isPad)` -/
def trimEnd : Str → Str
  | [] => []
  | c :: cs =>
    match trimEnd cs with
    | [] => if isPad c then [] else [c]
    | r => c :: r

/-- string equality as a plain recursive Boolean function (reduces fast in the kernel) -/
def eqStr : Str → Str → Bool
  | [], [] => true
  | a :: as, b :: bs => Nat.beq a b && eqStr as bs
  | _, _ => false

abbrev Map := List Ts

def lookup (m : Map) (k : Str) : Option Ts := m.find? (fun e => eqStr e.uid k)

/-- `TransferSyntaxRegistryImpl::get` -/
def get (m : Map) (uid : Str) : Option Ts := lookup m (trimEnd uid)

/-! ### `register` -/

/-- the `replace` decision of `register` for an occupied key: (registered codec, new codec) -/
def replaces : Codec → Codec → Bool
  | .dataset false, .dataset true => true
  | .encap false false, .encap _ _ => true
  | .encap true false, .encap true true => true
  | .encap false true, .encap true true => true
  | _, _ => false

def replaceKey (m : Map) (t : Ts) : Map := m.map fun e => if eqStr e.uid t.uid then t else e

/-- `register`: the new map and the returned flag -/
def register (m : Map) (t : Ts) : Map × Bool :=
  match lookup m t.uid with
  | none => (m ++ [t], true)
  | some old => if replaces old.codec t.codec then (replaceKey m t, true) else (m, false)

/-- the registry after registering a sequence of entries (built-ins, then plug-ins) -/
def build (l : List Ts) : Map := l.foldl (fun m t => (register m t).1) []

def implicitLeUid : Str := [49, 46, 50, 46, 56, 52, 48, 46, 49, 48, 48, 48, 56, 46, 49, 46, 50]
def explicitBeUid : Str := implicitLeUid ++ [46, 50]

/-! ### the property's table-level clauses as Boolean checks (used by theorems and driver) -/

def Codec.beq : Codec → Codec → Bool
  | .none, .none => true
  | .encap r w, .encap r' w' => r == r' && w == w'
  | .dataset d, .dataset d' => d == d'
  | _, _ => false

def Coder.beq : Coder → Coder → Bool
  | .ile, .ile => true | .ele, .ele => true | .ebe, .ebe => true | .other, .other => true
  | _, _ => false

def optCoderBeq : Option Coder → Option Coder → Bool
  | none, none => true
  | some a, some b => a.beq b
  | _, _ => false

def Queries.beq (a b : Queries) : Bool :=
  a.fullySupported == b.fullySupported && a.codecFree == b.codecFree && a.unsupported == b.unsupported &&
  a.encapsulated == b.encapsulated && a.unsupportedPixel == b.unsupportedPixel &&
  a.decodeAll == b.decodeAll && a.decodeDataset == b.decodeDataset

/-- every answer the real code gave equals the model's prediction from the entry (`r = r.ts.row`) -/
def Row.agrees (r : Row) : Bool :=
  r.q.beq r.ts.codec.queries && optCoderBeq r.dec r.ts.coder && optCoderBeq r.enc r.ts.coder &&
  r.pixelReader == r.ts.codec.hasPixelReader && r.pixelWriter == r.ts.codec.hasPixelWriter &&
  r.basicBig == r.ts.big

/-- implicit ⇔ it is Implicit VR Little Endian -/
def Row.onlyImplicitOk (r : Row) : Bool := (!r.ts.explicit) == eqStr r.ts.uid implicitLeUid
/-- big endian ⇔ it is Explicit VR Big Endian -/
def Row.onlyBigOk (r : Row) : Bool := r.ts.big == eqStr r.ts.uid explicitBeUid
/-- decodable data set ⇒ a data set decoder and encoder are offered, both for one of the three
encodings and for the same one -/
def Row.decodableOk (r : Row) : Bool :=
  !r.q.decodeDataset ||
    (r.dec.isSome && r.enc.isSome && optCoderBeq r.dec r.enc && !optCoderBeq r.dec (some .other))
/-- the UID has no trailing padding of its own -/
def Row.cleanOk (r : Row) : Bool := eqStr (trimEnd r.ts.uid) r.ts.uid

def Row.ok (r : Row) : Bool :=
  r.agrees && r.onlyImplicitOk && r.onlyBigOk && r.decodableOk && r.cleanOk

/-- one pass over a dumped table: all per-entry clauses of the property -/
def tableOk (t : List Row) : Bool := t.all Row.ok

def uidsOf (t : List Row) : List Str := t.map (·.ts.uid)

/-- lexicographic order on strings (the translator sorts the dump by UID) -/
def ltStr : Str → Str → Bool
  | [], [] => false
  | [], _ :: _ => true
  | _ :: _, [] => false
  | a :: as, b :: bs => Nat.blt a b || (Nat.beq a b && ltStr as bs)

/-- strictly ascending (adjacent pairs) -/
def ascB : List Str → Bool
  | [] => true
  | [_] => true
  | a :: b :: r => ltStr a b && ascB (b :: r)

/-- capabilities of `a` are all offered by `b` (used for `register` and to compare the feature sets) -/
def Codec.le (a b : Codec) : Bool :=
  (!a.isFullySupported || b.isFullySupported) && (!a.canDecodeAll || b.canDecodeAll) &&
  (!a.canDecodeDataset || b.canDecodeDataset) && (!a.hasPixelReader || b.hasPixelReader) &&
  (!a.hasPixelWriter || b.hasPixelWriter) && (a.isEncapsulatedPixelData == b.isEncapsulatedPixelData)

/-- same UIDs, names aside the same flags, and `b` offers at least the capabilities of `a`, entry by entry -/
def tablesLe : List Row → List Row → Bool
  | [], [] => true
  | a :: as, b :: bs =>
    eqStr a.ts.uid b.ts.uid && a.ts.big == b.ts.big && a.ts.explicit == b.ts.explicit &&
    Codec.le a.ts.codec b.ts.codec && tablesLe as bs
  | _, _ => false

end Dicom.Registry
