/-
Model of `ul/src/pdu/{mod,reader,writer}.rs`: the `Pdu` type with all its item types, `write_pdu`
(with the `write_chunk_u16/u32` length prefixes) and `read_pdu` / `read_pdu_variable`.

Conventions
* bytes are `Nat` (< 256), byte strings `List Nat` (`Dicom.Bytes`);
* a Rust `String` is the list of its code points (`Str`). The codec is
  `DefaultCharacterSetCodec` = ISO-8859-1 of the `encoding` crate: encoding fails (strict trap) on a
  code point > 255 and is the identity otherwise; decoding is total and the identity;
* `str::trim` removes `char::is_whitespace` characters; on code points < 256 these are
  U+0009..U+000D, U+0020, U+0085, U+00A0;
* the reader's three outcomes `Ok(Some _)`, `Ok(None)` (not enough bytes yet) and `Err _` are the
  constructors `ok`, `inc`, `err` of `Res`; `Buf::get_*`/`copy_to_bytes` on a short buffer panic in
  Rust: that is `err .panic` (never reached, every such call is guarded);
* every type, item, result, source and reason code is a constant of `Gen/PduCodes.lean`, regenerated
  from the source on each check (`translators/pdu_codes.py`): `Gen.w…` where the writer emits it,
  `Gen.r…` where the reader tests it. Only `validPS38` below spells the PS3.8 numbers out;
* `write_chunk_u16/u32` are modelled as *repaired* (DESIGN §7 #9): a chunk whose content does not
  fit the length field is an error (`chunk16`/`chunk32`); the unchecked original (`as u16`) is kept
  as `chunk16Wrapping` for the witness theorem of the defect.
-/
import DicomModel.Model.Bytes
import DicomModel.Gen.PduCodes
namespace Dicom.Pdu

abbrev Str := List Nat

/-! ## Types (`ul/src/pdu/mod.rs`) -/

inductive PcReason
  | acceptance | userRejection | noReason | abstractSyntaxNotSupported | transferSyntaxesNotSupported
deriving DecidableEq, Repr

structure PcProposed where
  id : Nat
  abstractSyntax : Str
  transferSyntaxes : List Str
deriving DecidableEq, Repr

structure PcResult where
  id : Nat
  reason : PcReason
  transferSyntax : Str
deriving DecidableEq, Repr

inductive RjResult | permanent | transient
deriving DecidableEq, Repr

inductive RjUserReason
  | noReasonGiven | acnNotSupported | callingNotRecognized | calledNotRecognized | reserved (x : Nat)
deriving DecidableEq, Repr

inductive RjAsceReason | noReasonGiven | protocolVersionNotSupported
deriving DecidableEq, Repr

inductive RjPresReason | temporaryCongestion | localLimitExceeded | reserved (x : Nat)
deriving DecidableEq, Repr

inductive RjSource
  | serviceUser (r : RjUserReason)
  | asce (r : RjAsceReason)
  | presentation (r : RjPresReason)
deriving DecidableEq, Repr

inductive AbortReason
  | reasonNotSpecified | unrecognizedPdu | unexpectedPdu | reserved
  | unrecognizedPduParameter | unexpectedPduParameter | invalidPduParameter
deriving DecidableEq, Repr

inductive AbortSource
  | serviceUser
  | serviceProvider (r : AbortReason)
  | reserved
deriving DecidableEq, Repr

inductive PdvType | command | data
deriving DecidableEq, Repr

structure Pdv where
  pcid : Nat
  type : PdvType
  isLast : Bool
  data : Bytes
deriving DecidableEq, Repr

inductive IdType | username | usernamePassword | kerberos | saml | jwt
deriving DecidableEq, Repr

structure UserIdentity where
  positiveResponseRequested : Bool
  type : IdType
  primary : Bytes
  secondary : Bytes
deriving DecidableEq, Repr

inductive UserVar
  | unknown (t : Nat) (d : Bytes)
  | maxLength (n : Nat)
  | implClassUid (s : Str)
  | implVersionName (s : Str)
  | sopClassExt (uid : Str) (d : Bytes)
  | roleSelection (uid : Str) (scu scp : Bool)
  | userIdentity (u : UserIdentity)
deriving DecidableEq, Repr

/-- `AssociationRQ` and `AssociationAC` have the same fields but for the context type -/
structure Assoc (γ : Type) where
  protocolVersion : Nat
  callingAe : Str
  calledAe : Str
  acn : Str
  pcs : List γ
  uvs : List UserVar
deriving DecidableEq, Repr

inductive Pdu
  | unknown (t : Nat) (d : Bytes)
  | associationRQ (a : Assoc PcProposed)
  | associationAC (a : Assoc PcResult)
  | associationRJ (result : RjResult) (source : RjSource)
  | pData (vs : List Pdv)
  | releaseRQ
  | releaseRP
  | abortRQ (source : AbortSource)
deriving DecidableEq, Repr

/-- `PduVariableItem` -/
inductive VarItem
  | unknown (t : Nat)
  | acn (s : Str)
  | pcProposed (pc : PcProposed)
  | pcResult (pc : PcResult)
  | userVars (vs : List UserVar)
deriving DecidableEq, Repr

/-! ## Constants -/

def pduHeaderSize : Nat := 6
def minimumPduSize : Nat := 1024 - 6
def maximumPduSize : Nat := 4294967294 - 6

/-! ## Code tables (the `from`/`to_u8` functions and the `match`es of the writer) -/

def PcReason.code : PcReason → Nat
  | .acceptance => Gen.wPcReason_Acceptance
  | .userRejection => Gen.wPcReason_UserRejection
  | .noReason => Gen.wPcReason_NoReason
  | .abstractSyntaxNotSupported => Gen.wPcReason_AbstractSyntaxNotSupported
  | .transferSyntaxesNotSupported => Gen.wPcReason_TransferSyntaxesNotSupported

/-- `PresentationContextResultReason::from` -/
def PcReason.ofCode (c : Nat) : Option PcReason :=
  if c = Gen.rPcReason_Acceptance then some .acceptance
  else if c = Gen.rPcReason_UserRejection then some .userRejection
  else if c = Gen.rPcReason_NoReason then some .noReason
  else if c = Gen.rPcReason_AbstractSyntaxNotSupported then some .abstractSyntaxNotSupported
  else if c = Gen.rPcReason_TransferSyntaxesNotSupported then some .transferSyntaxesNotSupported
  else none

def RjResult.code : RjResult → Nat
  | .permanent => Gen.wRjResult_Permanent
  | .transient => Gen.wRjResult_Transient

/-- `AssociationRJResult::from` -/
def RjResult.ofCode (c : Nat) : Option RjResult :=
  if c = Gen.rRjResult_Permanent then some .permanent
  else if c = Gen.rRjResult_Transient then some .transient
  else none

/-- source and reason bytes written for an A-ASSOCIATE-RJ -/
def RjSource.codes : RjSource → Nat × Nat
  | .serviceUser .noReasonGiven => (Gen.wRj_ServiceUser, Gen.wRj_ServiceUser_NoReasonGiven)
  | .serviceUser .acnNotSupported => (Gen.wRj_ServiceUser, Gen.wRj_ServiceUser_ApplicationContextNameNotSupported)
  | .serviceUser .callingNotRecognized => (Gen.wRj_ServiceUser, Gen.wRj_ServiceUser_CallingAETitleNotRecognized)
  | .serviceUser .calledNotRecognized => (Gen.wRj_ServiceUser, Gen.wRj_ServiceUser_CalledAETitleNotRecognized)
  | .serviceUser (.reserved x) => (Gen.wRj_ServiceUser, x)
  | .asce .noReasonGiven => (Gen.wRj_ServiceProviderASCE, Gen.wRj_ServiceProviderASCE_NoReasonGiven)
  | .asce .protocolVersionNotSupported =>
    (Gen.wRj_ServiceProviderASCE, Gen.wRj_ServiceProviderASCE_ProtocolVersionNotSupported)
  | .presentation .temporaryCongestion =>
    (Gen.wRj_ServiceProviderPresentation, Gen.wRj_ServiceProviderPresentation_TemporaryCongestion)
  | .presentation .localLimitExceeded =>
    (Gen.wRj_ServiceProviderPresentation, Gen.wRj_ServiceProviderPresentation_LocalLimitExceeded)
  | .presentation (.reserved x) => (Gen.wRj_ServiceProviderPresentation, x)

/-- `AssociationRJSource::from` (the arms of the Rust `match` are pairwise disjoint — checked by the
translator — so their order does not matter) -/
def RjSource.ofCodes (s r : Nat) : Option RjSource :=
  if s = Gen.rRj_ServiceUser then
    if r = Gen.rRj_ServiceUser_NoReasonGiven then some (.serviceUser .noReasonGiven)
    else if r = Gen.rRj_ServiceUser_ApplicationContextNameNotSupported then some (.serviceUser .acnNotSupported)
    else if r = Gen.rRj_ServiceUser_CallingAETitleNotRecognized then some (.serviceUser .callingNotRecognized)
    else if r = Gen.rRj_ServiceUser_CalledAETitleNotRecognized then some (.serviceUser .calledNotRecognized)
    else if Gen.rRj_ServiceUser_Reserved.contains r then some (.serviceUser (.reserved r))
    else none
  else if s = Gen.rRj_ServiceProviderASCE then
    if r = Gen.rRj_ServiceProviderASCE_NoReasonGiven then some (.asce .noReasonGiven)
    else if r = Gen.rRj_ServiceProviderASCE_ProtocolVersionNotSupported then some (.asce .protocolVersionNotSupported)
    else none
  else if s = Gen.rRj_ServiceProviderPresentation then
    if r = Gen.rRj_ServiceProviderPresentation_TemporaryCongestion then some (.presentation .temporaryCongestion)
    else if r = Gen.rRj_ServiceProviderPresentation_LocalLimitExceeded then some (.presentation .localLimitExceeded)
    else if Gen.rRj_ServiceProviderPresentation_Reserved.contains r then some (.presentation (.reserved r))
    else none
  else none

/-- the two bytes `source_word` of an A-ABORT -/
def AbortSource.codes : AbortSource → Nat × Nat
  | .serviceUser => Gen.wAbort_ServiceUser
  | .reserved => Gen.wAbort_Reserved
  | .serviceProvider .reasonNotSpecified => Gen.wAbort_ServiceProvider_ReasonNotSpecified
  | .serviceProvider .unrecognizedPdu => Gen.wAbort_ServiceProvider_UnrecognizedPdu
  | .serviceProvider .unexpectedPdu => Gen.wAbort_ServiceProvider_UnexpectedPdu
  | .serviceProvider .reserved => Gen.wAbort_ServiceProvider_Reserved
  | .serviceProvider .unrecognizedPduParameter => Gen.wAbort_ServiceProvider_UnrecognizedPduParameter
  | .serviceProvider .unexpectedPduParameter => Gen.wAbort_ServiceProvider_UnexpectedPduParameter
  | .serviceProvider .invalidPduParameter => Gen.wAbort_ServiceProvider_InvalidPduParameter

/-- `AbortRQSource::from` -/
def AbortSource.ofCodes (s r : Nat) : Option AbortSource :=
  if s = Gen.rAbort_ServiceUser then some .serviceUser
  else if s = Gen.rAbort_Reserved then some .reserved
  else if s = Gen.rAbort_ServiceProvider then
    if r = Gen.rAbort_ServiceProvider_ReasonNotSpecified then some (.serviceProvider .reasonNotSpecified)
    else if r = Gen.rAbort_ServiceProvider_UnrecognizedPdu then some (.serviceProvider .unrecognizedPdu)
    else if r = Gen.rAbort_ServiceProvider_UnexpectedPdu then some (.serviceProvider .unexpectedPdu)
    else if r = Gen.rAbort_ServiceProvider_Reserved then some (.serviceProvider .reserved)
    else if r = Gen.rAbort_ServiceProvider_UnrecognizedPduParameter then some (.serviceProvider .unrecognizedPduParameter)
    else if r = Gen.rAbort_ServiceProvider_UnexpectedPduParameter then some (.serviceProvider .unexpectedPduParameter)
    else if r = Gen.rAbort_ServiceProvider_InvalidPduParameter then some (.serviceProvider .invalidPduParameter)
    else none
  else none

/-- `UserIdentityType::to_u8` -/
def IdType.code : IdType → Nat
  | .username => Gen.wIdType_Username
  | .usernamePassword => Gen.wIdType_UsernamePassword
  | .kerberos => Gen.wIdType_KerberosServiceTicket
  | .saml => Gen.wIdType_SamlAssertion
  | .jwt => Gen.wIdType_Jwt

/-- `UserIdentityType::from` -/
def IdType.ofCode (c : Nat) : Option IdType :=
  if c = Gen.rIdType_Username then some .username
  else if c = Gen.rIdType_UsernamePassword then some .usernamePassword
  else if c = Gen.rIdType_KerberosServiceTicket then some .kerberos
  else if c = Gen.rIdType_SamlAssertion then some .saml
  else if c = Gen.rIdType_Jwt then some .jwt
  else none

def b2n (b : Bool) : Nat := if b then 1 else 0

/-! ## Text -/

/-- `char::is_whitespace` on code points below 256 -/
def isWs (c : Nat) : Bool := c = 32 || (9 ≤ c && c ≤ 13) || c = 0x85 || c = 0xA0

/-- `str::trim` -/
def trimWs (s : Str) : Str := ((s.dropWhile isWs).reverse.dropWhile isWs).reverse

/-! ## Writer (`ul/src/pdu/writer.rs`) -/

inductive WErr | encode | tooLong
deriving DecidableEq, Repr

abbrev W := Except WErr Bytes

/-- `DefaultCharacterSetCodec.encode` (ISO-8859-1, strict) -/
def encodeText (s : Str) : W :=
  if s.all (· < 256) then .ok s else .error .encode

/-- `write_chunk_u16` (repaired: checked conversion of the length) -/
def chunk16 (d : W) : W :=
  match d with
  | .ok b => if b.length ≤ 65535 then .ok (be16 b.length ++ b) else .error .tooLong
  | .error e => .error e

/-- `write_chunk_u32` (repaired likewise) -/
def chunk32 (d : W) : W :=
  match d with
  | .ok b => if b.length ≤ 4294967295 then .ok (be32 b.length ++ b) else .error .tooLong
  | .error e => .error e

/-- `write_chunk_u16` as in the unrepaired tree: `data.len() as u16` -/
def chunk16Wrapping (d : W) : W :=
  match d with
  | .ok b => .ok (be16 (b.length % 65536) ++ b)
  | .error e => .error e

/-- an item: type byte, reserved byte, `write_chunk_u16` of the content -/
def item16 (t : Nat) (d : W) : W :=
  match chunk16 d with
  | .ok c => .ok (t :: 0 :: c)
  | .error e => .error e

/-- sequential composition of two writes into the same buffer -/
def wcat (a b : W) : W :=
  match a with
  | .ok x => (match b with | .ok y => .ok (x ++ y) | .error e => .error e)
  | .error e => .error e

/-- `encode` then `resize(16, b' ')` -/
def writeAe (s : Str) : W :=
  match encodeText s with
  | .ok b => .ok ((b ++ List.replicate 16 32).take 16)
  | .error e => .error e

def writeAcn (s : Str) : W := item16 Gen.wItem_ApplicationContext (encodeText s)

def writeTsList : List Str → W
  | [] => .ok []
  | ts :: r => wcat (item16 Gen.wSubProposed_TransferSyntax (encodeText ts)) (writeTsList r)

def writePcProposed (pc : PcProposed) : W :=
  item16 Gen.wItem_PresentationContextProposed
    (wcat (.ok [pc.id, 0, 0, 0])
      (wcat (item16 Gen.wSubProposed_AbstractSyntax (encodeText pc.abstractSyntax))
        (writeTsList pc.transferSyntaxes)))

def writePcResult (pc : PcResult) : W :=
  item16 Gen.wItem_PresentationContextResult
    (wcat (.ok [pc.id, 0, pc.reason.code, 0])
      (item16 Gen.wSubResult_TransferSyntax (encodeText pc.transferSyntax)))

def writeUserVar : UserVar → W
  | .maxLength n => item16 Gen.wUser_MaxLength (.ok (be32 n))
  | .implVersionName s => item16 Gen.wUser_ImplementationVersionName (encodeText s)
  | .implClassUid s => item16 Gen.wUser_ImplementationClassUID (encodeText s)
  | .roleSelection uid scu scp =>
    item16 Gen.wUser_ScuScpRoleSelectionSubItem (wcat (chunk16 (encodeText uid)) (.ok [b2n scu, b2n scp]))
  | .sopClassExt uid d =>
    item16 Gen.wUser_SopClassExtendedNegotiationSubItem (wcat (chunk16 (encodeText uid)) (.ok d))
  | .userIdentity u =>
    item16 Gen.wUser_UserIdentityItem
      (wcat (.ok [u.type.code, b2n u.positiveResponseRequested])
        (wcat (chunk16 (.ok u.primary)) (chunk16 (.ok u.secondary))))
  | .unknown t d => item16 t (.ok d)

def writeUserVarList : List UserVar → W
  | [] => .ok []
  | v :: r => wcat (writeUserVar v) (writeUserVarList r)

/-- `write_pdu_variable_user_variables`: nothing at all for an empty list -/
def writeUserVars (vs : List UserVar) : W :=
  if vs.isEmpty then .ok [] else item16 Gen.wItem_UserVariables (writeUserVarList vs)

def writePcProposedList : List PcProposed → W
  | [] => .ok []
  | pc :: r => wcat (writePcProposed pc) (writePcProposedList r)

def writePcResultList : List PcResult → W
  | [] => .ok []
  | pc :: r => wcat (writePcResult pc) (writePcResultList r)

def pdvHeader (v : Pdv) : Nat :=
  (match v.type with | .command => 1 | .data => 0) + (if v.isLast then 2 else 0)

def writePdv (v : Pdv) : W := chunk32 (.ok (v.pcid :: pdvHeader v :: v.data))

def writePdvList : List Pdv → W
  | [] => .ok []
  | v :: r => wcat (writePdv v) (writePdvList r)

/-- fixed part + variable items of an A-ASSOCIATE-RQ/AC -/
def writeAssocBody {γ : Type} (writePcs : List γ → W) (a : Assoc γ) : W :=
  wcat (.ok (be16 a.protocolVersion ++ [0, 0]))
    (wcat (writeAe a.calledAe)
      (wcat (writeAe a.callingAe)
        (wcat (.ok (List.replicate 32 0))
          (wcat (writeAcn a.acn)
            (wcat (writePcs a.pcs) (writeUserVars a.uvs))))))

/-- a PDU: type byte, reserved byte, `write_chunk_u32` of the body -/
def pdu32 (t : Nat) (d : W) : W :=
  match chunk32 d with
  | .ok c => .ok (t :: 0 :: c)
  | .error e => .error e

def writePduBody : Pdu → W
  | .associationRQ a => writeAssocBody writePcProposedList a
  | .associationAC a => writeAssocBody writePcResultList a
  | .associationRJ res src => .ok [0, res.code, src.codes.1, src.codes.2]
  | .pData vs => writePdvList vs
  | .releaseRQ => .ok [0, 0, 0, 0]
  | .releaseRP => .ok [0, 0, 0, 0]
  | .abortRQ src => .ok [0, 0, src.codes.1, src.codes.2]
  | .unknown _ d => .ok d

def pduType : Pdu → Nat
  | .associationRQ _ => Gen.wPdu_AssociationRQ
  | .associationAC _ => Gen.wPdu_AssociationAC
  | .associationRJ _ _ => Gen.wPdu_AssociationRJ
  | .pData _ => Gen.wPdu_PData
  | .releaseRQ => Gen.wPdu_ReleaseRQ
  | .releaseRP => Gen.wPdu_ReleaseRP
  | .abortRQ _ => Gen.wPdu_AbortRQ
  | .unknown t _ => t

/-- `write_pdu` -/
def writePdu (p : Pdu) : W := pdu32 (pduType p) (writePduBody p)

/-! ## Reader (`ul/src/pdu/reader.rs`) -/

inductive RErr
  | invalidMaxPdu | pduTooLarge | invalidFieldLength | invalidItemLength | shortSopClassExt
  | invalidPduVariable | readUserVariable | multipleTs | invalidRj | invalidAbort | invalidPcReason
  | invalidTsSubItem | unknownPcSubItem | missingAcn | missingAs | missingTs
  | panic | fuel
deriving DecidableEq, Repr

/-- `Result<Option<_>>`: `inc` is `Ok(None)` -/
inductive Res (α : Type)
  | ok (a : α)
  | inc
  | err (e : RErr)
deriving DecidableEq, Repr

def Res.bind {α β : Type} (x : Res α) (f : α → Res β) : Res β :=
  match x with
  | .ok a => f a
  | .inc => .inc
  | .err e => .err e

instance : Monad Res where
  pure := Res.ok
  bind := Res.bind

/-- `if buf.remaining() < 1 { return Ok(None) }; buf.get_u8()` -/
def u8I : Bytes → Res (Nat × Bytes)
  | [] => .inc
  | b :: r => .ok (b, r)

/-- `if buf.remaining() < 2 { return Ok(None) }; buf.get_u16()` -/
def u16I : Bytes → Res (Nat × Bytes)
  | a :: b :: r => .ok (256 * a + b, r)
  | _ => .inc

def u32I : Bytes → Res (Nat × Bytes)
  | a :: b :: c :: d :: r => .ok (16777216 * a + 65536 * b + 256 * c + d, r)
  | _ => .inc

/-- `if buf.remaining() < n { return Ok(None) }; buf.copy_to_bytes(n)` -/
def takeI (n : Nat) (bs : Bytes) : Res (Bytes × Bytes) :=
  if bs.length < n then .inc else .ok (bs.take n, bs.drop n)

/-- unguarded `get_u8` (panics when empty) -/
def u8P : Bytes → Res (Nat × Bytes)
  | [] => .err .panic
  | b :: r => .ok (b, r)

def u16P : Bytes → Res (Nat × Bytes)
  | a :: b :: r => .ok (256 * a + b, r)
  | _ => .err .panic

def u32P : Bytes → Res (Nat × Bytes)
  | a :: b :: c :: d :: r => .ok (16777216 * a + 65536 * b + 256 * c + d, r)
  | _ => .err .panic

/-- unguarded `copy_to_bytes(n)` / `advance(n)` -/
def takeP (n : Nat) (bs : Bytes) : Res (Bytes × Bytes) :=
  if bs.length < n then .err .panic else .ok (bs.take n, bs.drop n)

/-- item header inside `read_pdu_variable`: type, reserved, 16-bit length -/
def subHeader (bs : Bytes) : Res (Nat × Nat × Bytes) := do
  let (t, bs) ← u8I bs
  let (_, bs) ← u8I bs
  let (len, bs) ← u16I bs
  pure (t, len, bs)

/-- sub-item loop of a proposed presentation context (abstract syntax / transfer syntaxes) -/
def readPcProposedSubs : Nat → Bytes → Option Str → List Str → Res (Option Str × List Str)
  | _, [], a, ts => .ok (a, ts)
  | 0, _ :: _, _, _ => .err .fuel
  | f + 1, b :: bs', a, ts => do
    let (t, len, bs) ← subHeader (b :: bs')
    if t = Gen.rSubProposed_AbstractSyntax then do
      let (x, bs) ← takeI len bs
      readPcProposedSubs f bs (some (trimWs x)) ts
    else if t = Gen.rSubProposed_TransferSyntax then do
      let (x, bs) ← takeI len bs
      readPcProposedSubs f bs a (ts ++ [trimWs x])
    else .err .unknownPcSubItem

/-- sub-item loop of a presentation context result (exactly one transfer syntax) -/
def readPcResultSubs : Nat → Bytes → Option Str → Res (Option Str)
  | _, [], ts => .ok ts
  | 0, _ :: _, _ => .err .fuel
  | f + 1, b :: bs', ts => do
    let (t, len, bs) ← subHeader (b :: bs')
    if t = Gen.rSubResult_TransferSyntax then
      match ts with
      | some _ => .err .multipleTs
      | none => do
        let (x, bs) ← takeI len bs
        readPcResultSubs f bs (some (trimWs x))
    else .err .invalidTsSubItem

/-- one user-information sub-item; `none` = recognised but dropped (unknown identity type) -/
def readUserVarBody (t len : Nat) (bs : Bytes) : Res (Option UserVar × Bytes) :=
  if t = Gen.rUser_MaxLength then do
    let (n, bs) ← u32I bs
    pure (some (.maxLength n), bs)
  else if t = Gen.rUser_ImplementationClassUID then do
    let (x, bs) ← takeI len bs
    pure (some (.implClassUid (trimWs x)), bs)
  else if t = Gen.rUser_ScuScpRoleSelectionSubItem then do
    let (ul, bs) ← u16I bs
    let (uid, bs) ← takeI ul bs
    let (scu, bs) ← u8I bs
    let (scp, bs) ← u8I bs
    pure (some (.roleSelection (trimWs uid) (scu != 0) (scp != 0)), bs)
  else if t = Gen.rUser_ImplementationVersionName then do
    let (x, bs) ← takeI len bs
    pure (some (.implVersionName (trimWs x)), bs)
  else if t = Gen.rUser_SopClassExtendedNegotiationSubItem then do
    let (ul, bs) ← u16I bs
    if bs.length < ul then .inc
    else if len < (2 + ul) % 65536 then .err .shortSopClassExt
    else do
      let (uid, bs) ← takeP ul bs
      -- `(item_length - 2 - sop_class_uid_length) as usize` in wrapping `u16` arithmetic
      let (d, bs) ← takeI ((len + 131070 - ul) % 65536) bs
      pure (some (.sopClassExt (trimWs uid) d), bs)
  else if t = Gen.rUser_UserIdentityItem then do
    let (ty, bs) ← u8I bs
    let (prr, bs) ← u8I bs
    let (pl, bs) ← u16I bs
    let (prim, bs) ← takeI pl bs
    let (sl, bs) ← u16I bs
    let (sec, bs) ← takeI sl bs
    match IdType.ofCode ty with
    | some ty => pure (some (.userIdentity ⟨prr == 1, ty, prim, sec⟩), bs)
    | none => pure (none, bs)
  else do
    let (d, bs) ← takeI len bs
    pure (some (.unknown t d), bs)

def readUserVar (bs : Bytes) : Res (Option UserVar × Bytes) := do
  let (t, len, bs) ← subHeader bs
  readUserVarBody t len bs

/-- the `while bytes.has_remaining()` loop of the User Information item -/
def readUserVarLoop : Nat → Bytes → List UserVar → Res (List UserVar)
  | _, [], acc => .ok acc
  | 0, _ :: _, _ => .err .fuel
  | f + 1, b :: bs', acc => do
    let (v, bs) ← readUserVar (b :: bs')
    match v with
    | some v => readUserVarLoop f bs (acc ++ [v])
    | none => readUserVarLoop f bs acc

/-- `read_pdu_variable` after the item header: `body` is the item content, `rest` what follows -/
def readVarBody (t : Nat) (body rest : Bytes) : Res (VarItem × Bytes) :=
  if t = Gen.rItem_ApplicationContext then pure (.acn body, rest)
  else if t = Gen.rItem_PresentationContextProposed then do
    let (id, b) ← u8I body
    let (_, b) ← u8I b
    let (_, b) ← u8I b
    let (_, b) ← u8I b
    let (a, tss) ← readPcProposedSubs b.length b none []
    match a with
    | some a => pure (.pcProposed ⟨id, a, tss⟩, rest)
    | none => .err .missingAs
  else if t = Gen.rItem_PresentationContextResult then do
    let (id, b) ← u8I body
    let (_, b) ← u8I b
    let (rc, b) ← u8I b
    match PcReason.ofCode rc with
    | none => .err .invalidPcReason
    | some reason => do
      let (_, b) ← u8I b
      let ts ← readPcResultSubs b.length b none
      match ts with
      | some ts => pure (.pcResult ⟨id, reason, ts⟩, rest)
      | none => .err .missingTs
  else if t = Gen.rItem_UserVariables then do
    let vs ← readUserVarLoop body.length body []
    pure (.userVars vs, rest)
  else pure (.unknown t, rest)

/-- `read_pdu_variable` -/
def readPduVariable (bs : Bytes) : Res (VarItem × Bytes) := do
  let (t, len, bs) ← subHeader bs
  let (body, rest) ← takeI len bs
  readVarBody t body rest

/-- `read_pdu_variable(..)?` as used by `read_pdu`: `Ok(None)` becomes `ReadUserVariable` -/
def readPduVariable' (bs : Bytes) : Res (VarItem × Bytes) :=
  match readPduVariable bs with
  | .inc => .err .readUserVariable
  | r => r

/-- variable-item loop of A-ASSOCIATE-RQ -/
def readRqVars : Nat → Bytes → Option Str → List PcProposed → List UserVar →
    Res (Option Str × List PcProposed × List UserVar)
  | _, [], acn, pcs, uvs => .ok (acn, pcs, uvs)
  | 0, _ :: _, _, _, _ => .err .fuel
  | f + 1, b :: bs', acn, pcs, uvs => do
    let (it, bs) ← readPduVariable' (b :: bs')
    match it with
    | .acn s => readRqVars f bs (some s) pcs uvs
    | .pcProposed pc => readRqVars f bs acn (pcs ++ [pc]) uvs
    | .userVars vs => readRqVars f bs acn pcs vs
    | _ => .err .invalidPduVariable

/-- variable-item loop of A-ASSOCIATE-AC -/
def readAcVars : Nat → Bytes → Option Str → List PcResult → List UserVar →
    Res (Option Str × List PcResult × List UserVar)
  | _, [], acn, pcs, uvs => .ok (acn, pcs, uvs)
  | 0, _ :: _, _, _, _ => .err .fuel
  | f + 1, b :: bs', acn, pcs, uvs => do
    let (it, bs) ← readPduVariable' (b :: bs')
    match it with
    | .acn s => readAcVars f bs (some s) pcs uvs
    | .pcResult pc => readAcVars f bs acn (pcs ++ [pc]) uvs
    | .userVars vs => readAcVars f bs acn pcs vs
    | _ => .err .invalidPduVariable

/-- fixed part of A-ASSOCIATE-RQ/AC: protocol version, called and calling AE title -/
def readAssocFixed (body : Bytes) : Res (Nat × Str × Str × Bytes) :=
  if body.length < 2 + 2 + 16 + 16 + 32 then .err .invalidFieldLength else do
    let (pv, b) ← u16P body
    let (_, b) ← u16P b
    let (called, b) ← takeP 16 b
    let (calling, b) ← takeP 16 b
    let (_, b) ← takeP 32 b
    pure (pv, trimWs called, trimWs calling, b)

/-- the P-DATA-TF value loop -/
def readPdvs : Nat → Bytes → List Pdv → Res (List Pdv)
  | _, [], acc => .ok acc
  | 0, _ :: _, _ => .err .fuel
  | f + 1, b :: bs', acc =>
    let bs := b :: bs'
    if bs.length < 4 + 1 + 1 then .err .invalidFieldLength else do
      let (len, bs) ← u32P bs
      if len < 2 then .err .invalidItemLength else do
        let (pcid, bs) ← u8P bs
        let (h, bs) ← u8P bs
        if bs.length < len - 2 then .err .invalidFieldLength else do
          let (d, bs) ← takeP (len - 2) bs
          readPdvs f bs
            (acc ++ [⟨pcid, if h % 2 = 1 then .command else .data, h / 2 % 2 = 1, d⟩])

/-- body of a PDU of type `t` (exactly `pdu_length` bytes) -/
def readBody (t : Nat) (body : Bytes) : Res Pdu :=
  if t = Gen.rPdu_AssociationRQ then do
    let (pv, called, calling, b) ← readAssocFixed body
    let (acn, pcs, uvs) ← readRqVars b.length b none [] []
    match acn with
    | some acn => pure (.associationRQ ⟨pv, calling, called, acn, pcs, uvs⟩)
    | none => .err .missingAcn
  else if t = Gen.rPdu_AssociationAC then do
    let (pv, called, calling, b) ← readAssocFixed body
    let (acn, pcs, uvs) ← readAcVars b.length b none [] []
    match acn with
    | some acn => pure (.associationAC ⟨pv, calling, called, acn, pcs, uvs⟩)
    | none => .err .missingAcn
  else if t = Gen.rPdu_AssociationRJ then
    if body.length < 1 + 1 + 2 then .err .invalidFieldLength else do
      let (_, b) ← u8P body
      let (r, b) ← u8P b
      match RjResult.ofCode r with
      | none => .err .invalidRj
      | some res => do
        let (s, b) ← u8P b
        let (q, _) ← u8P b
        match RjSource.ofCodes s q with
        | none => .err .invalidRj
        | some src => pure (.associationRJ res src)
  else if t = Gen.rPdu_PData then do
    let vs ← readPdvs body.length body []
    pure (.pData vs)
  else if t = Gen.rPdu_ReleaseRQ then
    if body.length < 4 then .err .invalidFieldLength else pure .releaseRQ
  else if t = Gen.rPdu_ReleaseRP then
    if body.length < 4 then .err .invalidFieldLength else pure .releaseRP
  else if t = Gen.rPdu_AbortRQ then
    if body.length < 2 + 2 then .err .invalidFieldLength else do
      let (_, b) ← takeP 2 body
      let (s, b) ← u8P b
      let (q, _) ← u8P b
      match AbortSource.ofCodes s q with
      | none => .err .invalidAbort
      | some src => pure (.abortRQ src)
  else pure (.unknown t body)

/-- `read_pdu(buf, max_pdu_length, strict)`: on success the PDU and the unconsumed bytes -/
def readPdu (mx : Nat) (strict : Bool) (bs : Bytes) : Res (Pdu × Bytes) :=
  if ¬ (minimumPduSize ≤ mx ∧ mx ≤ maximumPduSize) then .err .invalidMaxPdu
  else if bs.length < 2 then .inc
  else do
    let (hd, bs) ← takeP 2 bs
    let t := hd.headD 0
    if bs.length < 4 then .inc else do
      let (len, bs) ← u32P bs
      if strict ∧ mx < len then .err .pduTooLarge
      else if bs.length < len then .inc
      else do
        let (body, rest) ← takeP len bs
        let p ← readBody t body
        pure (p, rest)

/-! ## Normal form of a PDU: what `read_pdu` returns for what `write_pdu` wrote -/

def normAe (s : Str) : Str := trimWs ((s ++ List.replicate 16 32).take 16)

def normPcProposed (pc : PcProposed) : PcProposed :=
  ⟨pc.id, trimWs pc.abstractSyntax, pc.transferSyntaxes.map trimWs⟩

def normPcResult (pc : PcResult) : PcResult := ⟨pc.id, pc.reason, trimWs pc.transferSyntax⟩

def normUserVar : UserVar → UserVar
  | .implClassUid s => .implClassUid (trimWs s)
  | .implVersionName s => .implVersionName (trimWs s)
  | .sopClassExt uid d => .sopClassExt (trimWs uid) d
  | .roleSelection uid scu scp => .roleSelection (trimWs uid) scu scp
  | v => v

def normAssoc {γ : Type} (f : γ → γ) (a : Assoc γ) : Assoc γ :=
  ⟨a.protocolVersion, normAe a.callingAe, normAe a.calledAe, a.acn, a.pcs.map f, a.uvs.map normUserVar⟩

def normPdu : Pdu → Pdu
  | .associationRQ a => .associationRQ (normAssoc normPcProposed a)
  | .associationAC a => .associationAC (normAssoc normPcResult a)
  | p => p

/-! ## Well-formedness: value ranges of the Rust field types and the type-code exclusions
(an `Unknown` value must not carry a code that the reader knows) -/

def isBytesB (bs : Bytes) : Bool := bs.all (· < 256)

def knownUserVarCode (t : Nat) : Bool :=
  t = Gen.rUser_MaxLength || t = Gen.rUser_ImplementationClassUID ||
    t = Gen.rUser_ScuScpRoleSelectionSubItem || t = Gen.rUser_ImplementationVersionName ||
    t = Gen.rUser_SopClassExtendedNegotiationSubItem || t = Gen.rUser_UserIdentityItem

/-- the PDU types the reader knows -/
def knownPduType (t : Nat) : Bool :=
  t = Gen.rPdu_AssociationRQ || t = Gen.rPdu_AssociationAC || t = Gen.rPdu_AssociationRJ ||
    t = Gen.rPdu_PData || t = Gen.rPdu_ReleaseRQ || t = Gen.rPdu_ReleaseRP || t = Gen.rPdu_AbortRQ

def wfUserVar : UserVar → Bool
  | .unknown t d => t < 256 && !knownUserVarCode t && isBytesB d
  | .maxLength n => n < 4294967296
  | .implClassUid _ => true
  | .implVersionName _ => true
  | .sopClassExt _ d => isBytesB d
  | .roleSelection _ _ _ => true
  | .userIdentity u => isBytesB u.primary && isBytesB u.secondary

def wfRjSource : RjSource → Bool
  | .serviceUser (.reserved x) => Gen.rRj_ServiceUser_Reserved.contains x
  | .presentation (.reserved x) => Gen.rRj_ServiceProviderPresentation_Reserved.contains x
  | _ => true

def wfPdv (v : Pdv) : Bool := v.pcid < 256 && isBytesB v.data

def wfAssoc {γ : Type} (wfPc : γ → Bool) (a : Assoc γ) : Bool :=
  a.protocolVersion < 65536 && a.pcs.all wfPc && a.uvs.all wfUserVar

def wfPdu : Pdu → Bool
  | .unknown t d => t < 256 && !knownPduType t && isBytesB d
  | .associationRQ a => wfAssoc (fun pc : PcProposed => decide (pc.id < 256)) a
  | .associationAC a => wfAssoc (fun pc : PcResult => decide (pc.id < 256)) a
  | .associationRJ _ src => wfRjSource src
  | .pData vs => vs.all wfPdv
  | .releaseRQ => true
  | .releaseRP => true
  | .abortRQ _ => true

/-! ## `ValidPS38`: an independent structural check of an encoded PDU, written from PS3.8 §9.3
(Tables 9-11 … 9-26) and PS3.7 Annex D: every length field equals the number of bytes of what it
describes, items tile their container exactly. It does not share code with `readPdu`
(which is type-directed and ignores most item lengths). -/

/-- split a byte string into items `type, reserved, u16 length, content`; `none` unless the items
tile the string exactly -/
def tile16 : Nat → Bytes → Option (List (Nat × Bytes))
  | _, [] => some []
  | 0, _ :: _ => none
  | f + 1, t :: _ :: a :: b :: r =>
    let len := 256 * a + b
    if r.length < len then none
    else match tile16 f (r.drop len) with
      | some items => some ((t, r.take len) :: items)
      | none => none
  | _ + 1, _ => none

/-- split into presentation data values `u32 length, content` tiling exactly, each length ≥ 2 -/
def tile32 : Nat → Bytes → Option (List Bytes)
  | _, [] => some []
  | 0, _ :: _ => none
  | f + 1, a :: b :: c :: d :: r =>
    let len := 16777216 * a + 65536 * b + 256 * c + d
    if len < 2 ∨ r.length < len then none
    else match tile32 f (r.drop len) with
      | some items => some (r.take len :: items)
      | none => none
  | _ + 1, _ => none

def be16At (bs : Bytes) : Option Nat :=
  match bs with
  | a :: b :: _ => some (256 * a + b)
  | _ => none

/-- user-information sub-item (PS3.7 D.3.3): inner length fields agree with the item length -/
def validUserSub (it : Nat × Bytes) : Bool :=
  let (t, c) := it
  if t = 0x51 then c.length = 4
  else if t = 0x54 then
    match be16At c with
    | some ul => c.length = 2 + ul + 2
    | none => false
  else if t = 0x56 then
    match be16At c with
    | some ul => 2 + ul ≤ c.length
    | none => false
  else if t = 0x58 then
    match be16At (c.drop 2) with
    | some pl =>
      (match be16At (c.drop (4 + pl)) with
       | some sl => c.length = 4 + pl + 2 + sl
       | none => false)
    | none => false
  else true

/-- variable item of an A-ASSOCIATE-RQ (`rq = true`) or -AC -/
def validVarItem (rq : Bool) (it : Nat × Bytes) : Bool :=
  let (t, c) := it
  if t = 0x10 then true
  else if t = 0x20 then
    rq && 4 ≤ c.length &&
      (match tile16 c.length (c.drop 4) with
       | some subs => subs.all (fun s => s.1 = 0x30 || s.1 = 0x40) &&
           (subs.filter (fun s => s.1 = 0x30)).length = 1
       | none => false)
  else if t = 0x21 then
    !rq && 4 ≤ c.length &&
      (match tile16 c.length (c.drop 4) with
       | some subs => subs.all (fun s => s.1 = 0x40) && subs.length = 1
       | none => false)
  else if t = 0x50 then
    (match tile16 c.length c with
     | some subs => subs.all validUserSub
     | none => false)
  else false

def validPS38 (bs : Bytes) : Bool :=
  match bs with
  | t :: _ :: a :: b :: c :: d :: body =>
    let len := 16777216 * a + 65536 * b + 256 * c + d
    body.length = len &&
    (if t = 0x01 ∨ t = 0x02 then
      68 ≤ len &&
        (match tile16 len (body.drop 68) with
         | some items => items.all (validVarItem (t = 0x01)) &&
             (items.filter (fun s => s.1 = 0x10)).length = 1
         | none => false)
    else if t = 0x03 ∨ t = 0x05 ∨ t = 0x06 ∨ t = 0x07 then len = 4
    else if t = 0x04 then (tile32 len body).isSome
    else true)
  | _ => false

end Dicom.Pdu
