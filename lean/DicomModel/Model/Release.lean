/-
C30 — transition system of an established association: two peers and two FIFO channels.

Transcribed from `ul/src/association/mod.rs` (`SyncAssociationSealed::{release, abort}` and the
identical async versions, `send`, `receive`; `release(self)`/`abort(self)` consume the association,
whose drop closes the socket) and from the receive loop of `storescp/src/store_{sync,async}.rs`
(`inner`: P-DATA → continue, A-RELEASE-RQ → send A-RELEASE-RP and leave, A-ABORT → leave,
anything else → ignore, receive error → leave; leaving drops the association = closes the socket).

A peer is the library plus that loop; both roles run the same machine (the requestor's reaction
to a received A-RELEASE-RQ is the test application's, which mirrors storescp).
Channels never lose, reorder or duplicate; writing never fails (in the correspondence run the
recording proxy keeps reading from a peer whatever the other end does); reading from a channel
that is empty and whose writer has closed yields end-of-stream. OS-level effects (RST, EPIPE,
timeouts) are outside the model.
-/
namespace Dicom.Release

inductive Msg
  | data | releaseRQ | releaseRP | abort | other
deriving DecidableEq, Repr

inductive PState
  /-- association established, application running -/
  | established
  /-- received A-RELEASE-RQ, about to answer (storescp: between `receive` and `send(&ReleaseRP)`) -/
  | replying
  /-- A-RELEASE-RP sent, association about to be dropped -/
  | replied
  /-- inside `release()`: A-RELEASE-RQ sent, blocked in `receive` -/
  | awaitingRP
  /-- `release()` returned `Ok`: reply received, socket closed -/
  | released
  /-- `release()` returned `Err` (abort, unexpected PDU or end of stream while waiting): the
  association value is gone, socket closed -/
  | failed
  /-- `abort()` called: A-ABORT sent, socket closed -/
  | aborted
  /-- A-ABORT received: loop left, socket closed -/
  | peerAborted
  /-- dropped after the release reply: socket closed -/
  | repliedClosed
  /-- dropped / end of stream seen: socket closed -/
  | closed
deriving DecidableEq, Repr

def PState.sockClosed : PState → Bool
  | .established | .replying | .replied | .awaitingRP => false
  | _ => true

inductive Peer | R | A
deriving DecidableEq, Repr

inductive Act
  | sendData | sendOther | recv | release | reply | abort | close
deriving DecidableEq, Repr

structure Sys where
  r : PState := .established
  a : PState := .established
  /-- in flight requestor → acceptor -/
  ra : List Msg := []
  /-- in flight acceptor → requestor -/
  ar : List Msg := []
  /-- everything the requestor has put on the wire so far (ghost) -/
  tRA : List Msg := []
  tAR : List Msg := []
  /-- the peer has taken an A-RELEASE-RQ out of its channel while established (ghost) -/
  gotRQr : Bool := false
  gotRQa : Bool := false
deriving DecidableEq, Repr

def init : Sys := {}

def Sys.swap (s : Sys) : Sys :=
  ⟨s.a, s.r, s.ar, s.ra, s.tAR, s.tRA, s.gotRQa, s.gotRQr⟩

def Sys.sendR (s : Sys) (m : Msg) (st : PState) : Sys :=
  { s with ra := s.ra ++ [m], tRA := s.tRA ++ [m], r := st }

/-- reaction of the storescp-style loop to a received PDU -/
def onRecvEstablished : Msg → PState
  | .releaseRQ => .replying
  | .abort => .peerAborted
  | _ => .established

/-- reaction of `release()` to the PDU it reads after sending the request -/
def onRecvAwaiting : Msg → PState
  | .releaseRP => .released
  | _ => .failed

/-- one action of the requestor-side peer; `none` = not enabled -/
def stepR (s : Sys) : Act → Option Sys
  | .sendData => if s.r = .established then some (s.sendR .data .established) else none
  | .sendOther => if s.r = .established then some (s.sendR .other .established) else none
  | .release => if s.r = .established then some (s.sendR .releaseRQ .awaitingRP) else none
  | .abort => if s.r = .established then some (s.sendR .abort .aborted) else none
  | .reply => if s.r = .replying then some (s.sendR .releaseRP .replied) else none
  | .close =>
    if s.r = .established then some { s with r := .closed }
    else if s.r = .replied then some { s with r := .repliedClosed }
    else none
  | .recv =>
    if s.r = .established then
      match s.ar with
      | m :: rest => some { s with ar := rest, r := onRecvEstablished m,
                                   gotRQr := s.gotRQr || decide (m = .releaseRQ) }
      | [] => if s.a.sockClosed then some { s with r := .closed } else none
    else if s.r = .awaitingRP then
      match s.ar with
      | m :: rest => some { s with ar := rest, r := onRecvAwaiting m }
      | [] => if s.a.sockClosed then some { s with r := .failed } else none
    else none

def step (s : Sys) : Peer → Act → Option Sys
  | .R, a => stepR s a
  | .A, a => (stepR s.swap a).map Sys.swap

/-- what a `recv` action delivers in this state: the PDU at the head of the peer's channel, or
`none` for end of stream -/
def delivered (s : Sys) : Peer → Option Msg
  | .R => s.ar.head?
  | .A => s.ra.head?

/-- all finite behaviours -/
inductive Reachable : Sys → Prop
  | init : Reachable init
  | step {s s' : Sys} (p : Peer) (a : Act) : Reachable s → step s p a = some s' → Reachable s'

/-- run a schedule -/
def run (s : Sys) : List (Peer × Act) → Option Sys
  | [] => some s
  | (p, a) :: rest => match step s p a with
    | some s' => run s' rest
    | none => none

end Dicom.Release
