/-
Line-protocol side of the DICOM JSON checks (C23, C24): token parsers for JSON trees and data
sets as printed by `harness/src/bin/c23/common.rs`, structural equality and short renderings.
Nothing here is reasoned about; the drivers use it to hand real outputs to the model and oracle.

JSON tokens (prefix form): `n` `t` `f` `u<dec>` `m<dec>` (negative, magnitude) `d<f64 bits>`
`s<hex>` `[ … ]` `{ k<hex> value … }`.
Data set: `( elem … )` with
  `P <tag> <VR> <kind> …`  primitive (`E` | `S n hex…` | `T hex` | `G n dec…` | `B hex` |
       `h|H|l|L|v|V|r|R n dec…` (i16 u16 i32 u32 i64 u64 f32 f64) | `D|M|I n (enc disp)…`)
  `Q <tag> <VR> <n> (…)…`  sequence of `n` items
  `X <tag> <VR>`           encapsulated pixel data
-/
import DicomModel.Model.Json
namespace Dicom.Json.Wire
open Dicom Dicom.Json

abbrev P (α : Type) := List String → Option (α × List String)

def tok : P String
  | [] => none
  | t :: r => some (t, r)

def natTok : P Nat
  | [] => none
  | t :: r => t.toNat?.map (·, r)

def intOf (t : String) : Option Int :=
  if t.startsWith "-" then (t.drop 1).toString.toNat?.map fun n => - Int.ofNat n
  else t.toNat?.map Int.ofNat

def intTok : P Int
  | [] => none
  | t :: r => (intOf t).map (·, r)

def hexTok : P Bytes
  | [] => none
  | t :: r => (unhex t).map (·, r)

def many {α : Type} (p : P α) : Nat → P (List α)
  | 0, ts => some ([], ts)
  | n + 1, ts =>
    match p ts with
    | some (a, r) => match many p n r with
      | some (as, r') => some (a :: as, r')
      | none => none
    | none => none

def counted {α : Type} (p : P α) : P (List α) := fun ts =>
  match natTok ts with
  | some (n, r) => many p n r
  | none => none

mutual
partial def parseJ : P J
  | [] => none
  | t :: r =>
    if t == "n" then some (.null, r)
    else if t == "t" then some (.bool true, r)
    else if t == "f" then some (.bool false, r)
    else if t == "[" then (parseArr r).map fun (xs, r') => (.arr xs, r')
    else if t == "{" then (parseObj r).map fun (ms, r') => (.obj ms, r')
    else
      let body := (t.drop 1).toString
      if t.startsWith "u" then body.toNat?.map fun n => (.num (.pos n), r)
      else if t.startsWith "m" then body.toNat?.map fun n => (.num (.neg n), r)
      else if t.startsWith "d" then body.toNat?.map fun n => (.num (.flt n), r)
      else if t.startsWith "s" then (unhex body).map fun b => (.str b, r)
      else none
partial def parseArr : P (List J)
  | [] => none
  | t :: r =>
    if t == "]" then some ([], r)
    else match parseJ (t :: r) with
      | some (x, r') => (parseArr r').map fun (xs, r'') => (x :: xs, r'')
      | none => none
partial def parseObj : P (List (Bytes × J))
  | [] => none
  | t :: r =>
    if t == "}" then some ([], r)
    else if t.startsWith "k" then
      match unhex (t.drop 1).toString, parseJ r with
      | some k, some (v, r') => (parseObj r').map fun (ms, r'') => ((k, v) :: ms, r'')
      | _, _ => none
    else none
end

def vrOfName (s : String) : Option VR := parseVR (ascii s)

def pair : P (Bytes × Bytes) := fun ts =>
  match hexTok ts with
  | some (a, r) => (hexTok r).map fun (b, r') => ((a, b), r')
  | none => none

def parsePrim : P Prim
  | [] => none
  | k :: r =>
    if k == "E" then some (.empty, r)
    else if k == "S" then (counted hexTok r).map fun (l, r') => (.strs l, r')
    else if k == "T" then (hexTok r).map fun (s, r') => (.str s, r')
    else if k == "G" then (counted natTok r).map fun (l, r') => (.tags l, r')
    else if k == "B" then (hexTok r).map fun (s, r') => (.u8 s, r')
    else if k == "h" then (counted intTok r).map fun (l, r') => (.i16 l, r')
    else if k == "H" then (counted natTok r).map fun (l, r') => (.u16 l, r')
    else if k == "l" then (counted intTok r).map fun (l, r') => (.i32 l, r')
    else if k == "L" then (counted natTok r).map fun (l, r') => (.u32 l, r')
    else if k == "v" then (counted intTok r).map fun (l, r') => (.i64 l, r')
    else if k == "V" then (counted natTok r).map fun (l, r') => (.u64 l, r')
    else if k == "r" then (counted natTok r).map fun (l, r') => (.f32 l, r')
    else if k == "R" then (counted natTok r).map fun (l, r') => (.f64 l, r')
    else if k == "D" then (counted pair r).map fun (l, r') => (.date l, r')
    else if k == "M" then (counted pair r).map fun (l, r') => (.dateTime l, r')
    else if k == "I" then (counted pair r).map fun (l, r') => (.time l, r')
    else none

mutual
partial def parseDs : P DataSet
  | "(" :: r => parseElems r
  | _ => none
partial def parseElems : P (List Elem)
  | [] => none
  | t :: r =>
    if t == ")" then some ([], r)
    else match parseElem (t :: r) with
      | some (e, r') => (parseElems r').map fun (es, r'') => (e :: es, r'')
      | none => none
partial def parseElem : P Elem
  | k :: tg :: vr :: r =>
    match tg.toNat?, vrOfName vr with
    | some tag, some v =>
      if k == "P" then (parsePrim r).map fun (p, r') => (.prim tag v p, r')
      else if k == "X" then some (.pix tag v, r)
      else if k == "Q" then
        match natTok r with
        | some (n, r') => (parseItems n r').map fun (its, r'') => (.seq tag v its, r'')
        | none => none
      else none
    | _, _ => none
  | _ => none
partial def parseItems : Nat → P (List DataSet)
  | 0, ts => some ([], ts)
  | n + 1, ts =>
    match parseDs ts with
    | some (d, r) => (parseItems n r).map fun (ds, r') => (d :: ds, r')
    | none => none
end

/-! structural equality -/

mutual
def beqJ : J → J → Bool
  | .null, .null => true
  | .bool a, .bool b => a == b
  | .num a, .num b => a == b
  | .str a, .str b => a == b
  | .arr a, .arr b => beqJs a b
  | .obj a, .obj b => beqMs a b
  | _, _ => false
def beqJs : List J → List J → Bool
  | [], [] => true
  | x :: xs, y :: ys => beqJ x y && beqJs xs ys
  | _, _ => false
def beqMs : List (Bytes × J) → List (Bytes × J) → Bool
  | [], [] => true
  | (k, x) :: xs, (l, y) :: ys => k == l && beqJ x y && beqMs xs ys
  | _, _ => false
end

/-- equality up to the `f32` a float number narrows to (the JSON text layer prints an `f32`
with its own shortest digits, which re-read as a different `f64`) -/
def numApprox : Num → Num → Bool
  | .flt a, .flt b => a == b || Flt.castFF Flt.b64 Flt.b32 a == Flt.castFF Flt.b64 Flt.b32 b
  | a, b => a == b

mutual
def approxJ : J → J → Bool
  | .null, .null => true
  | .bool a, .bool b => a == b
  | .num a, .num b => numApprox a b
  | .str a, .str b => a == b
  | .arr a, .arr b => approxJs a b
  | .obj a, .obj b => approxMs a b
  | _, _ => false
def approxJs : List J → List J → Bool
  | [], [] => true
  | x :: xs, y :: ys => approxJ x y && approxJs xs ys
  | _, _ => false
def approxMs : List (Bytes × J) → List (Bytes × J) → Bool
  | [], [] => true
  | (k, x) :: xs, (l, y) :: ys => k == l && approxJ x y && approxMs xs ys
  | _, _ => false
end

mutual
def beqElem : Elem → Elem → Bool
  | .prim t v p, .prim t' v' p' => t == t' && v == v' && p == p'
  | .seq t v is, .seq t' v' is' => t == t' && v == v' && beqItems is is'
  | .pix t v, .pix t' v' => t == t' && v == v'
  | _, _ => false
def beqItems : List (List Elem) → List (List Elem) → Bool
  | [], [] => true
  | d :: ds, d' :: ds' => beqDs d d' && beqItems ds ds'
  | _, _ => false
def beqDs : List Elem → List Elem → Bool
  | [], [] => true
  | e :: es, e' :: es' => beqElem e e' && beqDs es es'
  | _, _ => false
end

/-! short renderings for diagnostics -/

def strOf (b : Bytes) : String := String.ofList (b.map fun n => if 32 ≤ n ∧ n < 127 then Char.ofNat n else '?')

mutual
partial def showJ : J → String
  | .null => "null"
  | .bool b => if b then "true" else "false"
  | .num (.pos n) => toString n
  | .num (.neg n) => "-" ++ toString n
  | .num (.flt b) => "f" ++ toString b
  | .str s => "\"" ++ strOf s ++ "\""
  | .arr xs => "[" ++ ",".intercalate (xs.map showJ) ++ "]"
  | .obj ms => "{" ++ ",".intercalate (ms.map fun (k, v) => strOf k ++ ":" ++ showJ v) ++ "}"
end

def showOutcomeJ : Outcome J → String
  | .ok j => "ok:" ++ showJ j
  | .err => "err"
  | .panic => "panic"

end Dicom.Json.Wire
