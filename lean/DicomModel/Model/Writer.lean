/-
Model of the in-memory data set, its token stream and the data set writer:
  parser/src/dataset/mod.rs    DataToken, `From<DataElementHeader> for DataToken`, DataElementTokens,
                               ItemTokens, ItemValueTokens, OffsetTableItemTokens (default IntoTokensOptions)
  object/src/tokens.rs         InMemObjectTokens (elements in tag order, flattened)
  parser/src/dataset/write.rs  DataSetWriter::write / write_impl, ExplicitLengthSqItemStrategy

=== API (namespace `Dicom`) ===
  Elem / Items / Elems      the data set tree (mutual inductive; `Elems` is a list of `Elem`, `Items` a list of
                            (recorded item length, `Elems`)); recorded lengths are `Nat`, `undefinedLen` = undefined
  Token                     `DataToken` (+ `panic`: the token iterator hit `unreachable!()`)
  Elems.tokens              the token stream of a data set
  Strategy                  setUndefined | noChange
  Writer                    writer state (printer `Enc`, `seq_tokens` stack, `last_de`, strategy)
  Writer.write w tok        one `DataSetWriter::write` step : Except WErr Writer
  Writer.writeAll w toks    `write_sequence`
  writeDataset ts strat t   bytes of the whole data set (or the error)
-/
import DicomModel.Model.Value
namespace Dicom

mutual
inductive Elem where
  | prim (tag : Tag) (vr : VR) (len : Nat) (v : PValue)
  | seq (tag : Tag) (len : Nat) (items : Items)
  | pix (bot : List Nat) (frags : List Bytes)
inductive Items where
  | nil
  | cons (len : Nat) (elems : Elems) (rest : Items)
inductive Elems where
  | nil
  | cons (e : Elem) (rest : Elems)
end

inductive Token where
  | elementHeader (h : ElemHeader)
  | sequenceStart (tag : Tag) (len : Nat)
  | pixelSequenceStart
  | sequenceEnd
  | itemStart (len : Nat)
  | itemEnd
  | primitiveValue (v : PValue)
  | itemValue (bs : Bytes)
  | offsetTable (t : List Nat)
  /-- the Rust token iterator would panic (`unreachable!()`): primitive value under a pixel-sequence header -/
  | panic
deriving DecidableEq, Repr, Inhabited

def Tag.pixelData : Tag := ⟨0x7FE0, 0x0010⟩

/-- `ItemValueTokens` for one fragment -/
def fragTokens (f : Bytes) : List Token :=
  if f.isEmpty then [.itemStart 0, .itemEnd]
  else [.itemStart (f.length % 4294967296), .itemValue f, .itemEnd]

/-- `OffsetTableItemTokens` -/
def botTokens (bot : List Nat) : List Token :=
  if bot.length * 4 % 4294967296 = 0 then [.itemStart 0, .itemEnd]
  else [.itemStart (bot.length * 4 % 4294967296), .offsetTable bot, .itemEnd]

mutual
/-- `DataElementTokens` -/
def Elem.tokens : Elem → List Token
  | .prim tag vr len v =>
    -- `DataToken::from(header)`
    if vr = .OB ∧ tag = Tag.pixelData ∧ len = undefinedLen then [.pixelSequenceStart, .panic]
    else if vr = .SQ then (if len ≠ undefinedLen then [.elementHeader ⟨tag, vr, len⟩, .primitiveValue v] else [])
    else [.elementHeader ⟨tag, vr, len⟩, .primitiveValue v]
  | .seq tag len items => .sequenceStart tag len :: (items.tokens ++ [.sequenceEnd])
  | .pix bot frags => .pixelSequenceStart :: (botTokens bot ++ frags.flatMap fragTokens ++ [.sequenceEnd])
/-- items: `ItemTokens` of each -/
def Items.tokens : Items → List Token
  | .nil => []
  | .cons len elems rest => .itemStart len :: (elems.tokens ++ .itemEnd :: rest.tokens)
/-- `InMemObjectTokens` -/
def Elems.tokens : Elems → List Token
  | .nil => []
  | .cons e rest => e.tokens ++ rest.tokens
end

inductive Strategy where
  | setUndefined | noChange
deriving DecidableEq, Repr, Inhabited

/-- `SeqToken` -/
structure SeqTok where
  isItem : Bool
  len : Nat
deriving DecidableEq, Repr

structure Writer where
  enc : Enc
  seqTokens : List SeqTok
  lastDe : Option ElemHeader
  strat : Strategy
deriving DecidableEq, Repr

def Writer.new (ts : Syntax) (strat : Strategy) : Writer := ⟨Enc.new ts, [], none, strat⟩

/-- `is_encapsulated_pixeldata` -/
def ElemHeader.isEncapsulatedPixeldata (h : ElemHeader) : Bool :=
  h.tag = Tag.pixelData && h.len = undefinedLen

/-- `write_impl` -/
def Writer.writeImpl (w : Writer) : Token → Except WErr Writer
  | .elementHeader h =>
    match w.enc.elementHeader h with
    | .ok e => .ok { w with enc := e }
    | .error x => .error x
  | .sequenceStart tag len =>
    match w.enc.elementHeader ⟨tag, .SQ, len⟩ with
    | .ok e => .ok { w with enc := e }
    | .error x => .error x
  | .pixelSequenceStart =>
    match w.enc.elementHeader ⟨Tag.pixelData, .OB, undefinedLen⟩ with
    | .ok e => .ok { w with enc := e }
    | .error x => .error x
  | .sequenceEnd => .ok { w with enc := w.enc.seqDelimiter }
  | .itemStart len => .ok { w with enc := w.enc.itemHeader len }
  | .itemEnd => .ok { w with enc := w.enc.itemDelimiter }
  | .primitiveValue v =>
    match w.lastDe with
    | none => .error .unexpectedToken
    | some de =>
      match w.enc.encodePrimitiveElement de v with
      | .ok e => .ok { w with enc := e, lastDe := none }
      | .error x => .error x
  | .offsetTable t => .ok { w with enc := w.enc.offsetTable t }
  | .itemValue bs => .ok { w with enc := w.enc.writeBytes bs }
  | .panic => .error .panic

/-- `DataSetWriter::write` -/
def Writer.write (w : Writer) (tok : Token) : Except WErr Writer :=
  match tok with
  | .sequenceStart tag len =>
    match w.strat with
    | .setUndefined =>
      { w with seqTokens := ⟨false, undefinedLen⟩ :: w.seqTokens }.writeImpl (.sequenceStart tag undefinedLen)
    | .noChange => { w with seqTokens := ⟨false, len⟩ :: w.seqTokens }.writeImpl tok
  | .itemStart len =>
    match w.strat with
    | .setUndefined =>
      let len' := if (w.lastDe.map (·.isEncapsulatedPixeldata)).getD false then len else undefinedLen
      { w with seqTokens := ⟨true, len'⟩ :: w.seqTokens }.writeImpl (.itemStart len')
    | .noChange => { w with seqTokens := ⟨true, len⟩ :: w.seqTokens }.writeImpl tok
  | .itemEnd =>
    match w.seqTokens with
    | s :: rest =>
      let w' := { w with seqTokens := rest }
      if s.isItem ∧ s.len = undefinedLen then w'.writeImpl tok else .ok w'
    | [] => .ok w
  | .sequenceEnd =>
    -- the sequence (or encapsulated pixel data) is over: `last_de` is forgotten (fix f2b04a4)
    match w.seqTokens with
    | s :: rest =>
      let w' := { w with seqTokens := rest, lastDe := none }
      if ¬ s.isItem ∧ s.len = undefinedLen then w'.writeImpl tok else .ok w'
    | [] => .ok { w with lastDe := none }
  | .elementHeader de => .ok { w with lastDe := some de }
  | .pixelSequenceStart =>
    { w with lastDe := some ⟨Tag.pixelData, .OB, undefinedLen⟩,
             seqTokens := ⟨false, undefinedLen⟩ :: w.seqTokens }.writeImpl tok
  | .itemValue _ | .primitiveValue _ | .offsetTable _ | .panic => w.writeImpl tok

/-- `write_sequence` -/
def Writer.writeAll (w : Writer) : List Token → Except WErr Writer
  | [] => .ok w
  | t :: r => match w.write t with
    | .ok w' => w'.writeAll r
    | .error x => .error x

/-- `InMemDicomObject::write_dataset_with_ts_options` on an uncompressed syntax: the bytes written
(also the pre-deflate bytes of Deflated Explicit VR LE) -/
def writeDataset (ts : Syntax) (strat : Strategy) (t : Elems) : Except WErr Bytes :=
  match (Writer.new ts strat).writeAll t.tokens with
  | .ok w => .ok w.enc.out
  | .error x => .error x

end Dicom
